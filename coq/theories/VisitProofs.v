(* VisitProofs.v — the recursive visitor (VisitModel) performs the documented traversal
   (VisitSpec) for every tree and every callback (C17).  Induction on the tree with
   [jv_ind']; no bound on size or depth. *)
From JC Require Import Base Value VisitModel VisitSpec.
Local Open Scope Z_scope.

(* ------------------------------------------------------------------ return codes *)
Lemma code_cases : forall z : Z,
  z = 0 \/ z = 7547 \/ z = 767 \/ z = 7867 \/ z = -1 \/
  ((z =? 0) = false /\ (z =? 7547) = false /\ (z =? 767) = false /\ (z =? 7867) = false /\ (z =? -1) = false).
Proof.
  intro z.
  destruct (Z.eqb_spec z 0); [auto|].
  destruct (Z.eqb_spec z 7547); [auto|].
  destruct (Z.eqb_spec z 767); [auto 6|].
  destruct (Z.eqb_spec z 7867); [auto 6|].
  destruct (Z.eqb_spec z (-1)); [auto 7|].
  do 5 right. auto.
Qed.

Ltac codes z :=
  let H := fresh "Hc" in
  destruct (code_cases z) as [H|[H|[H|[H|[H|(H&?&?&?&?)]]]]].

Ltac unfold_codes := unfold RET_CONTINUE, RET_SKIP, RET_POP, RET_STOP, RET_ERROR, JSON_C_VISIT_SECOND in *.

(* ------------------------------------------------------------------ depths in the flat list *)
Lemma flat_members_depth : forall {A} (f : A -> Z -> list item) k l i,
  Forall (fun c => forall i, Forall (fun it => k <= it_depth it) (f c i)) l ->
  Forall (fun it => k <= it_depth it) (flat_members f l i).
Proof.
  intros A f k l; induction l as [|c l IH]; intros i H; simpl.
  - constructor.
  - inversion H; subst. apply Forall_app; split; auto.
Qed.

Lemma flatten_depth : forall v path pk ki d,
  Forall (fun it => d <= it_depth it) (flatten v path pk ki d).
Proof.
  induction v using jv_ind'; intros path pk ki d; simpl;
    try (constructor; [unfold it_depth; simpl; lia|constructor]).
  - constructor; [unfold it_depth; simpl; lia|].
    apply Forall_app; split.
    + eapply Forall_impl; [|apply (flat_members_depth _ (d + 1))].
      * intros a Ha; simpl in Ha; lia.
      * eapply Forall_impl; [|exact H]. intros c Hc i. apply Hc.
    + constructor; [unfold it_depth; simpl; lia|constructor].
  - constructor; [unfold it_depth; simpl; lia|].
    apply Forall_app; split.
    + eapply Forall_impl; [|apply (flat_members_depth _ (d + 1))].
      * intros a Ha; simpl in Ha; lia.
      * eapply Forall_impl; [|exact H]. intros c Hc i. apply Hc.
    + constructor; [unfold it_depth; simpl; lia|constructor].
Qed.

(* the top-level functions reverse the history with the linear-time [rev_append] *)
Lemma json_c_visit_eq : forall userfunc v,
  json_c_visit userfunc v =
  let '(tr, ret) := visit userfunc v [] PNone KNone 0 [] in
  (rev tr,
   if (ret =? RET_CONTINUE) || (ret =? RET_SKIP) || (ret =? RET_POP) || (ret =? RET_STOP)
   then 0 else RET_ERROR).
Proof. intros. unfold json_c_visit, json_c_visit_ff. destruct (visit _ _ _ _ _ _ _). rewrite <- rev_alt. reflexivity. Qed.

Lemma spec_visit_eq : forall userfunc v,
  spec_visit userfunc v =
  let '(tr, res) := machine userfunc (flatten v [] PNone KNone 0) Run [] in (rev tr, res).
Proof. intros. unfold spec_visit. destruct (machine _ _ _ _). rewrite <- rev_alt. reflexivity. Qed.

(* the reserved argument future_flags has no influence on the traversal *)
Lemma visit_ignores_future_flags : forall userfunc v ff,
  json_c_visit_ff userfunc v ff = json_c_visit userfunc v.
Proof. reflexivity. Qed.

Section WithCallback.
  Variable userfunc : list event -> Z.
  Notation machine := (machine userfunc).
  Notation visit := (visit userfunc).

  (* ---------------------------------------------------------------- the automaton passing over items *)
  Lemma machine_skip_over : forall d xs ys tr,
    Forall (fun it => d < it_depth it) xs ->
    machine (xs ++ ys) (Skipping d) tr = machine ys (Skipping d) tr.
  Proof.
    intros d xs; induction xs as [|x xs IH]; intros ys tr H; simpl; auto.
    inversion H; subst.
    destruct (Z.ltb_spec d (it_depth x)); [|lia]. auto.
  Qed.

  Lemma machine_pop_over : forall d xs ys tr,
    Forall (fun it => d <= it_depth it) xs ->
    machine (xs ++ ys) (Popping d) tr = machine ys (Popping d) tr.
  Proof.
    intros d xs; induction xs as [|x xs IH]; intros ys tr H; simpl; auto.
    inversion H; subst.
    destruct (Z.leb_spec d (it_depth x)); [|lia]. auto.
  Qed.

  (* an item shallower than the popping depth is a call, exactly as in Run mode *)
  Lemma machine_pop_resume : forall d it rest tr,
    it_depth it < d ->
    machine (it :: rest) (Popping d) tr = machine (it :: rest) Run tr.
  Proof.
    intros; simpl. destruct (Z.leb_spec d (it_depth it)); [lia|reflexivity].
  Qed.

  (* ---------------------------------------------------------------- what a return of _json_c_visit means for the walk *)
  Definition resume (rest : list item) (d : Z) (res : list event * Z) : list event * Z :=
    let '(tr', r) := res in
    if (r =? RET_CONTINUE) || (r =? RET_SKIP) then machine rest Run tr'
    else if r =? RET_POP then machine rest (Popping d) tr'
    else if r =? RET_STOP then (tr', 0)
    else (tr', -1).

  Lemma child_loop_some : forall {A} (vis : A -> Z -> list event -> list event * Z) l i tr tr' r,
    child_loop vis l i tr = (tr', Some r) -> r = RET_STOP \/ r = RET_ERROR.
  Proof.
    intros A vis l; induction l as [|c l IH]; intros i tr tr' r; simpl.
    - discriminate.
    - destruct (vis c i tr) as [tr1 u].
      destruct (u =? RET_POP); [discriminate|].
      destruct ((u =? RET_STOP) || (u =? RET_ERROR)) eqn:E.
      + intro H; inversion H; subst.
        apply orb_true_iff in E; destruct E as [E|E]; apply Z.eqb_eq in E; auto.
      + destruct (negb (u =? RET_CONTINUE) && negb (u =? RET_SKIP)).
        * intro H; inversion H; auto.
        * apply IH.
  Qed.

  Lemma loop_machine : forall {A} (f : A -> Z -> list item) (vis : A -> Z -> list event -> list event * Z)
      (d : Z) (post : item) (rest : list item),
    it_depth post = d ->
    forall l,
    Forall (fun c => forall i tr rest', machine (f c i ++ rest') Run tr = resume rest' (d + 1) (vis c i tr)) l ->
    Forall (fun c => forall i, Forall (fun it => d + 1 <= it_depth it) (f c i)) l ->
    forall i tr,
    machine (flat_members f l i ++ post :: rest) Run tr =
    match child_loop vis l i tr with
    | (tr', None) => machine (post :: rest) Run tr'
    | (tr', Some r) => if r =? RET_STOP then (tr', 0) else (tr', -1)
    end.
  Proof.
    intros A f vis d post rest Hpost l; induction l as [|c l IH]; intros HP HD i tr; simpl.
    - reflexivity.
    - inversion HP as [|? ? Hc HP']; subst. inversion HD as [|? ? Hdc HD']; subst.
      rewrite <- app_assoc, Hc.
      destruct (vis c i tr) as [tr1 u]. unfold resume.
      codes u; try subst u; unfold_codes; simpl.
      + apply IH; auto.
      + apply IH; auto.
      + rewrite machine_pop_over by (apply flat_members_depth; exact HD').
        apply machine_pop_resume. lia.
      + reflexivity.
      + reflexivity.
      + repeat match goal with H : (_ =? _) = false |- _ => rewrite H end. simpl. reflexivity.
  Qed.

  (* ---------------------------------------------------------------- the second call *)
  Lemma second_machine : forall path pk ki d tr rest,
    machine (mkitem Post (mkev path 2 pk ki d) :: rest) Run tr =
    resume rest d (second_call userfunc path pk ki d tr).
  Proof.
    intros. unfold second_call, resume. simpl. unfold_codes.
    set (c := userfunc _).
    codes c; try rewrite Hc; unfold classify; simpl; try reflexivity.
    repeat match goal with H : (_ =? _) = false |- _ => rewrite H end. simpl. reflexivity.
  Qed.

  (* ---------------------------------------------------------------- a container *)
  Lemma container_machine : forall {A} (f : A -> Z -> list item) (vis : A -> Z -> list event -> list event * Z)
      l path pk ki d tr rest,
    Forall (fun c => forall i tr rest', machine (f c i ++ rest') Run tr = resume rest' (d + 1) (vis c i tr)) l ->
    Forall (fun c => forall i, Forall (fun it => d + 1 <= it_depth it) (f c i)) l ->
    machine ((mkitem (Pre true) (mkev path 0 pk ki d)
              :: flat_members f l 0 ++ [mkitem Post (mkev path 2 pk ki d)]) ++ rest) Run tr =
    resume rest d
      (let tr1 := mkev path 0 pk ki d :: tr in
       let userret := userfunc tr1 in
       if userret =? RET_CONTINUE then
         match child_loop vis l 0 tr1 with
         | (tr2, Some r) => (tr2, r)
         | (tr2, None) => second_call userfunc path pk ki d tr2
         end
       else if (userret =? RET_SKIP) || (userret =? RET_POP) || (userret =? RET_STOP) || (userret =? RET_ERROR)
       then (tr1, userret) else (tr1, RET_ERROR)).
  Proof.
    intros A f vis l path pk ki d tr rest HP HD.
    assert (HM : Forall (fun it => d + 1 <= it_depth it) (flat_members f l 0))
      by (apply flat_members_depth; exact HD).
    cbn [app]. rewrite <- app_assoc. cbn [app].
    cbn [machine passed_over it_ev]. cbv zeta.
    set (tr1 := mkev path 0 pk ki d :: tr).
    set (c := userfunc tr1).
    codes c; try rewrite Hc; unfold classify, react; unfold_codes; cbn [Z.eqb it_phase orb Pos.eqb].
    - (* CONTINUE *)
      rewrite (loop_machine f vis d) by (auto).
      pose proof (child_loop_some vis l 0 tr1) as Hs.
      destruct (child_loop vis l 0 tr1) as [tr2 [r|]].
      + destruct (Hs tr2 r eq_refl) as [-> | ->]; reflexivity.
      + apply second_machine.
    - (* SKIP: members and the closing item are passed over *)
      unfold it_depth at 1; cbn [it_ev ev_depth].
      rewrite machine_skip_over
        by (eapply Forall_impl; [|exact HM]; intros a Ha; simpl in Ha; lia).
      cbn [machine passed_over]. unfold it_depth; cbn [it_ev ev_depth].
      rewrite Z.ltb_irrefl. reflexivity.
    - (* POP: members, closing item passed over, still popping *)
      unfold it_depth at 1; cbn [it_ev ev_depth].
      rewrite machine_pop_over
        by (eapply Forall_impl; [|exact HM]; intros a Ha; simpl in Ha; lia).
      cbn [machine passed_over]. unfold it_depth; cbn [it_ev ev_depth].
      rewrite Z.leb_refl. reflexivity.
    - reflexivity.
    - reflexivity.
    - repeat match goal with H : (_ =? _) = false |- _ => rewrite H end. simpl. reflexivity.
  Qed.

  (* ---------------------------------------------------------------- the main lemma *)
  Lemma visit_machine : forall v path pk ki d tr rest,
    machine (flatten v path pk ki d ++ rest) Run tr = resume rest d (visit v path pk ki d tr).
  Proof.
    induction v using jv_ind'; intros path pk ki d tr rest;
    try (simpl; unfold_codes; set (c := userfunc _);
         codes c; try rewrite Hc; unfold classify, react; simpl; try reflexivity;
         repeat match goal with H : (_ =? _) = false |- _ => rewrite H end; simpl; reflexivity).
    - (* array *)
      cbn [flatten visit].
      apply (container_machine (fun c i => flatten c (path ++ [i]) PArr (KIdx i) (d + 1))
                               (fun c ii t => visit c (path ++ [ii]) PArr (KIdx ii) (d + 1) t)).
      + eapply Forall_impl; [|exact H]. intros c Hc i tr0 rest'. apply Hc.
      + apply Forall_forall. intros c _ i. apply flatten_depth.
    - (* object *)
      cbn [flatten visit].
      apply (container_machine (fun kv i => flatten (snd kv) (path ++ [i]) PObj (KKey (fst kv)) (d + 1))
                               (fun kv ii t => visit (snd kv) (path ++ [ii]) PObj (KKey (fst kv)) (d + 1) t)).
      + eapply Forall_impl; [|exact H]. intros c Hc i tr0 rest'. apply Hc.
      + apply Forall_forall. intros c _ i. apply flatten_depth.
  Qed.

  (* _json_c_visit only ever returns one of the five defined codes: the two
     "INTERNAL ERROR" branches of the loops are dead *)
  Definition is_code (r : Z) : Prop :=
    r = RET_CONTINUE \/ r = RET_SKIP \/ r = RET_POP \/ r = RET_STOP \/ r = RET_ERROR.

  Lemma second_call_code : forall path pk ki d tr, is_code (snd (second_call userfunc path pk ki d tr)).
  Proof.
    intros; unfold second_call, is_code.
    destruct (_ || _ || _); simpl; auto.
    destruct (_ || _) eqn:E; simpl; auto 6.
    apply orb_true_iff in E; destruct E as [E|E]; apply Z.eqb_eq in E; auto 6.
  Qed.

  Lemma visit_code : forall v path pk ki d tr, is_code (snd (visit v path pk ki d tr)).
  Proof.
    assert (Hfirst : forall (u : Z) (tr1 : list event) (x : list event * Z),
      is_code (snd x) ->
      is_code (snd (if u =? RET_CONTINUE then x
                    else if (u =? RET_SKIP) || (u =? RET_POP) || (u =? RET_STOP) || (u =? RET_ERROR)
                    then (tr1, u) else (tr1, RET_ERROR)))).
    { intros u tr1 x Hx. destruct (u =? RET_CONTINUE); auto.
      destruct (_ || _ || _ || _) eqn:E; simpl; unfold is_code; auto 6.
      repeat (apply orb_true_iff in E; destruct E as [E|E]); apply Z.eqb_eq in E; auto 6. }
    assert (Hcont : forall {A} (vis : A -> Z -> list event -> list event * Z) l path pk ki d tr1,
      is_code (snd (match child_loop vis l 0 tr1 with
                    | (tr2, Some r) => (tr2, r)
                    | (tr2, None) => second_call userfunc path pk ki d tr2 end))).
    { intros. pose proof (child_loop_some vis l 0 tr1) as Hs.
      destruct (child_loop vis l 0 tr1) as [tr2 [r|]].
      - destruct (Hs tr2 r eq_refl) as [-> | ->]; unfold is_code; simpl; auto 6.
      - apply second_call_code. }
    destruct v; intros; cbn [visit]; apply Hfirst; try (unfold is_code; simpl; auto); apply Hcont.
  Qed.

  (* ---------------------------------------------------------------- visit_conforms *)
  Theorem visit_conforms_tr : forall v, json_c_visit userfunc v = spec_visit userfunc v.
  Proof.
    intro v. rewrite json_c_visit_eq, spec_visit_eq.
    pose proof (visit_machine v [] PNone KNone 0 [] []) as H.
    rewrite app_nil_r in H. rewrite H.
    pose proof (visit_code v [] PNone KNone 0 []) as Hc.
    destruct (VisitModel.visit userfunc v [] PNone KNone 0 []) as [tr r].
    unfold resume. simpl in Hc.
    destruct Hc as [-> | [-> | [-> | [-> | ->]]]]; reflexivity.
  Qed.
End WithCallback.

(* ==================================================================== corollaries *)
(* The value the callback returns for a call: with the calls in call order
   [before ++ e :: after], the answer to [e] is [userfunc (e :: rev before)]. *)
Section Results.
  Variable userfunc : list event -> Z.

  Definition goes_on (c : code) : Prop := c = CContinue \/ c = CSkip \/ c = CPop.
  Definition result_of (c : code) : Z := match c with CError | CInvalid => -1 | _ => 0 end.

  (* every call of the (newest-first) history was answered CONTINUE, SKIP or POP *)
  Fixpoint all_go_on (tr : list event) : Prop :=
    match tr with
    | [] => True
    | e :: h => goes_on (classify (userfunc tr)) /\ all_go_on h
    end.

  Lemma all_go_on_suffix : forall a s, all_go_on (a ++ s) -> all_go_on s.
  Proof. induction a; simpl; intros; auto. apply IHa. tauto. Qed.

  (* the walk ends at the first answer that is not CONTINUE/SKIP/POP, and that answer
     (or its absence) determines the result *)
  Definition ends_well (out : list event * Z) : Prop :=
    match fst out with
    | [] => snd out = 0
    | e :: h => all_go_on h /\ snd out = result_of (classify (userfunc (fst out)))
    end.

  Lemma machine_ends_well : forall its m tr,
    all_go_on tr -> ends_well (machine userfunc its m tr).
  Proof.
    induction its as [|it rest IH]; intros m tr Htr; simpl.
    - unfold ends_well; simpl. destruct tr as [|e h]; auto.
      simpl in Htr. destruct Htr as [Hg Hh]. split; auto.
      destruct Hg as [-> | [-> | ->]]; reflexivity.
    - destruct (passed_over m it); [apply IH; exact Htr|].
      destruct (react it (classify (userfunc (it_ev it :: tr)))) eqn:E.
      + apply IH. simpl. split; auto.
        unfold react in E. unfold goes_on.
        destruct (classify (userfunc (it_ev it :: tr))); auto; discriminate.
      + unfold ends_well; simpl. split.
        * destruct tr; simpl in *; tauto.
        * unfold react in E.
          destruct (classify (userfunc (it_ev it :: tr))); simpl; try congruence;
            destruct (it_phase it) as [[|]|]; congruence.
  Qed.

  Lemma machine_extends : forall its m tr, exists new, fst (machine userfunc its m tr) = new ++ tr.
  Proof.
    induction its as [|it rest IH]; intros m tr; simpl.
    - exists []. reflexivity.
    - destruct (passed_over m it); [apply IH|].
      destruct (react it (classify (userfunc (it_ev it :: tr)))).
      + destruct (IH m0 (it_ev it :: tr)) as [n Hn]. exists (n ++ [it_ev it]).
        rewrite Hn, <- app_assoc. reflexivity.
      + exists [it_ev it]. reflexivity.
  Qed.

  Lemma flatten_head : forall v path pk ki d, exists c rest,
    flatten v path pk ki d = mkitem (Pre c) (mkev path 0 pk ki d) :: rest.
  Proof. destruct v; simpl; eauto. Qed.

  Lemma visit_ends_well : forall v before e after res,
    json_c_visit userfunc v = (before ++ e :: after, res) ->
    (after <> [] -> goes_on (classify (userfunc (e :: rev before)))) /\
    (after = [] -> res = result_of (classify (userfunc (e :: rev before)))).
  Proof.
    intros v before e after res H.
    rewrite visit_conforms_tr in H. rewrite spec_visit_eq in H.
    pose proof (machine_ends_well (flatten v [] PNone KNone 0) Run [] I) as W.
    destruct (machine userfunc (flatten v [] PNone KNone 0) Run []) as [tr r].
    inversion H; subst res. clear H.
    assert (Htr : tr = rev after ++ e :: rev before).
    { rewrite <- (rev_involutive tr), H1, rev_app_distr. simpl. rewrite <- app_assoc. reflexivity. }
    unfold ends_well in W; simpl in W. subst tr. split.
    - intro Hne. destruct (rev after) as [|x xs] eqn:Er.
      + destruct after as [|y ys]; [congruence|]. simpl in Er. destruct (rev ys); discriminate.
      + simpl in W. destruct W as [W _].
        apply all_go_on_suffix in W. simpl in W. tauto.
    - intros ->. simpl in W. tauto.
  Qed.

  Lemma classify_stop : classify RET_STOP = CStop. Proof. reflexivity. Qed.
  Lemma classify_error : classify RET_ERROR = CError. Proof. reflexivity. Qed.
  Lemma classify_invalid : forall z,
    z <> RET_CONTINUE -> z <> RET_SKIP -> z <> RET_POP -> z <> RET_STOP -> z <> RET_ERROR ->
    classify z = CInvalid.
  Proof.
    intros z H0 H1 H2 H3 H4. unfold_codes. unfold classify.
    repeat match goal with |- context [?a =? ?b] => destruct (Z.eqb_spec a b); [congruence|] end.
    reflexivity.
  Qed.

  Lemma halting_answer_is_last : forall v before e after res,
    json_c_visit userfunc v = (before ++ e :: after, res) ->
    ~ goes_on (classify (userfunc (e :: rev before))) ->
    after = [] /\ res = result_of (classify (userfunc (e :: rev before))).
  Proof.
    intros v before e after res H Hn.
    destruct (visit_ends_well v before e after res H) as [A B].
    destruct after as [|x xs].
    - split; auto.
    - exfalso. apply Hn, A. discriminate.
  Qed.

  (* STOP ends the whole traversal, with success *)
  Theorem stop_is_success : forall v before e after res,
    json_c_visit userfunc v = (before ++ e :: after, res) ->
    userfunc (e :: rev before) = RET_STOP ->
    after = [] /\ res = 0.
  Proof.
    intros v before e after res H Hs.
    destruct (halting_answer_is_last v before e after res H) as [A B].
    - rewrite Hs, classify_stop. unfold goes_on. intuition discriminate.
    - rewrite Hs, classify_stop in B. auto.
  Qed.

  (* ERROR ends it with failure *)
  Theorem error_is_failure : forall v before e after res,
    json_c_visit userfunc v = (before ++ e :: after, res) ->
    userfunc (e :: rev before) = RET_ERROR ->
    after = [] /\ res = RET_ERROR.
  Proof.
    intros v before e after res H Hs.
    destruct (halting_answer_is_last v before e after res H) as [A B].
    - rewrite Hs, classify_error. unfold goes_on. intuition discriminate.
    - rewrite Hs, classify_error in B. auto.
  Qed.

  (* any value that is not one of the five codes is reported as an error *)
  Theorem invalid_code_is_error : forall v before e after res,
    json_c_visit userfunc v = (before ++ e :: after, res) ->
    let z := userfunc (e :: rev before) in
    z <> RET_CONTINUE -> z <> RET_SKIP -> z <> RET_POP -> z <> RET_STOP -> z <> RET_ERROR ->
    after = [] /\ res = RET_ERROR.
  Proof.
    intros v before e after res H z H0 H1 H2 H3 H4.
    pose proof (classify_invalid z H0 H1 H2 H3 H4) as Hc. subst z.
    destruct (halting_answer_is_last v before e after res H) as [A B].
    - rewrite Hc. unfold goes_on. intuition discriminate.
    - rewrite Hc in B. auto.
  Qed.

  (* and only those: when every call is answered CONTINUE, SKIP or POP the result is success;
     there is always at least one call *)
  Theorem no_halt_is_success : forall v calls res,
    json_c_visit userfunc v = (calls, res) ->
    calls <> [] /\
    ((forall before e after, calls = before ++ e :: after ->
        goes_on (classify (userfunc (e :: rev before)))) -> res = 0).
  Proof.
    intros v calls res H.
    assert (Hne : calls <> []).
    { rewrite visit_conforms_tr in H. rewrite spec_visit_eq in H.
      destruct (flatten_head v [] PNone KNone 0) as (c & rest & Hf). rewrite Hf in H.
      simpl in H.
      match type of H with context [react ?a ?b] => destruct (react a b) end.
      - match type of H with context [machine userfunc rest ?m ?t] =>
          destruct (machine_extends rest m t) as [n Hn];
          destruct (machine userfunc rest m t) as [tr r] end.
        simpl in Hn. inversion H; subst. intro Hr.
        apply (f_equal (@length _)) in Hr. rewrite rev_length, app_length in Hr. simpl in Hr. lia.
      - inversion H; subst. discriminate. }
    split; auto. intro Hall.
    destruct (exists_last Hne) as (before & e & ->).
    destruct (visit_ends_well v before e [] res) as [_ B].
    - rewrite H. reflexivity.
    - rewrite (B eq_refl).
      destruct (Hall before e [] eq_refl) as [-> | [-> | ->]]; reflexivity.
  Qed.
End Results.

(* ==================================================================== SKIP and POP, globally *)
(* Statements about the whole call sequence, proved on the recursive function by
   induction on the tree.  Nodes are compared through their paths. *)
Section Paths.
  Variable userfunc : list event -> Z.
  Notation visit := (visit userfunc).

  Definition is_prefix (p q : list Z) : Prop := exists s, q = p ++ s.
  (* the two paths leave a common ancestor through different children *)
  Definition diverges (p q : list Z) : Prop :=
    exists c i j x y, i <> j /\ p = c ++ i :: x /\ q = c ++ j :: y.

  Lemma diverges_not_prefix : forall p q s, diverges p q -> ~ is_prefix p (q ++ s).
  Proof.
    intros p q s (c & i & j & x & y & Hij & -> & ->) [s' H].
    rewrite <- !app_assoc in H. apply app_inv_head in H. simpl in H. inversion H. congruence.
  Qed.
  Lemma diverges_app : forall p q s, diverges p q -> diverges p (q ++ s).
  Proof.
    intros p q s (c & i & j & x & y & Hij & -> & ->).
    exists c, i, j, x, (y ++ s). rewrite <- app_assoc. auto.
  Qed.
  Lemma prefix_diverges : forall q i j p, is_prefix (q ++ [i]) p -> i <> j -> diverges p (q ++ [j]).
  Proof.
    intros q i j p [s ->] H. exists q, i, j, s, []. rewrite <- app_assoc. auto.
  Qed.
  Lemma prefix_app_l : forall p s q, is_prefix (p ++ s) q -> is_prefix p q.
  Proof. intros p s q [s' ->]. exists (s ++ s'). rewrite app_assoc. reflexivity. Qed.
  Lemma prefix_refl : forall p, is_prefix p p.
  Proof. intro p. exists []. rewrite app_nil_r. reflexivity. Qed.
  Lemma longer_not_prefix : forall p j q, is_prefix (p ++ [j]) q -> ~ is_prefix q p.
  Proof.
    intros p j q [s ->] [s' H]. rewrite <- (app_nil_r p) in H at 1.
    rewrite <- !app_assoc in H. apply app_inv_head in H. discriminate.
  Qed.

  Lemma second_call_fst : forall path pk ki d tr,
    fst (second_call userfunc path pk ki d tr) = mkev path JSON_C_VISIT_SECOND pk ki d :: tr.
  Proof. intros. unfold second_call. repeat destruct (_ || _); reflexivity. Qed.

  (* the body of _json_c_visit for a container, with the recursive call abstracted *)
  Definition container_body {A} (vis : A -> Z -> list event -> list event * Z) (l : list A)
      (path : list Z) (pk : pkind) (ki : kidx) (d : Z) (tr : list event) : list event * Z :=
    let tr1 := mkev path 0 pk ki d :: tr in
    let userret := userfunc tr1 in
    if userret =? RET_CONTINUE then
      match child_loop vis l 0 tr1 with
      | (tr2, Some r) => (tr2, r)
      | (tr2, None) => second_call userfunc path pk ki d tr2
      end
    else if (userret =? RET_SKIP) || (userret =? RET_POP) || (userret =? RET_STOP) || (userret =? RET_ERROR)
    then (tr1, userret) else (tr1, RET_ERROR).

  (* ---------------------------------------------------------------- SKIP *)
  (* paths of the nodes whose first call was answered SKIP *)
  Fixpoint skipped (tr : list event) : list (list Z) :=
    match tr with
    | [] => []
    | e :: h => if (ev_flags e =? 0) && (userfunc tr =? RET_SKIP) then ev_path e :: skipped h else skipped h
    end.
  (* no call is about a node at or below a node skipped earlier *)
  Fixpoint skip_ok (tr : list event) : Prop :=
    match tr with
    | [] => True
    | e :: h => (forall p, In p (skipped h) -> ~ is_prefix p (ev_path e)) /\ skip_ok h
    end.

  Lemma skipped_app : forall new tr p,
    In p (skipped (new ++ tr)) -> (exists e, In e new /\ ev_path e = p) \/ In p (skipped tr).
  Proof.
    induction new as [|x new IH]; intros tr p H; simpl in *; auto.
    destruct (_ && _).
    - destruct H as [H|H]; [left; eauto|].
      destruct (IH _ _ H) as [(e & He & Hp)|]; [left; eauto|auto].
    - destruct (IH _ _ H) as [(e & He & Hp)|]; [left; eauto|auto].
  Qed.

  Definition skip_inv (path : list Z) (tr : list event) (out : list event * Z) : Prop :=
    exists new, fst out = new ++ tr /\
      Forall (fun e => is_prefix path (ev_path e)) new /\
      (skip_ok tr -> (forall p, In p (skipped tr) -> diverges p path) -> skip_ok (fst out)).

  Lemma skip_one : forall ev tr,
    skip_ok tr -> (forall p, In p (skipped tr) -> diverges p (ev_path ev)) -> skip_ok (ev :: tr).
  Proof.
    intros ev tr H D. simpl. split; auto. intros p Hp.
    rewrite <- (app_nil_r (ev_path ev)). apply diverges_not_prefix; auto.
  Qed.

  Lemma skip_inv_one : forall path pk ki d fl tr r,
    skip_inv path tr (mkev path fl pk ki d :: tr, r).
  Proof.
    intros. exists [mkev path fl pk ki d]. split; [reflexivity|]. split.
    - constructor; [apply prefix_refl|constructor].
    - intros S D. exact (skip_one (mkev path fl pk ki d) tr S D).
  Qed.

  Lemma loop_skip : forall {A} (vis : A -> Z -> list event -> list event * Z) path l,
    Forall (fun c => forall i tr, skip_inv (path ++ [i]) tr (vis c i tr)) l ->
    forall i tr, exists new,
      fst (child_loop vis l i tr) = new ++ tr /\
      Forall (fun e => exists j, i <= j /\ is_prefix (path ++ [j]) (ev_path e)) new /\
      (skip_ok tr -> (forall p, In p (skipped tr) -> forall j, i <= j -> diverges p (path ++ [j])) ->
       skip_ok (fst (child_loop vis l i tr))).
  Proof.
    intros A vis path l; induction l as [|c l IH]; intros HF i tr.
    - exists []. simpl. auto.
    - inversion HF as [|? ? Hc HF']; subst.
      destruct (Hc i tr) as (nc & Hfst & Hpre & Hok).
      simpl. destruct (vis c i tr) as [tr1 u]. simpl in Hfst, Hok. subst tr1.
      assert (Hhere : exists new,
                 nc ++ tr = new ++ tr /\
                 Forall (fun e => exists j, i <= j /\ is_prefix (path ++ [j]) (ev_path e)) new /\
                 (skip_ok tr -> (forall p, In p (skipped tr) -> forall j, i <= j -> diverges p (path ++ [j])) ->
                  skip_ok (nc ++ tr))).
      { exists nc. split; [reflexivity|]. split.
        - eapply Forall_impl; [|exact Hpre]. intros e He. exists i. split; [lia|exact He].
        - intros S D. apply Hok; auto. intros p Hp. apply D; auto. lia. }
      destruct (u =? RET_POP); [exact Hhere|].
      destruct ((u =? RET_STOP) || (u =? RET_ERROR)); [exact Hhere|].
      destruct (negb (u =? RET_CONTINUE) && negb (u =? RET_SKIP)); [exact Hhere|].
      destruct (IH HF' (i + 1) (nc ++ tr)) as (nr & Hfr & Hpr & Hokr).
      exists (nr ++ nc). split; [rewrite Hfr, app_assoc; reflexivity|]. split.
      + apply Forall_app; split.
        * eapply Forall_impl; [|exact Hpr]. intros e (j & Hj & He). exists j. split; [lia|exact He].
        * eapply Forall_impl; [|exact Hpre]. intros e He. exists i. split; [lia|exact He].
      + intros S D. apply Hokr.
        * apply Hok; auto. intros p Hp. apply D; auto. lia.
        * intros p Hp j Hj. apply skipped_app in Hp. destruct Hp as [(e & He & <-)|Hp].
          -- rewrite Forall_forall in Hpre. apply (prefix_diverges path i j); [apply Hpre; exact He|lia].
          -- apply D; auto. lia.
  Qed.

  Lemma container_skip : forall {A} (vis : A -> Z -> list event -> list event * Z) l path pk ki d tr,
    Forall (fun c => forall i tr, skip_inv (path ++ [i]) tr (vis c i tr)) l ->
    skip_inv path tr (container_body vis l path pk ki d tr).
  Proof.
    intros A vis l path pk ki d tr HF. unfold container_body. cbv zeta.
    set (pre := mkev path 0 pk ki d).
    destruct (userfunc (pre :: tr) =? RET_CONTINUE) eqn:E.
    2:{ destruct (_ || _ || _ || _); apply skip_inv_one. }
    apply Z.eqb_eq in E.
    assert (Hsk : skipped (pre :: tr) = skipped tr).
    { simpl. rewrite E. reflexivity. }
    destruct (loop_skip vis path l HF 0 (pre :: tr)) as (nl & Hfst & Hpl & Hok).
    assert (Hsub : Forall (fun e => is_prefix path (ev_path e)) (nl ++ [pre])).
    { apply Forall_app; split.
      - eapply Forall_impl; [|exact Hpl]. intros e (j & _ & He). eapply prefix_app_l; exact He.
      - constructor; [apply prefix_refl|constructor]. }
    assert (Hok' : skip_ok tr -> (forall p, In p (skipped tr) -> diverges p path) ->
                   skip_ok (fst (child_loop vis l 0 (pre :: tr)))).
    { intros S D. apply Hok.
      - apply skip_one; auto.
      - rewrite Hsk. intros p Hp j _. apply diverges_app. auto. }
    destruct (child_loop vis l 0 (pre :: tr)) as [tr2 [r|]]; simpl in Hfst, Hok'; subst tr2.
    - exists (nl ++ [pre]). simpl. rewrite <- app_assoc. auto.
    - exists (mkev path JSON_C_VISIT_SECOND pk ki d :: nl ++ [pre]).
      rewrite second_call_fst. split; [simpl; rewrite <- app_assoc; reflexivity|]. split.
      + constructor; [apply prefix_refl|exact Hsub].
      + intros S D. simpl. split; [|apply Hok'; auto].
        intros p Hp. apply skipped_app in Hp. destruct Hp as [(e & He & <-)|Hp].
        * rewrite Forall_forall in Hpl. destruct (Hpl e He) as (j & _ & Hj).
          eapply longer_not_prefix; exact Hj.
        * rewrite Hsk in Hp. rewrite <- (app_nil_r path). apply diverges_not_prefix. auto.
  Qed.

  Lemma visit_skip_inv : forall v path pk ki d tr, skip_inv path tr (visit v path pk ki d tr).
  Proof.
    induction v using jv_ind'; intros path pk ki d tr;
      try (cbn [VisitModel.visit]; repeat destruct (_ =? _); repeat destruct (_ || _); apply skip_inv_one).
    - change (skip_inv path tr
                (container_body (fun c ii t => visit c (path ++ [ii]) PArr (KIdx ii) (d + 1) t) l path pk ki d tr)).
      apply container_skip. eapply Forall_impl; [|exact H]. intros c Hc i tr0. apply Hc.
    - change (skip_inv path tr
                (container_body (fun kv ii t => visit (snd kv) (path ++ [ii]) PObj (KKey (fst kv)) (d + 1) t)
                                l path pk ki d tr)).
      apply container_skip. eapply Forall_impl; [|exact H]. intros c Hc i tr0. apply Hc.
  Qed.

  Lemma skipped_in : forall a e b,
    ev_flags e = 0 -> userfunc (e :: b) = RET_SKIP -> In (ev_path e) (skipped (a ++ e :: b)).
  Proof.
    induction a as [|x a IH]; intros e b Hf Hs; simpl.
    - rewrite Hf, Hs. simpl. auto.
    - destruct (_ && _); simpl; auto.
  Qed.

  Lemma skip_ok_split : forall a e b,
    skip_ok (a ++ e :: b) -> ev_flags e = 0 -> userfunc (e :: b) = RET_SKIP ->
    forall e', In e' a -> ~ is_prefix (ev_path e) (ev_path e').
  Proof.
    induction a as [|x a IH]; intros e b S Hf Hs e' Hin; simpl in *; [tauto|].
    destruct S as [S1 S2]. destruct Hin as [<- | Hin].
    - apply S1. apply skipped_in; auto.
    - eapply IH; eauto.
  Qed.

  (* SKIP: no later call is about the node again (no second call) or about anything below it *)
  Theorem skip_omits_children : forall v before e after res,
    json_c_visit userfunc v = (before ++ e :: after, res) ->
    ev_flags e = 0 -> userfunc (e :: rev before) = RET_SKIP ->
    forall e', In e' after -> ~ is_prefix (ev_path e) (ev_path e').
  Proof.
    intros v before e after res H Hf Hs e' Hin.
    rewrite json_c_visit_eq in H.
    destruct (visit_skip_inv v [] PNone KNone 0 []) as (new & Hfst & _ & Hok).
    destruct (visit v [] PNone KNone 0 []) as [tr r]. simpl in Hfst, Hok.
    inversion H as [[Hc Hr]]. clear H Hr.
    assert (Htr : tr = rev after ++ e :: rev before).
    { rewrite <- (rev_involutive tr), Hc, rev_app_distr. simpl. rewrite <- app_assoc. reflexivity. }
    assert (S : skip_ok tr) by (apply Hok; simpl; tauto).
    rewrite Htr in S.
    apply (skip_ok_split _ _ _ S Hf Hs). apply in_rev. rewrite rev_involutive. exact Hin.
  Qed.

  (* ---------------------------------------------------------------- POP *)
  (* the most recent call was a first call answered POP *)
  Definition popped (tr : list event) : Prop :=
    match tr with [] => False | e :: _ => ev_flags e = 0 /\ userfunc tr = RET_POP end.
  (* the call [e2] made right after the history [h]: if [h] ends in a POP, [e2] is the second
     call on the parent of the popped node *)
  Definition follows (e2 : event) (h : list event) : Prop :=
    match h with
    | [] => True
    | e :: _ => ev_flags e = 0 -> userfunc h = RET_POP ->
                ev_flags e2 = JSON_C_VISIT_SECOND /\ exists i, ev_path e = ev_path e2 ++ [i]
    end.
  Fixpoint pop_ok (tr : list event) : Prop :=
    match tr with [] => True | e2 :: h => follows e2 h /\ pop_ok h end.

  Definition pop_inv (path : list Z) (tr : list event) (out : list event * Z) : Prop :=
    pop_ok tr -> ~ popped tr ->
    pop_ok (fst out) /\
    (popped (fst out) -> snd out = RET_POP /\ exists e rest, fst out = e :: rest /\ ev_path e = path).

  Lemma follows_not_popped : forall e2 h, ~ popped h -> follows e2 h.
  Proof. intros e2 [|e h] N; simpl; auto. intros. exfalso. apply N. simpl. auto. Qed.

  (* a first call that ends the function at once, or a scalar *)
  Lemma pop_inv_first : forall path pk ki d tr u r,
    u = userfunc (mkev path 0 pk ki d :: tr) -> (u = RET_POP -> r = RET_POP) ->
    pop_inv path tr (mkev path 0 pk ki d :: tr, r).
  Proof.
    intros path pk ki d tr u r Hu Hr Hok Hnp. simpl. split.
    - split; auto. apply follows_not_popped; auto.
    - intros [_ Hp]. split; [apply Hr; congruence|eauto].
  Qed.

  Lemma loop_pop : forall {A} (vis : A -> Z -> list event -> list event * Z) path l,
    Forall (fun c => forall i tr, pop_inv (path ++ [i]) tr (vis c i tr)) l ->
    forall i tr, pop_ok tr -> ~ popped tr ->
      pop_ok (fst (child_loop vis l i tr)) /\
      (popped (fst (child_loop vis l i tr)) ->
         snd (child_loop vis l i tr) = None /\
         exists e rest j, fst (child_loop vis l i tr) = e :: rest /\ ev_path e = path ++ [j]).
  Proof.
    intros A vis path l; induction l as [|c l IH]; intros HF i tr Hok Hnp.
    - simpl. split; auto. tauto.
    - inversion HF as [|? ? Hc HF']; subst.
      destruct (Hc i tr Hok Hnp) as [Hok1 Hp1].
      simpl. destruct (vis c i tr) as [tr1 u]. simpl in Hok1, Hp1.
      destruct (u =? RET_POP) eqn:E1.
      { simpl. split; auto. intro P. split; auto.
        destruct (Hp1 P) as (_ & e & rest & -> & He). eauto. }
      apply Z.eqb_neq in E1.
      assert (N1 : ~ popped tr1) by (intro P; apply E1; apply Hp1; exact P).
      destruct ((u =? RET_STOP) || (u =? RET_ERROR)); [simpl; split; auto; tauto|].
      destruct (negb (u =? RET_CONTINUE) && negb (u =? RET_SKIP)); [simpl; split; auto; tauto|].
      apply IH; auto.
  Qed.

  Lemma container_pop : forall {A} (vis : A -> Z -> list event -> list event * Z) l path pk ki d tr,
    Forall (fun c => forall i tr, pop_inv (path ++ [i]) tr (vis c i tr)) l ->
    pop_inv path tr (container_body vis l path pk ki d tr).
  Proof.
    intros A vis l path pk ki d tr HF. unfold container_body. cbv zeta.
    set (pre := mkev path 0 pk ki d).
    destruct (userfunc (pre :: tr) =? RET_CONTINUE) eqn:E.
    2:{ destruct (_ || _ || _ || _) eqn:E2.
        - eapply pop_inv_first; [reflexivity|auto].
        - eapply pop_inv_first; [reflexivity|]. intro Hp. fold pre in Hp. rewrite Hp in E2. discriminate. }
    apply Z.eqb_eq in E. intros Hok Hnp.
    assert (Hok1 : pop_ok (pre :: tr)) by (simpl; split; auto; apply follows_not_popped; auto).
    assert (Hnp1 : ~ popped (pre :: tr)) by (simpl; rewrite E; intros [_ X]; discriminate).
    destruct (loop_pop vis path l HF 0 (pre :: tr) Hok1 Hnp1) as [Hok2 Hp2].
    destruct (child_loop vis l 0 (pre :: tr)) as [tr2 [r|]]; simpl in Hok2, Hp2.
    - simpl. split; auto. intro P. destruct (Hp2 P) as [X _]. discriminate.
    - rewrite second_call_fst. split.
      + simpl. split; auto. destruct tr2 as [|e2 rest]; simpl; auto.
        intros Hf Hu. split; auto.
        destruct Hp2 as (_ & e' & rest' & j & Heq & Hpath); [simpl; auto|].
        inversion Heq; subst. eauto.
      + simpl. intros [X _]. discriminate.
  Qed.

  Lemma visit_pop_inv : forall v path pk ki d tr, pop_inv path tr (visit v path pk ki d tr).
  Proof.
    induction v using jv_ind'; intros path pk ki d tr;
      try (cbn [VisitModel.visit];
           destruct (_ =? RET_CONTINUE) eqn:E;
           [ apply Z.eqb_eq in E; eapply pop_inv_first; [reflexivity|]; rewrite E; discriminate
           | destruct (_ || _ || _ || _) eqn:E2;
             [ eapply pop_inv_first; [reflexivity|auto]
             | eapply pop_inv_first; [reflexivity|]; intro Hp; rewrite Hp in E2; discriminate ] ]).
    - change (pop_inv path tr
                (container_body (fun c ii t => visit c (path ++ [ii]) PArr (KIdx ii) (d + 1) t) l path pk ki d tr)).
      apply container_pop. eapply Forall_impl; [|exact H]. intros c Hc i tr0. apply Hc.
    - change (pop_inv path tr
                (container_body (fun kv ii t => visit (snd kv) (path ++ [ii]) PObj (KKey (fst kv)) (d + 1) t)
                                l path pk ki d tr)).
      apply container_pop. eapply Forall_impl; [|exact H]. intros c Hc i tr0. apply Hc.
  Qed.

  Lemma pop_ok_split : forall a e2 h, pop_ok (a ++ e2 :: h) -> follows e2 h.
  Proof. induction a as [|x a IH]; simpl; intros e2 h H; [tauto|]. apply IH. tauto. Qed.

  (* POP on a first call: the very next call is the second call on the parent — the node's
     own members and second call and all remaining siblings are abandoned; on the root
     nothing follows and the result is success *)
  Theorem pop_resumes_after_parent : forall v before e after res,
    json_c_visit userfunc v = (before ++ e :: after, res) ->
    ev_flags e = 0 -> userfunc (e :: rev before) = RET_POP ->
    match after with
    | [] => ev_path e = [] /\ res = 0
    | e2 :: _ => ev_flags e2 = JSON_C_VISIT_SECOND /\ exists i, ev_path e = ev_path e2 ++ [i]
    end.
  Proof.
    intros v before e after res H Hf Hp.
    rewrite json_c_visit_eq in H.
    destruct (visit_pop_inv v [] PNone KNone 0 [] I (fun x => x)) as [Hok Hpop].
    destruct (visit v [] PNone KNone 0 []) as [tr r]. simpl in Hok, Hpop.
    inversion H as [[Hc Hr]]. clear H Hr.
    assert (Htr : tr = rev after ++ e :: rev before).
    { rewrite <- (rev_involutive tr), Hc, rev_app_distr. simpl. rewrite <- app_assoc. reflexivity. }
    destruct after as [|e2 after'].
    - simpl in Htr. subst tr. split.
      + destruct Hpop as (_ & e0 & rest & Heq & Hpath); [simpl; auto|].
        inversion Heq; subst. exact Hpath.
      + destruct Hpop as (-> & _); [simpl; auto|]. reflexivity.
    - simpl in Htr. rewrite <- app_assoc in Htr. simpl in Htr. subst tr.
      apply pop_ok_split in Hok. simpl in Hok. auto.
  Qed.
End Paths.

(* ==================================================================== non-vacuity *)
(* {"a":[1,2,3], "b":{"c":null}, "d":true} *)
Definition demo_tree : jv :=
  JObj [([97], JArr [JInt 1; JInt 2; JInt 3]); ([98], JObj [([99], JNull)]); ([100], JBool true)].

(* CONTINUE, CONTINUE, POP on a[0], CONTINUE on the second call of a, SKIP on b, STOP on d *)
Lemma visit_nontrivial :
  json_c_visit (sched_fun [0; 0; 767; 0; 7547; 7867]) demo_tree =
  ([ mkev [] 0 PNone KNone 0;
     mkev [0] 0 PObj (KKey [97]) 1;
     mkev [0; 0] 0 PArr (KIdx 0) 2;
     mkev [0] 2 PObj (KKey [97]) 1;
     mkev [1] 0 PObj (KKey [98]) 1;
     mkev [2] 0 PObj (KKey [100]) 1 ], 0).
Proof. vm_compute. reflexivity. Qed.

(* an undefined return value on the second call of b *)
Lemma visit_nontrivial_invalid :
  json_c_visit (sched_fun [0; 7547; 0; 0; 9]) demo_tree =
  ([ mkev [] 0 PNone KNone 0;
     mkev [0] 0 PObj (KKey [97]) 1;
     mkev [1] 0 PObj (KKey [98]) 1;
     mkev [1; 0] 0 PObj (KKey [99]) 2;
     mkev [1] 2 PObj (KKey [98]) 1 ], -1).
Proof. vm_compute. reflexivity. Qed.

(* the hypotheses of the SKIP / POP / STOP corollaries are satisfiable, with calls following *)
Lemma corollaries_nonvacuous :
  exists f v res,
    (exists before e after, json_c_visit f v = (before ++ e :: after, res) /\
        ev_flags e = 0 /\ f (e :: rev before) = RET_SKIP /\ after <> [] /\ ev_path e = [1]) /\
    (exists before e after, json_c_visit f v = (before ++ e :: after, res) /\
        ev_flags e = 0 /\ f (e :: rev before) = RET_POP /\ after <> [] /\ ev_path e = [0; 0]) /\
    (exists before e after, json_c_visit f v = (before ++ e :: after, res) /\
        f (e :: rev before) = RET_STOP).
Proof.
  exists (sched_fun [0; 0; 767; 0; 7547; 7867]), demo_tree, 0.
  rewrite visit_nontrivial. split; [|split].
  - exists [mkev [] 0 PNone KNone 0; mkev [0] 0 PObj (KKey [97]) 1; mkev [0; 0] 0 PArr (KIdx 0) 2;
            mkev [0] 2 PObj (KKey [97]) 1], (mkev [1] 0 PObj (KKey [98]) 1), [mkev [2] 0 PObj (KKey [100]) 1].
    repeat split; try reflexivity. discriminate.
  - exists [mkev [] 0 PNone KNone 0; mkev [0] 0 PObj (KKey [97]) 1], (mkev [0; 0] 0 PArr (KIdx 0) 2),
           [mkev [0] 2 PObj (KKey [97]) 1; mkev [1] 0 PObj (KKey [98]) 1; mkev [2] 0 PObj (KKey [100]) 1].
    repeat split; try reflexivity. discriminate.
  - exists [mkev [] 0 PNone KNone 0; mkev [0] 0 PObj (KKey [97]) 1; mkev [0; 0] 0 PArr (KIdx 0) 2;
            mkev [0] 2 PObj (KKey [97]) 1; mkev [1] 0 PObj (KKey [98]) 1], (mkev [2] 0 PObj (KKey [100]) 1), [].
    split; reflexivity.
Qed.

(* ==================================================================== several traversals *)
(* every traversal of a program — outer, nested at any depth, before or after a nested one —
   is the reference traversal of its own tree with its own callback *)
Lemma run_prog_conforms : forall p, run_prog p = spec_prog p.
Proof.
  fix IH 1. intros [v ff codes nested]. cbn [run_prog spec_prog].
  rewrite visit_ignores_future_flags, visit_conforms_tr. f_equal.
  induction nested as [|[k q] t IHt]; [reflexivity|].
  cbn [fst snd]. rewrite IHt, IH. reflexivity.
Qed.

(* in particular the outer traversal does not depend on what its callback runs meanwhile *)
Lemma outer_unaffected : forall v ff codes nested,
  hd None (run_prog (Prog v ff codes nested)) = Some (json_c_visit (sched_fun codes) v).
Proof. reflexivity. Qed.

Lemma run_progs_conforms : forall ps, run_progs ps = flat_map spec_prog ps.
Proof.
  induction ps as [|p ps IH]; [reflexivity|].
  unfold run_progs in *. simpl. rewrite IH, run_prog_conforms. reflexivity.
Qed.

(* a callback that, in its third call (the first call on a[0]), traverses another tree whose
   own callback answers ERROR: the outer traversal is the one of [visit_nontrivial] *)
Lemma prog_nontrivial :
  run_prog (Prog demo_tree 2 [0; 0; 767; 0; 7547; 7867]
              [(3, Prog (JArr [JNull; JBool true]) (-1) [0; -1] []); (9, Prog JNull 0 [] [])]) =
  [ Some ([ mkev [] 0 PNone KNone 0;
            mkev [0] 0 PObj (KKey [97]) 1;
            mkev [0; 0] 0 PArr (KIdx 0) 2;
            mkev [0] 2 PObj (KKey [97]) 1;
            mkev [1] 0 PObj (KKey [98]) 1;
            mkev [2] 0 PObj (KKey [100]) 1 ], 0);
    Some ([ mkev [] 0 PNone KNone 0; mkev [0] 0 PArr (KIdx 0) 1 ], -1);
    None ].
Proof. vm_compute. reflexivity. Qed.

(* ==================================================================== the flags of every call *)
Definition flags_ok (e : event) : Prop := ev_flags e = 0 \/ ev_flags e = JSON_C_VISIT_SECOND.

Lemma flat_members_Forall : forall {A} (P : item -> Prop) (f : A -> Z -> list item) l i,
  Forall (fun c => forall i, Forall P (f c i)) l -> Forall P (flat_members f l i).
Proof.
  intros A P f l; induction l as [|c l IH]; intros i H; simpl; [constructor|].
  inversion H; subst. apply Forall_app; split; auto.
Qed.

Lemma flatten_flags : forall v path pk ki d,
  Forall (fun it => flags_ok (it_ev it)) (flatten v path pk ki d).
Proof.
  induction v using jv_ind'; intros path pk ki d; simpl;
    try (constructor; [left; reflexivity|constructor]).
  - constructor; [left; reflexivity|]. apply Forall_app; split.
    + apply flat_members_Forall. eapply Forall_impl; [|exact H]. intros c Hc i. apply Hc.
    + constructor; [right; reflexivity|constructor].
  - constructor; [left; reflexivity|]. apply Forall_app; split.
    + apply flat_members_Forall. eapply Forall_impl; [|exact H]. intros c Hc i. apply Hc.
    + constructor; [right; reflexivity|constructor].
Qed.

Lemma machine_flags : forall userfunc its m tr,
  Forall (fun it => flags_ok (it_ev it)) its -> Forall flags_ok tr ->
  Forall flags_ok (fst (machine userfunc its m tr)).
Proof.
  intros userfunc its; induction its as [|it rest IH]; intros m tr Hi Ht; simpl; auto.
  inversion Hi; subst.
  destruct (passed_over m it); [apply IH; auto|].
  destruct (react it (classify (userfunc (it_ev it :: tr)))).
  - apply IH; auto.
  - simpl. constructor; auto.
Qed.

Lemma flags_are_0_or_second : forall userfunc v future_flags e,
  In e (fst (json_c_visit_ff userfunc v future_flags)) -> flags_ok e.
Proof.
  intros userfunc v ff e Hin.
  rewrite visit_ignores_future_flags, visit_conforms_tr, spec_visit_eq in Hin.
  pose proof (machine_flags userfunc (flatten v [] PNone KNone 0) Run []
                (flatten_flags v [] PNone KNone 0) (Forall_nil _)) as F.
  destruct (machine userfunc (flatten v [] PNone KNone 0) Run []) as [tr r].
  simpl in Hin, F. apply in_rev in Hin. rewrite Forall_forall in F. auto.
Qed.
