(* PtrProofs.v — proofs about PtrModel.v (json_pointer.c as written) against PtrSpec.v
   (RFC 6901 written from the RFC).  See Properties_C12.v for the statements. *)
From JC Require Import Base BaseLemmas Value PtrSpec PtrModel.
Local Open Scope Z_scope.

(* ================================================================ small general lemmas *)

Lemma bytes_eqb_eq : forall a b, bytes_eqb a b = true <-> a = b.
Proof.
  induction a as [|x a IH]; destruct b as [|y b]; cbn; split; intros H; try reflexivity; try discriminate.
  - apply andb_true_iff in H. destruct H as [H1 H2]. apply Z.eqb_eq in H1. apply IH in H2. congruence.
  - inversion H; subst. rewrite Z.eqb_refl. cbn. apply IH. reflexivity.
Qed.

Lemma bytes_eqb_refl : forall a, bytes_eqb a a = true.
Proof. intros. apply bytes_eqb_eq. reflexivity. Qed.

Lemma bytes_eqb_neq : forall a b, bytes_eqb a b = false <-> a <> b.
Proof.
  intros a b. split.
  - intros H E. apply bytes_eqb_eq in E. congruence.
  - intros H. destruct (bytes_eqb a b) eqn:E; [|reflexivity]. apply bytes_eqb_eq in E. contradiction.
Qed.

Lemma zlen_cons {A} (x : A) l : zlen (x :: l) = 1 + zlen l.
Proof. reflexivity. Qed.

Lemma zlen_one_iff {A} (x : A) l : (zlen (x :: l) =? 1) = match l with [] => true | _ => false end.
Proof.
  rewrite zlen_cons. destruct l as [|y l]; [reflexivity|].
  rewrite zlen_cons. pose proof (zlen_nonneg l). apply Z.eqb_neq. lia.
Qed.

Lemma znth_some_range {A} (l : list A) i v : znth l i = Some v -> 0 <= i < zlen l.
Proof.
  unfold znth. destruct (i <? 0) eqn:E; [discriminate|]. intros H.
  assert (Hn : nth_error l (Z.to_nat i) <> None) by congruence.
  apply nth_error_Some in Hn. rewrite zlen_length. lia.
Qed.

Lemma znth_in_range {A} (l : list A) i : 0 <= i < zlen l -> exists v, znth l i = Some v.
Proof.
  intros H. unfold znth. destruct (i <? 0) eqn:E; [lia|].
  destruct (nth_error l (Z.to_nat i)) eqn:N; [eauto|].
  apply nth_error_None in N. rewrite zlen_length in H. lia.
Qed.

Lemma znth_none_ge {A} (l : list A) i : zlen l <= i -> znth l i = None.
Proof.
  intros H. unfold znth. destruct (i <? 0); [reflexivity|].
  apply nth_error_None. rewrite zlen_length in H. lia.
Qed.

Lemma znth_nat {A} (l : list A) i : 0 <= i -> znth l i = nth_error l (Z.to_nat i).
Proof. intros H. unfold znth. destruct (i <? 0) eqn:E; [lia|reflexivity]. Qed.

(* ================================================================ unescaping *)

Lemma ra2_cons2 o1 o2 r x y u :
  replace_all2 o1 o2 r (x :: y :: u) =
  if (x =? o1) && (y =? o2) then r :: replace_all2 o1 o2 r u else x :: replace_all2 o1 o2 r (y :: u).
Proof. reflexivity. Qed.

Lemma ra2_cons_ne o1 o2 r c w : c <> o1 -> replace_all2 o1 o2 r (c :: w) = c :: replace_all2 o1 o2 r w.
Proof.
  intros H. destruct w as [|y u]; [reflexivity|].
  rewrite ra2_cons2. apply Z.eqb_neq in H. rewrite H. reflexivity.
Qed.

Lemma ra2_head y u : exists h w, replace_all2 126 49 47 (y :: u) = h :: w /\ (h = y \/ h = 47).
Proof.
  destruct u as [|z u]; [exists y, []; auto|].
  rewrite ra2_cons2. destruct ((y =? 126) && (z =? 49)); eauto.
Qed.

Lemma unescape_cons2 x y u :
  unescape (x :: y :: u) =
  if x =? 126 then (if y =? 48 then 126 :: unescape u else if y =? 49 then 47 :: unescape u else x :: unescape (y :: u))
  else x :: unescape (y :: u).
Proof. reflexivity. Qed.

Lemma unescape_two_pass_aux : forall n s, (length s <= n)%nat -> unescape_in_place s = unescape s.
Proof.
  unfold unescape_in_place.
  induction n as [|n IH]; intros s Hl.
  - destruct s; [reflexivity|cbn in Hl; lia].
  - destruct s as [|x [|y u]]; [reflexivity| |].
    + cbn. destruct (x =? 126); reflexivity.
    + rewrite (ra2_cons2 126 49), unescape_cons2. cbn [length] in Hl.
      destruct (x =? 126) eqn:Ex.
      * apply Z.eqb_eq in Ex. subst x.
        destruct (y =? 49) eqn:Ey; cbn [andb].
        { apply Z.eqb_eq in Ey. subst y. cbn [Z.eqb Pos.eqb].
          rewrite ra2_cons_ne by lia. rewrite IH by lia. reflexivity. }
        destruct (y =? 48) eqn:Ey0.
        { apply Z.eqb_eq in Ey0. subst y.
          rewrite (ra2_cons_ne 126 49 47 48) by lia. rewrite ra2_cons2. cbn [Z.eqb Pos.eqb andb].
          rewrite IH by lia. reflexivity. }
        destruct (ra2_head y u) as (h & w & Hw & Hh). rewrite Hw, ra2_cons2.
        assert (Hh48 : (h =? 48) = false) by (apply Z.eqb_neq; apply Z.eqb_neq in Ey0; lia).
        rewrite Hh48. cbn [Z.eqb Pos.eqb andb]. rewrite <- Hw.
        rewrite (IH (y :: u)) by (cbn; lia). reflexivity.
      * cbn [andb]. rewrite ra2_cons_ne by (apply Z.eqb_neq; exact Ex).
        rewrite (IH (y :: u)) by (cbn; lia). reflexivity.
Qed.

(* the C code's two in-place passes ("~1" -> '/', then "~0" -> '~') compute the RFC's
   single left-to-right unescaping, for every byte string *)
Theorem unescape_two_pass_eq_single : forall s, unescape_in_place s = unescape s.
Proof. intros s. apply (unescape_two_pass_aux (length s)). lia. Qed.

(* the other order is wrong: "~01" must become "~1" *)
Lemma unescape_wrong_order_differs :
  replace_all2 126 49 47 (replace_all2 126 48 126 [126;48;49]) <> unescape [126;48;49].
Proof. vm_compute. discriminate. Qed.

Fixpoint has_tilde (s : list byte) : bool :=
  match s with [] => false | c :: t => (c =? 126) || has_tilde t end.

Lemma unescape_no_tilde s : has_tilde s = false -> unescape s = s /\ escapes_ok s = true.
Proof.
  induction s as [|c t IH]; [auto|]. cbn [has_tilde]. intros H. apply orb_false_iff in H. destruct H as [Hc Ht].
  cbn [unescape escapes_ok]. rewrite Hc. destruct (IH Ht) as [-> ->]. auto.
Qed.

(* ================================================================ tokens *)

Lemma split_slash_nonempty s : split_slash s <> [].
Proof.
  destruct s as [|c t]; cbn; [discriminate|]. destruct (c =? 47); [discriminate|].
  destruct (split_slash t); discriminate.
Qed.

Lemma tok_acc_split : forall s cur,
  tok_acc cur s = match split_slash s with h :: r => (rev cur ++ h) :: r | [] => [rev cur] end.
Proof.
  induction s as [|c t IH]; intros cur; cbn [tok_acc split_slash].
  - rewrite app_nil_r. reflexivity.
  - destruct (c =? 47).
    + rewrite app_nil_r. f_equal. rewrite IH. cbn. destruct (split_slash t) eqn:E; [exfalso; eapply split_slash_nonempty; eauto|reflexivity].
    + rewrite IH. destruct (split_slash t) eqn:E; [exfalso; eapply split_slash_nonempty; eauto|].
      cbn [rev]. rewrite <- app_assoc. reflexivity.
Qed.

Lemma tokenize_split s : tokenize s = split_slash s.
Proof.
  unfold tokenize. rewrite tok_acc_split. destruct (split_slash s) eqn:E; [exfalso; eapply split_slash_nonempty; eauto|reflexivity].
Qed.

(* ================================================================ array indices *)

Lemma digit_same c : is_plain_digit c = digit c.
Proof. reflexivity. Qed.

Lemma forallb_digit_same s : forallb is_plain_digit s = forallb digit s.
Proof. induction s as [|c t IH]; [reflexivity|]. cbn [forallb]. rewrite IH. reflexivity. Qed.

Lemma dec_acc_value : forall s a, dec_acc a s = a * 10 ^ zlen s + dec_value s.
Proof.
  induction s as [|c r IH]; intros a; cbn [dec_acc dec_value].
  - cbn. lia.
  - rewrite IH, zlen_cons. pose proof (zlen_nonneg r).
    replace (1 + zlen r) with (Z.succ (zlen r)) by lia. rewrite Z.pow_succ_r by lia. ring.
Qed.

Lemma dec_acc_nonneg : forall s a, forallb is_plain_digit s = true -> 0 <= a -> 0 <= dec_acc a s.
Proof.
  induction s as [|c r IH]; intros a H Ha; cbn [dec_acc]; [exact Ha|].
  cbn [forallb] in H. apply andb_true_iff in H. destruct H as [Hc Hr].
  apply IH; [exact Hr|]. unfold is_plain_digit in Hc. lia.
Qed.

Lemma zlen_zero_cons {A} (x : A) l : (zlen (x :: l) =? 0) = false.
Proof. rewrite zlen_cons. pose proof (zlen_nonneg l). apply Z.eqb_neq. lia. Qed.

Lemma is_valid_index_nil : is_valid_index [] = IErr EINVAL.
Proof. reflexivity. Qed.

Lemma is_valid_index_nonneg tok idx sat : is_valid_index tok = IOk idx sat -> 0 <= idx.
Proof.
  unfold is_valid_index. destruct tok as [|c r].
  - cbn. discriminate.
  - rewrite zlen_one_iff. destruct r as [|d r].
    + destruct (is_plain_digit c) eqn:E; [|discriminate]. intros H. inversion H. unfold is_plain_digit in E. lia.
    + rewrite zlen_zero_cons. cbn [hd]. destruct (c =? 48); [discriminate|].
      destruct (forallb is_plain_digit (c :: d :: r)) eqn:F; cbn [negb]; [|discriminate].
      unfold strtoull10. pose proof (dec_acc_nonneg _ 0 F ltac:(lia)) as Hn.
      destruct (dec_acc 0 (c :: d :: r) >? UINT64_MAX); intros H; inversion H; subst; [unfold UINT64_MAX; lia|exact Hn].
Qed.

(* a token of the RFC's array-index syntax: the C code computes its value, saturated *)
Lemma index_some tok i : array_index tok = Some i ->
  0 <= i /\ tok <> [] /\
  is_valid_index tok = (if i >? UINT64_MAX then IOk UINT64_MAX true else IOk i false).
Proof.
  destruct tok as [|c r]; [discriminate|]. unfold array_index.
  destruct (c =? 48) eqn:E0.
  - apply Z.eqb_eq in E0. subst c. destruct r; [|discriminate]. intros H. inversion H. subst i.
    split; [lia|]. split; [discriminate|]. reflexivity.
  - destruct ((49 <=? c) && (c <=? 57) && forallb digit r) eqn:E; [|discriminate].
    intros H. injection H as Hi. rewrite <- Hi. clear Hi i.
    change ((c - 48) * 10 ^ zlen r + dec_value r) with (dec_value (c :: r)).
    apply andb_true_iff in E. destruct E as [Ec Er].
    assert (Hd : forallb is_plain_digit (c :: r) = true).
    { cbn [forallb]. rewrite forallb_digit_same, Er. unfold is_plain_digit. lia. }
    pose proof (dec_acc_nonneg _ 0 Hd ltac:(lia)) as Hn. rewrite dec_acc_value, Z.mul_0_l, Z.add_0_l in Hn.
    split; [exact Hn|]. split; [discriminate|].
    unfold is_valid_index. rewrite zlen_one_iff. destruct r as [|d r].
    + unfold is_plain_digit. replace ((48 <=? c) && (c <=? 57)) with true by lia.
      cbn [dec_value zlen]. replace ((c - 48) * 10 ^ 0 + 0) with (c - 48) by lia.
      replace (c - 48 >? UINT64_MAX) with false by (unfold UINT64_MAX; lia). reflexivity.
    + rewrite zlen_zero_cons. cbn [hd]. rewrite E0, Hd. cbn [negb]. unfold strtoull10.
      rewrite dec_acc_value, Z.mul_0_l, Z.add_0_l.
      destruct (dec_value (c :: d :: r) >? UINT64_MAX); reflexivity.
Qed.

Lemma index_none tok : array_index tok = None -> is_valid_index tok = IErr EINVAL.
Proof.
  destruct tok as [|c r]; [reflexivity|]. intros H. unfold array_index in H. unfold is_valid_index.
  rewrite zlen_one_iff. destruct (c =? 48) eqn:E0.
  - destruct r as [|d r]; [discriminate|]. rewrite zlen_zero_cons. cbn [hd]. rewrite E0. reflexivity.
  - destruct ((49 <=? c) && (c <=? 57) && forallb digit r) eqn:E; [discriminate|].
    destruct r as [|d r].
    + cbn [forallb] in E. unfold is_plain_digit. replace ((48 <=? c) && (c <=? 57)) with false by lia. reflexivity.
    + rewrite zlen_zero_cons. cbn [hd]. rewrite E0.
      replace (forallb is_plain_digit (c :: d :: r)) with false; [reflexivity|].
      rewrite <- forallb_digit_same in E. cbn [forallb] in *.
      set (b := is_plain_digit d && forallb is_plain_digit r) in *. clearbody b.
      unfold is_plain_digit. destruct b; lia.
Qed.

Lemma digits_escapes_ok s : forallb digit s = true -> escapes_ok s = true.
Proof.
  induction s as [|c t IH]; [reflexivity|]. cbn [forallb escapes_ok]. intros H.
  apply andb_true_iff in H. destruct H as [Hc Ht]. unfold digit in Hc.
  replace (c =? 126) with false by lia. auto.
Qed.

Lemma index_escapes_ok tok i : array_index tok = Some i -> escapes_ok tok = true.
Proof.
  destruct tok as [|c r]; [discriminate|]. unfold array_index. destruct (c =? 48) eqn:E0.
  - destruct r; [|discriminate]. intros _. cbn. replace (c =? 126) with false by lia. reflexivity.
  - destruct ((49 <=? c) && (c <=? 57) && forallb digit r) eqn:E; [|discriminate]. intros _.
    apply digits_escapes_ok. cbn [forallb]. apply andb_true_iff in E. destruct E as [Ec Er]. rewrite Er.
    unfold digit. lia.
Qed.

Lemma dash_same tok : is_dash tok = is_minus tok.
Proof. reflexivity. Qed.

Lemma dash_escapes_ok tok : is_dash tok = true -> escapes_ok tok = true.
Proof.
  destruct tok as [|c [|d r]]; try discriminate. cbn. intros H. replace (c =? 126) with false by lia. reflexivity.
Qed.

Lemma dash_not_index tok : is_dash tok = true -> array_index tok = None.
Proof.
  destruct tok as [|c [|d r]]; try discriminate. cbn [is_dash]. intros H. unfold array_index.
  replace (c =? 48) with false by lia. replace ((49 <=? c) && (c <=? 57) && forallb digit []) with false by (cbn; lia). reflexivity.
Qed.

(* is_valid_escaping (one byte at a time) is the RFC's syntax of a reference token *)
Lemma is_valid_escaping_ok : forall s, is_valid_escaping s = escapes_ok s.
Proof.
  induction s as [|c t IH]; [reflexivity|]. cbn [is_valid_escaping escapes_ok].
  destruct (c =? 126); cbn [andb]; [|exact IH].
  destruct t as [|d u]; [reflexivity|]. destruct ((d =? 48) || (d =? 49)) eqn:E; cbn [negb andb]; [|reflexivity].
  rewrite IH. cbn [escapes_ok]. replace (d =? 126) with false by lia. reflexivity.
Qed.

(* ================================================================ objects *)

Lemma object_get_member ms k : object_get ms k = member ms k.
Proof.
  unfold member. induction ms as [|[k' v] r IH]; [reflexivity|]. cbn [object_get find fst].
  destruct (bytes_eqb k' k); [reflexivity|exact IH].
Qed.

Lemma member_cons k' v r k :
  member ((k', v) :: r) k = if bytes_eqb k' k then Some v else member r k.
Proof. unfold member. cbn [find fst]. destruct (bytes_eqb k' k); reflexivity. Qed.

Lemma object_add_upsert ms k v : object_add ms k v = upsert k v ms.
Proof.
  unfold upsert. induction ms as [|[k' v'] r IH]; [reflexivity|].
  cbn [object_add]. rewrite member_cons. cbn [replace_first fst]. destruct (bytes_eqb k' k) eqn:E; [reflexivity|].
  rewrite IH. destruct (member r k); reflexivity.
Qed.

Lemma member_object_add_same ms k v : member (object_add ms k v) k = Some v.
Proof.
  induction ms as [|[k' v'] r IH]; cbn [object_add].
  - rewrite member_cons, bytes_eqb_refl. reflexivity.
  - destruct (bytes_eqb k' k) eqn:E; rewrite member_cons, E; [reflexivity|exact IH].
Qed.

Lemma member_object_add_other ms k v k2 : k2 <> k -> member (object_add ms k v) k2 = member ms k2.
Proof.
  intros Hne. induction ms as [|[k' v'] r IH]; cbn [object_add].
  - rewrite member_cons. replace (bytes_eqb k k2) with false; [reflexivity|]. symmetry. apply bytes_eqb_neq. congruence.
  - destruct (bytes_eqb k' k) eqn:E; rewrite !member_cons.
    + apply bytes_eqb_eq in E. subst k'. replace (bytes_eqb k k2) with false; [reflexivity|]. symmetry. apply bytes_eqb_neq. congruence.
    + rewrite IH. reflexivity.
Qed.

Lemma map_member_replace ms k f c : member ms k = Some c -> map_member k f ms = replace_first k (f c) ms.
Proof.
  induction ms as [|[k' v] r IH]; [discriminate|]. rewrite member_cons. cbn [map_member replace_first fst].
  destruct (bytes_eqb k' k); intros H; [inversion H; reflexivity|]. rewrite IH by exact H. reflexivity.
Qed.

Lemma member_map_member_same ms k f c : member ms k = Some c -> member (map_member k f ms) k = Some (f c).
Proof.
  induction ms as [|[k' v] r IH]; [discriminate|]. rewrite member_cons. cbn [map_member].
  destruct (bytes_eqb k' k) eqn:E; intros H; rewrite member_cons, E; [inversion H; reflexivity|auto].
Qed.

Lemma member_map_member_other ms k f k2 : k2 <> k -> member (map_member k f ms) k2 = member ms k2.
Proof.
  intros Hne. induction ms as [|[k' v] r IH]; [reflexivity|]. cbn [map_member].
  destruct (bytes_eqb k' k) eqn:E; rewrite !member_cons.
  - apply bytes_eqb_eq in E. subst k'. replace (bytes_eqb k k2) with false; [reflexivity|]. symmetry. apply bytes_eqb_neq. congruence.
  - rewrite IH. reflexivity.
Qed.

(* ================================================================ arrays *)

Lemma list_set_length {A} (l : list A) n x : length (list_set l n x) = length l.
Proof. revert n. induction l as [|h t IH]; intros [|n]; cbn; auto. Qed.

Lemma list_set_split {A} (l : list A) n x : (n < length l)%nat -> list_set l n x = firstn n l ++ x :: skipn (S n) l.
Proof.
  revert n. induction l as [|h t IH]; intros [|n] H; cbn in *; try lia; [reflexivity|].
  rewrite IH by lia. reflexivity.
Qed.

Lemma nth_error_list_set_same {A} (l : list A) n x : (n < length l)%nat -> nth_error (list_set l n x) n = Some x.
Proof. revert n. induction l as [|h t IH]; intros [|n] H; cbn in *; try lia; [reflexivity|]. apply IH. lia. Qed.

Lemma nth_error_list_set_other {A} (l : list A) n m x : n <> m -> nth_error (list_set l n x) m = nth_error l m.
Proof.
  revert n m. induction l as [|h t IH]; intros [|n] [|m] H; cbn; try reflexivity; try lia.
  apply IH. lia.
Qed.

Lemma map_nth_set (l : list jv) n f c : nth_error l n = Some c -> map_nth n f l = list_set l n (f c).
Proof.
  revert n. induction l as [|h t IH]; intros [|n] H; cbn in *; try discriminate.
  - inversion H. reflexivity.
  - rewrite (IH n H). reflexivity.
Qed.

Lemma array_put_arr_put l i v : 0 <= i -> array_put l i v = arr_put l i v.
Proof.
  intros Hi. unfold array_put, arr_put. destruct (i <? zlen l) eqn:E; [|reflexivity].
  rewrite list_set_split by (rewrite zlen_length in E; lia).
  unfold zfirstn, zskipn. replace (Z.to_nat (i + 1)) with (S (Z.to_nat i)) by lia. reflexivity.
Qed.

Lemma zlen_array_put l i v : 0 <= i -> i < zlen (array_put l i v).
Proof.
  intros Hi. unfold array_put. destruct (i <? zlen l) eqn:E.
  - rewrite zlen_length, list_set_length, <- zlen_length. lia.
  - rewrite !zlen_app, zlen_zrepeat. cbn [zlen]. lia.
Qed.

Lemma znth_array_put_same l i v : 0 <= i -> znth (array_put l i v) i = Some v.
Proof.
  intros Hi. rewrite znth_nat by lia. unfold array_put. destruct (i <? zlen l) eqn:E.
  - apply nth_error_list_set_same. rewrite zlen_length in E. lia.
  - rewrite zlen_length in *. rewrite nth_error_app2 by lia.
    unfold zrepeat. rewrite nth_error_app2 by (rewrite repeat_length; lia).
    rewrite repeat_length. replace (Z.to_nat i - length l - Z.to_nat (i - Z.of_nat (length l)))%nat with 0%nat by lia.
    reflexivity.
Qed.

(* every other index: unchanged inside the old array, JSON null in the gap, nothing beyond *)
Lemma znth_array_put_other l i v j : 0 <= i -> j <> i ->
  znth (array_put l i v) j =
  if j <? zlen l then znth l j else if (zlen l <=? j) && (j <? i) then Some JNull else None.
Proof.
  intros Hi Hne. unfold znth at 1. destruct (j <? 0) eqn:Ej.
  - pose proof (zlen_nonneg l). replace (j <? zlen l) with true by lia. unfold znth. rewrite Ej. reflexivity.
  - unfold array_put. destruct (i <? zlen l) eqn:E.
    + rewrite nth_error_list_set_other by lia.
      destruct (j <? zlen l) eqn:Ejl; [unfold znth; rewrite Ej; reflexivity|].
      replace ((zlen l <=? j) && (j <? i)) with false by lia.
      apply nth_error_None. rewrite zlen_length in *. lia.
    + destruct (j <? zlen l) eqn:Ejl.
      * rewrite nth_error_app1 by (rewrite zlen_length in Ejl; lia). unfold znth. rewrite Ej. reflexivity.
      * rewrite zlen_length in *. rewrite nth_error_app2 by lia. unfold zrepeat.
        destruct (j <? i) eqn:Eji.
        -- replace (Z.of_nat (length l) <=? j) with true by lia. cbn [andb].
           rewrite nth_error_app1 by (rewrite repeat_length; lia).
           apply nth_error_repeat. lia.
        -- replace ((Z.of_nat (length l) <=? j) && false) with false by lia.
           apply nth_error_None. rewrite app_length, repeat_length. cbn [length]. lia.
Qed.

Lemma array_put_append l v : array_put l (zlen l) v = l ++ [v].
Proof.
  unfold array_put. rewrite Z.ltb_irrefl. replace (zlen l - zlen l) with 0 by lia. reflexivity.
Qed.

Lemma map_nth_length f n (l : list jv) : length (map_nth n f l) = length l.
Proof. revert n. induction l as [|h t IH]; intros [|n]; cbn; auto. Qed.

Lemma nth_error_map_nth_same f n (l : list jv) c : nth_error l n = Some c -> nth_error (map_nth n f l) n = Some (f c).
Proof. revert n. induction l as [|h t IH]; intros [|n] H; cbn in *; try discriminate; [inversion H; reflexivity|auto]. Qed.

Lemma nth_error_map_nth_other f n m (l : list jv) : n <> m -> nth_error (map_nth n f l) m = nth_error l m.
Proof. revert n m. induction l as [|h t IH]; intros [|n] [|m] H; cbn; try reflexivity; try lia. apply IH. lia. Qed.

Lemma map_nth_arr_put l i f c : znth l i = Some c -> map_nth (Z.to_nat i) f l = arr_put l i (f c).
Proof.
  intros H. pose proof (znth_some_range _ _ _ H) as R. rewrite <- array_put_arr_put by lia.
  unfold array_put. replace (i <? zlen l) with true by lia. apply map_nth_set. rewrite <- znth_nat by lia. exact H.
Qed.

(* ================================================================ lookup *)

(* The only side condition left after the repairs of json_pointer.c: the representation bound
   of the C array (its length is a size_t, and an index token is saturated at ULLONG_MAX),
   checked on the arrays the walk passes. *)
Definition step_repr (n : jv) : bool :=
  match n with JArr l => zlen l <=? SIZE_MAX | _ => true end.

Fixpoint walk_repr (n : jv) (toks : list (list byte)) : bool :=
  match toks with
  | [] => true
  | tok :: rest =>
      step_repr n &&
      match get_single_path n tok with
      | SPOk _ c => walk_repr c rest
      | SPErr _ => true
      end
  end.

Definition get_repr (t : jv) (p : list byte) : bool :=
  match p with
  | c :: s => if c =? 47 then walk_repr t (split_slash s) else true
  | [] => true
  end.

Lemma step_conforms n tok :
  step_repr n = true ->
  match get_single_path n tok with
  | SPOk st c => spec_step n tok = Some (st, c) /\ escapes_ok tok = true
  | SPErr e => (e = ENOENT \/ e = EINVAL) /\ (spec_step n tok = None \/ escapes_ok tok = false)
  end.
Proof.
  unfold step_repr. destruct n as [| | | | | |l|ms]; intros G;
    try solve [unfold get_single_path, spec_step; rewrite is_valid_escaping_ok; destruct (escapes_ok tok); cbn; auto].
  - (* array *)
    unfold get_single_path, spec_step. destruct (array_index tok) as [i|] eqn:Ei.
    + destruct (index_some _ _ Ei) as (Hi & Hne & Hv). rewrite Hv.
      destruct (i >? UINT64_MAX) eqn:Esat.
      * replace (UINT64_MAX >=? zlen l) with true by (unfold SIZE_MAX, UINT64_MAX in *; lia).
        rewrite znth_none_ge by (unfold SIZE_MAX, UINT64_MAX in *; lia). auto.
      * destruct (i >=? zlen l) eqn:Eil.
        { rewrite znth_none_ge by lia. auto. }
        destruct (znth_in_range l i ltac:(lia)) as [v Hv']. rewrite Hv'.
        split; [reflexivity|]. eapply index_escapes_ok; eauto.
    + rewrite (index_none _ Ei). auto.
  - (* object *)
    unfold get_single_path, spec_step. rewrite is_valid_escaping_ok.
    destruct (escapes_ok tok) eqn:E; cbn [negb]; [|auto].
    rewrite unescape_two_pass_eq_single, object_get_member.
    destruct (member ms (unescape tok)) as [v|]; auto.
Qed.

Lemma walk_conforms : forall toks n,
  walk_repr n toks = true ->
  match get_walk n toks with
  | GOk path x => spec_walk n toks = Some (path, x) /\ forallb escapes_ok toks = true
  | GErr e => (e = ENOENT \/ e = EINVAL) /\ (spec_walk n toks = None \/ forallb escapes_ok toks = false)
  end.
Proof.
  induction toks as [|tok rest IH]; intros n G.
  - cbn. auto.
  - cbn [walk_repr] in G. apply andb_true_iff in G. destruct G as [Gs Gr].
    pose proof (step_conforms _ tok Gs) as S. cbn [get_walk spec_walk forallb].
    destruct (get_single_path n tok) as [st c|e].
    + destruct S as [S Es]. rewrite S, Es. specialize (IH c Gr).
      destruct (get_walk c rest) as [path x|e].
      * destruct IH as [W Er]. rewrite W, Er. auto.
      * destruct IH as [He [W | W]]; rewrite W; auto.
    + destruct S as [He [S | S]]; rewrite S; auto.
Qed.

(* lookup conforms to RFC 6901: it succeeds exactly when evaluation succeeds, with the same
   location and node; otherwise ENOENT / EINVAL *)
Theorem get_conforms : forall t p,
  t <> JNull -> get_repr t p = true ->
  match ptr_get t p with
  | GOk path n => spec_get t p = Some (path, n)
  | GErr e => spec_get t p = None /\ (e = ENOENT \/ e = EINVAL)
  end.
Proof.
  intros t p Hn G. unfold ptr_get. replace (is_null t) with false by (destruct t; congruence || reflexivity).
  destruct p as [|c s]; [reflexivity|]. unfold get_recursive, spec_get, parse_pointer.
  cbn [get_repr] in G. destruct (c =? 47); [|auto].
  rewrite tokenize_split. pose proof (walk_conforms _ _ G) as W.
  destruct (get_walk t (split_slash s)) as [path n|e].
  - destruct W as [W E]. rewrite E. exact W.
  - destruct W as [He [W | W]]; (split; [|exact He]).
    + destruct (forallb escapes_ok (split_slash s)); [exact W|reflexivity].
    + rewrite W. reflexivity.
Qed.

(* errors of lookup: not-found or invalid-argument, for every tree and pointer *)
Lemma gsp_errno n tok e : get_single_path n tok = SPErr e -> e = ENOENT \/ e = EINVAL.
Proof.
  unfold get_single_path. destruct n as [| | | | | |l|ms];
    try solve [destruct (negb (is_valid_escaping tok)); intros H; inversion H; auto].
  - unfold is_valid_index.
    destruct (zlen tok =? 1).
    { destruct tok as [|c r]; [intros H; inversion H; auto|]. destruct (is_plain_digit c).
      - destruct (c - 48 >=? zlen l); [intros H; inversion H; auto|].
        destruct (znth l (c - 48)) as [v|]; intros H; inversion H; auto.
      - intros H; inversion H; auto. }
    destruct (zlen tok =? 0); [intros H; inversion H; auto|].
    destruct (hd 0 tok =? 48); [intros H; inversion H; auto|].
    destruct (negb (forallb is_plain_digit tok)); [intros H; inversion H; auto|].
    destruct (strtoull10 tok) as [v sat]. destruct (v >=? zlen l); [intros H; inversion H; auto|].
    destruct (znth l v) as [x|]; intros H; inversion H; auto.
  - destruct (negb (is_valid_escaping tok)); [intros H; inversion H; auto|].
    destruct (object_get ms (unescape_in_place tok)); intros H; inversion H; auto.
Qed.

Lemma walk_errno : forall toks n e, get_walk n toks = GErr e -> e = ENOENT \/ e = EINVAL.
Proof.
  induction toks as [|tok rest IH]; intros n e; cbn [get_walk]; [discriminate|].
  destruct (get_single_path n tok) as [st c|e'] eqn:S.
  - destruct (get_walk c rest) eqn:W; [discriminate|]. intros H. inversion H. subst. eauto.
  - intros H. inversion H. subst. eapply gsp_errno; eauto.
Qed.

Theorem get_fails_enoent_einval : forall t p e, ptr_get t p = GErr e -> e = ENOENT \/ e = EINVAL.
Proof.
  intros t p e. unfold ptr_get. destruct (is_null t); [intros H; inversion H; auto|].
  destruct p as [|c s]; [discriminate|]. unfold get_recursive. destruct (c =? 47); [apply walk_errno|intros H; inversion H; auto].
Qed.

(* what a successful step is *)
Lemma gsp_ok_inv n tok st c : get_single_path n tok = SPOk st c ->
  (exists l idx sat, n = JArr l /\ is_valid_index tok = IOk idx sat /\ st = inr idx /\ znth l idx = Some c) \/
  (exists ms, n = JObj ms /\ is_valid_escaping tok = true /\ st = inl (unescape_in_place tok) /\
              member ms (unescape_in_place tok) = Some c).
Proof.
  unfold get_single_path. destruct n as [| | | | | |l|ms];
    try solve [destruct (negb (is_valid_escaping tok)); discriminate].
  - destruct (is_valid_index tok) as [idx sat|] eqn:V; [|discriminate].
    destruct (idx >=? zlen l); [discriminate|]. destruct (znth l idx) as [v|] eqn:E; [|discriminate].
    intros H. inversion H. subst. left. eauto 10.
  - destruct (is_valid_escaping tok) eqn:V; cbn [negb]; [|discriminate].
    rewrite object_get_member. destruct (member ms (unescape_in_place tok)) as [v|] eqn:E; [|discriminate].
    intros H. inversion H. subst. right. eauto 10.
Qed.

(* a successful lookup returns the node that sits at the reported location *)
Lemma gsp_ok n tok st c : get_single_path n tok = SPOk st c -> node_at n [st] = Some c.
Proof.
  intros H. destruct (gsp_ok_inv _ _ _ _ H) as [(l & idx & sat & -> & _ & -> & E) | (ms & -> & _ & -> & E)];
    cbn; rewrite E; reflexivity.
Qed.

Lemma node_at_cons n st r c : node_at n [st] = Some c -> node_at n (st :: r) = node_at c r.
Proof.
  destruct st as [k|i]; cbn; destruct n; try discriminate.
  - destruct (member l k); [|discriminate]. intros H. inversion H. reflexivity.
  - destruct (znth l i); [|discriminate]. intros H. inversion H. reflexivity.
Qed.

Lemma walk_node_at : forall toks n path x, get_walk n toks = GOk path x -> node_at n path = Some x.
Proof.
  induction toks as [|tok rest IH]; intros n path x; cbn [get_walk].
  - intros H. inversion H. reflexivity.
  - destruct (get_single_path n tok) as [st c|] eqn:S; [|discriminate].
    destruct (get_walk c rest) as [p y|] eqn:W; [|discriminate]. intros H. inversion H. subst.
    rewrite (node_at_cons _ _ _ _ (gsp_ok _ _ _ _ S)). eauto.
Qed.

Theorem get_returns_node_at_path : forall t p path n, ptr_get t p = GOk path n -> node_at t path = Some n.
Proof.
  intros t p path n. unfold ptr_get. destruct (is_null t); [discriminate|].
  destruct p as [|c s]; [intros H; inversion H; reflexivity|].
  unfold get_recursive. destruct (c =? 47); [apply walk_node_at|discriminate].
Qed.

(* ================================================================ set: placement *)

Lemma ptr_set_unfold cb al t s v :
  ptr_set_with_array_cb cb al t (47 :: s) v =
  match get_walk t (removelast (split_slash s)) with
  | GErr e => SErr e
  | GOk ppath parent =>
      match set_single_path cb al parent (last (split_slash s) []) v with
      | SErr e => SErr e
      | SOk parent' => SOk (subst_at ppath parent' t)
      end
  end.
Proof.
  unfold ptr_set_with_array_cb. cbn [Z.eqb Pos.eqb negb].
  destruct (removelast (split_slash s)) as [|a r]; [|reflexivity].
  cbn [get_walk]. destruct (set_single_path cb al t (last (split_slash s) []) v); reflexivity.
Qed.

Lemma tokens_split_last s : split_slash s = removelast (split_slash s) ++ [last (split_slash s) []].
Proof. apply app_removelast_last. apply split_slash_nonempty. Qed.

Lemma subst_put_child n tok st c l new :
  spec_step n tok = Some (st, c) -> subst_at (st :: l) new n = put_child n st (subst_at l new c).
Proof.
  unfold spec_step. destruct n as [| | | | | |xs|ms]; try discriminate.
  - destruct (array_index tok) as [i|]; [|discriminate]. destruct (znth xs i) as [v|] eqn:E; [|discriminate].
    intros H. inversion H. subst. cbn [subst_at put_child].
    pose proof (znth_some_range _ _ _ E). replace (i <? 0) with false by lia.
    rewrite (map_nth_arr_put _ _ _ _ E). reflexivity.
  - destruct (member ms (unescape tok)) as [v|] eqn:E; [|discriminate].
    intros H. inversion H. subst. cbn [subst_at put_child]. rewrite (map_member_replace _ _ _ _ E). reflexivity.
Qed.

Lemma spec_set_walk_app : forall ptoks n tok v,
  spec_set_walk n (ptoks ++ [tok]) v =
  match spec_walk n ptoks with
  | None => None
  | Some (path, parent) =>
      match spec_place parent tok v with
      | None => None
      | Some parent' => Some (subst_at path parent' n)
      end
  end.
Proof.
  induction ptoks as [|a r IH]; intros n tok v.
  - cbn. destruct (spec_place n tok v); reflexivity.
  - cbn [app spec_set_walk spec_walk].
    destruct (r ++ [tok]) as [|b r'] eqn:E; [apply app_eq_nil in E; destruct E; discriminate|]. rewrite <- E.
    destruct (spec_step n a) as [[st c]|] eqn:S; [|reflexivity].
    rewrite IH. destruct (spec_walk c r) as [[path parent]|]; [|reflexivity].
    destruct (spec_place parent tok v) as [parent'|]; [|reflexivity].
    rewrite (subst_put_child _ _ _ _ _ _ S). reflexivity.
Qed.

(* the representation bound on the arrays the walk to the parent passes *)
Definition set_repr (t : jv) (p : list byte) : bool :=
  match p with
  | c :: s => if c =? 47 then walk_repr t (removelast (split_slash s)) else true
  | [] => true
  end.

(* failure for lack of room: some array would have to hold [need] slots *)
Definition no_room (al : alloc) (e : errno) : Prop :=
  (e = ENOMEM \/ e = E_NONE \/ e = ERANGE) /\ exists need, al need = false \/ need > SIZE_MAX / 8.

Lemma place_conforms al parent tok v :
  match set_single_path array_put_idx_cb al parent tok v with
  | SOk parent' => spec_place parent tok v = Some parent' /\ escapes_ok tok = true
  | SErr e => ((spec_place parent tok v = None \/ escapes_ok tok = false) /\ (e = ENOENT \/ e = EINVAL)) \/ no_room al e
  end.
Proof.
  unfold set_single_path, spec_place.
  destruct parent as [| | | | | |l|ms]; auto.
  - change (is_minus tok) with (is_dash tok). destruct (is_dash tok) eqn:Ed.
    + unfold array_add. destruct (al (zlen l + 1)) eqn:Ea.
      * split; [reflexivity|]. apply dash_escapes_ok; exact Ed.
      * right. split; [cbn; auto|]. exists (zlen l + 1). auto.
    + destruct (array_index tok) as [i|] eqn:Ei.
      * destruct (index_some _ _ Ei) as (Hi & Hne & Hv). rewrite Hv.
        destruct (i >? UINT64_MAX) eqn:Esat.
        { unfold array_put_idx_cb. replace (UINT64_MAX >? SIZE_MAX - 1) with true by reflexivity.
          right. split; [cbn; auto|]. exists (SIZE_MAX + 1). right. unfold SIZE_MAX. cbn. lia. }
        unfold array_put_idx_cb. destruct (i >? SIZE_MAX - 1) eqn:E1.
        { right. split; [cbn; auto|]. exists (i + 1). right. unfold SIZE_MAX in *.
          assert (18446744073709551615 / 8 < 18446744073709551615) by (cbn; lia). lia. }
        destruct (i <? zlen l) eqn:E2.
        { rewrite array_put_arr_put by lia. split; [reflexivity|]. eapply index_escapes_ok; eauto. }
        destruct (i + 1 >? SIZE_MAX / 8) eqn:E3.
        { right. split; [cbn; auto|]. exists (i + 1). right. lia. }
        destruct (al (i + 1)) eqn:E4.
        { rewrite array_put_arr_put by lia. split; [reflexivity|]. eapply index_escapes_ok; eauto. }
        right. split; [cbn; auto|]. exists (i + 1). auto.
      * rewrite (index_none _ Ei). auto.
  - rewrite is_valid_escaping_ok. destruct (escapes_ok tok) eqn:E; cbn [negb]; [|auto].
    rewrite unescape_two_pass_eq_single, object_add_upsert. auto.
Qed.

(* set places the value where RFC 6901 evaluation of the pointer leads (member named by the
   unescaped last token, array index, or the end for "-"); besides the RFC's own failures it
   can fail only for lack of room in an array *)
Theorem set_places_exactly : forall al t p v,
  set_repr t p = true ->
  match ptr_set al t p v with
  | SOk t' => spec_set t p v = Some t'
  | SErr e => (spec_set t p v = None /\ (e = ENOENT \/ e = EINVAL)) \/ no_room al e
  end.
Proof.
  intros al t p v G. unfold ptr_set. destruct p as [|c s]; [reflexivity|].
  cbn [set_repr] in G. unfold spec_set, parse_pointer.
  destruct (c =? 47) eqn:Ec.
  2:{ unfold ptr_set_with_array_cb. rewrite Ec. cbn [negb]. auto. }
  apply Z.eqb_eq in Ec. subst c. rewrite ptr_set_unfold, tokenize_split.
  set (toks := split_slash s) in *.
  assert (Ht : toks = removelast toks ++ [last toks []]) by apply tokens_split_last.
  set (ptoks := removelast toks) in *. set (tok := last toks []) in *. clearbody ptoks tok. rewrite Ht.
  assert (Hs : forall x, match (if forallb escapes_ok x then Some x else None) with
                         | Some toks0 => spec_set_walk t toks0 v | None => None end
                         = if forallb escapes_ok x then spec_set_walk t x v else None)
    by (intros x; destruct (forallb escapes_ok x); reflexivity).
  rewrite Hs, forallb_app. cbn [forallb]. rewrite spec_set_walk_app. clear Hs.
  pose proof (walk_conforms _ _ G) as W.
  destruct (get_walk t ptoks) as [ppath parent|e].
  - destruct W as [W Ep]. rewrite W, Ep.
    pose proof (place_conforms al parent tok v) as P.
    destruct (set_single_path array_put_idx_cb al parent tok v) as [parent'|e].
    + destruct P as [P Et]. rewrite P, Et. reflexivity.
    + destruct P as [[[P|P] He]|R]; [| |auto]; left; (split; [|exact He]); rewrite P.
      * destruct (true && (escapes_ok tok && true)); reflexivity.
      * reflexivity.
  - left. destruct W as [He [W | W]]; (split; [|exact He]); rewrite W.
    + destruct (forallb escapes_ok ptoks && (escapes_ok tok && true)); reflexivity.
    + reflexivity.
Qed.

(* ================================================================ set, then get *)

Lemma walk_app : forall a n b,
  get_walk n (a ++ b) =
  match get_walk n a with
  | GErr e => GErr e
  | GOk p x => match get_walk x b with GOk q y => GOk (p ++ q) y | GErr e => GErr e end
  end.
Proof.
  induction a as [|tok r IH]; intros n b.
  - cbn. destruct (get_walk n b); reflexivity.
  - cbn [app get_walk]. destruct (get_single_path n tok) as [st c|e]; [|reflexivity].
    rewrite IH. destruct (get_walk c r) as [p x|e]; [|reflexivity].
    destruct (get_walk x b); reflexivity.
Qed.

Lemma zlen_map_nth f n (l : list jv) : zlen (map_nth n f l) = zlen l.
Proof. rewrite !zlen_length, map_nth_length. reflexivity. Qed.

(* the walk that found the parent finds the replaced parent in the new tree *)
Lemma walk_subst : forall ptoks n ppath parent parent',
  get_walk n ptoks = GOk ppath parent ->
  get_walk (subst_at ppath parent' n) ptoks = GOk ppath parent'.
Proof.
  induction ptoks as [|tok rest IH]; intros n ppath parent parent' W.
  - cbn in W. inversion W. subst. reflexivity.
  - cbn [get_walk] in W. destruct (get_single_path n tok) as [st c|] eqn:S; [|discriminate].
    destruct (get_walk c rest) as [p' y|] eqn:Wr; [|discriminate]. inversion W. subst. clear W.
    specialize (IH c p' parent parent' Wr).
    destruct (gsp_ok_inv _ _ _ _ S) as [(l & idx & sat & -> & V & -> & Ex) | (ms & -> & V & -> & Ex)].
    + pose proof (znth_some_range _ _ _ Ex) as R. cbn [subst_at]. replace (idx <? 0) with false by lia.
      cbn [get_walk]. unfold get_single_path. rewrite V, zlen_map_nth.
      replace (idx >=? zlen l) with false by lia.
      rewrite znth_nat in * by lia. rewrite (nth_error_map_nth_same _ _ _ _ Ex), IH. reflexivity.
    + cbn [subst_at get_walk]. unfold get_single_path. rewrite V. cbn [negb].
      rewrite object_get_member, (member_map_member_same _ _ _ _ Ex), IH. reflexivity.
Qed.

(* where set works: the parent the model's walk reaches and the last token as written *)
Definition set_site (t : jv) (p : list byte) : option (loc * jv * list byte) :=
  match p with
  | c :: s =>
      if c =? 47 then
        match get_walk t (removelast (split_slash s)) with
        | GOk ppath parent => Some (ppath, parent, last (split_slash s) [])
        | GErr _ => None
        end
      else None
  | [] => None
  end.

(* "-" on an array appends: by RFC 6901 the same pointer then still denotes the (new)
   nonexistent element after the last one, so no lookup can return the value *)
Definition is_append_site (t : jv) (p : list byte) : bool :=
  match set_site t p with Some (_, JArr _, tok) => is_dash tok | _ => false end.

(* a following lookup of the same pointer returns the value just set *)
Theorem set_then_get : forall al t p v t',
  ptr_set al t p v = SOk t' -> t' <> JNull -> is_append_site t p = false ->
  exists path, ptr_get t' p = GOk path v /\ node_at t' path = Some v.
Proof.
  intros al t p v t' Hs Hnn Happ.
  assert (Hg : exists path, ptr_get t' p = GOk path v).
  2:{ destruct Hg as [path Hg]. exists path. split; [exact Hg|]. eapply get_returns_node_at_path; eauto. }
  unfold ptr_get. replace (is_null t') with false by (destruct t'; congruence || reflexivity).
  unfold ptr_set in Hs. destruct p as [|c s].
  { cbn in Hs. inversion Hs. subst. eauto. }
  unfold is_append_site, set_site in *. unfold get_recursive.
  destruct (c =? 47) eqn:Ec.
  2:{ unfold ptr_set_with_array_cb in Hs. rewrite Ec in Hs. discriminate. }
  apply Z.eqb_eq in Ec. subst c. rewrite ptr_set_unfold in Hs.
  rewrite (tokens_split_last s). set (ptoks := removelast (split_slash s)) in *.
  set (tok := last (split_slash s) []) in *. clearbody ptoks tok.
  destruct (get_walk t ptoks) as [ppath parent|] eqn:W; [|discriminate].
  destruct (set_single_path array_put_idx_cb al parent tok v) as [parent'|] eqn:S; [|discriminate].
  inversion Hs. subst t'. clear Hs.
  rewrite walk_app, (walk_subst _ _ _ _ parent' W). cbn [get_walk].
  unfold set_single_path in S. destruct parent as [| | | | | |l|ms]; try discriminate.
  - rewrite Happ in S. destruct (is_valid_index tok) as [idx sat|] eqn:V; [|discriminate].
    pose proof (is_valid_index_nonneg _ _ _ V) as Hi.
    assert (Hl : parent' = JArr (array_put l idx v)).
    { unfold array_put_idx_cb in S. destruct (idx >? SIZE_MAX - 1); [discriminate|].
      destruct (idx <? zlen l); [inversion S; reflexivity|].
      destruct (idx + 1 >? SIZE_MAX / 8); [discriminate|]. destruct (al (idx + 1)); inversion S; reflexivity. }
    subst parent'. unfold get_single_path. rewrite V.
    pose proof (zlen_array_put l idx v Hi). replace (idx >=? zlen (array_put l idx v)) with false by lia.
    rewrite znth_array_put_same by lia. eauto.
  - destruct (is_valid_escaping tok) eqn:V; cbn [negb] in S; [|discriminate]. inversion S. subst parent'.
    unfold get_single_path. rewrite V. cbn [negb].
    rewrite object_get_member, member_object_add_same. eauto.
Qed.
(* ================================================================ set: the frame *)

(* neither location is an ancestor of (or equal to) the other *)
Definition incomparable (q site : loc) : Prop :=
  (forall r, site <> q ++ r) /\ (forall r, q <> site ++ r).

(* an element the array gained because the index lay beyond its end: JSON null between the
   old end and the index (json_object_array_put_idx) *)
Definition pad_slot (a : jv) (site q : loc) (n : jv) : Prop :=
  n = JNull /\ exists pp l i j,
    site = pp ++ [inr i] /\ node_at a pp = Some (JArr l) /\ q = pp ++ [inr j] /\ zlen l <= j < i.

(* [a'] differs from [a] at most at [site] (and below it), up to such null padding *)
Definition frame_rel (a a' : jv) (site : loc) : Prop :=
  forall q, incomparable q site -> forall n,
    (node_at a q = Some n -> node_at a' q = Some n) /\
    (node_at a' q = Some n -> node_at a q = Some n \/ pad_slot a site q n).

Lemma incomparable_tail (x : step) r s : incomparable (x :: r) (x :: s) -> incomparable r s.
Proof.
  intros [H1 H2]. split; intros r0 E.
  - apply (H1 r0). cbn. rewrite E. reflexivity.
  - apply (H2 r0). cbn. rewrite E. reflexivity.
Qed.

Lemma incomparable_nonnil q st s : incomparable q (st :: s) -> q <> [].
Proof. intros [H1 _] ->. apply (H1 (st :: s)). reflexivity. Qed.

Lemma key_eq_dec (a b : list byte) : {a = b} + {a <> b}.
Proof. apply list_eq_dec. apply Z.eq_dec. Qed.

Lemma frame_obj ms k v : frame_rel (JObj ms) (JObj (object_add ms k v)) [inl k].
Proof.
  intros q Hq n. destruct q as [|[k'|j] r].
  - exfalso. eapply incomparable_nonnil; eauto.
  - destruct (key_eq_dec k' k) as [->|Hne].
    + exfalso. destruct Hq as [_ H2]. apply (H2 r). reflexivity.
    + cbn [node_at]. rewrite member_object_add_other by exact Hne. auto.
  - cbn. split; discriminate.
Qed.

Lemma node_at_null r n : node_at JNull r = Some n -> r = [] /\ n = JNull.
Proof. destruct r as [|[k|i] r]; cbn; [intros H; inversion H; auto|discriminate|discriminate]. Qed.

Lemma frame_arr l i v : 0 <= i -> frame_rel (JArr l) (JArr (array_put l i v)) [inr i].
Proof.
  intros Hi q Hq n. destruct q as [|[k'|j] r].
  - exfalso. eapply incomparable_nonnil; eauto.
  - cbn. split; discriminate.
  - destruct (Z.eq_dec j i) as [->|Hne].
    + exfalso. destruct Hq as [_ H2]. apply (H2 r). reflexivity.
    + cbn [node_at]. rewrite znth_array_put_other by assumption. split.
      * destruct (znth l j) as [c|] eqn:E; [|discriminate]. pose proof (znth_some_range _ _ _ E).
        replace (j <? zlen l) with true by lia. auto.
      * destruct (j <? zlen l); [auto|]. destruct ((zlen l <=? j) && (j <? i)) eqn:E; [|discriminate].
        intros H. apply node_at_null in H. destruct H as [-> ->]. right. split; [reflexivity|].
        exists [], l, i, j. cbn. repeat split; lia.
Qed.

Lemma pad_slot_lift a st c s r n : node_at a [st] = Some c -> pad_slot c s r n -> pad_slot a (st :: s) (st :: r) n.
Proof.
  intros Hc [Hn (pp & l & i & j & Hs & Hl & Hr & Hj)]. split; [exact Hn|].
  exists (st :: pp), l, i, j. subst s r. repeat split; try lia.
  rewrite (node_at_cons _ _ _ _ Hc). exact Hl.
Qed.

Lemma frame_lift_obj ms k f c s :
  member ms k = Some c -> frame_rel c (f c) s -> frame_rel (JObj ms) (JObj (map_member k f ms)) (inl k :: s).
Proof.
  intros Hm F q Hq n. destruct q as [|[k'|j] r].
  - exfalso. eapply incomparable_nonnil; eauto.
  - destruct (key_eq_dec k' k) as [->|Hne].
    + apply incomparable_tail in Hq. cbn [node_at]. rewrite Hm, (member_map_member_same _ _ _ _ Hm).
      destruct (F r Hq n) as [F1 F2]. split; [exact F1|]. intros H. destruct (F2 H) as [H'|H']; [auto|].
      right. eapply pad_slot_lift; [|exact H']. cbn. rewrite Hm. reflexivity.
    + cbn [node_at]. rewrite member_map_member_other by exact Hne. auto.
  - cbn. split; discriminate.
Qed.

Lemma frame_lift_arr l i f c s :
  znth l i = Some c -> frame_rel c (f c) s -> frame_rel (JArr l) (JArr (map_nth (Z.to_nat i) f l)) (inr i :: s).
Proof.
  intros Hm F q Hq n. pose proof (znth_some_range _ _ _ Hm) as R. destruct q as [|[k'|j] r].
  - exfalso. eapply incomparable_nonnil; eauto.
  - cbn. split; discriminate.
  - destruct (Z.eq_dec j i) as [->|Hne].
    + apply incomparable_tail in Hq. cbn [node_at]. rewrite Hm.
      assert (Hm' : znth (map_nth (Z.to_nat i) f l) i = Some (f c)).
      { rewrite znth_nat in * by lia. apply nth_error_map_nth_same. exact Hm. }
      rewrite Hm'. destruct (F r Hq n) as [F1 F2]. split; [exact F1|]. intros H. destruct (F2 H) as [H'|H']; [auto|].
      right. eapply pad_slot_lift; [|exact H']. cbn. rewrite Hm. reflexivity.
    + cbn [node_at].
      assert (Hj : znth (map_nth (Z.to_nat i) f l) j = znth l j).
      { unfold znth. destruct (j <? 0) eqn:Ej; [reflexivity|]. apply nth_error_map_nth_other. lia. }
      rewrite Hj. auto.
Qed.

Lemma frame_walk : forall ptoks n ppath parent parent' s,
  get_walk n ptoks = GOk ppath parent -> frame_rel parent parent' s ->
  frame_rel n (subst_at ppath parent' n) (ppath ++ s).
Proof.
  induction ptoks as [|tok rest IH]; intros n ppath parent parent' s W F.
  - cbn in W. inversion W. subst. exact F.
  - cbn [get_walk] in W. destruct (get_single_path n tok) as [st c|] eqn:S; [|discriminate].
    destruct (get_walk c rest) as [p' y|] eqn:Wr; [|discriminate]. inversion W. subst. clear W.
    specialize (IH c p' parent parent' s Wr F).
    destruct (gsp_ok_inv _ _ _ _ S) as [(l & idx & sat & -> & V & -> & Ex) | (ms & -> & V & -> & Ex)].
    + pose proof (znth_some_range _ _ _ Ex) as R. cbn [subst_at app]. replace (idx <? 0) with false by lia.
      apply frame_lift_arr with (c := c); assumption.
    + cbn [subst_at app]. apply frame_lift_obj with (c := c); assumption.
Qed.

Lemma node_at_app : forall a n b,
  node_at n (a ++ b) = match node_at n a with Some x => node_at x b | None => None end.
Proof.
  induction a as [|[k|i] r IH]; intros n b; [reflexivity| |]; cbn [app node_at]; destruct n; try reflexivity.
  - destruct (member l k); [apply IH|reflexivity].
  - destruct (znth l i); [apply IH|reflexivity].
Qed.

(* the location where set puts the value, as the code computes it *)
Definition set_loc (t : jv) (p : list byte) : option loc :=
  match p with
  | [] => Some []
  | _ =>
      match set_site t p with
      | Some (ppath, JArr l, tok) =>
          if is_dash tok then Some (ppath ++ [inr (zlen l)])
          else match is_valid_index tok with
               | IOk idx _ => Some (ppath ++ [inr idx])
               | IErr _ => None
               end
      | Some (ppath, JObj _, tok) => Some (ppath ++ [inl (unescape_in_place tok)])
      | _ => None
      end
  end.

(* set changes nothing else: the value sits at the location, and every location that is
   neither above nor below it holds what it held before (new ones are only null padding) *)
Theorem set_frame : forall al t p v t',
  ptr_set al t p v = SOk t' ->
  exists site, set_loc t p = Some site /\ node_at t' site = Some v /\ frame_rel t t' site.
Proof.
  intros al t p v t' Hs. unfold ptr_set in Hs. destruct p as [|c s].
  { cbn in Hs. inversion Hs. subst. exists []. split; [reflexivity|]. split; [reflexivity|].
    intros q [_ H2]. exfalso. apply (H2 q). reflexivity. }
  unfold set_loc, set_site. destruct (c =? 47) eqn:Ec.
  2:{ unfold ptr_set_with_array_cb in Hs. rewrite Ec in Hs. discriminate. }
  apply Z.eqb_eq in Ec. subst c. rewrite ptr_set_unfold in Hs.
  set (ptoks := removelast (split_slash s)) in *. set (tok := last (split_slash s) []) in *. clearbody ptoks tok.
  destruct (get_walk t ptoks) as [ppath parent|] eqn:W; [|discriminate].
  destruct (set_single_path array_put_idx_cb al parent tok v) as [parent'|] eqn:S; [|discriminate].
  inversion Hs. subst t'. clear Hs.
  assert (Hcore : exists st, (match parent with
                              | JArr l => if is_dash tok then Some (ppath ++ [inr (zlen l)])
                                          else match is_valid_index tok with IOk idx _ => Some (ppath ++ [inr idx]) | IErr _ => None end
                              | JObj _ => Some (ppath ++ [inl (unescape_in_place tok)])
                              | _ => None end) = Some (ppath ++ [st])
                             /\ node_at parent' [st] = Some v /\ frame_rel parent parent' [st]).
  { unfold set_single_path in S. destruct parent as [| | | | | |l|ms]; try discriminate.
    - destruct (is_dash tok) eqn:Ed.
      + unfold array_add in S. destruct (al (zlen l + 1)); [|discriminate]. inversion S. subst parent'.
        pose proof (zlen_nonneg l) as Hl. exists (inr (zlen l)). rewrite <- array_put_append.
        split; [reflexivity|]. split; [cbn; rewrite znth_array_put_same by lia; reflexivity|].
        apply frame_arr; lia.
      + destruct (is_valid_index tok) as [idx sat|] eqn:V; [|discriminate].
        pose proof (is_valid_index_nonneg _ _ _ V) as Hi.
        assert (Hl : parent' = JArr (array_put l idx v)).
        { unfold array_put_idx_cb in S. destruct (idx >? SIZE_MAX - 1); [discriminate|].
          destruct (idx <? zlen l); [inversion S; reflexivity|].
          destruct (idx + 1 >? SIZE_MAX / 8); [discriminate|]. destruct (al (idx + 1)); inversion S; reflexivity. }
        subst parent'. exists (inr idx). split; [reflexivity|].
        split; [cbn; rewrite znth_array_put_same by lia; reflexivity|]. apply frame_arr; lia.
    - destruct (negb (is_valid_escaping tok)); [discriminate|]. inversion S. subst parent'.
      exists (inl (unescape_in_place tok)). split; [reflexivity|].
      split; [cbn; rewrite member_object_add_same; reflexivity|]. apply frame_obj. }
  destruct Hcore as (st & Hloc & Hv & Hf).
  exists (ppath ++ [st]). split; [exact Hloc|]. split.
  - rewrite node_at_app. rewrite (walk_node_at _ _ _ _ (walk_subst _ _ _ _ parent' W)). exact Hv.
  - eapply frame_walk; eauto.
Qed.

(* ================================================================ get_internal (for json_patch.c) *)

(* json_pointer_get is json_pointer_get_internal with the parent information dropped *)
Theorem get_internal_get : forall t p,
  match ptr_get_internal t p with
  | GIOk r => ptr_get t p = GOk (r_path r) (r_obj r)
  | GIErr e => ptr_get t p = GErr e
  end.
Proof.
  intros t p. unfold ptr_get_internal, ptr_get. destruct (is_null t); [reflexivity|].
  destruct p as [|c s]; [reflexivity|]. unfold get_recursive. destruct (c =? 47); [|reflexivity].
  pose proof (tokens_split_last s) as Ht. set (toks := split_slash s) in *.
  destruct (get_walk t toks) as [path n|e] eqn:W.
  - destruct (get_walk t (removelast toks)) as [ppath parent|e'] eqn:Wp; [reflexivity|].
    exfalso. rewrite Ht, walk_app, Wp in W. discriminate.
  - destruct (get_walk t (removelast toks)); reflexivity.
Qed.

(* ================================================================ printf variants, side effects *)

(* the formatting oracle: whatever vasprintf makes of the format and its arguments *)
Section Formatted.
  Variables (fmt args : Type) (vasprintf : fmt -> args -> option (list byte)).

  Theorem getf_as_plain : forall t f a out,
    vasprintf f a = Some out -> ptr_getf t (vasprintf f a) = ptr_get t out.
  Proof.
    intros t f a out ->. unfold ptr_getf, ptr_get. destruct (is_null t); [reflexivity|]. destruct out; reflexivity.
  Qed.

  Theorem setf_as_plain : forall al t f a out v,
    vasprintf f a = Some out -> ptr_setf al t (vasprintf f a) v = ptr_set al t out v.
  Proof.
    intros al t f a out v ->. unfold ptr_setf, ptr_set, ptr_set_with_array_cb. destruct out as [|c s]; reflexivity.
  Qed.
End Formatted.

(* In the model a lookup has no access to the tree it could change, and a failed set returns
   no tree: "no side effect" is how [ptr_step] is written.  What ties this to the C code is
   the dump of the whole tree that both drivers print after every operation. *)
Theorem get_no_side_effect : forall al t o t' obs,
  ptr_step al t o = (t', obs) ->
  match o, obs with
  | OGet _ _, _ | OGetf _ _, _ => t' = t
  | _, ObsSet (Some _) root_new => t' = t /\ root_new = false
  | _, _ => True
  end.
Proof.
  intros al t o t' obs. destruct o as [p w|out w|p v|out v]; cbn [ptr_step].
  - destruct (ptr_get_out t p (res_arg w)). intros H. inversion H. reflexivity.
  - destruct (ptr_getf_out t out (res_arg w)). intros H. inversion H. reflexivity.
  - destruct (ptr_set al t p v); intros H; inversion H; auto.
  - destruct (ptr_setf al t out v); intros H; inversion H; auto.
Qed.

(* ---- "a failed call changes nothing the caller can see": the out-parameter *)

(* the return code / errno / node of the calls with an out-parameter are those of the plain
   functions, so every theorem above carries over *)
Lemma get_out_result : forall t p res, fst (ptr_get_out t p res) = ptr_get t p.
Proof. intros. unfold ptr_get_out. destruct (ptr_get t p); reflexivity. Qed.

Lemma getf_out_result : forall t out res, fst (ptr_getf_out t out res) = ptr_getf t out.
Proof.
  intros. unfold ptr_getf_out, ptr_getf. destruct (is_null t); [reflexivity|].
  destruct out as [[|c s]|]; try reflexivity. destruct (get_recursive t (c :: s)); reflexivity.
Qed.

(* a failing lookup leaves the caller's result variable exactly as it was (whatever it held,
   and also when none was passed) *)
Theorem get_failure_keeps_res : forall t p res e res',
  ptr_get_out t p res = (GErr e, res') -> res' = res.
Proof.
  intros t p res e res'. unfold ptr_get_out. destruct (ptr_get t p); intros H; inversion H; reflexivity.
Qed.

Theorem getf_failure_keeps_res : forall t out res e res',
  ptr_getf_out t out res = (GErr e, res') -> res' = res.
Proof.
  intros t out res e res'. unfold ptr_getf_out. destruct (is_null t); [intros H; inversion H; reflexivity|].
  destruct out as [[|c s]|]; try (intros H; inversion H; reflexivity).
  destruct (get_recursive t (c :: s)); intros H; inversion H; reflexivity.
Qed.

(* a successful one stores the node found (the one at the reported location) when a variable
   was passed, and nothing when res == NULL *)
Theorem get_success_stores_node : forall t p res path n res',
  ptr_get_out t p res = (GOk path n, res') ->
  res' = match res with Some _ => Some (RNode path n) | None => None end /\ node_at t path = Some n.
Proof.
  intros t p res path n res'. unfold ptr_get_out. destruct (ptr_get t p) as [path0 n0|] eqn:G; intros H; inversion H; subst.
  split; [reflexivity|]. eapply get_returns_node_at_path; eauto.
Qed.

Theorem getf_success_stores_node : forall t out res path n res',
  ptr_getf_out t out res = (GOk path n, res') ->
  res' = match res with Some _ => Some (RNode path n) | None => None end.
Proof.
  intros t out res path n res'. unfold ptr_getf_out. destruct (is_null t); [discriminate|].
  destruct out as [[|c s]|]; try discriminate.
  - intros H. inversion H. reflexivity.
  - destruct (get_recursive t (c :: s)); intros H; inversion H; reflexivity.
Qed.

(* the root handle of set / setf changes only in the "" case, which cannot fail *)
Theorem set_root_handle : forall al t p v,
  match ptr_set al t p v with
  | SErr _ => True                                   (* [ptr_step]: handle and tree as before *)
  | SOk t' => if root_replaced t p v then p = [] /\ t' = v else (p = [] -> t' = t)
  end.
Proof.
  intros al t p v. unfold ptr_set, ptr_set_with_array_cb, root_replaced. destruct p as [|c s].
  - destruct (negb (is_null t && is_null v)) eqn:E; [auto|]. intros _.
    apply negb_false_iff, andb_true_iff in E. destruct E as [Et Ev]. destruct t; try discriminate. destruct v; try discriminate. reflexivity.
  - destruct (negb (c =? 47)); [exact I|].
    destruct (removelast (split_slash s)).
    + destruct (set_single_path _ _ _ _ _); [discriminate|exact I].
    + destruct (get_walk t (l :: l0)); [|exact I]. destruct (set_single_path _ _ _ _ _); [discriminate|exact I].
Qed.

(* ================================================================ examples (non-vacuity) *)
From Coq Require Import String Ascii.

Definition bs (s : string) : list byte := map (fun c => Z.of_N (N_of_ascii c)) (list_ascii_of_string s).
Definition room : alloc := fun _ => true.

(* The four inputs on which json_pointer.c used to leave RFC 6901 (fixed in /repo by the
   commits named in known_findings.json), now as examples of the repaired behaviour. *)

(* {"a":[null]}, "/a/0": the JSON null element is the target *)
Lemma null_element_is_target :
  let t := JObj [(bs "a", JArr [JNull])] in
  get_repr t (bs "/a/0") = true /\
  ptr_get t (bs "/a/0") = GOk [inl (bs "a"); inr 0] JNull /\
  spec_get t (bs "/a/0") = Some ([inl (bs "a"); inr 0], JNull) /\
  (* and a value set to null is found again *)
  ptr_set room (JArr [JInt 1]) (bs "/0") JNull = SOk (JArr [JNull]) /\
  ptr_get (JArr [JNull]) (bs "/0") = GOk [inr 0] JNull.
Proof. vm_compute. auto 10. Qed.

(* {"a":[7]}, "/a/": the empty token is not an index, for get and for set *)
Lemma empty_token_is_no_index :
  let t := JObj [(bs "a", JArr [JInt 7])] in
  ptr_get t (bs "/a/") = GErr EINVAL /\ spec_get t (bs "/a/") = None /\
  ptr_set room t (bs "/a/") (JInt 9) = SErr EINVAL /\ spec_set t (bs "/a/") (JInt 9) = None /\
  (* on an object the empty token is the member "" *)
  ptr_set room (JObj []) (bs "/") (JInt 9) = SOk (JObj [(bs "", JInt 9)]).
Proof. vm_compute. auto 10. Qed.

(* {}, "/x~1y" := 1: the member is "x/y", and the same pointer finds it *)
Lemma set_unescapes_last_token :
  ptr_set room (JObj []) (bs "/x~1y") (JInt 1) = SOk (JObj [(bs "x/y", JInt 1)]) /\
  spec_set (JObj []) (bs "/x~1y") (JInt 1) = Some (JObj [(bs "x/y", JInt 1)]) /\
  ptr_get (JObj [(bs "x/y", JInt 1)]) (bs "/x~1y") = GOk [inl (bs "x/y")] (JInt 1) /\
  ptr_set room (JObj [(bs "m~n", JInt 8)]) (bs "/m~0n") (JInt 9) = SOk (JObj [(bs "m~n", JInt 9)]).
Proof. vm_compute. auto 10. Qed.

(* {"~2":1}, "/~2" and "/b~": not JSON Pointers (RFC 6901 section 3) *)
Lemma invalid_escape_is_rejected :
  let t := JObj [(bs "~2", JInt 1)] in
  ptr_get t (bs "/~2") = GErr EINVAL /\ spec_get t (bs "/~2") = None /\
  ptr_get t (bs "/~02") = GOk [inl (bs "~2")] (JInt 1) /\
  ptr_set room (JObj []) (bs "/b~") (JInt 5) = SErr EINVAL /\ spec_set (JObj []) (bs "/b~") (JInt 5) = None.
Proof. vm_compute. auto 10. Qed.

(* RFC 6901 section 5: the example document and its twelve pointers *)
Definition rfc_doc : jv :=
  JObj [ (bs "foo", JArr [JStr (bs "bar"); JStr (bs "baz")]); (bs "", JInt 0); (bs "a/b", JInt 1);
         (bs "c%d", JInt 2); (bs "e^f", JInt 3); (bs "g|h", JInt 4); (bs "i\j", JInt 5);
         (bs "k" ++ [34] ++ bs "l", JInt 6); (bs " ", JInt 7); (bs "m~n", JInt 8) ].

Definition rfc_cases : list (list byte * jv) :=
  [ (bs "", rfc_doc); (bs "/foo", JArr [JStr (bs "bar"); JStr (bs "baz")]); (bs "/foo/0", JStr (bs "bar"));
    (bs "/", JInt 0); (bs "/a~1b", JInt 1); (bs "/c%d", JInt 2); (bs "/e^f", JInt 3); (bs "/g|h", JInt 4);
    (bs "/i\j", JInt 5); (bs "/k" ++ [34] ++ bs "l", JInt 6); (bs "/ ", JInt 7); (bs "/m~0n", JInt 8) ].

Definition rfc_case_ok (c : list byte * jv) : bool :=
  get_repr rfc_doc (fst c) &&
  match ptr_get rfc_doc (fst c), spec_get rfc_doc (fst c) with
  | GOk path n, Some (path', n') =>
      match node_at rfc_doc path with Some _ => true | None => false end &&
      (Nat.eqb (List.length path) (List.length path'))
  | _, _ => false
  end.

Lemma rfc_examples_hold : forallb rfc_case_ok rfc_cases = true.
Proof. vm_compute. reflexivity. Qed.

(* get_internal on the RFC document: the parent, the last token as written, the index *)
Lemma get_internal_example :
  ptr_get_internal rfc_doc (bs "/foo/1") =
    GIOk (mk_get_result [inl (bs "foo"); inr 1] (JStr (bs "baz"))
            (Some ([inl (bs "foo")], JArr [JStr (bs "bar"); JStr (bs "baz")])) None 1) /\
  (match ptr_get_internal rfc_doc (bs "/m~0n") with
   | GIOk r => r_path r = [inl (bs "m~n")] /\ r_key_in_parent r = Some (bs "m~0n") /\ r_obj r = JInt 8
   | GIErr _ => False
   end).
Proof. vm_compute. auto. Qed.

(* a set with an escaped inner token and an index beyond the end *)
Lemma set_example :
  let t := JObj [(bs "a/b", JObj [(bs "l", JArr [JInt 0])])] in
  let p := bs "/a~1b/l/3" in
  set_repr t p = true /\ is_append_site t p = false /\
  ptr_set room t p (JInt 7) = SOk (JObj [(bs "a/b", JObj [(bs "l", JArr [JInt 0; JNull; JNull; JInt 7])])]) /\
  spec_set t p (JInt 7) = Some (JObj [(bs "a/b", JObj [(bs "l", JArr [JInt 0; JNull; JNull; JInt 7])])]) /\
  set_loc t p = Some [inl (bs "a/b"); inl (bs "l"); inr 3].
Proof. vm_compute. auto 10. Qed.

(* strtoull saturation: an index of 23 nines on a set is refused with ERANGE left in errno *)
Lemma set_saturated_index_example :
  ptr_set room (JArr [JInt 0]) (bs "/99999999999999999999999") (JInt 1) = SErr ERANGE /\
  ptr_get (JArr [JInt 0]) (bs "/99999999999999999999999") = GErr ENOENT /\
  ptr_get (JArr [JInt 0]) (bs "/01") = GErr EINVAL /\
  ptr_get (JArr [JInt 0]) (bs "/-") = GErr EINVAL /\
  ptr_get (JArr [JInt 0]) (bs "/1") = GErr ENOENT /\
  ptr_get (JArr [JInt 0]) (bs "0") = GErr EINVAL.
Proof. vm_compute. auto 10. Qed.
