(* SerRoundtrip.v — C02, the round trip for ALL trees: the text the serializer (SerModel.v)
   emits for a tree is the rendering of a TokSyntax syntax tree whose value is the tree in
   the normal form the parser builds ([reparsed]); parse_valid (TokValid.v) then gives:
   json-c re-parses its own output, the result is json_object_equal to the original and
   serializes to the same text.  Names of SerSpec/SerModel that clash with the tokener
   side are written qualified. *)
From JC Require Import Base BaseLemmas Value SerModel SerSpec SerProofs.
From JC Require EqModel.
From JC Require Import TokModel TokProofs TokSyntax TokValidBase TokValidLit TokValidNum TokValidStr TokValidObj TokValid.
Local Open Scope Z_scope.

(* ---------------------------------------------------------------- number tokens *)
Definition trn (n : SerSpec.numtok) : TokSyntax.numtok :=
  TokSyntax.mknum (SerSpec.n_neg n) (SerSpec.n_int n) (SerSpec.n_frac n)
    (match SerSpec.n_exp n with
     | Some (up, sg, ds) =>
         Some (if up then 69 else 101, match sg with ENone => None | EPlus => Some 43 | EMinus => Some 45 end, ds)
     | None => None
     end).

Lemma trn_render n : TokSyntax.render_num (trn n) = SerSpec.render_num n.
Proof.
  destruct n as [neg i f e]. unfold TokSyntax.render_num, SerSpec.render_num, trn.
  cbn [TokSyntax.n_neg TokSyntax.n_int TokSyntax.n_frac TokSyntax.n_exp SerSpec.n_neg SerSpec.n_int SerSpec.n_frac SerSpec.n_exp].
  assert (EF : TokSyntax.render_frac f = SerSpec.render_frac f) by (destruct f; reflexivity).
  rewrite EF. do 3 f_equal. destruct e as [[[up sg] ds]|]; [|reflexivity].
  destruct up, sg; reflexivity.
Qed.

Lemma digits1_all ds : digits1 ds = true -> all_digits ds = true /\ ds <> [].
Proof. intros H. destruct (digits1_forall ds H) as [H1 H2]. split; [exact H1|exact H2]. Qed.

Lemma trn_wf n : SerSpec.num_ok n = true -> wf_num (trn n) = true.
Proof.
  destruct n as [neg i f e]. intros H. apply num_ok_iff in H. destruct H as (O1 & O2 & O3 & O4).
  unfold wf_num, trn. cbn [TokSyntax.n_int TokSyntax.n_frac TokSyntax.n_exp SerSpec.n_neg SerSpec.n_int SerSpec.n_frac SerSpec.n_exp].
  destruct (digits1_all i O1) as [Hi Hne].
  assert (W1 : wf_int i = true).
  { unfold wf_int. destruct i as [|d r]; [congruence|]. rewrite Hi. cbn [andb]. unfold lead_ok in O2.
    destruct r; [destruct (d =? 48); reflexivity|]. destruct (d =? 48); [discriminate|reflexivity]. }
  assert (W2 : wf_frac f = true).
  { destruct f as [fd|]; [|reflexivity]. cbn [frac_ok] in O3. destruct (digits1_all fd O3) as [Hf Hfn].
    unfold wf_frac. rewrite Hf. destruct fd; [congruence|reflexivity]. }
  assert (W3 : wf_exp (match e with
     | Some (up, sg, ds) => Some (if up then 69 else 101, match sg with ENone => None | EPlus => Some 43 | EMinus => Some 45 end, ds)
     | None => None end) = true).
  { destruct e as [[[up sg] ds]|]; [|reflexivity]. cbn [exp_ok] in O4. destruct (digits1_all ds O4) as [Hd Hdn].
    unfold wf_exp. rewrite Hd. destruct ds; [congruence|]. destruct up, sg; reflexivity. }
  rewrite W1, W2, W3. reflexivity.
Qed.

Lemma trn_not_int n : (SerSpec.n_frac n <> None \/ SerSpec.n_exp n <> None) -> is_int_tok (trn n) = false.
Proof.
  destruct n as [neg i f e]. unfold is_int_tok, trn. cbn [TokSyntax.n_frac TokSyntax.n_exp SerSpec.n_frac SerSpec.n_exp].
  intros [H|H]; destruct f; try congruence; try reflexivity. destruct e as [[[? ?] ?]|]; [reflexivity|congruence].
Qed.

(* the token of an integer node *)
Definition int_tok (z : Z) : TokSyntax.numtok := TokSyntax.mknum (z <? 0) (dec_u (Z.abs z)) None None.
Lemma int_tok_spec z :
  wf_num (int_tok z) = true /\ TokSyntax.render_num (int_tok z) = dec_s z /\
  is_int_tok (int_tok z) = true /\ dec_value (dec_u (Z.abs z)) = Z.abs z.
Proof.
  destruct (dec_u_spec (Z.abs z) (Z.abs_nonneg z)) as (H1 & H2 & H3).
  destruct (digits1_all _ H1) as [Hd Hne].
  split; [|split; [|split; [reflexivity|exact H2]]].
  - unfold wf_num, int_tok. cbn [TokSyntax.n_int TokSyntax.n_frac TokSyntax.n_exp wf_frac wf_exp]. rewrite !andb_true_r.
    unfold wf_int. destruct (dec_u (Z.abs z)) as [|d r]; [congruence|]. rewrite Hd. cbn [andb].
    destruct r; [destruct (d =? 48); reflexivity|]. destruct (d =? 48); [discriminate|reflexivity].
  - unfold TokSyntax.render_num, int_tok, dec_s. cbn [TokSyntax.n_neg TokSyntax.n_int TokSyntax.n_frac TokSyntax.n_exp TokSyntax.render_frac TokSyntax.render_exp].
    rewrite !app_nil_r. destruct (z <? 0) eqn:E; cbn [app]; f_equal; f_equal; lia.
Qed.

(* ---------------------------------------------------------------- strings *)
Definition char_tx (fl : sflags) (c : byte) : TokSyntax.schar :=
  if c =? 8 then TokSyntax.CEsc Eb else if c =? 10 then TokSyntax.CEsc En else if c =? 13 then TokSyntax.CEsc Er
  else if c =? 9 then TokSyntax.CEsc Et else if c =? 12 then TokSyntax.CEsc Ef else if c =? 34 then TokSyntax.CEsc TokSyntax.EQuote
  else if c =? 92 then TokSyntax.CEsc TokSyntax.EBackslash
  else if c =? 47 then (if noslash fl then TokSyntax.CRaw 47 else TokSyntax.CEsc ESlash)
  else if c <? 32 then CUni 48 48 (SerModel.hexchar (c / 16)) (SerModel.hexchar (c mod 16))
  else TokSyntax.CRaw c.

Definition char_tx_ok (ns : bool) (c : byte) : bool :=
  bytes_eqb (render_schar (char_tx (fl_ns ns) c)) (escape_char (fl_ns ns) c) &&
  wf_schar (char_tx (fl_ns ns) c) &&
  bytes_eqb (fst (dstep 0 (char_tx (fl_ns ns) c))) [c] && (snd (dstep 0 (char_tx (fl_ns ns) c)) =? 0).

Lemma char_tx_sweep ns c : 0 <= c < 256 -> char_tx_ok ns c = true.
Proof.
  intros Hc.
  assert (Ht : forallb (char_tx_ok true) (zrange 0 256) = true) by (vm_compute; reflexivity).
  assert (Hf : forallb (char_tx_ok false) (zrange 0 256) = true) by (vm_compute; reflexivity).
  destruct ns; [apply (TokProofs.zrange_forall _ _ 0 Ht)|apply (TokProofs.zrange_forall _ _ 0 Hf)]; lia.
Qed.

Lemma char_tx_spec fl c : byte_ok c ->
  render_schar (char_tx fl c) = escape_char fl c /\ wf_schar (char_tx fl c) = true /\ dstep 0 (char_tx fl c) = ([c], 0).
Proof.
  intros Hc. pose proof (char_tx_sweep (noslash fl) c Hc) as H. unfold char_tx_ok in H.
  apply andb_true_iff in H. destruct H as [H H4]. apply andb_true_iff in H. destruct H as [H H3].
  apply andb_true_iff in H. destruct H as [H1 H2].
  change (char_tx (fl_ns (noslash fl)) c) with (char_tx fl c) in *. change (escape_char (fl_ns (noslash fl)) c) with (escape_char fl c) in *.
  split; [apply SerProofs.bytes_eqb_eq; exact H1|]. split; [exact H2|].
  destruct (dstep 0 (char_tx fl c)) as [bs h]. cbn [fst snd] in *. f_equal; [apply SerProofs.bytes_eqb_eq; exact H3|lia].
Qed.

Lemma str_tx_spec fl s : Forall byte_ok s ->
  render_str (map (char_tx fl) s) = quoted fl s /\ wf_chars (map (char_tx fl) s) = true /\ decode (map (char_tx fl) s) = s.
Proof.
  intros H.
  assert (E : render_chars (map (char_tx fl) s) = escape_str fl s /\ wf_chars (map (char_tx fl) s) = true /\ dec 0 (map (char_tx fl) s) = s).
  { induction H as [|c s Hc _ IH]; [repeat split|]. destruct IH as (I1 & I2 & I3).
    destruct (char_tx_spec fl c Hc) as (C1 & C2 & C3).
    cbn [map]. split; [|split].
    - change (render_chars (char_tx fl c :: map (char_tx fl) s)) with (render_schar (char_tx fl c) ++ render_chars (map (char_tx fl) s)).
      rewrite C1, I1. reflexivity.
    - cbn [wf_chars forallb]. rewrite C2. exact I2.
    - cbn [dec]. rewrite C3. cbn [fst snd app]. rewrite I3. reflexivity. }
  destruct E as (E1 & E2 & E3). split; [|split; [exact E2|]].
  - unfold render_str, quoted. rewrite E1. reflexivity.
  - rewrite <- dec_decode. exact E3.
Qed.

(* ---------------------------------------------------------------- container layout *)
Fixpoint mk_els (pre cl : TokSyntax.ws) (ss : list TokSyntax.stx) : list (TokSyntax.ws * TokSyntax.stx * TokSyntax.ws) :=
  match ss with
  | [] => []
  | s :: r => match r with [] => [(pre, s, cl)] | _ => (pre, s, []) :: mk_els pre cl r end
  end.
Fixpoint mk_mems (pre kw cl : TokSyntax.ws) (ks : list (list TokSyntax.schar * TokSyntax.stx)) : list mem :=
  match ks with
  | [] => []
  | k :: r => match r with [] => [(pre, fst k, [], kw, snd k, cl)] | _ => (pre, fst k, [], kw, snd k, []) :: mk_mems pre kw cl r end
  end.

Lemma join_cons_ne sep (x : list byte) r : r <> [] -> join sep (x :: r) = x ++ sep :: join sep r.
Proof. destruct r; [congruence|reflexivity]. Qed.

Lemma join_children_true pre x r : join_children pre (x :: r) true = 44 :: join_children pre (x :: r) false.
Proof. reflexivity. Qed.

Lemma join_els (f : TokSyntax.ws * TokSyntax.stx * TokSyntax.ws -> list byte) pre cl ss :
  (forall y, f y = render_el y) -> ss <> [] ->
  join 44 (map f (mk_els pre cl ss)) = join_children pre (map TokSyntax.render ss) false ++ cl.
Proof.
  intros Hf. induction ss as [|s r IH]; [congruence|]. intros _. destruct r as [|s2 r'].
  - cbn. rewrite Hf. cbn [render_el]. rewrite app_nil_r, <- !app_assoc. reflexivity.
  - change (mk_els pre cl (s :: s2 :: r')) with ((pre, s, []) :: mk_els pre cl (s2 :: r')).
    assert (Hne : map f (mk_els pre cl (s2 :: r')) <> []) by (destruct r'; discriminate).
    cbn [map]. rewrite (join_cons_ne 44 _ _ Hne), (IH ltac:(discriminate)).
    rewrite Hf. cbn [render_el map]. change (join_children pre (TokSyntax.render s :: TokSyntax.render s2 :: map TokSyntax.render r') false)
      with (pre ++ TokSyntax.render s ++ join_children pre (TokSyntax.render s2 :: map TokSyntax.render r') true).
    rewrite join_children_true, app_nil_r, <- !app_assoc. reflexivity.
Qed.

Definition kv_txt (kw : TokSyntax.ws) (k : list TokSyntax.schar * TokSyntax.stx) : list byte :=
  render_str (fst k) ++ 58 :: kw ++ TokSyntax.render (snd k).
Lemma join_mems (f : mem -> list byte) pre kw cl ks :
  (forall y, f y = render_mem y) -> ks <> [] ->
  join 44 (map f (mk_mems pre kw cl ks)) = join_children pre (map (kv_txt kw) ks) false ++ cl.
Proof.
  intros Hf. induction ks as [|s r IH]; [congruence|]. intros _. destruct r as [|s2 r'].
  - cbn [mk_mems map join join_children]. rewrite Hf. cbn [render_mem fst snd]. unfold kv_txt, render_str.
    repeat (rewrite <- ?app_assoc; cbn [app]; rewrite <- ?app_comm_cons). rewrite ?app_nil_r. reflexivity.
  - change (mk_mems pre kw cl (s :: s2 :: r')) with ((pre, fst s, [], kw, snd s, []) :: mk_mems pre kw cl (s2 :: r')).
    assert (Hne : map f (mk_mems pre kw cl (s2 :: r')) <> []) by (destruct r'; discriminate).
    cbn [map]. rewrite (join_cons_ne 44 _ _ Hne), (IH ltac:(discriminate)).
    rewrite Hf. cbn [render_mem map]. change (join_children pre (kv_txt kw s :: kv_txt kw s2 :: map (kv_txt kw) r') false)
      with (pre ++ kv_txt kw s ++ join_children pre (kv_txt kw s2 :: map (kv_txt kw) r') true).
    rewrite join_children_true. unfold kv_txt, render_str.
    repeat (rewrite <- ?app_assoc; cbn [app]; rewrite <- ?app_comm_cons). reflexivity.
Qed.

Lemma els_vals pre cl ss : map el_val (mk_els pre cl ss) = ss.
Proof.
  induction ss as [|s r IH]; [reflexivity|]. destruct r as [|s2 r']; [reflexivity|].
  change (mk_els pre cl (s :: s2 :: r')) with ((pre, s, []) :: mk_els pre cl (s2 :: r')). cbn [map]. rewrite IH. reflexivity.
Qed.
Lemma els_ok pre cl ss : all_ws pre = true -> all_ws cl = true ->
  forallb el_ok (mk_els pre cl ss) = forallb wf_stxb ss.
Proof.
  intros Hp Hcl. induction ss as [|s r IH]; [reflexivity|]. destruct r as [|s2 r'].
  - cbn. rewrite Hp, Hcl, !andb_true_r. reflexivity.
  - change (mk_els pre cl (s :: s2 :: r')) with ((pre, s, []) :: mk_els pre cl (s2 :: r')). cbn [forallb]. rewrite IH.
    cbn [el_ok all_ws forallb]. rewrite Hp, andb_true_r. reflexivity.
Qed.
Lemma mems_vals pre kw cl ks : map (fun m : mem => (m_name m, m_val m)) (mk_mems pre kw cl ks) = ks.
Proof.
  induction ks as [|s r IH]; [reflexivity|]. destruct r as [|s2 r']; [destruct s; reflexivity|].
  change (mk_mems pre kw cl (s :: s2 :: r')) with ((pre, fst s, [], kw, snd s, []) :: mk_mems pre kw cl (s2 :: r')). cbn [map]. rewrite IH.
  destruct s; reflexivity.
Qed.
Lemma mems_ok pre kw cl ks : all_ws pre = true -> all_ws kw = true -> all_ws cl = true ->
  forallb mem_ok (mk_mems pre kw cl ks) = forallb (fun k => wf_chars (fst k) && wf_stxb (snd k)) ks.
Proof.
  intros Hp Hk Hcl. induction ks as [|s r IH]; [reflexivity|]. destruct r as [|s2 r'].
  - cbn. rewrite Hp, Hk, Hcl, !andb_true_r. reflexivity.
  - change (mk_mems pre kw cl (s :: s2 :: r')) with ((pre, fst s, [], kw, snd s, []) :: mk_mems pre kw cl (s2 :: r')). cbn [forallb]. rewrite IH.
    cbn [mem_ok all_ws forallb]. rewrite Hp, Hk, !andb_true_r. reflexivity.
Qed.
Lemma forallb_map' {A B} (f : A -> B) (p : B -> bool) l : forallb p (map f l) = forallb (fun x => p (f x)) l.
Proof. induction l as [|x l IH]; [reflexivity|]. cbn. rewrite IH. reflexivity. Qed.

(* the blanks the flags choose, as bytes *)
Definition close_b (fl : sflags) (level : nat) (had : bool) : list byte :=
  (if pretty fl && had then 10 :: indent fl level else []) ++ (if spaced fl && negb (pretty fl) then [32] else []).
Lemma close_split fl level had c : container_close fl level had c = close_b fl level had ++ [c].
Proof.
  unfold container_close, close_b. destruct (spaced fl && negb (pretty fl)); rewrite <- app_assoc; reflexivity.
Qed.
Lemma all_ws_repeat b n : is_ws b = true -> all_ws (repeat b n) = true.
Proof. intros H. induction n; cbn; [reflexivity|]. rewrite H. exact IHn. Qed.
Lemma all_ws_app a b : all_ws (a ++ b) = all_ws a && all_ws b.
Proof. apply forallb_app. Qed.
Lemma all_ws_indent fl level : all_ws (indent fl level) = true.
Proof. unfold indent. destruct (pretty fl), (pretty_tab fl); try reflexivity; apply all_ws_repeat; reflexivity. Qed.
Lemma all_ws_prefix fl level : all_ws (child_prefix fl level) = true.
Proof.
  unfold child_prefix. rewrite !all_ws_app, all_ws_indent. destruct (pretty fl), (spaced fl); reflexivity.
Qed.
Lemma all_ws_close fl level had : all_ws (close_b fl level had) = true.
Proof.
  unfold close_b. rewrite all_ws_app. destruct (pretty fl && had).
  - cbn [all_ws forallb]. fold (all_ws (indent fl level)). rewrite all_ws_indent. destruct (spaced fl && negb (pretty fl)); reflexivity.
  - destruct (spaced fl && negb (pretty fl)); reflexivity.
Qed.
Lemma all_ws_colon fl : all_ws (if spaced fl then [32] else []) = true.
Proof. destruct (spaced fl); reflexivity. Qed.

(* ---------------------------------------------------------------- the tree the parser builds *)
Fixpoint jv_nest (v : jv) : nat :=
  match v with
  | JArr l => list_max (map (fun x => S (jv_nest x)) l)
  | JObj l => list_max (map (fun kv => S (jv_nest (snd kv))) l)
  | _ => 0%nat
  end.

Section RT.
Variable fmt17 : Z -> list byte.
Variable sb : list byte -> Z.

(* the normal form json-c gives a tree when it re-parses the text of the tree: a uint64 that
   fits int64 is an int64 node, every double retains its text, member names are C strings *)
Fixpoint reparsed (fl : sflags) (v : jv) : jv :=
  match v with
  | JUint z => if z <=? INT64_MAX then JInt z else JUint z
  | JDouble bits None => JDouble bits (Some (double_text fmt17 fl bits))
  | JDouble bits (Some t) => JDouble bits (Some (c_str t))
  | JArr l => JArr (map (reparsed fl) l)
  | JObj l => JObj (map (fun kv => (c_str (fst kv), reparsed fl (snd kv))) l)
  | _ => v
  end.

(* the guard: C ranges; byte strings; finite doubles; a retained text is an RFC 8259 number
   token with a fraction or an exponent (what the parser retains) that strtod reads as the
   double; member names are NUL-free byte strings, pairwise distinct (a json-c object
   cannot hold a name twice) *)
Definition rt_node_ok (fl : sflags) (v : jv) : Prop :=
  match v with
  | JInt z => INT64_MIN <= z <= INT64_MAX
  | JUint z => 0 <= z <= UINT64_MAX
  | JStr s => Forall byte_ok s
  | JDouble bits None => dbl_finite bits = true /\ sb (double_fixup fl (fmt17 bits)) = bits
  | JDouble bits (Some t) =>
      dbl_finite bits = true /\
      exists n, SerSpec.num_ok n = true /\ SerSpec.render_num n = c_str t /\
                (SerSpec.n_frac n <> None \/ SerSpec.n_exp n <> None) /\ sb (c_str t) = bits
  | JObj l => Forall (fun kv => Forall byte_ok (fst kv) /\ SerModel.has_byte 0 (fst kv) = false) l /\ NoDup (map fst l)
  | _ => True
  end.
(* (for a double without retained text: the strtod oracle reads the token the serializer emits back
   as that double — the 17-significant-digit round trip; NOZERO only removes trailing zeros of the
   fraction.)  The same hypothesis for all doubles at once: *)
Definition strtod_ok (fl : sflags) : Prop :=
  forall bits, dbl_finite bits = true -> sb (double_fixup fl (fmt17 bits)) = bits.

Lemma obj_add_fresh ms k v : ~ In k (map fst ms) -> TokModel.obj_add ms k v = ms ++ [(k, v)].
Proof.
  induction ms as [|[k' v'] r IH]; [reflexivity|]. cbn [map fst In TokModel.obj_add app]. intros H.
  destruct (bytes_eqb k' k) eqn:E; [apply TokProofs.bytes_eqb_eq in E; subst; tauto|]. rewrite IH by tauto. reflexivity.
Qed.
Lemma fold_add_nodup (T : list (list byte * jv)) : forall acc, NoDup (map fst acc ++ map fst T) ->
  fold_left (fun a kv => TokModel.obj_add a (fst kv) (snd kv)) T acc = acc ++ T.
Proof.
  induction T as [|[k v] r IH]; intros acc H; [rewrite app_nil_r; reflexivity|].
  cbn [fold_left fst snd]. cbn [map fst] in H.
  rewrite obj_add_fresh.
  - rewrite IH; [rewrite <- app_assoc; reflexivity|]. rewrite map_app. cbn [map fst]. rewrite <- app_assoc. exact H.
  - apply NoDup_remove_2 in H. intros Hin. apply H. apply in_or_app. left. exact Hin.
Qed.

Lemma c_str_no_nul t : SerModel.has_byte 0 (c_str t) = false.
Proof. induction t as [|c t IH]; [reflexivity|]. cbn [c_str]. destruct (c =? 0) eqn:E; [reflexivity|]. cbn [SerModel.has_byte]. rewrite E. exact IH. Qed.

Lemma list_max_map_ext {A B} (f : A -> nat) (g : B -> nat) la lb :
  Forall2 (fun a b => f a = g b) la lb -> list_max (map f la) = list_max (map g lb).
Proof. induction 1 as [|a b la lb H _ IH]; [reflexivity|]. cbn [map list_max fold_right]. rewrite H. f_equal. exact IH. Qed.

(* ---------------------------------------------------------------- the syntax tree of the emitted text *)
Definition stx_for (fl : sflags) (level : nat) (v : jv) (s : TokSyntax.stx) : Prop :=
  wf_stx s /\ TokSyntax.render s = serialize fmt17 fl level v /\ TokSyntax.value sb s = reparsed fl v /\
  nest s = jv_nest v /\ ints_in_range s = true /\ names_nul_free s = true.

Lemma ser_stx (Hfmt : fmt17_ok fmt17) fl : color fl = false ->
  forall v, jv_Forall (rt_node_ok fl) v -> forall level, exists s, stx_for fl level v s.
Proof.
  intros Hc. induction v using jv_ind'; intros G level; pose proof (jv_Forall_here _ _ G) as Hn; cbn [rt_node_ok] in Hn; unfold stx_for.
  - exists (SLit LNull). repeat split.
  - exists (SLit (if b then LTrue else LFalse)). cbn [serialize]. rewrite colored_nocolor by exact Hc. destruct b; repeat split.
  - (* int64 *)
    destruct (int_tok_spec z) as (W & R & I & V). exists (TokSyntax.SNum (int_tok z)). unfold INT64_MIN, INT64_MAX in Hn.
    split; [exact W|]. split; [exact R|]. split; [|split; [reflexivity|split; [|reflexivity]]].
    + cbn [TokSyntax.value reparsed]. unfold num_value. rewrite I. cbn [int_tok TokSyntax.n_neg TokSyntax.n_int]. rewrite V.
      destruct (z <? 0) eqn:E; [f_equal; lia|]. unfold INT64_MAX. destruct (Z.abs z <=? 9223372036854775807) eqn:E2; [f_equal; lia|lia].
    + cbn [ints_in_range]. unfold int_in_range. rewrite I. cbn [int_tok TokSyntax.n_neg TokSyntax.n_int]. rewrite V.
      unfold UINT64_MAX. destruct (z <? 0) eqn:E; lia.
  - (* uint64 *)
    destruct (int_tok_spec z) as (W & R & I & V). exists (TokSyntax.SNum (int_tok z)). unfold UINT64_MAX in Hn.
    assert (E : (z <? 0) = false) by lia. assert (Ea : Z.abs z = z) by lia.
    split; [exact W|]. split; [|split; [|split; [reflexivity|split; [|reflexivity]]]].
    + cbn [TokSyntax.render serialize]. rewrite R. unfold dec_s. rewrite E. reflexivity.
    + cbn [TokSyntax.value reparsed]. unfold num_value. rewrite I. cbn [int_tok TokSyntax.n_neg TokSyntax.n_int]. rewrite V, E, Ea. reflexivity.
    + cbn [ints_in_range]. unfold int_in_range. rewrite I. cbn [int_tok TokSyntax.n_neg TokSyntax.n_int]. rewrite V, E, Ea. unfold UINT64_MAX. lia.
  - (* doubles *)
    destruct t as [t|].
    + destruct Hn as (Hfin & n & Hok & Hr & Hd & Hs). exists (TokSyntax.SNum (trn n)).
      split; [apply trn_wf; exact Hok|]. split; [cbn [TokSyntax.render serialize]; rewrite trn_render; exact Hr|].
      split; [|split; [reflexivity|split; [|reflexivity]]].
      * cbn [TokSyntax.value reparsed]. unfold num_value. rewrite (trn_not_int n Hd), trn_render, Hr, Hs. reflexivity.
      * cbn [ints_in_range]. unfold int_in_range. rewrite (trn_not_int n Hd). reflexivity.
    + destruct Hn as [Hfin Hs]. destruct (Hfmt b Hfin) as (n0 & Hshape & Hr0).
      destruct (double_fixup_shape fl n0 Hshape) as (n' & Hok & Hr & _ & Hd).
      exists (TokSyntax.SNum (trn n')). rewrite Hr0 in Hr.
      split; [apply trn_wf; exact Hok|].
      split; [cbn [TokSyntax.render serialize]; rewrite trn_render, double_text_finite by exact Hfin; exact Hr|].
      split; [|split; [reflexivity|split; [|reflexivity]]].
      * cbn [TokSyntax.value reparsed]. unfold num_value. rewrite (trn_not_int n' Hd), trn_render, Hr, Hs.
        rewrite double_text_finite by exact Hfin. reflexivity.
      * cbn [ints_in_range]. unfold int_in_range. rewrite (trn_not_int n' Hd). reflexivity.
  - (* strings *)
    destruct (str_tx_spec fl s Hn) as (S1 & S2 & S3). exists (TokSyntax.SStr (map (char_tx fl) s)).
    split; [exact S2|]. split; [cbn [TokSyntax.render serialize]; rewrite colored_nocolor by exact Hc; exact S1|].
    split; [cbn [TokSyntax.value reparsed]; rewrite S3; reflexivity|]. repeat split.
  - (* arrays *)
    pose proof (jv_Forall_arr _ _ G) as Gl.
    assert (Hall : Forall (fun x => exists s, stx_for fl (S level) x s) l).
    { clear G Hn. induction H as [|x r Hx _ IH]; [constructor|]. inversion Gl; subst. constructor; [apply Hx; assumption|apply IH; assumption]. }
    apply Forall_exists_list in Hall. destruct Hall as [ss Hss].
    assert (Hmap : map TokSyntax.render ss = map (child_text fl (serialize fmt17 fl (S level))) l).
    { clear -Hss Hc. induction Hss as [|x s r rs (_ & Hr & _) _ IH]; [reflexivity|]. cbn [map].
      rewrite IH, child_text_nocolor by exact Hc. f_equal. exact Hr. }
    assert (Hwf : forallb wf_stxb ss = true).
    { clear -Hss. induction Hss as [|x s r rs (Ho & _) _ IH]; [reflexivity|]. cbn. unfold wf_stx in Ho. rewrite Ho, IH. reflexivity. }
    assert (Hval : map (TokSyntax.value sb) ss = map (reparsed fl) l).
    { clear -Hss. induction Hss as [|x s r rs (_ & _ & Hv & _) _ IH]; [reflexivity|]. cbn [map]. rewrite Hv, IH. reflexivity. }
    assert (Hnest : list_max (map (fun s => S (nest s)) ss) = list_max (map (fun x => S (jv_nest x)) l)).
    { apply list_max_map_ext. clear -Hss. induction Hss as [|x s r rs (_ & _ & _ & Hn & _) _ IH]; constructor; [rewrite Hn; reflexivity|exact IH]. }
    assert (Hir : forallb ints_in_range ss = true /\ forallb names_nul_free ss = true).
    { clear -Hss. induction Hss as [|x s r rs (_ & _ & _ & _ & Hi & Hnn) _ [IH1 IH2]]; [split; reflexivity|]. cbn. rewrite Hi, Hnn, IH1, IH2. split; reflexivity. }
    destruct Hir as [Hir Hnn].
    assert (Hlen : ss = [] <-> l = []).
    { clear -Hss. destruct Hss; split; intros; (reflexivity || discriminate). }
    cbn [serialize]. rewrite <- Hmap, close_split.
    destruct l as [|x0 l'].
    + assert (ss = []) by (apply Hlen; reflexivity). subst ss.
      exists (TokSyntax.SArr (close_b fl level false) []). split; [|repeat split].
      unfold wf_stx. cbn [wf_stxb forallb]. rewrite all_ws_close. reflexivity.
    + assert (Hne : ss <> []) by (intros E; apply Hlen in E; discriminate).
      set (es := mk_els (child_prefix fl level) (close_b fl level true) ss).
      assert (Hes : map el_val es = ss) by apply els_vals.
      exists (TokSyntax.SArr [] es). split; [|split; [|split; [|split; [|split]]]].
      * unfold wf_stx. cbn [wf_stxb all_ws forallb andb].
        change (forallb (fun x : TokSyntax.ws * TokSyntax.stx * TokSyntax.ws => let '(a, e, b) := x in all_ws a && wf_stxb e && all_ws b) es) with (forallb el_ok es).
        subst es. rewrite els_ok by (apply all_ws_prefix || apply all_ws_close). exact Hwf.
      * assert (Ene : es <> []) by (subst es; destruct ss as [|? [|? ?]]; [congruence|discriminate|discriminate]).
        cbn [TokSyntax.render]. destruct es as [|e0 es'] eqn:Ees; [congruence|]. rewrite <- Ees. subst es.
        rewrite (join_els _ _ _ ss) by (try exact Hne; intros [[a e] b]; reflexivity).
        cbn [nonempty app]. rewrite <- !app_assoc. reflexivity.
      * cbn [TokSyntax.value reparsed]. f_equal. rewrite <- Hval, <- Hes, map_map. reflexivity.
      * cbn [nest jv_nest]. rewrite <- Hnest, <- Hes, map_map. reflexivity.
      * cbn [ints_in_range]. rewrite <- Hes, forallb_map' in Hir. exact Hir.
      * cbn [names_nul_free]. rewrite <- Hes, forallb_map' in Hnn. exact Hnn.
  - (* objects *)
    pose proof (jv_Forall_obj _ _ G) as Gl. destruct Hn as [Hkeys Hnd].
    assert (Hall : Forall (fun kv => exists s, stx_for fl (S level) (snd kv) s) l).
    { clear G Hkeys Hnd. induction H as [|x r Hx _ IH]; [constructor|]. inversion Gl; subst. constructor; [apply Hx; assumption|apply IH; assumption]. }
    apply Forall_exists_list in Hall. destruct Hall as [ss Hss].
    set (keys := map (fun kv => map (char_tx fl) (c_str (fst kv))) l).
    set (ks := combine keys ss).
    assert (Hks : Forall2 (fun kv k1 =>
              render_str (fst k1) = quoted fl (c_str (fst kv)) /\ wf_chars (fst k1) = true /\
              decode (fst k1) = c_str (fst kv) /\ stx_for fl (S level) (snd kv) (snd k1)) l ks).
    { subst ks keys. clear -Hss Hkeys. induction Hss as [|x s r rs Hx _ IH]; [constructor|].
      inversion Hkeys as [|? ? [Hb _] Hr']; subst. cbn [map combine]. constructor; [|apply IH; assumption].
      destruct (str_tx_spec fl (c_str (fst x)) (c_str_bytes_ok _ Hb)) as (S1 & S2 & S3). cbn [fst snd]. tauto. }
    clearbody ks. clear keys Hss.
    assert (Hmap : map (kv_txt (if spaced fl then [32] else [])) ks =
                   map (fun kv => colored fl c_blue (quoted fl (c_str (fst kv))) ++ colon fl ++
                                  child_text fl (serialize fmt17 fl (S level)) (snd kv)) l).
    { clear -Hks Hc. induction Hks as [|x s r rs (K1 & _ & _ & _ & K5 & _) _ IH]; [reflexivity|]. cbn [map].
      rewrite IH, child_text_nocolor, colored_nocolor by exact Hc. f_equal.
      unfold kv_txt, colon. rewrite K1, K5. destruct (spaced fl); cbn [app]; rewrite <- ?app_assoc; reflexivity. }
    assert (Hwf : forallb (fun k => wf_chars (fst k) && wf_stxb (snd k)) ks = true).
    { clear -Hks. induction Hks as [|x s r rs (_ & K2 & _ & K4 & _) _ IH]; [reflexivity|]. cbn [forallb]. unfold wf_stx in K4. rewrite K2, K4, IH. reflexivity. }
    assert (Hval : map (fun k => (decode (fst k), TokSyntax.value sb (snd k))) ks = map (fun kv => (c_str (fst kv), reparsed fl (snd kv))) l).
    { clear -Hks. induction Hks as [|x s r rs (_ & _ & K3 & _ & _ & Hv & _) _ IH]; [reflexivity|]. cbn [map]. rewrite K3, Hv, IH. reflexivity. }
    assert (Hnest : list_max (map (fun k => S (nest (snd k))) ks) = list_max (map (fun kv => S (jv_nest (snd kv))) l)).
    { apply list_max_map_ext. clear -Hks. induction Hks as [|x s r rs (_ & _ & _ & _ & _ & _ & Hn & _) _ IH]; constructor; [rewrite Hn; reflexivity|exact IH]. }
    assert (Hir : forallb (fun k => ints_in_range (snd k)) ks = true /\
                  forallb (fun k => negb (TokModel.has_byte 0 (decode (fst k))) && names_nul_free (snd k)) ks = true).
    { clear -Hks. induction Hks as [|x s r rs (_ & _ & K3 & _ & _ & _ & _ & Hi & Hnn) _ [IH1 IH2]]; [split; reflexivity|]. cbn [forallb].
      rewrite Hi, Hnn, IH1, IH2, K3. change (TokModel.has_byte 0 (c_str (fst x))) with (SerModel.has_byte 0 (c_str (fst x))).
      rewrite c_str_no_nul. split; reflexivity. }
    destruct Hir as [Hir Hnn].
    assert (Hlen : ks = [] <-> l = []).
    { clear -Hks. destruct Hks; split; intros; (reflexivity || discriminate). }
    assert (Hkeyeq : map (fun kv : list byte * jv => (c_str (fst kv), reparsed fl (snd kv))) l = map (fun kv => (fst kv, reparsed fl (snd kv))) l).
    { apply map_ext_in. intros kv Hin. rewrite Forall_forall in Hkeys. destruct (Hkeys kv Hin) as [_ Hz]. rewrite (c_str_clean _ Hz). reflexivity. }
    cbn [serialize]. rewrite <- Hmap, close_split.
    destruct l as [|x0 l'].
    + assert (ks = []) by (apply Hlen; reflexivity). subst ks.
      exists (TokSyntax.SObj (close_b fl level false) []). split; [|repeat split].
      unfold wf_stx. cbn [wf_stxb forallb]. rewrite all_ws_close. reflexivity.
    + assert (Hne : ks <> []) by (intros E; apply Hlen in E; discriminate).
      set (ms := mk_mems (child_prefix fl level) (if spaced fl then [32] else []) (close_b fl level true) ks).
      assert (Hms : map (fun m : mem => (m_name m, m_val m)) ms = ks) by apply mems_vals.
      exists (TokSyntax.SObj [] ms). split; [|split; [|split; [|split; [|split]]]].
      * unfold wf_stx. cbn [wf_stxb all_ws forallb andb].
        change (forallb (fun m : TokSyntax.ws * list TokSyntax.schar * TokSyntax.ws * TokSyntax.ws * TokSyntax.stx * TokSyntax.ws =>
                           let '(a, k, b, c, v, d) := m in all_ws a && wf_chars k && all_ws b && all_ws c && wf_stxb v && all_ws d) ms)
          with (forallb mem_ok ms).
        subst ms. rewrite mems_ok by (apply all_ws_prefix || apply all_ws_close || apply all_ws_colon). exact Hwf.
      * assert (Ene : ms <> []) by (subst ms; destruct ks as [|? [|? ?]]; [congruence|discriminate|discriminate]).
        cbn [TokSyntax.render]. destruct ms as [|e0 ms'] eqn:Ems; [congruence|]. rewrite <- Ems. subst ms.
        rewrite (join_mems _ _ _ _ ks) by (try exact Hne; intros [[[[[a k] b] cw] v] d]; reflexivity).
        cbn [nonempty app]. rewrite <- !app_assoc. reflexivity.
      * cbn [TokSyntax.value reparsed]. f_equal.
        replace (map (fun m : TokSyntax.ws * list TokSyntax.schar * TokSyntax.ws * TokSyntax.ws * TokSyntax.stx * TokSyntax.ws =>
                        (decode (m_name m), TokSyntax.value sb (m_val m))) ms)
          with (map (fun k => (decode (fst k), TokSyntax.value sb (snd k))) ks) by (rewrite <- Hms, map_map; reflexivity).
        rewrite Hval. rewrite (fold_add_nodup _ []); [reflexivity|]. rewrite Hkeyeq, map_map. exact Hnd.
      * cbn [nest jv_nest]. rewrite <- Hnest, <- Hms, map_map. reflexivity.
      * cbn [ints_in_range]. rewrite <- Hms, forallb_map' in Hir. exact Hir.
      * cbn [names_nul_free]. rewrite <- Hms, forallb_map' in Hnn. exact Hnn.
Qed.

End RT.

(* ---------------------------------------------------------------- the normal form is equal and prints the same *)
Section RT2.
Variable fmt17 : Z -> list byte.
Variable sb : list byte -> Z.

Lemma bytes_eqb_refl' a : bytes_eqb a a = true.
Proof. apply TokProofs.bytes_eqb_eq. reflexivity. Qed.

Lemma assoc_map_nodup (g : jv -> jv) l : NoDup (map fst l) -> forall k v, In (k, v) l ->
  EqModel.assoc k (map (fun kv : list byte * jv => (fst kv, g (snd kv))) l) = Some (g v).
Proof.
  induction l as [|[k0 v0] r IH]; intros Hnd k v Hin; [contradiction|]. cbn [map fst] in Hnd. inversion Hnd as [|? ? Hni Hnd']; subst.
  cbn [map EqModel.assoc fst snd]. destruct Hin as [E|Hin].
  - inversion E; subst. rewrite bytes_eqb_refl'. reflexivity.
  - destruct (bytes_eqb k k0) eqn:E.
    + apply TokProofs.bytes_eqb_eq in E. subst k0. exfalso. apply Hni. apply (in_map fst) in Hin. exact Hin.
    + apply IH; assumption.
Qed.
Lemma assoc_present {A} (l : list (list byte * A)) k : In k (map fst l) -> EqModel.assoc k l <> None.
Proof.
  induction l as [|[k0 v0] r IH]; [contradiction|]. cbn [map fst In EqModel.assoc]. intros [E|Hin].
  - subst. rewrite bytes_eqb_refl'. discriminate.
  - destruct (bytes_eqb k k0); [discriminate|]. apply IH. exact Hin.
Qed.

Lemma reparsed_equal fl v : jv_Forall (rt_node_ok fmt17 sb fl) v -> EqModel.jv_equal v (reparsed fmt17 fl v) = true.
Proof.
  induction v using jv_ind'; intros G; pose proof (jv_Forall_here _ _ G) as Hn; cbn [rt_node_ok] in Hn; cbn [reparsed EqModel.jv_equal].
  - reflexivity.
  - destruct b; reflexivity.
  - apply Z.eqb_refl.
  - unfold UINT64_MAX in Hn. destruct (z <=? INT64_MAX) eqn:E; cbn [EqModel.jv_equal]; [|apply Z.eqb_refl].
    replace (z <? 0) with false by lia. unfold EqModel.two64. rewrite Z.mod_small by lia. apply Z.eqb_refl.
  - destruct t as [t|]; cbn [EqModel.jv_equal]; apply dval_eqb_finite; apply Hn.
  - rewrite Z.eqb_refl. cbn [andb]. apply bytes_eqb_refl'.
  - pose proof (jv_Forall_arr _ _ G) as Gl. rewrite zlen_map, Z.eqb_refl. cbn [andb].
    clear G Hn. induction H as [|x r Hx _ IH]; [reflexivity|]. inversion Gl; subst. cbn [map EqModel.all2]. rewrite (Hx H1), (IH H2). reflexivity.
  - pose proof (jv_Forall_obj _ _ G) as Gl. destruct Hn as [Hkeys Hnd].
    assert (Hkeyeq : map (fun kv : list byte * jv => (c_str (fst kv), reparsed fmt17 fl (snd kv))) l = map (fun kv => (fst kv, reparsed fmt17 fl (snd kv))) l).
    { apply map_ext_in. intros kv Hin. rewrite Forall_forall in Hkeys. destruct (Hkeys kv Hin) as [_ Hz]. rewrite (c_str_clean _ Hz). reflexivity. }
    rewrite Hkeyeq. apply andb_true_iff. split.
    + apply forallb_forall. intros [k v] Hin. cbn [fst snd]. rewrite (assoc_map_nodup (reparsed fmt17 fl) l Hnd k v Hin).
      rewrite Forall_forall in H, Gl. apply (H (k, v) Hin). apply (Gl (k, v) Hin).
    + apply forallb_forall. intros kv' Hin. apply in_map_iff in Hin. destruct Hin as (kv0 & <- & Hin). cbn [fst].
      destruct (EqModel.assoc (fst kv0) l) eqn:Ea; [reflexivity|]. exfalso. apply (assoc_present l (fst kv0)); [apply in_map; exact Hin|exact Ea].
Qed.

Lemma child_text_reparsed fl lv x :
  serialize fmt17 fl lv (reparsed fmt17 fl x) = serialize fmt17 fl lv x ->
  child_text fl (serialize fmt17 fl lv) (reparsed fmt17 fl x) = child_text fl (serialize fmt17 fl lv) x.
Proof.
  intros H. destruct x as [|b|z|z|bits [t|]|s|l|l]; cbn [reparsed child_text] in *; try exact H; try reflexivity.
  destruct (z <=? INT64_MAX); exact H.
Qed.

Lemma reparsed_prints (Hfmt : fmt17_ok fmt17) fl v : jv_Forall (rt_node_ok fmt17 sb fl) v ->
  forall level, serialize fmt17 fl level (reparsed fmt17 fl v) = serialize fmt17 fl level v.
Proof.
  induction v using jv_ind'; intros G level; pose proof (jv_Forall_here _ _ G) as Hn; cbn [rt_node_ok] in Hn; cbn [reparsed].
  - reflexivity.
  - reflexivity.
  - reflexivity.
  - destruct (z <=? INT64_MAX); [|reflexivity]. cbn [serialize]. unfold dec_s. replace (z <? 0) with false by lia. reflexivity.
  - destruct t as [t|]; cbn [serialize].
    + apply c_str_clean, c_str_no_nul.
    + destruct Hn as [Hfin _]. destruct (Hfmt b Hfin) as (n0 & Hshape & Hr0).
      destruct (double_fixup_shape fl n0 Hshape) as (n' & Hok & Hr & _).
      apply c_str_clean. rewrite double_text_finite by exact Hfin. rewrite <- Hr0, <- Hr. apply RT2.num_no_nul. exact Hok.
  - reflexivity.
  - pose proof (jv_Forall_arr _ _ G) as Gl. cbn [serialize]. rewrite map_map.
    assert (E : map (fun x => child_text fl (serialize fmt17 fl (S level)) (reparsed fmt17 fl x)) l = map (child_text fl (serialize fmt17 fl (S level))) l).
    { apply map_ext_in. intros x Hin. apply child_text_reparsed. rewrite Forall_forall in H, Gl. apply (H x Hin). apply (Gl x Hin). }
    rewrite E. do 2 f_equal. destruct l; reflexivity.
  - pose proof (jv_Forall_obj _ _ G) as Gl. cbn [serialize]. rewrite map_map.
    assert (E : map (fun x : list byte * jv => colored fl c_blue (quoted fl (c_str (fst (c_str (fst x), reparsed fmt17 fl (snd x))))) ++ colon fl ++
                         child_text fl (serialize fmt17 fl (S level)) (snd (c_str (fst x), reparsed fmt17 fl (snd x)))) l =
                map (fun kv => colored fl c_blue (quoted fl (c_str (fst kv))) ++ colon fl ++ child_text fl (serialize fmt17 fl (S level)) (snd kv)) l).
    { apply map_ext_in. intros x Hin. cbn [fst snd]. rewrite (c_str_clean (c_str (fst x)) (c_str_no_nul _)).
      rewrite child_text_reparsed; [reflexivity|]. rewrite Forall_forall in H, Gl. apply (H x Hin). apply (Gl x Hin). }
    rewrite E. do 2 f_equal. destruct l; reflexivity.
Qed.

(* ---------------------------------------------------------------- C02: the round trip, all trees *)
Theorem roundtrip_all (Hfmt : fmt17_ok fmt17) fl D strictf v t :
  color fl = false -> jv_Forall (rt_node_ok fmt17 sb fl) v ->
  Z.of_nat (jv_nest v) < D -> tok_new D strictf false false = Some t ->
  exists t', parse_ex_cstr sb t (serialize fmt17 fl 0 v) = PR t' (Some (reparsed fmt17 fl v)) /\
             err t' = TE_success /\ char_offset t' = zlen (serialize fmt17 fl 0 v) /\
             EqModel.jv_equal v (reparsed fmt17 fl v) = true /\
             serialize fmt17 fl 0 (reparsed fmt17 fl v) = serialize fmt17 fl 0 v.
Proof.
  intros Hc G Hd Hnew.
  destruct (ser_stx fmt17 sb Hfmt fl Hc v G 0%nat) as (s & Hw & Hr & Hv & Hn & Hi & Hnn).
  destruct (parse_valid sb D strictf s [] [] t Hw eq_refl eq_refl ltac:(rewrite Hn; exact Hd) Hi Hnn Hnew) as (t' & E & He & Ho).
  unfold render_doc in E, Ho. cbn [app] in E, Ho. rewrite app_nil_r, Hr in E, Ho. rewrite Hv in E.
  exists t'. split; [exact E|]. split; [exact He|]. split; [exact Ho|]. split; [apply reparsed_equal; exact G|apply reparsed_prints; assumption].
Qed.

(* in the words of SerProofs.roundtrip_ok (json_tokener_new(): depth 32, default mode) *)
Corollary roundtrip_ok_all (Hfmt : fmt17_ok fmt17) fl v :
  color fl = false -> jv_Forall (rt_node_ok fmt17 sb fl) v -> Z.of_nat (jv_nest v) < 32 ->
  roundtrip_ok fmt17 sb fl v.
Proof.
  intros Hc G Hd.
  destruct (roundtrip_all Hfmt fl 32 false v _ Hc G Hd eq_refl) as (t' & E & He & _ & Heq & Hp).
  exists (reparsed fmt17 fl v). split; [|split; assumption].
  unfold reparse. change (tok_new 32 false false false) with (Some (mktok [fresh_level] 32 [] false 0 0 0 0 false false false 0 TE_success)).
  cbv beta iota. rewrite E, He. reflexivity.
Qed.

End RT2.

(* the guard with the oracle hypothesis stated once for all doubles *)
Lemma guard_of_strtod_ok fmt17 sb fl v : strtod_ok fmt17 sb fl ->
  jv_Forall (fun x => match x with JDouble bits None => dbl_finite bits = true | _ => rt_node_ok fmt17 sb fl x end) v ->
  jv_Forall (rt_node_ok fmt17 sb fl) v.
Proof.
  intros Hs. apply jv_Forall_impl. intros x. destruct x as [| | | |bits [t|]| | |]; try tauto. intros H. split; [exact H|apply Hs; exact H].
Qed.

(* non-vacuity: the example tree and oracles of SerProofs (every node type, nested containers,
   NUL-free distinct names) meet the guard, with and without NOZERO *)
Lemma ex_tree_guard :
  jv_Forall (rt_node_ok SerProofs.ex_fmt17 SerProofs.ex_strtod flags_plain) SerProofs.ex_tree /\
  jv_Forall (rt_node_ok SerProofs.ex_fmt17 SerProofs.ex_strtod (mkfl false false true false false false)) SerProofs.ex_tree /\
  Z.of_nat (jv_nest SerProofs.ex_tree) < 32.
Proof.
  split; [|split; [|vm_compute; reflexivity]].
  all: unfold SerProofs.ex_tree; cbn [jv_Forall rt_node_ok]; unfold INT64_MIN, INT64_MAX, UINT64_MAX.
  all: repeat split; try lia; try reflexivity; repeat constructor; unfold byte_ok; try lia; cbn; intuition (try discriminate; try lia).
Qed.
