(* PbProofs.v — invariant and refinement proofs for the print buffer (C19). *)
From JC Require Import Base BaseLemmas PbModel.
Local Open Scope Z_scope.

Definition unS (c : option byte) : byte := match c with Some b => b | None => 0 end.
Definition pb_abs (p : pbuf) : list byte := map unS (pb_cells p).

Definition Inv (p : pbuf) : Prop :=
  zlen (mem p) = size p /\ 0 <= bpos p <= size p /\ 0 < size p /\
  pb_cells p = map Some (pb_abs p).

Lemma map_unS_Some l : map unS (map Some l) = l.
Proof. induction l; cbn; congruence. Qed.

Lemma inv_new : Inv pb_new.
Proof. unfold Inv, pb_new, pb_cells, pb_abs; cbn. repeat split; lia. Qed.

Lemma abs_len p : Inv p -> zlen (pb_abs p) = bpos p.
Proof.
  intros (Hm & Hb & Hs & Hc). unfold pb_abs, pb_cells. rewrite zlen_map, zlen_zfirstn. lia.
Qed.

Definition wr_ok (sz : Z) (w : wr) : Prop := 0 <= w_off w /\ 0 <= w_len w /\ w_off w + w_len w <= sz.

(* ---- extend ---- *)
Lemma extend_ok al p ms p' :
  Inv p -> pb_extend al p ms = EOk p' ->
  Inv p' /\ pb_abs p' = pb_abs p /\ bpos p' = bpos p /\ ms <= size p' /\ size p <= size p' /\
  (size p' = size p \/ ms + 8 <= size p').
Proof.
  intros (Hm & Hb & Hs & Hc) H. unfold pb_extend in H.
  destruct (size p >=? ms) eqn:E1.
  { inversion H; subst p'. repeat split; try assumption; try lia. }
  destruct (ms >? INT_MAX - 8) eqn:E2; [discriminate|].
  set (ns := if size p >? INT_MAX / 2 then ms + 8
             else if size p * 2 <? ms + 8 then ms + 8 else size p * 2) in *.
  destruct (negb (in_int (ms + 8)) || negb (in_int ns)) eqn:E3; [discriminate|].
  destruct (al ns) eqn:E4; [|discriminate].
  inversion H; subst p'; clear H. cbn [mem bpos size].
  assert (Hns : ms + 8 <= ns /\ size p <= ns).
  { subst ns. destruct (size p >? INT_MAX / 2) eqn:A; [lia|].
    destruct (size p * 2 <? ms + 8) eqn:B; lia. }
  assert (Hcells : pb_cells (mkpb (mem p ++ zrepeat None (ns - size p)) (bpos p) ns) = pb_cells p).
  { unfold pb_cells; cbn [mem bpos]. apply zfirstn_app_l. lia. }
  unfold Inv, pb_abs. rewrite Hcells. cbn [mem bpos size].
  repeat split; try lia; try assumption.
  rewrite zlen_app, zlen_zrepeat. lia.
Qed.

Lemma extend_err al p ms e :
  pb_extend al p ms = EErr e -> e = EFBIG \/ e = ENOMEM.
Proof.
  unfold pb_extend. repeat (destruct (_ : bool); try discriminate); intros H; inversion H; auto.
Qed.

Lemma extend_no_ub al p ms :
  Inv p -> 0 <= ms -> pb_extend al p ms <> EUB.
Proof.
  intros (Hm & Hb & Hs & Hc) H0. unfold pb_extend.
  destruct (size p >=? ms) eqn:E1; [discriminate|].
  destruct (ms >? INT_MAX - 8) eqn:E2; [discriminate|].
  set (ns := if size p >? INT_MAX / 2 then ms + 8
             else if size p * 2 <? ms + 8 then ms + 8 else size p * 2).
  assert (Hi : in_int (ms + 8) = true /\ in_int ns = true).
  { unfold in_int, INT_MIN. subst ns. unfold INT_MAX in *.
    destruct (size p >? 2147483647 / 2) eqn:A.
    - split; lia.
    - destruct (size p * 2 <? ms + 8) eqn:B; split; try lia.
      assert (size p <= 2147483647 / 2) by lia.
      assert (2147483647 / 2 = 1073741823) by reflexivity. lia. }
  destruct Hi as [-> ->]. cbn. destruct (al ns); discriminate.
Qed.

(* ---- cell computation after a write ---- *)
Lemma cells_write m b bs :
  0 <= b <= zlen m -> b + zlen bs <= zlen m ->
  zfirstn (b + zlen bs) (mem_write m b bs) = zfirstn b m ++ map Some bs.
Proof.
  intros Hb Hl. pose proof (zlen_nonneg bs). unfold mem_write.
  rewrite zfirstn_app_r by (rewrite zlen_zfirstn; lia).
  rewrite zlen_zfirstn. replace (Z.min (Z.max 0 b) (zlen m)) with b by lia.
  f_equal. replace (b + zlen bs - b) with (zlen bs) by lia.
  rewrite zfirstn_app_l by (rewrite zlen_map; lia).
  apply zfirstn_all. rewrite zlen_map. lia.
Qed.

Lemma len_write m b bs :
  0 <= b -> b + zlen bs <= zlen m -> zlen (mem_write m b bs) = zlen m.
Proof.
  intros Hb Hl. pose proof (zlen_nonneg bs). unfold mem_write.
  rewrite !zlen_app, zlen_map, zlen_zfirstn, zlen_zskipn. lia.
Qed.

Lemma firstn_write_before m b bs k :
  0 <= k <= b -> b <= zlen m -> zfirstn k (mem_write m b bs) = zfirstn k m.
Proof.
  intros Hk Hb. unfold mem_write.
  rewrite zfirstn_app_l by (rewrite zlen_zfirstn; lia).
  rewrite zfirstn_zfirstn. f_equal. lia.
Qed.

Lemma len_fill m b c n :
  0 <= b -> 0 <= n -> b + n <= zlen m -> zlen (mem_fill m b c n) = zlen m.
Proof.
  intros Hb Hn Hl. unfold mem_fill.
  rewrite !zlen_app, zlen_zrepeat, zlen_zfirstn, zlen_zskipn. lia.
Qed.

Lemma znth_write_at m b x :
  0 <= b < zlen m -> znth (mem_write m b [x]) b = Some (Some x).
Proof.
  intros Hb. unfold mem_write. cbn [map zlen].
  rewrite znth_app_r by (rewrite zlen_zfirstn; lia).
  rewrite zlen_zfirstn. replace (b - Z.min (Z.max 0 b) (zlen m)) with 0 by lia.
  reflexivity.
Qed.

(* ---- memappend ---- *)
Lemma memappend_spec al p bs n :
  Inv p ->
  match pb_memappend al p bs n with
  | POk p' r ws =>
      Inv p' /\ pb_abs p' = pb_abs p ++ zfirstn n bs /\ r = n /\
      bpos p' < size p' /\ pb_term p' = TNul /\ Forall (wr_ok (size p')) ws /\
      0 <= n <= zlen bs /\ bpos p + n + 1 <= INT_MAX
  | PErr p' e => p' = p /\ (e = EFBIG \/ e = ENOMEM)
  | PUB => zlen bs < n /\ 0 <= n /\ bpos p + n + 1 <= INT_MAX
  end.
Proof.
  intros HI. pose proof HI as (Hm & Hb & Hs & Hc). unfold pb_memappend.
  destruct ((n <? 0) || (n >? INT_MAX - bpos p - 1)) eqn:E1; [split; auto|].
  assert (Hin : in_int (bpos p + n + 1) = true) by (unfold in_int, INT_MIN, INT_MAX in *; lia).
  rewrite Hin; cbn [negb].
  destruct (n >? zlen bs) eqn:E2.
  { assert (HU : forall q, memappend_cont bs n q = PUB) by (intros q; unfold memappend_cont; rewrite E2; reflexivity).
    destruct (size p <=? bpos p + n + 1).
    - destruct (pb_extend al p (bpos p + n + 1)) as [p'|e|] eqn:EX.
      + rewrite HU. lia.
      + split; [reflexivity|]. eapply extend_err; eassumption.
      + lia.
    - rewrite HU. lia. }
  assert (Hcont : forall p', Inv p' -> pb_abs p' = pb_abs p -> bpos p' = bpos p ->
             bpos p + n + 1 <= size p' ->
             match memappend_cont bs n p' with
             | POk p'' r ws => Inv p'' /\ pb_abs p'' = pb_abs p ++ zfirstn n bs /\ r = n /\
                 bpos p'' < size p'' /\ pb_term p'' = TNul /\ Forall (wr_ok (size p'')) ws /\
                 0 <= n <= zlen bs /\ bpos p + n + 1 <= INT_MAX
             | _ => False end).
  { intros p' HI' Ha Hbp Hsz. destruct HI' as (Hm' & Hb' & Hs' & Hc'). unfold memappend_cont. rewrite E2.
    set (bs' := zfirstn n bs).
    assert (Hl : zlen bs' = n) by (subst bs'; rewrite zlen_zfirstn; lia).
    set (m1 := mem_write (mem p') (bpos p') bs').
    assert (Hl1 : zlen m1 = size p') by (subst m1; rewrite len_write; lia).
    set (m2 := mem_write m1 (bpos p' + n) [0]).
    assert (Hl2 : zlen m2 = size p') by (subst m2; rewrite len_write; cbn [zlen]; lia).
    assert (Hcells : pb_cells (mkpb m2 (bpos p' + n) (size p')) = pb_cells p' ++ map Some bs').
    { unfold pb_cells; cbn [mem bpos]. subst m2.
      rewrite firstn_write_before by lia. subst m1. rewrite <- Hl at 1.
      apply cells_write; lia. }
    unfold Inv, pb_abs at 1 2. rewrite Hcells. cbn [mem bpos size].
    rewrite map_app, map_unS_Some. fold (pb_abs p'). rewrite Ha.
    repeat split; try lia.
    - rewrite map_app, <- Ha, <- Hc'. reflexivity.
    - unfold pb_term; cbn [mem bpos size].
      destruct (bpos p' + n <? size p') eqn:E; [|lia].
      subst m2. rewrite znth_write_at by lia. reflexivity.
    - repeat constructor; cbn; lia. }
  destruct (size p <=? bpos p + n + 1) eqn:E3.
  - destruct (pb_extend al p (bpos p + n + 1)) as [p'|e|] eqn:EX.
    + apply extend_ok in EX; [|assumption]. destruct EX as (HI' & Ha & Hbp & Hsz & _).
      specialize (Hcont p' HI' Ha Hbp Hsz).
      destruct (memappend_cont bs n p'); [exact Hcont|contradiction|contradiction].
    + split; [reflexivity|]. eapply extend_err; eassumption.
    + exfalso. eapply extend_no_ub; [exact HI| |exact EX]. lia.
  - assert (Hsz : bpos p + n + 1 <= size p) by lia.
    specialize (Hcont p HI eq_refl eq_refl Hsz).
    destruct (memappend_cont bs n p); [exact Hcont|contradiction|contradiction].
Qed.

Lemma cells_inv p X : pb_cells p = map Some X -> pb_abs p = X /\ pb_cells p = map Some (pb_abs p).
Proof. intros H. unfold pb_abs. rewrite H, map_unS_Some. auto. Qed.

Lemma zskipn_zfirstn {A} a b (l : list A) : 0 <= a -> 0 <= b ->
  zskipn a (zfirstn (a + b) l) = zfirstn b (zskipn a l).
Proof.
  intros Ha Hb. unfold zskipn, zfirstn. rewrite firstn_skipn_comm. f_equal. f_equal. lia.
Qed.

Lemma zfirstn_fill_exact m b c n :
  0 <= b <= zlen m -> 0 <= n ->
  zfirstn (b + n) (mem_fill m b c n) = zfirstn b m ++ zrepeat (Some c) n.
Proof.
  intros Hb Hn. unfold mem_fill.
  rewrite zfirstn_app_r by (rewrite zlen_zfirstn; lia).
  rewrite zlen_zfirstn. replace (Z.min (Z.max 0 b) (zlen m)) with b by lia.
  f_equal. replace (b + n - b) with n by lia.
  rewrite zfirstn_app_l by (rewrite zlen_zrepeat; lia).
  apply zfirstn_all. rewrite zlen_zrepeat. lia.
Qed.

Lemma zfirstn_fill_before m b c n k :
  0 <= k <= b -> b <= zlen m -> zfirstn k (mem_fill m b c n) = zfirstn k m.
Proof.
  intros Hk Hb. unfold mem_fill.
  rewrite zfirstn_app_l by (rewrite zlen_zfirstn; lia).
  rewrite zfirstn_zfirstn. f_equal. lia.
Qed.

Lemma zfirstn_fill_after m b c n k :
  0 <= b -> 0 <= n -> b + n <= k -> b + n <= zlen m ->
  zfirstn k (mem_fill m b c n) = zfirstn b m ++ zrepeat (Some c) n ++ zfirstn (k - b - n) (zskipn (b + n) m).
Proof.
  intros Hb Hn Hk Hl. unfold mem_fill.
  rewrite zfirstn_app_r by (rewrite zlen_zfirstn; lia).
  rewrite zlen_zfirstn. replace (Z.min (Z.max 0 b) (zlen m)) with b by lia.
  f_equal. rewrite zfirstn_app_r by (rewrite zlen_zrepeat; lia).
  rewrite zlen_zrepeat. f_equal. f_equal. lia.
Qed.

Lemma memset_spec al p off c len :
  Inv p ->
  match pb_memset al p off c len with
  | POk p' r ws =>
      Inv p' /\ pb_abs p' = spec_step (pb_abs p) (OpMemset off c len) /\ r = 0 /\
      Forall (wr_ok (size p')) ws /\ req_size (pb_abs p) (OpMemset off c len) <= INT_MAX
  | PErr p' e => p' = p /\ (e = EFBIG \/ e = ENOMEM)
  | PUB => False
  end.
Proof.
  intros HI. pose proof HI as (Hm & Hb & Hs & Hc). pose proof (abs_len p HI) as Hal.
  unfold pb_memset, req_size, spec_step. rewrite Hal.
  set (o := if off =? -1 then bpos p else off).
  destruct ((len <? 0) || (o <? -1) || (len >? INT_MAX - o)) eqn:E1; [split; auto|].
  assert (Ho : 0 <= o) by (subst o; destruct (off =? -1) eqn:E; lia).
  assert (Hin : in_int (o + len) = true) by (unfold in_int, INT_MIN, INT_MAX in *; lia).
  rewrite Hin; cbn [negb].
  assert (Hcont : forall p', Inv p' -> pb_cells p' = pb_cells p -> bpos p' = bpos p ->
             o + len <= size p' ->
             match memset_cont o c len p' with
             | POk p'' r ws => Inv p'' /\
                 pb_abs p'' = zfirstn o (if bpos p <? o then pb_abs p ++ zrepeat 0 (o - bpos p) else pb_abs p)
                    ++ zrepeat (c mod 256) len
                    ++ zskipn (o + len) (if bpos p <? o then pb_abs p ++ zrepeat 0 (o - bpos p) else pb_abs p) /\
                 r = 0 /\ Forall (wr_ok (size p'')) ws /\ o + len <= INT_MAX
             | _ => False end).
  { intros p' (Hm' & Hb' & Hs' & Hc') Hcells Hbp Hsz. unfold memset_cont. rewrite Hbp.
    destruct (bpos p <? o) eqn:E2.
    - (* padding with zeros first *)
      destruct (bpos p <? o + len) eqn:E3; [|lia].
      set (m1 := mem_fill (mem p') (bpos p) 0 (o - bpos p)).
      assert (Hl1 : zlen m1 = size p') by (subst m1; rewrite len_fill; lia).
      set (m2 := mem_fill m1 o (c mod 256) len).
      assert (Hl2 : zlen m2 = size p') by (subst m2; rewrite len_fill; lia).
      assert (HC : pb_cells (mkpb m2 (o + len) (size p')) =
                   map Some ((pb_abs p ++ zrepeat 0 (o - bpos p)) ++ zrepeat (c mod 256) len)).
      { unfold pb_cells; cbn [mem bpos]. subst m2. rewrite zfirstn_fill_exact by lia.
        rewrite !map_app, !map_zrepeat, <- Hc, <- Hcells. f_equal.
        replace o with (bpos p + (o - bpos p)) at 1 by lia. subst m1.
        rewrite zfirstn_fill_exact by lia. unfold pb_cells. rewrite Hbp. reflexivity. }
      pose proof HC as HC0. apply cells_inv in HC. destruct HC as [HA _].
      unfold Inv. cbn [mem bpos size]. rewrite !HA.
      repeat split; try lia; try assumption.
      + rewrite zfirstn_all by (rewrite zlen_app, zlen_zrepeat, Hal; lia).
        rewrite zskipn_all by (rewrite zlen_app, zlen_zrepeat, Hal; lia).
        rewrite app_nil_r. reflexivity.
      + repeat constructor; cbn; lia.
    - (* offset inside the current contents *)
      set (m2 := mem_fill (mem p') o (c mod 256) len).
      assert (Hl2 : zlen m2 = size p') by (subst m2; rewrite len_fill; lia).
      destruct (bpos p <? o + len) eqn:E3.
      + assert (HC : pb_cells (mkpb m2 (o + len) (size p')) =
                   map Some (zfirstn o (pb_abs p) ++ zrepeat (c mod 256) len)).
        { unfold pb_cells; cbn [mem bpos]. subst m2. rewrite zfirstn_fill_exact by lia.
          rewrite !map_app, !map_zrepeat, map_zfirstn, <- Hc, <- Hcells. f_equal.
          unfold pb_cells. rewrite zfirstn_zfirstn. f_equal. lia. }
        pose proof HC as HC0. apply cells_inv in HC. destruct HC as [HA _].
        unfold Inv. cbn [mem bpos size]. rewrite !HA.
        repeat split; try lia; try assumption.
        * rewrite zskipn_all by (rewrite Hal; lia). rewrite app_nil_r. reflexivity.
        * repeat constructor; cbn; lia.
      + assert (HC : pb_cells (mkpb m2 (bpos p) (size p')) =
                   map Some (zfirstn o (pb_abs p) ++ zrepeat (c mod 256) len ++ zskipn (o + len) (pb_abs p))).
        { unfold pb_cells; cbn [mem bpos]. subst m2. rewrite zfirstn_fill_after by lia.
          rewrite !map_app, !map_zrepeat, map_zfirstn, map_zskipn, <- Hc, <- Hcells.
          unfold pb_cells. rewrite zfirstn_zfirstn, Hbp. f_equal; [f_equal; lia|]. f_equal.
          rewrite <- (zskipn_zfirstn (o + len) (bpos p - o - len)) by lia.
          do 2 f_equal. lia. }
        pose proof HC as HC0. apply cells_inv in HC. destruct HC as [HA _].
        unfold Inv. cbn [mem bpos size]. rewrite !HA.
        repeat split; try lia; try assumption.
        repeat constructor; cbn; lia. }
  destruct (size p <? o + len) eqn:E3.
  - destruct (pb_extend al p (o + len)) as [p'|e|] eqn:EX.
    + apply extend_ok in EX; [|assumption]. destruct EX as (HI' & Ha & Hbp & Hsz & _).
      assert (Hcl : pb_cells p' = pb_cells p).
      { destruct HI' as (_ & _ & _ & Hc'). rewrite Hc', Ha, <- Hc. reflexivity. }
      specialize (Hcont p' HI' Hcl Hbp Hsz).
      destruct (memset_cont o c len p'); [exact Hcont|contradiction|contradiction].
    + split; [reflexivity|]. eapply extend_err; eassumption.
    + exfalso. eapply extend_no_ub; [exact HI| |exact EX]. lia.
  - assert (Hsz : o + len <= size p) by lia.
    specialize (Hcont p HI eq_refl eq_refl Hsz).
    destruct (memset_cont o c len p); [exact Hcont|contradiction|contradiction].
Qed.

(* ---- one step of a history ---- *)
Definition op_wf (o : pbop) : Prop :=
  match o with OpAppendN bs n => n <= zlen bs | _ => True end.

Lemma reset_spec p :
  Inv p ->
  match pb_reset p with
  | POk p' r ws => Inv p' /\ pb_abs p' = [] /\ Forall (wr_ok (size p')) ws /\ pb_term p' = TNul
  | _ => False end.
Proof.
  intros (Hm & Hb & Hs & Hc). unfold pb_reset.
  assert (Hl : zlen (mem_write (mem p) 0 [0]) = size p) by (rewrite len_write; cbn [zlen]; lia).
  unfold Inv, pb_abs, pb_cells. cbn [mem bpos size]. rewrite zfirstn_nonpos by lia.
  repeat split; try lia; try reflexivity.
  - repeat constructor; cbn; lia.
  - unfold pb_term. cbn [mem bpos size]. destruct (0 <? size p) eqn:E; [|lia].
    rewrite znth_write_at by lia. reflexivity.
Qed.

Theorem step_spec al p o :
  Inv p -> op_wf o ->
  match pb_step al p o with
  | POk p' r ws =>
      Inv p' /\ pb_abs p' = spec_step (pb_abs p) o /\ Forall (wr_ok (size p')) ws /\
      req_size (pb_abs p) o <= INT_MAX
  | PErr p' e => p' = p /\ (e = EFBIG \/ e = ENOMEM)
  | PUB => False
  end.
Proof.
  intros HI Hwf. pose proof (abs_len p HI) as Hal. destruct o as [bs|bs n|off c len|out|]; cbn [pb_step].
  - pose proof (memappend_spec al p bs (zlen bs) HI) as H.
    destruct (pb_memappend al p bs (zlen bs)) as [p' r ws|p' e|].
    + destruct H as (H1 & H2 & H3 & H4 & H5 & H6 & H7 & H8).
      rewrite zfirstn_all in H2 by lia. cbn [spec_step req_size]. rewrite Hal. auto.
    + exact H.
    + lia.
  - pose proof (memappend_spec al p bs n HI) as H. cbn [op_wf] in Hwf.
    destruct (pb_memappend al p bs n) as [p' r ws|p' e|].
    + destruct H as (H1 & H2 & H3 & H4 & H5 & H6 & H7 & H8).
      cbn [spec_step req_size]. rewrite Hal. auto.
    + exact H.
    + lia.
  - pose proof (memset_spec al p off c len HI) as H.
    destruct (pb_memset al p off c len) as [p' r ws|p' e|]; [|exact H|exact H].
    destruct H as (H1 & H2 & H3 & H4 & H5). auto.
  - unfold pb_sprintbuf. pose proof (memappend_spec al p out (zlen out) HI) as H.
    destruct (pb_memappend al p out (zlen out)) as [p' r ws|p' e|].
    + destruct H as (H1 & H2 & H3 & H4 & H5 & H6 & H7 & H8).
      rewrite zfirstn_all in H2 by lia. cbn [spec_step req_size]. rewrite Hal. auto.
    + exact H.
    + lia.
  - pose proof (reset_spec p HI) as H. unfold pb_reset in *.
    destruct H as (H1 & H2 & H3 & H4). cbn [spec_step req_size]. unfold INT_MAX.
    split; [exact H1|]. split; [exact H2|]. split; [exact H3|lia].
Qed.

Theorem append_nul_inside al p o p' r ws :
  Inv p -> (exists bs, o = OpAppend bs \/ o = OpSprintf bs \/ exists n, o = OpAppendN bs n) ->
  pb_step al p o = POk p' r ws ->
  bpos p' < size p' /\ pb_term p' = TNul.
Proof.
  intros HI (bs & [->|[->|(n & ->)]]) H; cbn [pb_step] in H; unfold pb_sprintbuf in H.
  - pose proof (memappend_spec al p bs (zlen bs) HI) as S. rewrite H in S. tauto.
  - pose proof (memappend_spec al p bs (zlen bs) HI) as S. rewrite H in S. tauto.
  - pose proof (memappend_spec al p bs n HI) as S. rewrite H in S. tauto.
Qed.

Theorem oversize_refused_unchanged al p o :
  Inv p -> req_size (pb_abs p) o > INT_MAX -> pb_step al p o = PErr p EFBIG.
Proof.
  intros HI H. pose proof (abs_len p HI) as Hal. pose proof HI as (Hm & Hb & Hs & Hc).
  destruct o as [bs|bs n|off c len|out|]; cbn [pb_step req_size] in *; rewrite ?Hal in H.
  - unfold pb_memappend. destruct ((zlen bs <? 0) || (zlen bs >? INT_MAX - bpos p - 1)) eqn:E; [reflexivity|lia].
  - unfold pb_memappend. destruct ((n <? 0) || (n >? INT_MAX - bpos p - 1)) eqn:E; [reflexivity|lia].
  - unfold pb_memset. set (o := if off =? -1 then bpos p else off) in *.
    destruct ((len <? 0) || (o <? -1) || (len >? INT_MAX - o)) eqn:E; [reflexivity|lia].
  - unfold pb_sprintbuf, pb_memappend.
    destruct ((zlen out <? 0) || (zlen out >? INT_MAX - bpos p - 1)) eqn:E; [reflexivity|lia].
  - unfold INT_MAX in H. lia.
Qed.

(* requests that fit (with the 8 bytes of slack the growth policy wants) are served
   whenever the allocator cooperates: refusals are never spurious *)
Definition args_nonneg (o : pbop) : Prop :=
  match o with
  | OpAppendN bs n => 0 <= n <= zlen bs
  | OpMemset off _ len => -1 <= off /\ 0 <= len
  | _ => True
  end.

Theorem fitting_request_served p o :
  Inv p -> args_nonneg o -> req_size (pb_abs p) o <= INT_MAX - 8 ->
  exists p' r ws, pb_step (fun _ => true) p o = POk p' r ws.
Proof.
  intros HI Ha Hr. pose proof (abs_len p HI) as Hal. pose proof HI as (Hm & Hb & Hs & Hc).
  assert (Hext : forall ms, 0 <= ms <= INT_MAX - 8 -> exists p', pb_extend (fun _ => true) p ms = EOk p').
  { intros ms Hms. destruct (pb_extend (fun _ => true) p ms) as [p'|e|] eqn:EX.
    - eauto.
    - exfalso. unfold pb_extend in EX.
      destruct (size p >=? ms); [discriminate|]. destruct (ms >? INT_MAX - 8) eqn:E; [lia|].
      destruct (negb _ || negb _); discriminate.
    - exfalso. eapply extend_no_ub; [exact HI| |exact EX]. lia. }
  assert (Happ : forall bs n, 0 <= n <= zlen bs -> bpos p + n + 1 <= INT_MAX - 8 ->
            exists p' r ws, pb_memappend (fun _ => true) p bs n = POk p' r ws).
  { intros bs n Hn Hq. unfold pb_memappend.
    destruct ((n <? 0) || (n >? INT_MAX - bpos p - 1)) eqn:E; [unfold INT_MAX in *; lia|].
    assert (Hin : in_int (bpos p + n + 1) = true) by (unfold in_int, INT_MIN, INT_MAX in *; lia).
    rewrite Hin; cbn [negb]. assert (E2 : (n >? zlen bs) = false) by lia.
    destruct (size p <=? bpos p + n + 1).
    - destruct (Hext (bpos p + n + 1)) as [p' ->]; [lia|]. unfold memappend_cont. rewrite E2. eauto.
    - unfold memappend_cont. rewrite E2. eauto. }
  destruct o as [bs|bs n|off c len|out|]; cbn [pb_step req_size args_nonneg] in *; rewrite ?Hal in Hr.
  - apply Happ; [pose proof (zlen_nonneg bs)|]; lia.
  - apply Happ; lia.
  - unfold pb_memset. set (o := if off =? -1 then bpos p else off) in *.
    assert (0 <= o) by (subst o; destruct (off =? -1) eqn:E; lia).
    destruct ((len <? 0) || (o <? -1) || (len >? INT_MAX - o)) eqn:E; [unfold INT_MAX in *; lia|].
    assert (Hin : in_int (o + len) = true) by (unfold in_int, INT_MIN, INT_MAX in *; lia).
    rewrite Hin; cbn [negb].
    assert (Hc2 : forall q, exists p' r ws, memset_cont o c len q = POk p' r ws).
    { intros q. unfold memset_cont. destruct (bpos q <? o); eauto. }
    destruct (size p <? o + len).
    + destruct (Hext (o + len)) as [p' ->]; [lia|]. apply Hc2.
    + apply Hc2.
  - unfold pb_sprintbuf. apply Happ; [pose proof (zlen_nonneg out)|]; lia.
  - unfold pb_reset. eauto.
Qed.

(* ---- whole histories ---- *)
Fixpoint pb_run (al : alloc) (p : pbuf) (ops : list pbop) : option (pbuf * list bool) :=
  match ops with
  | [] => Some (p, [])
  | o :: os =>
      match pb_step al p o with
      | POk p' _ _ => match pb_run al p' os with Some (q, ks) => Some (q, true :: ks) | None => None end
      | PErr p' _ => match pb_run al p' os with Some (q, ks) => Some (q, false :: ks) | None => None end
      | PUB => None
      end
  end.

Fixpoint spec_run (s : spec) (ops : list pbop) (oks : list bool) : spec :=
  match ops, oks with
  | o :: os, true :: ks => spec_run (spec_step s o) os ks
  | _ :: os, false :: ks => spec_run s os ks
  | _, _ => s
  end.

Theorem run_refines al ops : forall p,
  Inv p -> Forall op_wf ops ->
  exists q oks, pb_run al p ops = Some (q, oks) /\ Inv q /\ pb_abs q = spec_run (pb_abs p) ops oks /\
                length oks = length ops.
Proof.
  induction ops as [|o os IH]; intros p HI Hwf.
  - exists p, []. cbn. auto.
  - inversion Hwf as [|? ? Ho Hos]; subst. cbn [pb_run].
    pose proof (step_spec al p o HI Ho) as S.
    destruct (pb_step al p o) as [p' r ws|p' e|]; [| |contradiction].
    + destruct S as (HI' & Ha & _). destruct (IH p' HI' Hos) as (q & ks & -> & HIq & Hq & Hlen).
      exists q, (true :: ks). cbn [spec_run length]. rewrite <- Ha. auto.
    + destruct S as (-> & _). destruct (IH p HI Hos) as (q & ks & -> & HIq & Hq & Hlen).
      exists q, (false :: ks). cbn [spec_run length]. auto.
Qed.

(* every write of every step of every history lies inside the allocation *)
Theorem writes_in_bounds al p o p' r ws :
  Inv p -> op_wf o -> pb_step al p o = POk p' r ws -> Forall (wr_ok (size p')) ws.
Proof.
  intros HI Hwf H. pose proof (step_spec al p o HI Hwf) as S. rewrite H in S. tauto.
Qed.

(* non-vacuity *)
Example inv_nontrivial :
  exists q oks, pb_run (fun _ => true) pb_new
     [OpAppend [104;105]; OpMemset 40 120 3; OpReset; OpSprintf [1;2;3]; OpMemset (-1) 7 2] = Some (q, oks)
     /\ pb_abs q = [1;2;3;7;7] /\ oks = [true;true;true;true;true].
Proof. eexists _, _. vm_compute. repeat split. Qed.
