(* Properties_C08.v — statements only.  C08: one allocation failure gives a clean failure:
   no leak, crash or corruption.

   Reading aid.  [op_fault_clean same before post out] (AllocModel.v) is the one shape of all
   statements below: the operation either completes ([Done]) with a result that meets [post],
   or refuses ([Refused]) leaving the state [same] as [before], and never reaches undefined
   behaviour ([Undefined] — out-of-bounds access, release of a block that is not live, ...).
   The allocator is always a universally quantified oracle: the k-th request failing for any
   k, two requests failing, all requests failing are instances, so every theorem holds for
   ALL fault patterns, not only single faults.

   Ledger models (AllocModel.v): [ast] = (requests made, multiset [live] of blocks handed out
   and not released); [res] = Ok | Fail | UB; [same_live s s'] = the same blocks are live:
   nothing leaked, nothing released.

   Theorems named *_refuted are negative controls: the same statement for the code as it was
   BEFORE the repair commit (kept as a second definition, selected by a boolean), with a
   witness evaluated by vm_compute.  They show that the theorems depend on the repairs.

   PARTIAL (not covered by theorems, only by the exhaustive-k fault enumeration of the
   check): the tokener's allocation sites other than the attach step, deep copy, JSON
   pointer set, JSON patch. *)
From JC Require Import Base Value PbModel SerModel AllocModel AllocProofs.
From JC Require PbProofs AlModel AlProofs LhModel LhProofs StrModel StrProofs.
From Coq Require Import Permutation.
Local Open Scope Z_scope.

(* ================= the four existing developments, uniform shape, all allocator behaviours *)

(* print buffer (printbuf.c): append, memset, sprintbuf, reset *)
Theorem C08_pb_fault_clean : forall al p o,
  PbProofs.Inv p -> PbProofs.op_wf o ->
  op_fault_clean eq p
    (fun p' _ => PbProofs.Inv p' /\ PbProofs.pb_abs p' = PbModel.spec_step (PbProofs.pb_abs p) o)
    (pb_out (pb_step al p o)).
Proof. exact pb_fault_clean. Qed.
Print Assumptions C08_pb_fault_clean.

(* array list (arraylist.c): add, put_idx, insert_idx, del_idx, shrink, sort *)
Theorem C08_al_fault_clean : forall al a o,
  AlProofs.Inv a -> AlProofs.op_wf o ->
  op_fault_clean eq a
    (fun a' rel => AlProofs.Inv a' /\
                   AlProofs.al_abs a' = fst (AlModel.spec_step (AlProofs.al_abs a) o) /\
                   rel = snd (AlModel.spec_step (AlProofs.al_abs a) o))
    (al_out (AlModel.al_step al a o)).
Proof. exact al_fault_clean. Qed.
Print Assumptions C08_al_fault_clean.

(* hash table + json_object_object_add_ex (linkhash.c, json_object.c): every key type, hash
   function and flag combination; [fail1] = the first allocation of the call is refused *)
Theorem C08_lh_fault_clean : forall (key val : Type) (keq : key -> key -> bool) (hash : key -> Z),
  (forall a b, keq a b = true <-> a = b) ->
  forall (al : LhModel.alloc) (fail1 : bool) (t : LhModel.table key val) (k : key) (v : val) (is_new cst : bool),
  LhProofs.Inv hash t -> (is_new = true -> LhModel.a_mem keq (LhProofs.abs t) k = false) ->
  op_fault_clean eq t
    (fun t' _ => LhProofs.Inv hash t' /\ LhProofs.abs t' = LhModel.a_add keq (LhProofs.abs t) k v)
    (lh_out t (LhModel.obj_add_ex keq hash al fail1 t k v is_new cst)).
Proof. exact lh_fault_clean. Qed.
Print Assumptions C08_lh_fault_clean.

(* string node: json_object_set_string / _len, source outside the node or the node's own buffer
   ([bs0] = the contents at the call); a refused set keeps contents, storage and the malloc/free log *)
Theorem C08_str_fault_clean : forall al s bs0 o,
  StrProofs.InvC s bs0 -> StrProofs.op_wf bs0 o ->
  op_fault_clean (fun s s' => StrProofs.same_store s s' /\ StrProofs.InvC s' bs0) s
    (fun s' ws => StrProofs.InvC s' (StrModel.op_bytes bs0 o) /\ Forall (StrProofs.wr_ok (StrModel.hp s')) ws)
    (str_out (StrModel.str_step al s o)).
Proof. exact str_fault_clean. Qed.
Print Assumptions C08_str_fault_clean.

(* json_object_new_string_len *)
Theorem C08_str_new_fault_clean : forall al src len,
  INT_MIN <= len <= INT_MAX -> (0 <= len -> len <= zlen src) ->
  op_fault_clean eq tt
    (fun _ s => StrProofs.InvC s (zfirstn len src) /\
                StrModel.elog s = [StrModel.EvMalloc 0 (StrProofs.objsize_of len)])
    (strnew_out (StrModel.new_string_len al src len)).
Proof. exact str_new_fault_clean. Qed.
Print Assumptions C08_str_new_fault_clean.

(* ================= constructors with roll-back: NULL leaves exactly the blocks that were live *)
Theorem C08_new_double_s_clean : forall o s,
  op_fault_clean same_live s (fun s' r => live s' = snd r :: fst r :: live s) (res_out (new_double_s o s)).
Proof. exact new_double_s_clean. Qed.
Print Assumptions C08_new_double_s_clean.

Theorem C08_printbuf_new_clean : forall o s,
  op_fault_clean same_live s (fun s' r => live s' = snd r :: fst r :: live s) (res_out (printbuf_new o s)).
Proof. exact printbuf_new_clean. Qed.
Print Assumptions C08_printbuf_new_clean.

Theorem C08_lh_table_new_clean : forall o s,
  op_fault_clean same_live s (fun s' r => live s' = snd r :: fst r :: live s) (res_out (lh_table_new o s)).
Proof. exact lh_table_new_clean. Qed.
Print Assumptions C08_lh_table_new_clean.

Theorem C08_new_object_clean : forall o s,
  op_fault_clean same_live s
    (fun s' r => live s' = snd r :: snd (fst r) :: fst (fst r) :: live s) (res_out (new_object o s)).
Proof. exact new_object_clean. Qed.
Print Assumptions C08_new_object_clean.

Theorem C08_new_array_clean : forall o s,
  op_fault_clean same_live s
    (fun s' r => live s' = snd r :: snd (fst r) :: fst (fst r) :: live s) (res_out (new_array o s)).
Proof. exact new_array_clean. Qed.
Print Assumptions C08_new_array_clean.

Theorem C08_tokener_new_clean : forall o s,
  op_fault_clean same_live s (fun s' r => live s' = rev r ++ live s /\ length r = 4%nat)
    (res_out (tokener_new o s)).
Proof. exact tokener_new_clean. Qed.
Print Assumptions C08_tokener_new_clean.

Theorem C08_ctors_nonvacuous :
  new_double_s no_fault (mkast 7 [3%nat]) = Ok (7%nat, 8%nat) (mkast 9 [8; 7; 3]%nat) /\
  new_double_s (single_fault 8) (mkast 7 [3%nat]) = Fail (mkast 9 [3%nat]) /\
  tokener_new no_fault (mkast 0 []) = Ok [0; 1; 2; 3]%nat (mkast 4 [3; 2; 1; 0]%nat) /\
  tokener_new (single_fault 3) (mkast 0 []) = Fail (mkast 4 []) /\
  new_object (single_fault 2) (mkast 0 []) = Fail (mkast 3 []) /\
  new_array (single_fault 1) (mkast 0 []) = Fail (mkast 2 []).
Proof. exact ctors_nonvacuous. Qed.
Print Assumptions C08_ctors_nonvacuous.

(* ================= json_object_object_add_ex with the ledger (code after commit f86b8ce) *)
(* live before = table ++ value ++ rest.  Done: the table owns the value (and one new key
   block unless the key is constant).  Refused: the same blocks are live — no key copy leaked,
   the value still the caller's, the table untouched.  Never a double release. *)
Theorem C08_object_add_clean : forall o t k v (is_new cst : bool) s rest,
  Permutation (live s) (tab_blocks t ++ v ++ rest) ->
  op_fault_clean same_live s
    (fun s' t' =>
       Permutation (live s') (tab_blocks t' ++ rest) /\ t_struct t' = t_struct t /\
       match (if is_new then @None nat else lookup k (t_ents t)) with
       | Some n => t_ents t' = set_val (t_ents t) n v /\ t_array t' = t_array t
       | None => exists kb, t_ents t' = t_ents t ++ [mkoe kb k v] /\ (cst = true <-> kb = None)
       end)
    (res_out (object_add o t k v is_new cst s)).
Proof. exact object_add_clean. Qed.
Print Assumptions C08_object_add_clean.

(* the instance the property text names: every single fault index k, and every pair *)
Theorem C08_object_add_every_k : forall (k j : nat) t key v (is_new cst : bool) s rest,
  Permutation (live s) (tab_blocks t ++ v ++ rest) ->
  (forall s', object_add (single_fault k) t key v is_new cst s = Fail s' -> live s' = live s) /\
  (forall s', object_add (double_fault k j) t key v is_new cst s = Fail s' -> live s' = live s) /\
  object_add (single_fault k) t key v is_new cst s <> UB /\
  object_add (double_fault k j) t key v is_new cst s <> UB.
Proof. exact object_add_every_k. Qed.
Print Assumptions C08_object_add_every_k.

(* negative control: the code before the repair leaks the key copy (block 100) *)
Theorem C08_object_add_key_leak_refuted :
  object_add_orig (single_fault 101) ex_tab11 [120] [] false false ex_s11
    = Fail (mkast 102 (100%nat :: live ex_s11)) /\
  ~ op_fault_clean same_live ex_s11 (fun _ _ => True)
      (res_out (object_add_orig (single_fault 101) ex_tab11 [120] [] false false ex_s11)).
Proof. exact object_add_key_leak_refuted. Qed.
Print Assumptions C08_object_add_key_leak_refuted.

Theorem C08_object_add_nonvacuous :
  object_add (single_fault 101) ex_tab11 [120] [] false false ex_s11 = Fail (mkast 102 (live ex_s11)) /\
  object_add (single_fault 102) ex_tab11 [120] [] false false ex_s11 = Fail (mkast 103 (live ex_s11)) /\
  match object_add no_fault ex_tab11 [120] [] false false ex_s11 with
  | Ok t' s' => t_size t' = 32 /\ zlen (t_ents t') = 12 /\ t_array t' = 102%nat /\
                Permutation (live s') (tab_blocks t')
  | _ => False
  end.
Proof. exact object_add_nonvacuous. Qed.
Print Assumptions C08_object_add_nonvacuous.

(* ================= array add and the tokener's attach step (code after commit 1c6a7b2) *)
Theorem C08_array_add_clean : forall o a child s rest,
  Permutation (live s) (arr_blocks a ++ child ++ rest) ->
  op_fault_clean same_live s
    (fun s' a' => Permutation (live s') (arr_blocks a' ++ rest) /\ ar_elems a' = ar_elems a ++ [child])
    (res_out (arr_add o a child s)).
Proof. exact arr_add_clean. Qed.
Print Assumptions C08_array_add_clean.

(* live before = container ++ finished child (held by the call-local only) ++ rest.  Either
   the child now belongs to the container, or the parse stops with "memory" and exactly the
   child's blocks were released, each once *)
Theorem C08_attach_array_clean : forall o cur child s rest,
  Permutation (live s) (arr_blocks cur ++ child ++ rest) ->
  op_fault_clean (fun _ s' => Permutation (live s') (arr_blocks cur ++ rest)) s
    (fun s' a' => Permutation (live s') (arr_blocks a' ++ rest) /\ ar_elems a' = ar_elems cur ++ [child])
    (res_out (attach_array o cur child s)).
Proof. exact attach_array_clean. Qed.
Print Assumptions C08_attach_array_clean.

Theorem C08_attach_object_clean : forall o cur name child s rest,
  Permutation (live s) (tab_blocks cur ++ child ++ rest) ->
  op_fault_clean (fun _ s' => Permutation (live s') (tab_blocks cur ++ rest)) s
    (fun s' t' => Permutation (live s') (tab_blocks t' ++ rest))
    (res_out (attach_object o cur name child s)).
Proof. exact attach_object_clean. Qed.
Print Assumptions C08_attach_object_clean.

(* negative control: before the repair the child (blocks 50, 51) stays live with no owner *)
Theorem C08_parse_child_leak_refuted :
  attach_array_orig (single_fault 100) ex_arr32 [50; 51]%nat ex_sa = Fail (mkast 101 (live ex_sa)) /\
  ~ op_fault_clean (fun _ s' => Permutation (live s') (arr_blocks ex_arr32 ++ [9%nat])) ex_sa (fun _ _ => True)
      (res_out (attach_array_orig (single_fault 100) ex_arr32 [50; 51]%nat ex_sa)).
Proof. exact parse_child_leak_refuted. Qed.
Print Assumptions C08_parse_child_leak_refuted.

Theorem C08_attach_nonvacuous :
  attach_array (single_fault 100) ex_arr32 [50; 51]%nat ex_sa = Fail (mkast 101 (arr_blocks ex_arr32 ++ [9%nat])) /\
  match attach_array no_fault ex_arr32 [50; 51]%nat ex_sa with
  | Ok a' s' => ar_size a' = 64 /\ ar_len a' = 33 /\ ar_store a' = 100%nat /\ live s' = [100; 0; 1; 50; 51; 9]%nat
  | _ => False
  end /\
  attach_object (single_fault 101) ex_tab11 [120] [50; 51]%nat (mkast 100 (tab_blocks ex_tab11 ++ [50; 51; 9]%nat))
    = Fail (mkast 102 (tab_blocks ex_tab11 ++ [9%nat])).
Proof. exact attach_nonvacuous. Qed.
Print Assumptions C08_attach_nonvacuous.

(* ================= the serializer over the fallible print buffer (code after commit cfba3e0) *)
(* every tree, flag word, allocator behaviour during every print-buffer call, fresh or
   re-used buffer ([pb = None]: printbuf_new failed): never undefined, and a returned text is
   the complete fault-free text *)
Theorem C08_serialize_fallible_exact : forall (fmt17 : Z -> list byte) pb orc fl v,
  (forall p, pb = Some p -> PbProofs.Inv p) ->
  match serialize_fallible fmt17 pb orc fl v with
  | STxt t => t = ser_text fmt17 fl v
  | SNull => True
  | SUB => False
  end.
Proof. exact serialize_fallible_exact. Qed.
Print Assumptions C08_serialize_fallible_exact.

(* ... which is the text of the serializer model of C02 *)
Theorem C08_ser_text_is_serialize : forall (fmt17 : Z -> list byte) fl v,
  ser_text fmt17 fl v = serialize fmt17 fl 0 v.
Proof. exact ser_text_is_serialize. Qed.
Print Assumptions C08_ser_text_is_serialize.

(* not vacuous: a cooperating allocator yields the text (below INT_MAX bytes) *)
Theorem C08_serialize_fault_free_returns : forall (fmt17 : Z -> list byte) fl v p,
  PbProofs.Inv p -> zlen (ser_text fmt17 fl v) <= INT_MAX - 9 ->
  serialize_fallible fmt17 (Some p) (fun _ _ => true) fl v = STxt (ser_text fmt17 fl v).
Proof. exact serialize_fault_free_returns. Qed.
Print Assumptions C08_serialize_fault_free_returns.

(* negative control: before the repair a 40-byte string came back as the text  ""  *)
Theorem C08_ser_fault_wrong_text_refuted :
  serialize_orig (fun _ => []) (Some pb_new) ex_orc_first_growth flags_plain ex_str40 = STxt [34; 34] /\
  ser_text (fun _ => []) flags_plain ex_str40 = 34 :: repeat 97 40 ++ [34] /\
  serialize_fallible (fun _ => []) (Some pb_new) ex_orc_first_growth flags_plain ex_str40 = SNull /\
  serialize_fallible (fun _ => []) (Some pb_new) (fun _ _ => true) flags_plain ex_str40
    = STxt (34 :: repeat 97 40 ++ [34]).
Proof. exact ser_fault_wrong_text_refuted. Qed.
Print Assumptions C08_ser_fault_wrong_text_refuted.

(* ================= sprintbuf with its vasprintf temporary (printbuf.c) *)
(* every allocator behaviour, every formatted output on either side of the 128-byte stack
   buffer: Done — the contents grew by exactly the output and only the buffer's block (the
   old one, or the one new block that replaced it) is live besides [rest]; Refused (-1) —
   the very same blocks are live as before: the temporary was released, once *)
Theorem C08_sprintbuf_clean : forall o q out s rest,
  PbProofs.Inv (lp_buf q) ->
  Permutation (live s) (lp_blk q :: rest) ->
  op_fault_clean same_live s
    (fun s' qr => PbProofs.Inv (lp_buf (fst qr)) /\
                  PbProofs.pb_abs (lp_buf (fst qr)) = PbProofs.pb_abs (lp_buf q) ++ out /\
                  Permutation (live s') (lp_blk (fst qr) :: rest))
    (res_out (sprintbuf o q out s)).
Proof. exact sprintbuf_clean. Qed.
Print Assumptions C08_sprintbuf_clean.

(* negative control: with one early "return -1" for both failures of the long branch the
   temporary (block 10) stays live when the buffer cannot grow; plus non-vacuity of the
   statement above (both failure points, success with growth, the short branch) *)
Theorem C08_sprintbuf_tmp_leak_refuted :
  sprintbuf_flat (single_fault 11) ex_lpb ex_out200 (mkast 10 [0%nat]) = Fail (mkast 12 [10; 0]%nat) /\
  ~ op_fault_clean same_live (mkast 10 [0%nat]) (fun _ _ => True)
      (res_out (sprintbuf_flat (single_fault 11) ex_lpb ex_out200 (mkast 10 [0%nat]))) /\
  sprintbuf (single_fault 11) ex_lpb ex_out200 (mkast 10 [0%nat]) = Fail (mkast 12 [0%nat]) /\
  sprintbuf (single_fault 10) ex_lpb ex_out200 (mkast 10 [0%nat]) = Fail (mkast 11 [0%nat]) /\
  match sprintbuf no_fault ex_lpb ex_out200 (mkast 10 [0%nat]) with
  | Ok (q', r) s' => r = 200 /\ live s' = [11%nat] /\ lp_blk q' = 11%nat /\ pb_text (lp_buf q') = ex_out200
  | _ => False
  end /\
  match sprintbuf (single_fault 10) ex_lpb (repeat 120 20) (mkast 10 [0%nat]) with
  | Ok (q', r) s' => r = 20 /\ live s' = [0%nat] /\ nreq s' = 10%nat
  | _ => False
  end.
Proof. exact sprintbuf_tmp_leak_refuted. Qed.
Print Assumptions C08_sprintbuf_tmp_leak_refuted.

(* ================= configuration calls that allocate: json_c_set_serialization_double_format *)
(* every scope value, format or NULL, allocator behaviour; [fc_st] is C02's model of the
   settings (SerModel.fmt_state / set_format).  Return 0: the settings are those of
   SerModel.set_format and exactly their strings are live.  Return -1: configuration and live
   blocks are exactly what they were *)
Theorem C08_set_format_clean : forall o c tid fmt scope s rest,
  Permutation (live s) (cfg_blocks c ++ rest) ->
  op_fault_clean (fun b a => fst a = fst b /\ live (snd a) = live (snd b)) (c, s)
    (fun a _ => fc_st (fst a) = fst (set_format true (fc_st c) tid fmt scope) /\
                Permutation (live (snd a)) (cfg_blocks (fst a) ++ rest))
    (cfg_out (set_format_cfg o c tid fmt scope s)).
Proof. exact set_format_clean. Qed.
Print Assumptions C08_set_format_clean.

(* ... so after a failed call every thread serializes doubles as before *)
Theorem C08_set_format_failed_keeps_effective : forall o c tid fmt scope s rest c' rc s',
  Permutation (live s) (cfg_blocks c ++ rest) ->
  set_format_cfg o c tid fmt scope s = Ok (c', rc) s' -> rc <> 0 ->
  (forall t, effective (fc_st c') t = effective (fc_st c) t) /\ live s' = live s.
Proof. exact set_format_failed_keeps_effective. Qed.
Print Assumptions C08_set_format_failed_keeps_effective.

(* negative control (the thread's override released before the copy) and non-vacuity *)
Theorem C08_set_format_early_free_refuted :
  set_format_early (single_fault 10) ex_cfg 1 (Some [37; 46; 50; 102]) 0 (mkast 10 [5%nat])
    = Ok (mkfc (mkfs None []) None None, -1) (mkast 11 []) /\
  effective (fc_st ex_cfg) 1 = Some [37; 46; 51; 102] /\
  effective (mkfs None []) 1 = None /\
  set_format_cfg (single_fault 10) ex_cfg 1 (Some [37; 46; 50; 102]) 0 (mkast 10 [5%nat])
    = Ok (ex_cfg, -1) (mkast 11 [5%nat]) /\
  set_format_cfg no_fault ex_cfg 1 (Some [37; 46; 50; 102]) 0 (mkast 10 [5%nat])
    = Ok (mkfc (mkfs (Some [37; 46; 50; 102]) []) (Some 10%nat) None, 0) (mkast 11 [10%nat]) /\
  set_format_cfg (single_fault 10) ex_cfg 1 (Some [37; 46; 50; 102]) 7 (mkast 10 [5%nat])
    = Ok (ex_cfg, -1) (mkast 10 [5%nat]).
Proof. exact set_format_early_free_refuted. Qed.
Print Assumptions C08_set_format_early_free_refuted.

(* ================= operations that need no memory, and shrinking (arraylist.c) *)
(* (the slot-level versions — no out-of-bounds access, exact contents — are part of
   C08_al_fault_clean: AlModel.al_step covers ODel and OShrink) *)

(* json_object_array_del_idx: the model has no allocator argument, so this holds under every
   allocator behaviour.  Done: range released once, capacity and slot array kept, no request
   made.  Refused: nothing changed at all *)
Theorem C08_array_del_clean : forall a idx count s rest,
  Permutation (live s) (arr_blocks a ++ rest) ->
  op_fault_clean eq s
    (fun s' a' => Permutation (live s') (arr_blocks a' ++ rest) /\ nreq s' = nreq s /\
                  ar_elems a' = zfirstn idx (ar_elems a) ++ zskipn (idx + count) (ar_elems a) /\
                  ar_len a' = ar_len a - count /\ ar_size a' = ar_size a /\ ar_store a' = ar_store a)
    (res_out (arr_del a idx count s)).
Proof. exact arr_del_clean. Qed.
Print Assumptions C08_array_del_clean.

(* json_object_array_shrink: may fail; then the same blocks are live and the array is unchanged *)
Theorem C08_array_shrink_clean : forall o a n s rest,
  Permutation (live s) (arr_blocks a ++ rest) ->
  op_fault_clean same_live s
    (fun s' a' => Permutation (live s') (arr_blocks a' ++ rest) /\ ar_elems a' = ar_elems a /\ ar_len a' = ar_len a)
    (res_out (arr_shrink o a n s)).
Proof. exact arr_shrink_clean. Qed.
Print Assumptions C08_array_shrink_clean.

(* negative control (a delete that ends in "return array_list_shrink(...)": failure reported
   after the array changed) and non-vacuity of the two statements above *)
Theorem C08_del_reports_failure_after_change_refuted :
  (let '(r, now) := arr_del_shrinking (single_fault 100) ex_arr40 0 35 ex_s40 in
   r = Fail (mkast 101 [0; 1; 2; 45; 46; 47; 48; 49]%nat) /\
   match now with Some a1 => ar_len a1 = 5 | None => False end) /\
  arr_del ex_arr40 0 35 ex_s40
    = Ok (mkarr 0 1 2 5 64 (map (fun i => [i]) (seq 45 5))) (mkast 100 [0; 1; 2; 45; 46; 47; 48; 49]%nat) /\
  arr_del ex_arr40 38 3 ex_s40 = Fail ex_s40 /\
  arr_shrink (single_fault 100) ex_arr40 0 ex_s40 = Fail (mkast 101 (live ex_s40)) /\
  match arr_shrink no_fault ex_arr40 0 ex_s40 with
  | Ok a' s' => ar_size a' = 40 /\ ar_store a' = 100%nat /\ ar_elems a' = ar_elems ex_arr40
  | _ => False
  end.
Proof. exact del_reports_failure_after_change_refuted. Qed.
Print Assumptions C08_del_reports_failure_after_change_refuted.

(* ================= the tokener's temporary "C" numeric locale (json_tokener_parse_ex) *)
(* duplocale and newlocale as requests, every allocator behaviour: on "memory" exactly the
   blocks that were live are live — the copy, if made, was released *)
Theorem C08_locale_setup_clean : forall o s,
  op_fault_clean same_live s (fun s' l => live s' = l :: live s) (res_out (locale_setup o s)).
Proof. exact locale_setup_clean. Qed.
Print Assumptions C08_locale_setup_clean.

(* set-up, any parse in between that leaves the temporary locale alone, tear-down: the locale
   object is released exactly once *)
Theorem C08_parse_bracket_clean : forall o body s,
  (forall l s1, live s1 = l :: live s -> exists rest, live (body s1) = l :: rest) ->
  match parse_bracket o body s with
  | Ok _ s' => exists l s1, locale_setup o s = Ok l s1 /\ live (body s1) = l :: live s'
  | Fail s' => live s' = live s
  | UB => False
  end.
Proof. exact parse_bracket_clean. Qed.
Print Assumptions C08_parse_bracket_clean.

(* negative control (a helper that trusts newlocale to take the copy over also when it fails)
   and non-vacuity *)
Theorem C08_locale_copy_leak_refuted :
  locale_setup_trusting (single_fault 11) (mkast 10 [3%nat]) = Fail (mkast 12 [10; 3]%nat) /\
  ~ op_fault_clean same_live (mkast 10 [3%nat]) (fun _ _ => True)
      (res_out (locale_setup_trusting (single_fault 11) (mkast 10 [3%nat]))) /\
  locale_setup (single_fault 11) (mkast 10 [3%nat]) = Fail (mkast 12 [3%nat]) /\
  locale_setup (single_fault 10) (mkast 10 [3%nat]) = Fail (mkast 11 [3%nat]) /\
  locale_setup no_fault (mkast 10 [3%nat]) = Ok 10%nat (mkast 12 [10; 3]%nat) /\
  parse_bracket no_fault (fun s => s) (mkast 10 [3%nat]) = Ok tt (mkast 12 [3%nat]).
Proof. exact locale_copy_leak_refuted. Qed.
Print Assumptions C08_locale_copy_leak_refuted.
