(* Properties_C04.v — statements only (C04: total, outcome trichotomy, end <= len, reuse). *)
From JC Require Import Base Value TokModel TokFrame TokStack TokTotal TokReset TokDead TokDead2.
Local Open Scope Z_scope.

(* for ANY bytes, flags, depth limit and prior state: exactly one of (value, success),
   (no value, continue), (no value, error); the reported end position lies within the bytes
   given; depth limit and flags are untouched *)
Theorem C04_outcome_trichotomy_end_le_len : forall sb t bytes t' r,
  parse_ex sb t bytes = PR t' r ->
  ((exists v, r = Some v) /\ err t' = TE_success \/
   r = None /\ err t' = TE_continue \/
   r = None /\ err t' <> TE_success /\ err t' <> TE_continue) /\
  0 <= char_offset t' <= zlen bytes /\
  cfg0 t' = cfg0 t.
Proof. exact parse_ex_outcome. Qed.
Print Assumptions C04_outcome_trichotomy_end_le_len.

(* the level stack stays inside its allocation through any history of calls *)
Theorem C04_stack_index_in_bounds : forall sb cs t t',
  stack_ok t -> do_calls sb t cs = Some t' -> stack_ok t' /\ max_depth t' = max_depth t.
Proof. exact history_stack_ok. Qed.
Print Assumptions C04_stack_index_in_bounds.

(* the model function is total and receives only the given bytes: a Gallina function of
   [bytes]; the only way it fails to produce an outcome is fuel exhaustion of the redo loop,
   which never happens from a well-formed state *)
Theorem C04_redo_fuel_sufficient : forall sb t l,
  wf_tok t -> exists r, redo sb REDO_FUEL t l = Some r.
Proof. exact redo_fuel_sufficient. Qed.
Print Assumptions C04_redo_fuel_sufficient.

(* a call from a well-formed state always produces an outcome; the state stays well formed
   except in one corner (success reported while a container is still open: a NUL byte inside a
   comment that follows a complete value), after which the parser must be reset *)
Theorem C04_parse_total : forall sb t bytes,
  wf_tok t -> exists t' r, parse_ex sb t bytes = PR t' r /\ (err t' <> TE_success \/ depth t' = 0 -> wf_tok t').
Proof. exact parse_total. Qed.
Print Assumptions C04_parse_total.

Theorem C04_new_and_reset_well_formed :
  (forall d s a v t, tok_new d s a v = Some t -> wf_tok t) /\ (forall t, wf_tok (tok_reset t)).
Proof. split; [exact tok_new_wf|exact tok_reset_wf]. Qed.
Print Assumptions C04_new_and_reset_well_formed.

Theorem C04_open_container_at_nul_is_eof :
  exists t t', tok_new 32 false false false = Some t /\
    parse_ex_cstr (fun _ => 0) t [91;49;32;47;42] = PR t' None /\ err t' = TE_eof.
Proof. exact open_container_at_nul_is_eof. Qed.
Print Assumptions C04_open_container_at_nul_is_eof.

(* reset: the level stack, depth and error of a reset parser are those of a new one ... *)
Theorem C04_reset_levels_as_new : forall t,
  stack (tok_reset t) = [fresh_level] /\ err (tok_reset t) = TE_success /\ cfg0 (tok_reset t) = cfg0 t.
Proof. exact reset_levels_as_new. Qed.
Print Assumptions C04_reset_levels_as_new.

(* ... and, for ALL byte strings and ALL prior states (whatever the parser went through before
   the reset): a call on the reset parser gives the same value, status and end position as the
   call on a new parser with the same limit and flags.  The fields reset does not touch (pb,
   st_pos, is_double, ucs_char, quote_char) are dead: every state that reads one of them is
   entered through a transition that writes it first (step1_dv); high_surrogate is cleared. *)
Theorem C04_reset_is_new : forall sb t bytes,
  match parse_ex sb (new_like t) bytes, parse_ex sb (tok_reset t) bytes with
  | PR t1 r1, PR t2 r2 => r1 = r2 /\ err t1 = err t2 /\ char_offset t1 = char_offset t2
  | PRFuel, PRFuel => True
  | _, _ => False
  end.
Proof. exact reset_is_new. Qed.
Print Assumptions C04_reset_is_new.

Theorem C04_new_like_is_new : forall t, 1 <= max_depth t ->
  exists tn, tok_new (max_depth t) (strict t) (allow_trailing t) (validate_utf8 t) = Some tn /\
             new_like t = set_off tn (char_offset t).
Proof. exact new_like_is_new. Qed.
Print Assumptions C04_new_like_is_new.

(* the same on concrete stale states, evaluated inside Coq *)
Theorem C04_reset_is_new_examples : reset_examples_ok = true.
Proof. exact reset_examples. Qed.
Print Assumptions C04_reset_is_new_examples.

(* ---- the input size guard at the entry of json_tokener_parse_ex (TokSize.v) ----
   len < -1, or len = -1 with strlen >= INT32_MAX, is refused with the size error before a byte is
   read; every accepted call reports an end position within 0..INT32_MAX, so the C int that
   counts characters cannot overflow (fix 5caf9e2: the comparison was > and a NUL-terminated input
   of exactly INT32_MAX bytes ending inside a string or comment stepped the counter to 2^31). *)
From JC Require Import TokSize.

Theorem C04_size_guard_refuses : forall sb t bytes len,
  size_guard true bytes len = true ->
  parse_api sb t bytes len = refuse_size t /\
  (forall t', refuse_size t = PR t' None -> err t' = TE_size /\ char_offset t' = 0 /\ stack t' = stack t /\ TokTotal.cfg0 t' = TokTotal.cfg0 t).
Proof. exact guard_refuses. Qed.
Print Assumptions C04_size_guard_refuses.

Theorem C04_size_guard_passes : forall sb t bytes len,
  size_guard true bytes len = false ->
  parse_api sb t bytes len = if len =? -1 then parse_ex_cstr sb t bytes else parse_ex sb t (zfirstn len bytes).
Proof. exact guard_passes. Qed.
Print Assumptions C04_size_guard_passes.

Theorem C04_end_position_in_int : forall sb t bytes len t' r,
  len <= INT32_MAX -> parse_api sb t bytes len = PR t' r -> 0 <= char_offset t' <= INT32_MAX.
Proof. exact api_offset_in_int. Qed.
Print Assumptions C04_end_position_in_int.

Theorem C04_old_guard_accepts_int32max : forall bytes,
  c_strlen bytes = INT32_MAX -> size_guard false bytes (-1) = false /\ size_guard true bytes (-1) = true.
Proof. exact old_guard_accepts_int32max. Qed.

Theorem C04_over_nul_examples : over_nul_examples = true.
Proof. exact over_nul_examples_ok. Qed.
Print Assumptions C04_over_nul_examples.

(* ---- every outcome leaves a well-formed parser (TokStream.v) ----
   Since the end-of-text test requires depth 0, a call that returns a value always ends at depth 0, so the
   exception in C04_parse_total ("... or success at depth > 0") is empty: from a new or reset parser (hs_ok is kept by
   every call, C03_hs_ok_kept) every call terminates in a well-formed state, whatever the bytes. *)
From JC Require Import TokStream.

Theorem C04_success_depth0 : forall sb t a t' v,
  wf_tok t -> hs_ok t -> parse_ex sb t a = PR t' (Some v) -> depth t' = 0.
Proof. exact success_depth0. Qed.
Print Assumptions C04_success_depth0.

Theorem C04_every_outcome_well_formed : forall sb t bytes,
  wf_tok t -> hs_ok t -> exists t' r, parse_ex sb t bytes = PR t' r /\ wf_tok t'.
Proof.
  intros sb t bytes Hwf Hh. destruct (parse_total sb t bytes Hwf) as (t' & r & E & W).
  exists t', r. split; [exact E|]. apply W.
  destruct (TokTotal.parse_ex_outcome sb t bytes t' r E) as ([((v & ->) & _)|[(_ & Hc)|(_ & Hn & _)]] & _ & _).
  - right. exact (success_depth0 sb t bytes t' v Hwf Hh E).
  - left. rewrite Hc. discriminate.
  - left. exact Hn.
Qed.
Print Assumptions C04_every_outcome_well_formed.
