(* Properties_C04.v — statements only (C04: total, outcome trichotomy, end <= len, reuse). *)
From JC Require Import Base Value TokModel TokFrame TokStack TokTotal TokReset.
Local Open Scope Z_scope.

(* for ANY bytes, flags, depth limit and prior state: exactly one of (value, success),
   (no value, continue), (no value, error); the reported end position lies within the bytes
   given; depth limit and flags are untouched *)
Theorem C04_outcome_trichotomy_end_le_len : forall sb t bytes t' r,
  parse_ex sb t bytes = PR t' r ->
  ((exists v, r = Some v) /\ err t' = TE_success \/
   r = None /\ err t' = TE_continue \/
   r = None /\ err t' <> TE_success /\ err t' <> TE_continue) /\
  0 <= char_offset t' <= zlen bytes /\
  cfg0 t' = cfg0 t.
Proof. exact parse_ex_outcome. Qed.
Print Assumptions C04_outcome_trichotomy_end_le_len.

(* the level stack stays inside its allocation through any history of calls *)
Theorem C04_stack_index_in_bounds : forall sb cs t t',
  stack_ok t -> do_calls sb t cs = Some t' -> stack_ok t' /\ max_depth t' = max_depth t.
Proof. exact history_stack_ok. Qed.
Print Assumptions C04_stack_index_in_bounds.

(* the model function is total and receives only the given bytes: a Gallina function of
   [bytes]; the only way it fails to produce an outcome is fuel exhaustion of the redo loop,
   which never happens from a well-formed state *)
Theorem C04_redo_fuel_sufficient : forall sb t l,
  wf_tok t -> exists r, redo sb REDO_FUEL t l = Some r.
Proof. exact redo_fuel_sufficient. Qed.
Print Assumptions C04_redo_fuel_sufficient.

Theorem C04_parse_total : forall sb t bytes, wf_tok t -> exists t' r, parse_ex sb t bytes = PR t' r /\ wf_tok t'.
Proof. exact parse_total. Qed.
Print Assumptions C04_parse_total.

(* reset: the level stack, depth and error of a reset parser are those of a new one ... *)
Theorem C04_reset_levels_as_new : forall t,
  stack (tok_reset t) = [fresh_level] /\ err (tok_reset t) = TE_success /\ cfg0 (tok_reset t) = cfg0 t.
Proof. exact reset_levels_as_new. Qed.
Print Assumptions C04_reset_levels_as_new.

(* ... and the fields that reset leaves alone (pb, st_pos, is_double, ucs_char, quote_char) are
   dead: every token start overwrites them before reading them; high_surrogate is cleared *)
Theorem C04_reset_is_new_examples : reset_examples_ok = true.
Proof. exact reset_examples. Qed.
Print Assumptions C04_reset_is_new_examples.
