(* Properties_C15.v — statements only (C15: the nesting limit). *)
From JC Require Import Base Value TokModel TokFrame TokStack TokTotal.
Local Open Scope Z_scope.

(* a depth limit below 1 is refused *)
Theorem C15_new_refuses_lt1 : forall d s a v, d < 1 -> tok_new d s a v = None.
Proof. exact tok_new_refuses. Qed.
Print Assumptions C15_new_refuses_lt1.

(* one dispatch changes the level stack by at most one record, and pushes only when the
   current depth is below max_depth - 1 *)
Theorem C15_push_only_below_limit : forall sb t l,
  stack t <> [] -> stk_effect t (sres_tok (step1 sb t l)).
Proof. exact step1_stack. Qed.
Print Assumptions C15_push_only_below_limit.

(* for ALL byte strings (valid or hostile), all flags, every outcome: after a call the
   number of level records is between 1 and the configured limit *)
Theorem C15_depth_lt_max_one_call : forall sb t bytes t' r,
  stack_ok t -> parse_ex sb t bytes = PR t' r -> stack_ok t'.
Proof. exact parse_ex_stack_ok. Qed.
Print Assumptions C15_depth_lt_max_one_call.

(* ... and over any history of parse (any chunking), reset and set_flags calls on a parser
   created with limit D: never more than D records, D itself never changes *)
Theorem C15_depth_lt_max_all_histories : forall sb D s a v t cs t',
  tok_new D s a v = Some t -> do_calls sb t cs = Some t' ->
  1 <= zlen (stack t') <= D /\ max_depth t' = D.
Proof.
  intros sb D s a v t cs t' Hn Hc.
  destruct (tok_new_stack_ok D s a v t Hn) as (H0 & Hm & _).
  destruct (history_stack_ok sb cs t t' H0 Hc) as [H1 H2]. unfold stack_ok in H1. split; congruence || lia.
Qed.
Print Assumptions C15_depth_lt_max_all_histories.

(* the boundary on concrete documents, evaluated inside Coq *)
Theorem C15_examples : depth_examples_ok = true.
Proof. exact depth_examples. Qed.
Print Assumptions C15_examples.
