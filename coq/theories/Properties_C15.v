(* Properties_C15.v — statements only (C15: the nesting limit). *)
From JC Require Import Base Value TokModel TokFrame TokStack TokTotal.
Local Open Scope Z_scope.

(* a depth limit below 1 is refused *)
Theorem C15_new_refuses_lt1 : forall d s a v, d < 1 -> tok_new d s a v = None.
Proof. exact tok_new_refuses. Qed.
Print Assumptions C15_new_refuses_lt1.

(* one dispatch changes the level stack by at most one record, and pushes only when the
   current depth is below max_depth - 1 *)
Theorem C15_push_only_below_limit : forall sb t l,
  stack t <> [] -> stk_effect t (sres_tok (step1 sb t l)).
Proof. exact step1_stack. Qed.
Print Assumptions C15_push_only_below_limit.

(* for ALL byte strings (valid or hostile), all flags, every outcome: after a call the
   number of level records is between 1 and the configured limit *)
Theorem C15_depth_lt_max_one_call : forall sb t bytes t' r,
  stack_ok t -> parse_ex sb t bytes = PR t' r -> stack_ok t'.
Proof. exact parse_ex_stack_ok. Qed.
Print Assumptions C15_depth_lt_max_one_call.

(* ... and over any history of parse (any chunking), reset and set_flags calls on a parser
   created with limit D: never more than D records, D itself never changes *)
Theorem C15_depth_lt_max_all_histories : forall sb D s a v t cs t',
  tok_new D s a v = Some t -> do_calls sb t cs = Some t' ->
  1 <= zlen (stack t') <= D /\ max_depth t' = D.
Proof.
  intros sb D s a v t cs t' Hn Hc.
  destruct (tok_new_stack_ok D s a v t Hn) as (H0 & Hm & _).
  destruct (history_stack_ok sb cs t t' H0 Hc) as [H1 H2]. unfold stack_ok in H1. split; congruence || lia.
Qed.
Print Assumptions C15_depth_lt_max_all_histories.

(* the boundary on concrete documents, evaluated inside Coq *)
Theorem C15_examples : depth_examples_ok = true.
Proof. exact depth_examples. Qed.
Print Assumptions C15_examples.

(* the exact boundary for EVERY limit D >= 1 and EVERY RFC 8259 document (any whitespace
   layout, escapes, number shapes, nesting shape; integers within 64 bits, names without
   U+0000), default and strict mode: accepted iff no value is enclosed by more than D-1
   containers, otherwise the nesting-too-deep error *)
From JC Require Import TokSyntax TokValid TokDepth TokDepthIff.
Theorem C15_depth_accept_iff : forall sb D strictf s lead trail t,
  wf_stx s -> all_ws lead = true -> all_ws trail = true ->
  ints_in_range s = true -> names_nul_free s = true ->
  tok_new D strictf false false = Some t ->
  (Z.of_nat (nest s) < D ->
     exists t', parse_ex_cstr sb t (render_doc lead s trail) = PR t' (Some (value sb s)) /\ err t' = TE_success) /\
  (D <= Z.of_nat (nest s) ->
     exists t', parse_ex_cstr sb t (render_doc lead s trail) = PR t' None /\ err t' = TE_depth).
Proof. exact depth_accept_iff. Qed.
Print Assumptions C15_depth_accept_iff.
