(* TokDepthIff.v — the exact nesting boundary, from parse_valid and parse_depth (C15). *)
From JC Require Import Base Value TokModel TokSyntax TokValid TokDepth.
Local Open Scope Z_scope.

Lemma depth_accept_iff : forall sb D strictf s lead trail t,
  wf_stx s -> all_ws lead = true -> all_ws trail = true ->
  ints_in_range s = true -> names_nul_free s = true ->
  tok_new D strictf false false = Some t ->
  (Z.of_nat (nest s) < D ->
     exists t', parse_ex_cstr sb t (render_doc lead s trail) = PR t' (Some (value sb s)) /\ err t' = TE_success) /\
  (D <= Z.of_nat (nest s) ->
     exists t', parse_ex_cstr sb t (render_doc lead s trail) = PR t' None /\ err t' = TE_depth).
Proof.
  intros sb D strictf s lead trail t Hw Hl Ht Hi Hn Hnew. split; intros Hd.
  - destruct (parse_valid sb D strictf s lead trail t Hw Hl Ht Hd Hi Hn Hnew) as (t' & A & B & _). eauto.
  - exact (parse_depth sb D strictf s lead trail t Hw Hl Ht Hi Hn Hd Hnew).
Qed.
