(* TokValidExtNum.v — C16, default mode: number tokens with superfluous leading zeros and
   with an exponent that has no digits. *)
From JC Require Import Base BaseLemmas Value TokModel TokProofs TokSyntax TokValidBase TokValidLit TokValidNum TokSyntaxExt.
Local Open Scope Z_scope.

(* the follower of a value: inside a container one of  blank , ] } /  ; outside every
   container anything a number token does not absorb (NUL included) *)
Definition xstop (c : byte) : bool :=
  negb (is_digit c || (c =? 101) || (c =? 69) || (c =? 43) || (c =? 45) || (c =? 46) || (c =? 73) || (c =? 105)).
Definition xfol_ok (below : list srec) (c : byte) : bool :=
  if is_nil below then xstop c
  else is_ws c || (c =? 44) || (c =? 93) || (c =? 125) || (c =? 47).
Definition xfol_rest (below : list srec) (rest : list byte) : bool :=
  match rest with fc :: _ => xfol_ok below fc | [] => false end.

(* tokens whose exponent, if any, has digits (leading zeros allowed) *)
Definition wf_cnum (n : numtok) : bool := wf_xint (n_int n) && wf_frac (n_frac n) && wf_exp (n_exp n).

Lemma wf_xint_facts ip : wf_xint ip = true -> ip <> [] /\ all_digits ip = true.
Proof.
  unfold wf_xint. intros H. apply andb_true_iff in H. destruct H as [H1 H2]. split; [|exact H1].
  destruct ip; [discriminate|discriminate].
Qed.

Lemma strtod_consumed_c n : wf_cnum n = true -> strtod_consumed (render_num n) = zlen (render_num n).
Proof.
  destruct n as [neg ip fr ex]. unfold wf_cnum, render_num. cbn [n_neg n_int n_frac n_exp]. intros H.
  apply andb_true_iff in H. destruct H as [H Hex]. apply andb_true_iff in H. destruct H as [Hip Hfr].
  destruct (wf_xint_facts ip Hip) as (Hne & Hd).
  pose proof (wf_frac_facts fr Hfr) as Ffr. pose proof (wf_exp_facts ex Hex) as Fex.
  (* the exponent part *)
  set (E := render_exp ex).
  assert (HE : skip_digits E = E /\ (match E with c :: _ => (c =? 46) = false | [] => True end) /\
               (match E with
                | c :: r =>
                    ((c =? 101) || (c =? 69)) = true /\
                    let r0 := match r with s :: r' => if (s =? 45) || (s =? 43) then r' else r | [] => [] end in
                    zlen r0 - zlen (skip_digits r0) <> 0 /\
                    1 + (zlen r - zlen r0) + (zlen r0 - zlen (skip_digits r0)) = zlen E
                | [] => True end)).
  { subst E. destruct ex as [[[ec sg] ds]|]; [|cbn; auto]. destruct Fex as (Hec & Hsg & Hds & Hlen).
    cbn [render_exp]. assert (is_digit ec = false) by (unfold is_digit; lia).
    split; [cbn [skip_digits]; rewrite H; reflexivity|]. split; [lia|]. split; [lia|].
    destruct sg as [sgc|].
    - cbn [app]. assert (E1 : ((sgc =? 45) || (sgc =? 43)) = true) by lia. rewrite E1. cbv zeta.
      rewrite (skip_digits_all ds Hds). cbn [zlen]. lia.
    - cbn [app]. destruct ds as [|d ds]; [cbn in Hlen; lia|].
      assert (Hd0 : is_digit d = true) by (cbn in Hds; apply andb_true_iff in Hds; tauto).
      assert (E1 : ((d =? 45) || (d =? 43)) = false) by (unfold is_digit in Hd0; lia). rewrite E1. cbv zeta.
      rewrite (skip_digits_all (d :: ds) Hds). cbn [zlen] in *. lia. }
  destruct HE as (HE1 & HE2 & HE3).
  (* after the sign *)
  assert (Hcore : forall sign_len, sc_core sign_len (ip ++ render_frac fr ++ E) = sign_len + zlen (ip ++ render_frac fr ++ E)).
  { intros sign_len. unfold sc_core. cbv zeta. rewrite (skip_digits_app ip _ Hd).
    assert (Hip0 : 0 < zlen ip) by (destruct ip; [congruence|cbn [zlen]; pose proof (zlen_nonneg ip); lia]).
    destruct fr as [fd|].
    - destruct Ffr as [Hfd Hfl]. cbn [render_frac app]. cbn [skip_digits is_digit]. 
      change (is_digit 46) with false. cbv iota. rewrite Z.eqb_refl.
      rewrite (skip_digits_app fd E Hfd), HE1. rewrite !zlen_app. cbn [zlen]. rewrite !zlen_app.
      destruct (zlen ip + (1 + (zlen fd + zlen E)) - (1 + (zlen fd + zlen E)) + (zlen fd + zlen E - zlen E) =? 0) eqn:E0; [lia|].
      destruct E as [|ec r]; [cbn [zlen]; lia|]. destruct HE3 as (Hec & Hnz & Htot). rewrite Hec. cbv zeta in *.
      destruct (_ - _ =? 0) eqn:E9; [lia|]. cbn [zlen] in *. lia.
    - cbn [render_frac app]. rewrite HE1.
      assert (X : match E with
                  | c :: r => if c =? 46 then (skip_digits r, zlen r - zlen (skip_digits r), 1) else (E, 0, 0)
                  | [] => (E, 0, 0) end = (E, 0, 0)).
      { destruct E as [|ec r]; [reflexivity|]. rewrite HE2. reflexivity. }
      rewrite X. rewrite !zlen_app.
      destruct (zlen ip + zlen E - zlen E + 0 =? 0) eqn:E0; [lia|].
      destruct E as [|ec r]; [cbn [zlen]; lia|]. destruct HE3 as (Hec & Hnz & Htot). rewrite Hec. cbv zeta in *.
      destruct (_ - _ =? 0) eqn:E9; [lia|]. cbn [zlen] in *. lia. }
  rewrite strtod_consumed_unfold. cbv zeta. destruct neg.
  - cbn [app]. rewrite Z.eqb_refl. cbn [orb]. 
    replace (zlen (45 :: ip ++ render_frac fr ++ E) - zlen (ip ++ render_frac fr ++ E)) with 1 by (cbn [zlen]; lia).
    rewrite (Hcore 1). cbn [zlen]. reflexivity.
  - cbn [app]. destruct ip as [|d r]; [congruence|]. cbn [app].
    assert (Hd0 : is_digit d = true) by (cbn in Hd; apply andb_true_iff in Hd; tauto).
    assert (E1 : ((d =? 45) || (d =? 43)) = false) by (unfold is_digit in Hd0; lia). rewrite E1.
    replace (zlen (d :: r ++ render_frac fr ++ E) - zlen (d :: r ++ render_frac fr ++ E)) with 0 by lia.
    change (d :: r ++ render_frac fr ++ E) with ((d :: r) ++ render_frac fr ++ E).
    rewrite (Hcore 0). lia.
Qed.

Lemma render_num_last_c n : wf_cnum n = true -> exists q d, render_num n = q ++ [d] /\ is_digit d = true.
Proof.
  destruct n as [neg ip fr ex]. unfold wf_cnum, render_num. cbn [n_neg n_int n_frac n_exp]. intros H.
  apply andb_true_iff in H. destruct H as [H Hex]. apply andb_true_iff in H. destruct H as [Hip Hfr].
  destruct (wf_xint_facts ip Hip) as (Hne & Hd).
  pose proof (wf_frac_facts fr Hfr) as Ffr. pose proof (wf_exp_facts ex Hex) as Fex.
  destruct ex as [[[ec sg] ed]|].
  - destruct Fex as (_ & _ & He & Hl). destruct (all_digits_last ed He Hl) as (q & d & -> & Hdd).
    exists ((if neg then [45] else []) ++ ip ++ render_frac fr ++ ec :: match sg with Some s => [s] | None => [] end ++ q), d.
    split; [|exact Hdd]. cbn [render_exp]. rewrite <- !app_assoc. cbn [app]. rewrite <- !app_assoc. reflexivity.
  - cbn [render_exp]. rewrite app_nil_r. destruct fr as [fd|].
    + destruct Ffr as (Hf & Hl). destruct (all_digits_last fd Hf Hl) as (q & d & -> & Hdd).
      exists ((if neg then [45] else []) ++ ip ++ 46 :: q), d. split; [|exact Hdd].
      cbn [render_frac]. rewrite <- !app_assoc. cbn [app]. reflexivity.
    + cbn [render_frac]. rewrite app_nil_r.
      destruct (all_digits_last ip Hd) as (q & d & -> & Hdd).
      { destruct ip; [congruence|]. cbn [zlen]. pose proof (zlen_nonneg ip). lia. }
      exists ((if neg then [45] else []) ++ q), d. split; [|exact Hdd]. rewrite <- !app_assoc. reflexivity.
Qed.

(* ---------------------------------------------------------------- trimming *)
Definition trimmable (c : byte) : bool := (c =? 101) || (c =? 69) || (c =? 45) || (c =? 43).
Lemma trim_tail_strip l d rq : forallb trimmable l = true -> is_digit d = true ->
  trim_tail_rev (l ++ d :: rq) = d :: rq.
Proof.
  intros Hl Hd. induction l as [|c l IH].
  - cbn [app trim_tail_rev].
    assert (E : ((d =? 101) || (d =? 69) || (d =? 45) || (d =? 43)) = false) by (unfold is_digit in Hd; lia).
    rewrite E. destruct rq; reflexivity.
  - cbn [forallb] in Hl. apply andb_true_iff in Hl. destruct Hl as [Hc Hl]. cbn [app trim_tail_rev].
    unfold trimmable in Hc. rewrite Hc. rewrite (IH Hl). destruct (l ++ d :: rq) eqn:E; [destruct l; discriminate|reflexivity].
Qed.
Lemma trim_strip q d tl : is_digit d = true -> forallb trimmable tl = true ->
  trim_number ((q ++ [d]) ++ tl) = q ++ [d].
Proof.
  intros Hd Ht. unfold trim_number. rewrite !rev_app_distr. cbn [rev app].
  rewrite trim_tail_strip; [|rewrite forallb_forall in Ht |- *; intros y Hy; apply Ht; apply in_rev; exact Hy|exact Hd].
  cbn [rev]. rewrite rev_involutive. reflexivity.
Qed.

Lemma wf_xexp_facts ex : wf_xexp ex = true ->
  match ex with
  | Some (ec, sg, ds) => (ec = 101 \/ ec = 69) /\ match sg with Some s => s = 43 \/ s = 45 | None => True end /\ all_digits ds = true
  | None => True end.
Proof.
  destruct ex as [[[ec sg] ds]|]; [|auto]. unfold wf_xexp. intros H.
  apply andb_true_iff in H. destruct H as [H H3]. apply andb_true_iff in H. destruct H as [H1 H2].
  split; [lia|]. split; [destruct sg; [lia|exact I]|exact H3].
Qed.

Lemma drop_dangling_wf n : wf_xnum n = true -> wf_cnum (drop_dangling n) = true.
Proof.
  destruct n as [neg ip fr ex]. unfold wf_xnum, wf_cnum, drop_dangling. cbn [n_neg n_int n_frac n_exp]. intros H.
  apply andb_true_iff in H. destruct H as [H Hex].
  destruct ex as [[[ec sg] [|d ds]]|]; cbn [n_neg n_int n_frac n_exp]; rewrite H; cbn [andb wf_exp]; try reflexivity.
  unfold wf_xexp in Hex. apply andb_true_iff in Hex. destruct Hex as [Hex H3]. rewrite Hex, H3. reflexivity.
Qed.

Lemma trim_render n : wf_xnum n = true -> trim_number (render_num n) = render_num (drop_dangling n).
Proof.
  intros Hw. pose proof (drop_dangling_wf n Hw) as Hc.
  destruct n as [neg ip fr ex]. unfold drop_dangling in *. cbn [n_neg n_int n_frac n_exp] in *.
  destruct ex as [[[ec sg] [|d ds]]|].
  - (* dangling *)
    destruct (render_num_last_c _ Hc) as (q0 & d0 & E & Hd0).
    unfold wf_xnum in Hw. cbn [n_neg n_int n_frac n_exp] in Hw. apply andb_true_iff in Hw. destruct Hw as [_ Hex].
    pose proof (wf_xexp_facts _ Hex) as (Hec & Hsg & _).
    set (sgl := match sg with Some s0 => [s0] | None => @nil byte end).
    assert (EN : render_num (mknum neg ip fr (Some (ec, sg, []))) = render_num (mknum neg ip fr None) ++ ec :: sgl).
    { unfold render_num. cbn [n_neg n_int n_frac n_exp render_exp]. fold sgl. rewrite !app_nil_r, <- !app_assoc. reflexivity. }
    rewrite EN, E. apply trim_strip; [exact Hd0|]. subst sgl. unfold trimmable. destruct sg as [s0|]; cbn [forallb]; lia.
  - destruct (render_num_last_c _ Hc) as (q0 & d0 & -> & Hd0). apply trim_number_digit. exact Hd0.
  - destruct (render_num_last_c _ Hc) as (q0 & d0 & -> & Hd0). apply trim_number_digit. exact Hd0.
Qed.

Section S.
Variable sb : list byte -> Z.

(* ---------------------------------------------------------------- end of the token *)
Lemma num_end_x c f fc rest below p dbl s u q off x nb lo n v :
  xfol_ok below fc = true ->
  classify_number sb (NS c below (if dbl && negb (c_sf c) then trim_number p else p) dbl s u q off) = NumVal v ->
  run_f sb (S f) (fc :: rest) (NS c below p dbl s u q off) (mkloc x nb lo (Some n)) =
  run_f sb f (fc :: rest)
        (T c (mksrec S_eatws S_finish v None :: below) (mkgb (if dbl && negb (c_sf c) then trim_number p else p) dbl s u q) 0 off)
        (mkloc fc nb lo None).
Proof.
  intros Hfc Hcl. unfold NS in *. apply runT_R.
  unfold step1. cbn [st top stack T s_state lc lnum].
  assert (E1 : num_char_ok (T c (mksrec S_number S_start JNull None :: below) (mkgb p dbl s u q) 0 off) n fc = false).
  { unfold num_char_ok. cbn [is_double T g_dbl]. unfold xfol_ok, xstop, is_ws in Hfc. unfold is_digit in *.
    destruct (is_nil below), (nl_exp n), (nl_neg n), (nl_pos n), dbl; lia. }
  rewrite E1.
  assert (E2 : ((depth (T c (mksrec S_number S_start JNull None :: below) (mkgb p dbl s u q) 0 off) >? 0) &&
                negb ((fc =? 44) || (fc =? 93) || (fc =? 125) || (fc =? 47) || (fc =? 73) || (fc =? 105) || is_ws fc)) = false).
  { unfold depth. cbn [stack T]. unfold xfol_ok, is_ws in *. destruct below as [|b0 below]; cbn [zlen is_nil] in *; lia. }
  rewrite E2.
  assert (E3 : ((fc =? 105) || (fc =? 73)) = false).
  { unfold xfol_ok, xstop, is_ws in Hfc. destruct (is_nil below); lia. }
  rewrite E3, andb_false_r.
  cbn [is_double strict T g_dbl pb g_pb].
  assert (E4 : (if dbl && negb (c_sf c)
                then set_pb (T c (mksrec S_number S_start JNull None :: below) (mkgb p dbl s u q) 0 off) (trim_number p)
                else T c (mksrec S_number S_start JNull None :: below) (mkgb p dbl s u q) 0 off) =
               T c (mksrec S_number S_start JNull None :: below) (mkgb (if dbl && negb (c_sf c) then trim_number p else p) dbl s u q) 0 off).
  { destruct (dbl && negb (c_sf c)); reflexivity. }
  change (mktok (mksrec S_number S_start JNull None :: below) (c_md c) p dbl s u 0 q (c_sf c) (c_al c) false off TE_success)
    with (T c (mksrec S_number S_start JNull None :: below) (mkgb p dbl s u q) 0 off).
  rewrite E4, Hcl. reflexivity.
Qed.

(* ---------------------------------------------------------------- classification, default mode *)
Lemma classify_int_x c below ip s u q off :
  wf_xint ip = true -> c_sf c = false -> dec_value ip <= UINT64_MAX ->
  classify_number sb (NS c below ip false s u q off) =
  NumVal (if dec_value ip <=? INT64_MAX then JInt (dec_value ip) else JUint (dec_value ip)).
Proof.
  intros Hw Hc Hr. destruct (wf_xint_facts ip Hw) as (Hne & Hd).
  rewrite (int_token_exact sb (NS c below ip false s u q off) ip Hne (all_digits_Forall ip Hd) eq_refl eq_refl).
  cbv zeta. cbn [strict NS T]. rewrite Hc. cbn [andb]. rewrite (digits_value_dec ip Hd).
  destruct (dec_value ip <=? INT64_MAX); [reflexivity|].
  destruct (dec_value ip <=? UINT64_MAX) eqn:E; [reflexivity|lia].
Qed.

Lemma classify_neg_int_x c below ip s u q off :
  wf_xint ip = true -> c_sf c = false -> dec_value ip <= 9223372036854775808 ->
  classify_number sb (NS c below (45 :: ip) false s u q off) = NumVal (JInt (- dec_value ip)).
Proof.
  intros Hw Hc Hr. destruct (wf_xint_facts ip Hw) as (Hne & Hd).
  rewrite (neg_int_token_exact sb (NS c below (45 :: ip) false s u q off) ip Hne (all_digits_Forall ip Hd) eq_refl eq_refl).
  cbv zeta. cbn [strict NS T]. rewrite Hc. cbn [andb]. rewrite (digits_value_dec ip Hd).
  destruct (dec_value ip <=? 9223372036854775808) eqn:E; [reflexivity|lia].
Qed.

Lemma classify_double_x c below n s u q off :
  wf_xnum n = true -> is_int_tok n = false -> c_sf c = false ->
  classify_number sb (NS c below (if true && negb (c_sf c) then trim_number (render_num n) else render_num n) true s u q off) =
  NumVal (JDouble (sb (render_num (drop_dangling n))) (Some (render_num (drop_dangling n)))).
Proof.
  intros Hw Hi Hc. rewrite Hc. cbn [andb negb]. rewrite (trim_render n Hw).
  unfold classify_number. cbn [pb is_double strict NS T g_pb g_dbl negb andb]. rewrite Hc. cbn [andb].
  rewrite (strtod_consumed_c _ (drop_dangling_wf n Hw)), Z.eqb_refl. reflexivity.
Qed.

(* ---------------------------------------------------------------- the value lemma, extended trees *)
Definition xval_ok (md : Z) (al : bool) (s : xstx) : Prop :=
  forall f below g off x nb lo rest,
    (4 <= f)%nat ->
    zlen below + Z.of_nat (xnest s) < md ->
    xfol_rest below rest = true ->
    exists f' g' x' lo', (8 <= f')%nat /\
      run_f sb f (xrender s ++ rest) (T (mkcf md false al) (fresh_level :: below) g 0 off) (mkloc x nb lo None) =
      run_f sb f' rest (T (mkcf md false al) (mksrec S_eatws S_finish (xvalue sb s) None :: below) g' 0 (off + zlen (xrender s)))
            (mkloc x' nb lo' None).

Lemma xnum_ok md al n : wf_xnum n = true -> xint_in_range n = true -> xval_ok md al (XNum n).
Proof.
  intros Hw Hrange f below g off x nb lo rest Hf _ Hr. set (c := mkcf md false al).
  destruct rest as [|fc rest]; [discriminate|]. cbn [xfol_rest] in Hr.
  pose proof Hw as Hw0.
  destruct n as [neg ip fr ex]. unfold wf_xnum in Hw. cbn [n_neg n_int n_frac n_exp] in Hw.
  apply andb_true_iff in Hw. destruct Hw as [Hw Hex]. apply andb_true_iff in Hw. destruct Hw as [Hip Hfr].
  destruct (wf_xint_facts ip Hip) as (Hne & Hd).
  pose proof (wf_frac_facts fr Hfr) as Ffr. pose proof (wf_xexp_facts ex Hex) as Fex.
  set (sgn := if neg then [45] else @nil byte).
  destruct g as [p0 d0 s u q].
  assert (F1 : (1 <= REDO_FUEL)%nat) by (unfold REDO_FUEL; lia).
  (* sign and integer part *)
  assert (P1 : exists x1 len1, forall more,
    run_f sb f ((sgn ++ ip) ++ more) (T c (fresh_level :: below) (mkgb p0 d0 s u q) 0 off) (mkloc x nb lo None) =
    run_f sb REDO_FUEL more (NS c below (sgn ++ ip) false s u q (off + zlen (sgn ++ ip)))
          (mkloc x1 nb lo (Some (mknl false false false len1)))).
  { subst sgn. destruct neg.
    - eexists _, _. intros more. cbn [app].
      rewrite num_first_minus by lia. cbn [g_sp g_ucs g_q].
      rewrite (num_digits sb c ip REDO_FUEL more) by assumption.
      rewrite !after_digits_false, fuel_after_same. cbn [zlen app].
      replace (off + 1 + zlen ip) with (off + (1 + zlen ip)) by lia. reflexivity.
    - destruct ip as [|d r]; [congruence|]. cbn [all_digits forallb] in Hd. apply andb_true_iff in Hd. destruct Hd as [Hd0 Hdr].
      eexists _, _. intros more. cbn [app].
      rewrite num_first_digit by (try lia; assumption). cbn [g_sp g_ucs g_q].
      rewrite (num_digits sb c r REDO_FUEL more) by assumption.
      rewrite !after_digits_false, fuel_after_same. cbn [zlen app].
      replace (off + 1 + zlen r) with (off + (1 + zlen r)) by lia. reflexivity. }
  destruct P1 as (x1 & len1 & P1).
  (* fraction *)
  set (dblF := match fr with Some _ => true | None => false end).
  assert (P2 : forall p off1, exists x2 len2, forall more,
    run_f sb REDO_FUEL (render_frac fr ++ more) (NS c below p false s u q off1) (mkloc x1 nb lo (Some (mknl false false false len1))) =
    run_f sb REDO_FUEL more (NS c below (p ++ render_frac fr) dblF s u q (off1 + zlen (render_frac fr)))
          (mkloc x2 nb lo (Some (mknl false false false len2)))).
  { intros p off1. subst dblF. destruct fr as [fd|].
    - destruct Ffr as [Hfd Hfl]. eexists _, _. intros more. cbn [render_frac app].
      rewrite num_dot by assumption.
      rewrite (num_digits sb c fd REDO_FUEL more) by assumption.
      rewrite !(after_digits_ne fd true Hfl), fuel_after_same. cbn [zlen].
      replace (p ++ 46 :: fd) with ((p ++ [46]) ++ fd) by (rewrite <- app_assoc; reflexivity).
      replace (off1 + 1 + zlen fd) with (off1 + (1 + zlen fd)) by lia. reflexivity.
    - exists x1, len1. intros more. cbn [render_frac app zlen]. rewrite app_nil_r, Z.add_0_r. reflexivity. }
  (* exponent *)
  set (dblE := match ex with Some _ => true | None => dblF end).
  assert (P3 : forall p off2 x2 len2, exists x3 n3, forall more,
    run_f sb REDO_FUEL (render_exp ex ++ more) (NS c below p dblF s u q off2) (mkloc x2 nb lo (Some (mknl false false false len2))) =
    run_f sb REDO_FUEL more (NS c below (p ++ render_exp ex) dblE s u q (off2 + zlen (render_exp ex)))
          (mkloc x3 nb lo (Some n3))).
  { intros p off2 x2 len2. subst dblE. destruct ex as [[[ec sg] ed]|].
    - destruct Fex as (Hec & Hsg & Hed). destruct sg as [sgc|].
      + eexists _, _. intros more. cbn [render_exp app].
        rewrite num_e by assumption. rewrite num_sign by assumption.
        rewrite (num_digits sb c ed REDO_FUEL more) by assumption. rewrite fuel_after_same. cbn [zlen].
        replace (p ++ ec :: sgc :: ed) with (((p ++ [ec]) ++ [sgc]) ++ ed) by (rewrite <- !app_assoc; reflexivity).
        replace (off2 + 1 + 1 + zlen ed) with (off2 + (1 + (1 + zlen ed))) by lia. reflexivity.
      + eexists _, _. intros more. cbn [render_exp app].
        rewrite num_e by assumption.
        rewrite (num_digits sb c ed REDO_FUEL more) by assumption. rewrite fuel_after_same. cbn [zlen].
        replace (p ++ ec :: ed) with ((p ++ [ec]) ++ ed) by (rewrite <- !app_assoc; reflexivity).
        replace (off2 + 1 + zlen ed) with (off2 + (1 + zlen ed)) by lia. reflexivity.
    - eexists _, _. intros more. cbn [render_exp app zlen]. rewrite app_nil_r, Z.add_0_r. reflexivity. }
  destruct (P2 (sgn ++ ip) (off + zlen (sgn ++ ip))) as (x2 & len2 & P2').
  destruct (P3 ((sgn ++ ip) ++ render_frac fr) (off + zlen (sgn ++ ip) + zlen (render_frac fr)) x2 len2) as (x3 & n3 & P3').
  clear P2 P3.
  assert (ER : xrender (XNum (mknum neg ip fr ex)) = ((sgn ++ ip) ++ render_frac fr) ++ render_exp ex).
  { cbn [xrender]. unfold render_num. cbn [n_neg n_int n_frac n_exp]. fold sgn. rewrite <- !app_assoc. reflexivity. }
  rewrite ER. rewrite <- !app_assoc. rewrite (app_assoc sgn ip). rewrite P1, P2', P3'.
  unfold REDO_FUEL at 1.
  rewrite (num_end_x c 15 fc rest below _ dblE s u q _ x3 nb lo n3 (xvalue sb (XNum (mknum neg ip fr ex))) Hr).
  - exists 15%nat. eexists (mkgb _ _ _ _ _), fc, lo. split; [lia|]. f_equal. f_equal.
    rewrite !zlen_app. lia.
  - (* classification *)
    cbn [xvalue]. unfold xnum_value. destruct (is_int_tok (mknum neg ip fr ex)) eqn:Eint.
    + unfold is_int_tok in Eint. cbn [n_frac n_exp] in Eint. destruct fr; [discriminate|]. destruct ex; [discriminate|].
      subst dblE dblF. cbn [andb render_frac render_exp n_neg n_int]. rewrite !app_nil_r.
      unfold xint_in_range, is_int_tok in Hrange. cbn [n_frac n_exp n_neg n_int] in Hrange.
      subst sgn. destruct neg.
      * apply classify_neg_int_x; [exact Hip|reflexivity|lia].
      * apply classify_int_x; [exact Hip|reflexivity|lia].
    + assert (EdblE : dblE = true).
      { subst dblE dblF. unfold is_int_tok in Eint. cbn [n_frac n_exp] in Eint. destruct ex; [reflexivity|]. destruct fr; [reflexivity|discriminate]. }
      rewrite EdblE. rewrite <- ER. cbn [xrender]. apply classify_double_x; [exact Hw0|exact Eint|reflexivity].
Qed.

End S.
