(* TokChunk.v — the per-call loop as a fold (towards split independence, C03). *)
From JC Require Import Base BaseLemmas Value TokModel TokFrame.
Local Open Scope Z_scope.

Section S.
Variable sb : list byte -> Z.

Inductive rpres := RPCont (t : tok) (l : locals) | RPStop (r : loopres).

(* [run] without the end-of-input classification: either all of the bytes were consumed
   (and the loop would look at the next byte) or the loop stopped inside them *)
Fixpoint run_prefix (bytes : list byte) (t : tok) (l : locals) : rpres :=
  match bytes with
  | [] => RPCont t l
  | b :: rest =>
      match (if validate_utf8 t then validate_utf8_step b (nbytes l) else Some (nbytes l)) with
      | None => RPStop (LOut (set_err t TE_utf8) l)
      | Some nb =>
          let l := mkloc b nb (lobj l) (lnum l) in
          match redo sb REDO_FUEL t l with
          | None => RPStop LFuel
          | Some (Consumed t' l') =>
              let t' := set_off t' (char_offset t' + 1) in
              if b =? 0 then RPStop (LOut t' l') else run_prefix rest t' l'
          | Some (Out t' l') => RPStop (LOut t' l')
          | Some (Redo t' l') => RPStop LFuel
          end
      end
  end.

Lemma run_app a : forall b t l,
  run sb (a ++ b) t l =
  match run_prefix a t l with
  | RPCont t' l' => run sb b t' l'
  | RPStop r => r
  end.
Proof.
  induction a as [|x a IH]; intros b t l; [reflexivity|].
  cbn [app run run_prefix].
  destruct (if validate_utf8 t then validate_utf8_step x (nbytes l) else Some (nbytes l)) as [nb|]; [|reflexivity].
  destruct (redo sb REDO_FUEL t (mkloc x nb (lobj l) (lnum l))) as [[t' l'|t' l'|t' l']|]; try reflexivity.
  destruct (x =? 0); [reflexivity|]. apply IH.
Qed.
End S.

Lemma chunk_utf8_refuted :
  exists t, tok_new 32 false false true = Some t /\
  (match parse_ex (fun _ => 0) t [34;195;169;34] with PR t' _ => err t' = TE_success | _ => False end) /\
  (match parse_ex (fun _ => 0) t [34;195] with PR t' _ => err t' = TE_utf8 | _ => False end).
Proof. eexists. split; [reflexivity|]. split; vm_compute; reflexivity. Qed.
