(* Base.v — shared definitions for all json-c models.  No proofs here. *)
From Coq Require Export List ZArith Bool Lia.
Export ListNotations.
Local Open Scope Z_scope.

(* C widths that properties are about. *)
Definition INT_MAX   : Z := 2147483647.
Definition INT_MIN   : Z := -2147483648.
Definition INT32_MAX : Z := 2147483647.
Definition INT32_MIN : Z := -2147483648.
Definition INT64_MAX : Z := 9223372036854775807.
Definition INT64_MIN : Z := -9223372036854775808.
Definition UINT64_MAX : Z := 18446744073709551615.
Definition UINT32_MAX : Z := 4294967295.
Definition SIZE_MAX  : Z := 18446744073709551615.

(* errno values the models report, by name. *)
Inductive errno := E_NONE | EFBIG | ENOMEM | EINVAL | ENOENT | ERANGE | ENOSPC | EOTHER.

(* A C `int` computation that is undefined when it leaves the int range. *)
Definition in_int (z : Z) : bool := (INT_MIN <=? z) && (z <=? INT_MAX).

(* bytes are Z in 0..255 *)
Notation byte := Z (only parsing).

Fixpoint zlen {A} (l : list A) : Z :=
  match l with [] => 0 | _ :: t => 1 + zlen t end.

Definition znth {A} (l : list A) (i : Z) : option A :=
  if i <? 0 then None else nth_error l (Z.to_nat i).

Definition zfirstn {A} (n : Z) (l : list A) : list A := firstn (Z.to_nat n) l.
Definition zskipn {A} (n : Z) (l : list A) : list A := skipn (Z.to_nat n) l.
Definition zrepeat {A} (x : A) (n : Z) : list A := repeat x (Z.to_nat n).
