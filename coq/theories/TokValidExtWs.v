(* TokValidExtWs.v — C16, default mode: blanks made of whitespace bytes and comments. *)
From JC Require Import Base BaseLemmas Value TokModel TokProofs TokSyntax TokValidBase TokSyntaxExt.
Local Open Scope Z_scope.

Section S.
Variable sb : list byte -> Z.
Variables (md : Z) (al : bool).
Local Notation DC := (mkcf md false al).

(* the opening slash and the second character *)
Lemma cm_open f sv cur nm below g hi off x nb lo ln rest c2 :
  (1 <= f)%nat -> (c2 = 42 \/ c2 = 47) ->
  run_f sb f (47 :: c2 :: rest) (T DC (mksrec S_eatws sv cur nm :: below) g hi off) (mkloc x nb lo ln) =
  run_f sb REDO_FUEL rest
        (T DC (mksrec (if c2 =? 42 then S_comment else S_comment_eol) sv cur nm :: below)
           (mkgb [47; c2] (g_dbl g) (g_sp g) (g_ucs g) (g_q g)) hi (off + 1 + 1)) (mkloc c2 nb lo ln).
Proof.
  intros Hf Hc. fuel f. destruct g as [p d s u q]. destruct Hc as [->| ->]; do 2 stepC; reflexivity.
Qed.

(* one byte inside a block comment; [e] = the previous byte was a candidate star *)
Lemma cm_byte f (e : bool) b sv cur nm below p d s u q hi off x nb lo ln rest :
  (1 <= f)%nat -> (b =? 0) = false ->
  run_f sb f (b :: rest) (T DC (mksrec (if e then S_comment_end else S_comment) sv cur nm :: below) (mkgb p d s u q) hi off) (mkloc x nb lo ln) =
  run_f sb REDO_FUEL rest
        (T DC (mksrec (if e && (b =? 47) then S_eatws else if b =? 42 then S_comment_end else S_comment) sv cur nm :: below)
           (mkgb (p ++ [b]) d s u q) hi (off + 1)) (mkloc b nb lo ln).
Proof.
  intros Hf Hb. fuel f. apply runT_C; [exact Hb|]. cbn [redo]. unfold step1.
  destruct e; cbn [st top stack T s_state lc andb].
  - destruct (b =? 47) eqn:E47; cbn [andb]; [reflexivity|]. destruct (b =? 42); reflexivity.
  - destruct (b =? 42); reflexivity.
Qed.

Lemma cm_body body : forall f (e e' : bool) sv cur nm below p d s u q hi off x nb lo ln rest,
  (1 <= f)%nat -> nozero body = true -> block_st e body = Some e' ->
  exists f' x' p', (1 <= f')%nat /\
  run_f sb f (body ++ rest) (T DC (mksrec (if e then S_comment_end else S_comment) sv cur nm :: below) (mkgb p d s u q) hi off) (mkloc x nb lo ln) =
  run_f sb f' rest (T DC (mksrec (if e' then S_comment_end else S_comment) sv cur nm :: below) (mkgb p' d s u q) hi (off + zlen body)) (mkloc x' nb lo ln).
Proof.
  induction body as [|b r IH]; intros f e e' sv cur nm below p d s u q hi off x nb lo ln rest Hf Hz Hst.
  - cbn [block_st] in Hst. inversion Hst; subst. exists f, x, p. split; [exact Hf|]. cbn [app zlen]. rewrite Z.add_0_r. reflexivity.
  - cbn [nozero forallb] in Hz. apply andb_true_iff in Hz. destruct Hz as [Hb Hz].
    assert (Hb0 : (b =? 0) = false) by (destruct (b =? 0); [discriminate|reflexivity]).
    cbn [app]. rewrite cm_byte by assumption. cbn [block_st] in Hst.
    assert (F16 : (1 <= REDO_FUEL)%nat) by (unfold REDO_FUEL; lia).
    destruct (e && (b =? 47)); [discriminate|].
    destruct (IH REDO_FUEL (b =? 42) e' sv cur nm below (p ++ [b]) d s u q hi (off + 1) b nb lo ln rest F16 Hz Hst)
      as (f' & x' & p' & Hf' & E).
    exists f', x', p'. split; [exact Hf'|]. cbn [zlen].
    destruct (b =? 42); rewrite E; f_equal; f_equal; lia.
Qed.

Lemma cm_line_byte f b sv cur nm below p d s u q hi off x nb lo ln rest :
  (1 <= f)%nat -> (b =? 0) = false ->
  run_f sb f (b :: rest) (T DC (mksrec S_comment_eol sv cur nm :: below) (mkgb p d s u q) hi off) (mkloc x nb lo ln) =
  run_f sb REDO_FUEL rest
        (T DC (mksrec (if b =? 10 then S_eatws else S_comment_eol) sv cur nm :: below)
           (mkgb (if b =? 10 then p else p ++ [b]) d s u q) hi (off + 1)) (mkloc b nb lo ln).
Proof.
  intros Hf Hb. fuel f. apply runT_C; [exact Hb|]. cbn [redo]. unfold step1. cbn [st top stack T s_state lc].
  destruct (b =? 10); reflexivity.
Qed.

Lemma cm_line body : forall f sv cur nm below p d s u q hi off x nb lo ln rest,
  (1 <= f)%nat -> nozero body = true -> has_byte 10 body = false ->
  exists f' x' p', (1 <= f')%nat /\
  run_f sb f (body ++ rest) (T DC (mksrec S_comment_eol sv cur nm :: below) (mkgb p d s u q) hi off) (mkloc x nb lo ln) =
  run_f sb f' rest (T DC (mksrec S_comment_eol sv cur nm :: below) (mkgb p' d s u q) hi (off + zlen body)) (mkloc x' nb lo ln).
Proof.
  induction body as [|b r IH]; intros f sv cur nm below p d s u q hi off x nb lo ln rest Hf Hz Hn.
  - exists f, x, p. split; [exact Hf|]. cbn [app zlen]. rewrite Z.add_0_r. reflexivity.
  - cbn [nozero forallb] in Hz. apply andb_true_iff in Hz. destruct Hz as [Hb Hz].
    assert (Hb0 : (b =? 0) = false) by (destruct (b =? 0); [discriminate|reflexivity]).
    cbn [has_byte] in Hn. apply orb_false_iff in Hn. destruct Hn as [Hb10 Hn].
    cbn [app]. rewrite cm_line_byte by assumption. rewrite Hb10.
    destruct (IH REDO_FUEL sv cur nm below (p ++ [b]) d s u q hi (off + 1) b nb lo ln rest) as (f' & x' & p' & Hf' & ->);
      [unfold REDO_FUEL; lia|exact Hz|exact Hn|].
    exists f', x', p'. split; [exact Hf'|]. cbn [zlen]. f_equal. f_equal. lia.
Qed.

(* ---------------------------------------------------------------- one blank item, a run of them *)
Lemma run_wsitem i : wf_wsitem i = true ->
  forall f sv cur nm below g hi off x nb lo ln rest,
  (8 <= f)%nat ->
  exists x' g',
  run_f sb f (render_wsitem i ++ rest) (T DC (mksrec S_eatws sv cur nm :: below) g hi off) (mkloc x nb lo ln) =
  run_f sb REDO_FUEL rest (T DC (mksrec S_eatws sv cur nm :: below) g' hi (off + zlen (render_wsitem i))) (mkloc x' nb lo ln).
Proof.
  intros Hw f sv cur nm below g hi off x nb lo ln rest Hf.
  assert (F16 : (1 <= REDO_FUEL)%nat) by (unfold REDO_FUEL; lia).
  destruct i as [b|body|body]; cbn [wf_wsitem render_wsitem] in *.
  - exists b, g. cbn [app zlen]. destruct g as [p d s u q].
    erewrite runT_C; [reflexivity|unfold is_ws in Hw; lia|apply redo_ws; [lia|exact Hw]].
  - apply andb_true_iff in Hw. destruct Hw as [Hz Hst].
    destruct (block_st false body) as [e'|] eqn:Est; try discriminate.
    cbn [app]. rewrite cm_open; [|lia|left; reflexivity]. cbn [Z.eqb Pos.eqb].
    rewrite <- app_assoc.
    destruct (cm_body body REDO_FUEL false e' sv cur nm below [47; 42] (g_dbl g) (g_sp g) (g_ucs g) (g_q g) hi (off + 1 + 1) 42 nb lo ln
                ([42; 47] ++ rest) F16 Hz Est) as (f1 & x1 & p1 & Hf1 & ->).
    cbn [app]. rewrite (cm_byte f1 e' 42) by (try assumption; reflexivity). cbn [Z.eqb Pos.eqb]. rewrite andb_false_r.
    rewrite (cm_byte REDO_FUEL true 47) by (try assumption; reflexivity). cbn [Z.eqb Pos.eqb andb].
    eexists _, _. f_equal. f_equal. cbn [zlen]. rewrite zlen_app. cbn [zlen]. lia.
  - apply andb_true_iff in Hw. destruct Hw as [Hz Hn].
    assert (Hn' : has_byte 10 body = false) by (destruct (has_byte 10 body); [discriminate|reflexivity]).
    cbn [app]. rewrite cm_open; [|lia|right; reflexivity]. cbn [Z.eqb Pos.eqb].
    rewrite <- app_assoc.
    destruct (cm_line body REDO_FUEL sv cur nm below [47; 47] (g_dbl g) (g_sp g) (g_ucs g) (g_q g) hi (off + 1 + 1) 47 nb lo ln
                ([10] ++ rest) F16 Hz Hn') as (f1 & x1 & p1 & Hf1 & ->).
    cbn [app]. rewrite cm_line_byte by (try assumption; reflexivity). cbn [Z.eqb Pos.eqb].
    eexists _, _. f_equal. f_equal. cbn [zlen]. rewrite zlen_app. cbn [zlen]. lia.
Qed.

Lemma run_xws w : wf_xws w = true ->
  forall f sv cur nm below g hi off x nb lo ln rest,
  (8 <= f)%nat ->
  exists f' x' g', (8 <= f')%nat /\
  run_f sb f (render_xws w ++ rest) (T DC (mksrec S_eatws sv cur nm :: below) g hi off) (mkloc x nb lo ln) =
  run_f sb f' rest (T DC (mksrec S_eatws sv cur nm :: below) g' hi (off + zlen (render_xws w))) (mkloc x' nb lo ln).
Proof.
  induction w as [|i w IH]; intros Hw f sv cur nm below g hi off x nb lo ln rest Hf.
  - exists f, x, g. split; [exact Hf|]. cbn [render_xws flat_map app zlen]. rewrite Z.add_0_r. reflexivity.
  - cbn [wf_xws forallb] in Hw. apply andb_true_iff in Hw. destruct Hw as [Hi Hw].
    change (render_xws (i :: w)) with (render_wsitem i ++ render_xws w). rewrite <- app_assoc.
    destruct (run_wsitem i Hi f sv cur nm below g hi off x nb lo ln (render_xws w ++ rest) Hf) as (x1 & g1 & ->).
    destruct (IH Hw REDO_FUEL sv cur nm below g1 hi (off + zlen (render_wsitem i)) x1 nb lo ln rest) as (f' & x' & g' & Hf' & ->);
      [unfold REDO_FUEL; lia|].
    exists f', x', g'. split; [exact Hf'|]. rewrite zlen_app, Z.add_assoc. reflexivity.
Qed.

End S.
