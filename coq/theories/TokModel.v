(* TokModel.v — json_tokener_parse_ex as written (json_tokener.c), one character at a
   time.  The tight inner loops of the C code are unrolled into single-character steps
   (observationally identical: they only batch the appends to tok->pb).  Everything the
   C function keeps in the tokener record is in [tok]; everything it keeps in locals
   of one call is in [locals] and is re-initialised by [parse_ex] at every call, exactly
   as in C (this is what makes split-dependence visible in the model).
   Allocation failures are not modelled here (see the C08 models).
   [strtod_bits] is the libc oracle: the binary64 bit pattern strtod returns for a token
   it consumes entirely. *)
From JC Require Import Base Value.
Local Open Scope Z_scope.

Inductive tstate :=
| S_eatws | S_start | S_finish | S_null | S_comment_start | S_comment | S_comment_eol
| S_comment_end | S_string | S_string_escape | S_escape_unicode | S_need_escape | S_need_u
| S_boolean | S_number | S_array | S_array_add | S_array_sep | S_object_field_start
| S_object_field | S_object_field_end | S_object_value | S_object_value_add | S_object_sep
| S_array_after_sep | S_object_field_start_after_sep | S_inf.

Inductive terr :=
| TE_success | TE_continue | TE_depth | TE_eof | TE_unexpected | TE_null | TE_boolean
| TE_number | TE_array | TE_object_key_name | TE_object_key_sep | TE_object_value_sep
| TE_string | TE_comment | TE_utf8 | TE_size | TE_memory.

Definition tstate_eqb (a b : tstate) : bool :=
  match a, b with
  | S_eatws, S_eatws | S_start, S_start | S_finish, S_finish | S_null, S_null
  | S_comment_start, S_comment_start | S_comment, S_comment | S_comment_eol, S_comment_eol
  | S_comment_end, S_comment_end | S_string, S_string | S_string_escape, S_string_escape
  | S_escape_unicode, S_escape_unicode | S_need_escape, S_need_escape | S_need_u, S_need_u
  | S_boolean, S_boolean | S_number, S_number | S_array, S_array | S_array_add, S_array_add
  | S_array_sep, S_array_sep | S_object_field_start, S_object_field_start
  | S_object_field, S_object_field | S_object_field_end, S_object_field_end
  | S_object_value, S_object_value | S_object_value_add, S_object_value_add
  | S_object_sep, S_object_sep | S_array_after_sep, S_array_after_sep
  | S_object_field_start_after_sep, S_object_field_start_after_sep | S_inf, S_inf => true
  | _, _ => false
  end.

Record srec := mksrec { s_state : tstate; s_saved : tstate; s_cur : jv; s_name : option (list byte) }.

Record tok := mktok {
  stack : list srec;          (* head = level tok->depth; the levels above are clean in C *)
  max_depth : Z;
  pb : list byte;
  is_double : bool;
  st_pos : Z;
  ucs_char : Z;
  high_surrogate : Z;
  quote_char : byte;
  strict : bool; allow_trailing : bool; validate_utf8 : bool;
  char_offset : Z;
  err : terr }.

(* number-state locals of one call: is_exponent, neg_sign_ok, pos_sign_ok, case_len *)
Record numloc := mknl { nl_exp : bool; nl_neg : bool; nl_pos : bool; nl_len : Z }.

Record locals := mkloc { lc : byte; nbytes : Z; lobj : jv; lnum : option numloc }.

Definition fresh_level : srec := mksrec S_eatws S_start JNull None.

Definition depth (t : tok) : Z := zlen (stack t) - 1.

Definition top (t : tok) : srec := match stack t with s :: _ => s | [] => fresh_level end.

Definition set_top (t : tok) (s : srec) : tok :=
  mktok (match stack t with _ :: r => s :: r | [] => [s] end)
        (max_depth t) (pb t) (is_double t) (st_pos t) (ucs_char t) (high_surrogate t) (quote_char t)
        (strict t) (allow_trailing t) (validate_utf8 t) (char_offset t) (err t).
Definition set_stack (t : tok) (st : list srec) : tok :=
  mktok st (max_depth t) (pb t) (is_double t) (st_pos t) (ucs_char t) (high_surrogate t) (quote_char t)
        (strict t) (allow_trailing t) (validate_utf8 t) (char_offset t) (err t).
Definition set_pb (t : tok) (p : list byte) : tok :=
  mktok (stack t) (max_depth t) p (is_double t) (st_pos t) (ucs_char t) (high_surrogate t) (quote_char t)
        (strict t) (allow_trailing t) (validate_utf8 t) (char_offset t) (err t).
Definition set_is_double (t : tok) (b : bool) : tok :=
  mktok (stack t) (max_depth t) (pb t) b (st_pos t) (ucs_char t) (high_surrogate t) (quote_char t)
        (strict t) (allow_trailing t) (validate_utf8 t) (char_offset t) (err t).
Definition set_st_pos (t : tok) (n : Z) : tok :=
  mktok (stack t) (max_depth t) (pb t) (is_double t) n (ucs_char t) (high_surrogate t) (quote_char t)
        (strict t) (allow_trailing t) (validate_utf8 t) (char_offset t) (err t).
Definition set_ucs (t : tok) (n : Z) : tok :=
  mktok (stack t) (max_depth t) (pb t) (is_double t) (st_pos t) n (high_surrogate t) (quote_char t)
        (strict t) (allow_trailing t) (validate_utf8 t) (char_offset t) (err t).
Definition set_high (t : tok) (n : Z) : tok :=
  mktok (stack t) (max_depth t) (pb t) (is_double t) (st_pos t) (ucs_char t) n (quote_char t)
        (strict t) (allow_trailing t) (validate_utf8 t) (char_offset t) (err t).
Definition set_quote (t : tok) (c : byte) : tok :=
  mktok (stack t) (max_depth t) (pb t) (is_double t) (st_pos t) (ucs_char t) (high_surrogate t) c
        (strict t) (allow_trailing t) (validate_utf8 t) (char_offset t) (err t).
Definition set_off (t : tok) (n : Z) : tok :=
  mktok (stack t) (max_depth t) (pb t) (is_double t) (st_pos t) (ucs_char t) (high_surrogate t) (quote_char t)
        (strict t) (allow_trailing t) (validate_utf8 t) n (err t).
Definition set_err (t : tok) (e : terr) : tok :=
  mktok (stack t) (max_depth t) (pb t) (is_double t) (st_pos t) (ucs_char t) (high_surrogate t) (quote_char t)
        (strict t) (allow_trailing t) (validate_utf8 t) (char_offset t) e.
Definition set_flags (t : tok) (s a v : bool) : tok :=
  mktok (stack t) (max_depth t) (pb t) (is_double t) (st_pos t) (ucs_char t) (high_surrogate t) (quote_char t)
        s a v (char_offset t) (err t).

Definition st (t : tok) := s_state (top t).
Definition sv (t : tok) := s_saved (top t).
Definition set_state (t : tok) (s : tstate) : tok :=
  set_top t (mksrec s (s_saved (top t)) (s_cur (top t)) (s_name (top t))).
Definition set_saved (t : tok) (s : tstate) : tok :=
  set_top t (mksrec (s_state (top t)) s (s_cur (top t)) (s_name (top t))).
Definition set_cur (t : tok) (v : jv) : tok :=
  set_top t (mksrec (s_state (top t)) (s_saved (top t)) v (s_name (top t))).
Definition set_name (t : tok) (n : option (list byte)) : tok :=
  set_top t (mksrec (s_state (top t)) (s_saved (top t)) (s_cur (top t)) n).
(* the very common pair: saved_state = a; state = eatws *)
Definition value_done (t : tok) (v : jv) : tok :=
  set_top t (mksrec S_eatws S_finish v (s_name (top t))).

(* json_tokener_new_ex: depth < 1 is refused *)
Definition tok_new (d : Z) (s a v : bool) : option tok :=
  if d <? 1 then None
  else Some (mktok [fresh_level] d [] false 0 0 0 0 s a v 0 TE_success).

(* json_tokener_reset: levels depth..0 reset, depth = 0, err = success, high_surrogate = 0;
   nothing else *)
Definition tok_reset (t : tok) : tok :=
  set_high (set_err (set_stack t [fresh_level]) TE_success) 0.

(* ---- characters ---- *)
Definition is_ws (c : byte) : bool := (c =? 32) || (c =? 9) || (c =? 10) || (c =? 13).
Definition is_digit (c : byte) : bool := (48 <=? c) && (c <=? 57).
Definition is_hex (c : byte) : bool :=
  is_digit c || ((65 <=? c) && (c <=? 70)) || ((97 <=? c) && (c <=? 102)).
(* jt_hexdigit(x) = (x <= '9') ? x - '0' : (x & 7) + 9 *)
Definition hexdigit (c : byte) : Z := if c <=? 57 then c - 48 else (c mod 8) + 9.
Definition lower (c : byte) : byte := if (65 <=? c) && (c <=? 90) then c + 32 else c.

Definition s_null : list byte := [110;117;108;108].
Definition s_nan : list byte := [78;97;78].
Definition s_true : list byte := [116;114;117;101].
Definition s_false : list byte := [102;97;108;115;101].
Definition s_inf : list byte := [73;110;102;105;110;105;116;121].
Definition s_inf_inv : list byte := [105;78;70;73;78;73;84;89].

(* strncmp(lit, buf, n) == 0 / strncasecmp(...) == 0 on a buffer that contains [buf]
   followed by NUL; lit is NUL-free *)
Fixpoint prefix_eq (ci : bool) (lit buf : list byte) (n : nat) : bool :=
  match n with
  | O => true
  | S n' =>
      match lit, buf with
      | [], [] => true                       (* both at their terminator *)
      | l :: lit', b :: buf' =>
          (if ci then lower l =? lower b else l =? b) && prefix_eq ci lit' buf' n'
      | _, _ => false
      end
  end.
Definition lit_match (t : tok) (lit : list byte) (n : Z) : bool :=
  (negb (strict t) && prefix_eq true lit (pb t) (Z.to_nat n)) || prefix_eq false lit (pb t) (Z.to_nat n).

(* ---- UTF-8 ---- *)
Definition utf8_replacement : list byte := [239;191;189].

Definition utf8_encode (u : Z) : list byte :=
  if u <? 128 then [u]
  else if u <? 2048 then [192 + u / 64; 128 + u mod 64]
  else if u <? 65536 then [224 + u / 4096; 128 + (u / 64) mod 64; 128 + u mod 64]
  else [240 + (u / 262144) mod 8; 128 + (u / 4096) mod 64; 128 + (u / 64) mod 64; 128 + u mod 64].

Definition is_high_surrogate (u : Z) : bool := (55296 <=? u) && (u <=? 56319).   (* D800..DBFF *)
Definition is_low_surrogate (u : Z) : bool := (56320 <=? u) && (u <=? 57343).    (* DC00..DFFF *)
Definition decode_pair (hi lo : Z) : Z := (hi mod 1024) * 1024 + (lo mod 1024) + 65536.

(* json_tokener_validate_utf8: returns None when invalid, else the new nBytes *)
Definition validate_utf8_step (c : byte) (nb : Z) : option Z :=
  if nb =? 0 then
    if c >=? 128 then
      if (c / 32) =? 6 then Some 1
      else if (c / 16) =? 14 then Some 2
      else if (c / 8) =? 30 then Some 3
      else None
    else Some 0
  else
    if (c / 64) =? 2 then Some (nb - 1) else None.

(* ---- numbers ---- *)
Fixpoint has_byte (c : byte) (l : list byte) : bool :=
  match l with [] => false | x :: r => (x =? c) || has_byte c r end.
Definition last_byte (l : list byte) : byte := last l 0.

(* the re-generation of the number locals at the start of a call (pb non-empty):
   is_exponent iff an 'e'/'E' has been saved; a sign may follow only e, E or '.' *)
Definition num_locals_init (p : list byte) : numloc :=
  match p with
  | [] => mknl false true false 0
  | _ =>
      let lastc := last_byte p in
      let sign_ok := (lastc =? 101) || (lastc =? 69) || (lastc =? 46) in
      mknl (has_byte 101 p || has_byte 69 p) sign_ok sign_ok 0
  end.

Definition num_char_ok (t : tok) (n : numloc) (c : byte) : bool :=
  negb (c =? 0) &&
  (is_digit c || (negb (nl_exp n) && ((c =? 101) || (c =? 69))) ||
   (nl_neg n && (c =? 45)) || (nl_pos n && (c =? 43)) || (negb (is_double t) && (c =? 46))).

Fixpoint digits_val (l : list byte) (acc : Z) : Z * list byte :=
  match l with
  | c :: r => if is_digit c then digits_val r (acc * 10 + (c - 48)) else (acc, l)
  | [] => (acc, [])
  end.
Fixpoint skip_digits (l : list byte) : list byte :=
  match l with c :: r => if is_digit c then skip_digits r else l | [] => [] end.

(* the length of the prefix strtod consumes from a token made of digits . e E + - *)
Definition strtod_consumed (l : list byte) : Z :=
  let l0 := match l with c :: r => if (c =? 45) || (c =? 43) then r else l | [] => [] end in
  let sign_len := zlen l - zlen l0 in
  let l1 := skip_digits l0 in
  let int_digits := zlen l0 - zlen l1 in
  let '(l2, frac_digits, dot) :=
     match l1 with
     | c :: r => if c =? 46 then let r' := skip_digits r in (r', zlen r - zlen r', 1) else (l1, 0, 0)
     | [] => (l1, 0, 0)
     end in
  if (int_digits + frac_digits) =? 0 then 0
  else
    let mant_len := sign_len + int_digits + dot + frac_digits in
    match l2 with
    | c :: r =>
        if (c =? 101) || (c =? 69) then
          let r0 := match r with s :: r' => if (s =? 45) || (s =? 43) then r' else r | [] => [] end in
          let r1 := skip_digits r0 in
          if zlen r0 - zlen r1 =? 0 then mant_len
          else mant_len + 1 + (zlen r - zlen r0) + (zlen r0 - zlen r1)
        else mant_len
    | [] => mant_len
    end.

(* the default-mode trimming of trailing e E - + while more than one char remains *)
Fixpoint trim_tail_rev (r : list byte) : list byte :=
  match r with
  | c :: r' =>
      match r' with
      | [] => r
      | _ => if (c =? 101) || (c =? 69) || (c =? 45) || (c =? 43) then trim_tail_rev r' else r
      end
  | [] => []
  end.
Definition trim_number (p : list byte) : list byte := rev (trim_tail_rev (rev p)).

Inductive numres := NumVal (v : jv) | NumErr.

Section WithOracle.
Variable strtod_bits : list byte -> Z.

(* the classification block after a number token has been collected in pb *)
Definition classify_number (t : tok) : numres :=
  let p := pb t in
  let first := match p with c :: _ => c | [] => 0 end in
  let digits := if first =? 45 then tl p else p in
  if strict t && (match digits with d0 :: d1 :: _ => (d0 =? 48) && is_digit d1 | _ => false end) then NumErr
  else if negb (is_double t) && (first =? 45) then
    (* json_parse_int64 = strtoll: '-' then digits *)
    let body := match p with _ :: r => r | [] => [] end in
    let '(v, rest) := digits_val body 0 in
    if zlen rest =? zlen body then NumErr                 (* no digits: end == buf *)
    else
      let erange := v >? 9223372036854775808 in            (* -v < INT64_MIN *)
      if erange && strict t then NumErr
      else NumVal (JInt (if erange then INT64_MIN else - v))
  else if negb (is_double t) then
    let '(v, rest) := digits_val p 0 in
    if zlen rest =? zlen p then NumErr
    else
      let erange := v >? UINT64_MAX in
      let v' := if erange then UINT64_MAX else v in
      if erange && strict t then NumErr
      else if negb (v' =? 0) && (first =? 48) && strict t then NumErr
      else if v' <=? INT64_MAX then NumVal (JInt v') else NumVal (JUint v')
  else
    if strtod_consumed p =? zlen p then NumVal (JDouble (strtod_bits p) (Some p)) else NumErr.

(* json_object_object_add on the list of members: replace in place or append; the key is a
   C string, i.e. the bytes before the first NUL *)
Fixpoint cstr (l : list byte) : list byte :=
  match l with c :: r => if c =? 0 then [] else c :: cstr r | [] => [] end.
Fixpoint obj_add (ms : list (list byte * jv)) (k : list byte) (v : jv) : list (list byte * jv) :=
  match ms with
  | [] => [(k, v)]
  | (k', v') :: r => if bytes_eqb k' k then (k', v) :: r else (k', v') :: obj_add r k v
  end.

Inductive sres := Consumed (t : tok) (l : locals) | Redo (t : tok) (l : locals) | Out (t : tok) (l : locals).

Definition fail (t : tok) (l : locals) (e : terr) : sres := Out (set_err t e) l.
Definition append (t : tok) (bs : list byte) : tok := set_pb t (pb t ++ bs).

(* the tail of the \uXXXX handling once four digits have been read into ucs_char:
   first the pending high surrogate, if any, is resolved ... *)
Definition resolve_pair (t : tok) : tok * Z :=
  if negb (high_surrogate t =? 0) then
    if is_low_surrogate (ucs_char t)
    then (set_high (set_ucs t (decode_pair (high_surrogate t) (ucs_char t))) 0,
          decode_pair (high_surrogate t) (ucs_char t))
    else (set_high (append t utf8_replacement) 0, ucs_char t)
  else (t, ucs_char t).

(* ... then the code point is emitted *)
Definition emit_unicode (t : tok) (u : Z) (l : locals) : sres :=
  if u <? 128 then Consumed (set_state (append t [u]) (sv t)) l
  else if u <? 2048 then Consumed (set_state (append t (utf8_encode u)) (sv t)) l
  else if is_high_surrogate u then
    Consumed (set_state (set_ucs (set_high t u) 0) S_need_escape) l
  else if is_low_surrogate u then Consumed (set_state (append t utf8_replacement) (sv t)) l
  else if u <? 65536 then Consumed (set_state (append t (utf8_encode u)) (sv t)) l
  else if u <? 1114112 then Consumed (set_state (append t (utf8_encode u)) (sv t)) l
  else Consumed (set_state (append t utf8_replacement) (sv t)) l.

Definition finish_unicode (t : tok) (l : locals) : sres :=
  let tu := resolve_pair (set_st_pos t 0) in emit_unicode (fst tu) (snd tu) l.

(* one dispatch of  switch (state)  on character c *)
Definition step1 (t : tok) (l : locals) : sres :=
  let c := lc l in
  match st t with
  | S_eatws =>
      if is_ws c then Consumed t l
      else if (c =? 47) && negb (strict t) then
        Consumed (set_state (set_pb t [c]) S_comment_start) l
      else Redo (set_state t (sv t)) l

  | S_start =>
      if c =? 123 then Consumed (set_top t (mksrec S_eatws S_object_field_start (JObj []) (s_name (top t)))) l
      else if c =? 91 then Consumed (set_top t (mksrec S_eatws S_array (JArr []) (s_name (top t)))) l
      else if (c =? 73) || (c =? 105) then Redo (set_st_pos (set_pb (set_state t S_inf) []) 0) l
      else if (c =? 78) || (c =? 110) then Redo (set_st_pos (set_pb (set_state t S_null) []) 0) l
      else if (c =? 39) && strict t then fail t l TE_unexpected
      else if (c =? 39) || (c =? 34) then Consumed (set_quote (set_pb (set_state t S_string) []) c) l
      else if (c =? 84) || (c =? 116) || (c =? 70) || (c =? 102) then
        Redo (set_st_pos (set_pb (set_state t S_boolean) []) 0) l
      else if is_digit c || (c =? 45) then Redo (set_is_double (set_pb (set_state t S_number) []) false) l
      else fail t l TE_unexpected

  | S_finish =>
      match stack t with
      | s :: (p :: _) as below =>
          (* obj = json_object_get(current); reset_level(depth); depth-- *)
          Redo (set_stack t below) (mkloc (lc l) (nbytes l) (s_cur s) (lnum l))
      | _ => Out t l                      (* depth == 0: goto out *)
      end

  | S_inf =>
      if st_pos t <? 8 then
        let want := nth (Z.to_nat (st_pos t)) s_inf 0 in
        let inv := nth (Z.to_nat (st_pos t)) s_inf_inv 0 in
        if negb (c =? want) && (strict t || negb (c =? inv)) then fail t l TE_unexpected
        else Consumed (set_st_pos t (st_pos t + 1)) l
      else
        let neg := match pb t with b :: _ => b =? 45 | [] => false end in
        Redo (value_done t (JDouble (if neg then 18442240474082181120 else 9218868437227405312) None)) l

  | S_null =>
      let t := append t [c] in
      let size := Z.min (st_pos t + 1) 4 in
      let size_nan := Z.min (st_pos t + 1) 3 in
      if lit_match t s_null size then
        if st_pos t =? 4 then Redo (value_done t JNull) l
        else Consumed (set_st_pos t (st_pos t + 1)) l
      else if lit_match t s_nan size_nan then
        if st_pos t =? 3 then Redo (value_done t (JDouble 9221120237041090560 None)) l
        else Consumed (set_st_pos t (st_pos t + 1)) l
      else fail t l TE_null

  | S_comment_start =>
      if c =? 42 then Consumed (append (set_state t S_comment) [c]) l
      else if c =? 47 then Consumed (append (set_state t S_comment_eol) [c]) l
      else fail t l TE_comment

  | S_comment =>
      if c =? 42 then Consumed (append (set_state t S_comment_end) [c]) l
      else Consumed (append t [c]) l

  | S_comment_eol =>
      if c =? 10 then Consumed (set_state t S_eatws) l
      else Consumed (append t [c]) l

  | S_comment_end =>
      if c =? 47 then Consumed (append (set_state t S_eatws) [c]) l
      else if c =? 42 then Consumed (append t [c]) l           (* a further '*': still before a possible '/' *)
      else Consumed (append (set_state t S_comment) [c]) l

  | S_string =>
      if c =? quote_char t then Consumed (value_done t (JStr (pb t))) l
      else if c =? 92 then Consumed (set_top t (mksrec S_string_escape S_string (s_cur (top t)) (s_name (top t)))) l
      else if strict t && (c <=? 31) then fail t l TE_string
      else Consumed (append t [c]) l

  | S_string_escape =>
      if (c =? 34) || (c =? 92) || (c =? 47) then Consumed (set_state (append t [c]) (sv t)) l
      else if c =? 98 then Consumed (set_state (append t [8]) (sv t)) l
      else if c =? 110 then Consumed (set_state (append t [10]) (sv t)) l
      else if c =? 114 then Consumed (set_state (append t [13]) (sv t)) l
      else if c =? 116 then Consumed (set_state (append t [9]) (sv t)) l
      else if c =? 102 then Consumed (set_state (append t [12]) (sv t)) l
      else if c =? 117 then Consumed (set_state (set_st_pos (set_ucs t 0) 0) S_escape_unicode) l
      else fail t l TE_string

  | S_escape_unicode =>
      if negb (is_hex c) then fail t l TE_string
      else
        (* ucs_char |= hexdigit << ((3 - st_pos) * 4): the nibbles are disjoint, so | is + *)
        let t := set_ucs t (ucs_char t + hexdigit c * 2 ^ ((3 - st_pos t) * 4)) in
        let t := set_st_pos t (st_pos t + 1) in
        if st_pos t >=? 4 then finish_unicode t l else Consumed t l

  | S_need_escape =>
      if negb (c =? 92) then
        Redo (set_state (set_st_pos (set_ucs (set_high (append t utf8_replacement) 0) 0) 0) (sv t)) l
      else Consumed (set_state t S_need_u) l

  | S_need_u =>
      if negb (c =? 117) then
        Redo (set_state (set_st_pos (set_ucs (set_high (append t utf8_replacement) 0) 0) 0) S_string_escape) l
      else Consumed (set_state t S_escape_unicode) l

  | S_boolean =>
      let t := append t [c] in
      let size1 := Z.min (st_pos t + 1) 4 in
      let size2 := Z.min (st_pos t + 1) 5 in
      if lit_match t s_true size1 then
        if st_pos t =? 4 then Redo (value_done t (JBool true)) l
        else Consumed (set_st_pos t (st_pos t + 1)) l
      else if lit_match t s_false size2 then
        if st_pos t =? 5 then Redo (value_done t (JBool false)) l
        else Consumed (set_st_pos t (st_pos t + 1)) l
      else fail t l TE_boolean

  | S_number =>
      let n := match lnum l with Some n => n | None => num_locals_init (pb t) end in
      if num_char_ok t n c then
        (* consume one number character *)
        let t' := append t [c] in
        let n' :=
          if c =? 46 then mknl (nl_exp n) true true (nl_len n + 1)
          else if (c =? 101) || (c =? 69) then mknl true true true (nl_len n + 1)
          else mknl (nl_exp n) false false (nl_len n + 1) in
        let t' := if (c =? 46) || (c =? 101) || (c =? 69) then set_is_double t' true else t' in
        Consumed t' (mkloc (lc l) (nbytes l) (lobj l) (Some n'))
      else
        let l0 := mkloc (lc l) (nbytes l) (lobj l) None in
        if (depth t >? 0) && negb ((c =? 44) || (c =? 93) || (c =? 125) || (c =? 47) || (c =? 73) || (c =? 105) || is_ws c)
        then fail t l0 TE_number
        else
          let first := match pb t with b :: _ => b | [] => 0 end in
          if (first =? 45) && (zlen (pb t) =? 1) && ((c =? 105) || (c =? 73))
          then Redo (set_st_pos (set_state t S_inf) 0) l0
          else
            let t := if is_double t && negb (strict t) then set_pb t (trim_number (pb t)) else t in
            match classify_number t with
            | NumVal v => Redo (value_done t v) l0
            | NumErr => fail t l0 TE_number
            end

  | S_array | S_array_after_sep =>
      if c =? 93 then
        if tstate_eqb (st t) S_array_after_sep && strict t then fail t l TE_unexpected
        else Consumed (set_top t (mksrec S_eatws S_finish (s_cur (top t)) (s_name (top t)))) l
      else if depth t >=? max_depth t - 1 then fail t l TE_depth
      else Redo (set_stack t (fresh_level :: stack (set_state t S_array_add))) l

  | S_array_add =>
      let cur' := match s_cur (top t) with JArr xs => JArr (xs ++ [lobj l]) | v => v end in
      Redo (set_top t (mksrec S_eatws S_array_sep cur' (s_name (top t)))) l

  | S_array_sep =>
      if c =? 93 then Consumed (set_top t (mksrec S_eatws S_finish (s_cur (top t)) (s_name (top t)))) l
      else if c =? 44 then Consumed (set_top t (mksrec S_eatws S_array_after_sep (s_cur (top t)) (s_name (top t)))) l
      else fail t l TE_array

  | S_object_field_start | S_object_field_start_after_sep =>
      if c =? 125 then
        if tstate_eqb (st t) S_object_field_start_after_sep && strict t then fail t l TE_unexpected
        else Consumed (set_top t (mksrec S_eatws S_finish (s_cur (top t)) (s_name (top t)))) l
      else if (c =? 34) || ((c =? 39) && negb (strict t)) then Consumed (set_state (set_pb (set_quote t c) []) S_object_field) l
      else fail t l TE_object_key_name

  | S_object_field =>
      if c =? quote_char t then
        Consumed (set_top t (mksrec S_eatws S_object_field_end (s_cur (top t)) (Some (cstr (pb t))))) l
      else if c =? 92 then
        Consumed (set_top t (mksrec S_string_escape S_object_field (s_cur (top t)) (s_name (top t)))) l
      else if strict t && (c <=? 31) then fail t l TE_string
      else Consumed (append t [c]) l

  | S_object_field_end =>
      if c =? 58 then Consumed (set_top t (mksrec S_eatws S_object_value (s_cur (top t)) (s_name (top t)))) l
      else fail t l TE_object_key_sep

  | S_object_value =>
      if depth t >=? max_depth t - 1 then fail t l TE_depth
      else Redo (set_stack t (fresh_level :: stack (set_state t S_object_value_add))) l

  | S_object_value_add =>
      let k := match s_name (top t) with Some k => k | None => [] end in
      let cur' := match s_cur (top t) with JObj ms => JObj (obj_add ms k (lobj l)) | v => v end in
      Redo (set_top t (mksrec S_eatws S_object_sep cur' None)) l

  | S_object_sep =>
      if c =? 125 then Consumed (set_top t (mksrec S_eatws S_finish (s_cur (top t)) (s_name (top t)))) l
      else if c =? 44 then Consumed (set_top t (mksrec S_eatws S_object_field_start_after_sep (s_cur (top t)) (s_name (top t)))) l
      else fail t l TE_object_value_sep
  end.

(* goto redo_char, bounded: [None] = fuel exhausted (proved impossible for REDO_FUEL) *)
Fixpoint redo (fuel : nat) (t : tok) (l : locals) : option sres :=
  match fuel with
  | O => None
  | S f =>
      match step1 t l with
      | Redo t' l' => redo f t' l'
      | r => Some r
      end
  end.
Definition REDO_FUEL : nat := 16.

(* what PEEK_CHAR sets tok->err to when the input is exhausted *)
Definition end_of_input_err (t : tok) : terr :=
  if (depth t =? 0) && tstate_eqb (st t) S_eatws && tstate_eqb (sv t) S_finish then TE_success else TE_continue.

Inductive loopres := LOut (t : tok) (l : locals) | LFuel.

(* the while (PEEK_CHAR(c, tok)) loop over the bytes of this call *)
Fixpoint run (bytes : list byte) (t : tok) (l : locals) : loopres :=
  match bytes with
  | [] => LOut (set_err t (end_of_input_err t)) l
  | b :: rest =>
      match (if validate_utf8 t then validate_utf8_step b (nbytes l) else Some (nbytes l)) with
      | None => LOut (set_err t TE_utf8) l
      | Some nb =>
          let l := mkloc b nb (lobj l) (lnum l) in
          match redo REDO_FUEL t l with
          | None => LFuel
          | Some (Consumed t' l') =>
              let t' := set_off t' (char_offset t' + 1) in
              if b =? 0 then LOut t' l' else run rest t' l'
          | Some (Out t' l') => LOut t' l'
          | Some (Redo t' l') => LFuel
          end
      end
  end.

Definition reset_levels (t : tok) : tok := set_stack t (map (fun _ => fresh_level) (stack t)).

Inductive presult :=
| PR (t : tok) (ret : option jv)     (* ret = Some v: returned object (v = JNull: NULL pointer with success) *)
| PRFuel.

(* the code after the  out:  label *)
Definition finish_call (t : tok) (l : locals) : presult :=
  let c := lc l in
  let t := if validate_utf8 t && negb (nbytes l =? 0) then set_err t TE_utf8 else t in
  let t := if negb (c =? 0) && tstate_eqb (st t) S_finish && (depth t =? 0) && strict t && negb (allow_trailing t)
           then set_err t TE_unexpected else t in
  let t := if (c =? 0) && (negb (depth t =? 0) || (negb (tstate_eqb (st t) S_finish) && negb (tstate_eqb (sv t) S_finish)))
           then set_err t TE_eof else t in
  match err t with
  | TE_success => PR (reset_levels t) (Some (s_cur (top t)))
  | _ => PR t None
  end.

(* json_tokener_parse_ex(tok, bytes, len) with an explicit length, len >= 0 *)
Definition parse_ex (t : tok) (bytes : list byte) : presult :=
  let t := set_err (set_off t 0) TE_success in
  match run bytes t (mkloc 1 0 JNull None) with
  | LOut t' l' => finish_call t' l'
  | LFuel => PRFuel
  end.

(* len = -1: the C loop never sees char_offset == len; it reads up to and including the
   terminating NUL, which every state either consumes (then the loop breaks) or rejects *)
Fixpoint upto_nul (l : list byte) : list byte :=
  match l with c :: r => if c =? 0 then [0] else c :: upto_nul r | [] => [0] end.
Definition parse_ex_cstr (t : tok) (bytes : list byte) : presult := parse_ex t (upto_nul bytes).

End WithOracle.
