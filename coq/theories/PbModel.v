(* PbModel.v — printbuf.c as written (C19).  Memory is concrete: one cell per
   allocated byte, [None] = indeterminate (fresh malloc/realloc tail).
   Every C [int] expression whose overflow would be undefined is routed through
   [ck]; an out-of-range value makes the operation return [UB]. *)
From JC Require Import Base.
Local Open Scope Z_scope.

Record pbuf := mkpb { mem : list (option byte); bpos : Z; size : Z }.

(* One memory write performed by an operation: [off, off+len) relative to buf. *)
Record wr := mkwr { w_off : Z; w_len : Z }.

Inductive pres :=
| POk (p : pbuf) (ret : Z) (ws : list wr)          (* normal return *)
| PErr (p : pbuf) (e : errno)                        (* returns -1, errno = e *)
| PUB.                                               (* undefined behaviour reached *)

Definition pb_new : pbuf :=
  mkpb (Some 0 :: repeat None 31) 0 32.

(* allocator oracle: may a (re)allocation of [n] bytes succeed? *)
Definition alloc := Z -> bool.

(* write [bs] into memory at [off] (caller guarantees bounds; out-of-bounds is
   reported by [wr_ok], never silently clipped in the theorems). *)
Definition mem_write (m : list (option byte)) (off : Z) (bs : list byte) : list (option byte) :=
  zfirstn off m ++ map Some bs ++ zskipn (off + zlen bs) m.

Definition mem_fill (m : list (option byte)) (off : Z) (c : byte) (n : Z) : list (option byte) :=
  zfirstn off m ++ zrepeat (Some c) n ++ zskipn (off + n) m.

Inductive eres := EOk (p : pbuf) | EErr (e : errno) | EUB.

(* printbuf_extend *)
Definition pb_extend (al : alloc) (p : pbuf) (min_size : Z) : eres :=
  if size p >=? min_size then EOk p
  else if min_size >? INT_MAX - 8 then EErr EFBIG
  else
    let new_size :=
      if size p >? INT_MAX / 2 then min_size + 8
      else if size p * 2 <? min_size + 8 then min_size + 8 else size p * 2 in
    if negb (in_int (min_size + 8)) || negb (in_int new_size) then EUB
    else if al new_size
    then EOk (mkpb (mem p ++ zrepeat None (new_size - size p)) (bpos p) new_size)
    else EErr ENOMEM.

(* printbuf_memappend(p, buf, size) — [bs] are the bytes at buf, [n] the size
   argument; the generator keeps n = |bs| whenever the call is not refused. *)
Definition memappend_cont (bs : list byte) (n : Z) (p' : pbuf) : pres :=
  if n >? zlen bs then PUB else        (* memcpy would read past the source *)
  let m1 := mem_write (mem p') (bpos p') (zfirstn n bs) in
  let b' := bpos p' + n in
  let m2 := mem_write m1 b' [0] in
  POk (mkpb m2 b' (size p')) n [mkwr (bpos p') n; mkwr b' 1].

Definition pb_memappend (al : alloc) (p : pbuf) (bs : list byte) (n : Z) : pres :=
  if (n <? 0) || (n >? INT_MAX - bpos p - 1) then PErr p EFBIG
  else if negb (in_int (bpos p + n + 1)) then PUB
  else
    if size p <=? bpos p + n + 1 then
      match pb_extend al p (bpos p + n + 1) with
      | EOk p' => memappend_cont bs n p'
      | EErr e => PErr p e
      | EUB => PUB
      end
    else memappend_cont bs n p.

(* printbuf_memset(pb, offset, charvalue, len); the C code stores (unsigned char)c *)
Definition memset_cont (offset c len : Z) (p' : pbuf) : pres :=
  let size_needed := offset + len in
  let '(m1, w1) :=
    if bpos p' <? offset
    then (mem_fill (mem p') (bpos p') 0 (offset - bpos p'), [mkwr (bpos p') (offset - bpos p')])
    else (mem p', []) in
  let m2 := mem_fill m1 offset (c mod 256) len in
  let b' := if bpos p' <? size_needed then size_needed else bpos p' in
  POk (mkpb m2 b' (size p')) 0 (w1 ++ [mkwr offset len]).

Definition pb_memset (al : alloc) (p : pbuf) (offset c len : Z) : pres :=
  let offset := if offset =? -1 then bpos p else offset in
  if (len <? 0) || (offset <? -1) || (len >? INT_MAX - offset) then PErr p EFBIG
  else
    let size_needed := offset + len in
    if negb (in_int size_needed) then PUB else
    if size p <? size_needed then
      match pb_extend al p size_needed with
      | EOk p' => memset_cont offset c len p'
      | EErr e => PErr p e
      | EUB => PUB
      end
    else memset_cont offset c len p.

(* sprintbuf(p, fmt, ...) with [out] the bytes the formatting oracle produced
   (vsnprintf / vasprintf agree on them).  Both branches append [out]. *)
Definition pb_sprintbuf (al : alloc) (p : pbuf) (out : list byte) : pres :=
  pb_memappend al p out (zlen out).

(* printbuf_reset *)
Definition pb_reset (p : pbuf) : pres :=
  POk (mkpb (mem_write (mem p) 0 [0]) 0 (size p)) 0 [mkwr 0 1].

(* operations of a history *)
Inductive pbop :=
| OpAppend (bs : list byte)            (* memappend with size = |bs| *)
| OpAppendN (bs : list byte) (n : Z)   (* memappend with an arbitrary size argument *)
| OpMemset (offset c len : Z)
| OpSprintf (out : list byte)
| OpReset.

Definition pb_step (al : alloc) (p : pbuf) (o : pbop) : pres :=
  match o with
  | OpAppend bs => pb_memappend al p bs (zlen bs)
  | OpAppendN bs n => pb_memappend al p bs n
  | OpMemset off c len => pb_memset al p off c len
  | OpSprintf out => pb_sprintbuf al p out
  | OpReset => pb_reset p
  end.

Definition pres_buf (old : pbuf) (r : pres) : pbuf :=
  match r with POk p _ _ => p | PErr p _ => p | PUB => old end.

(* the contents: the first bpos cells *)
Definition pb_cells (p : pbuf) : list (option byte) := zfirstn (bpos p) (mem p).

(* ---------------- abstract specification: a plain byte list ---------------- *)

Definition spec := list byte.

(* does the request fit a non-negative int?  (what the property calls "refused") *)
Definition spec_step (s : spec) (o : pbop) : spec :=
  match o with
  | OpAppend bs => s ++ bs
  | OpAppendN bs n => s ++ zfirstn n bs
  | OpSprintf out => s ++ out
  | OpMemset off c len =>
      let off := if off =? -1 then zlen s else off in
      let padded := if zlen s <? off then s ++ zrepeat 0 (off - zlen s) else s in
      zfirstn off padded ++ zrepeat (c mod 256) len ++ zskipn (off + len) padded
  | OpReset => []
  end.

(* the resulting size the request needs, as the property states it *)
Definition req_size (s : spec) (o : pbop) : Z :=
  match o with
  | OpAppend bs => zlen s + zlen bs + 1
  | OpAppendN _ n => zlen s + n + 1
  | OpSprintf out => zlen s + zlen out + 1
  | OpMemset off _ len => (if off =? -1 then zlen s else off) + len
  | OpReset => 0
  end.

(* observation printed by the drivers after each step *)
Inductive term_obs := TNul | TNonNul | TUnknown | TOutside.
Definition pb_term (p : pbuf) : term_obs :=
  if bpos p <? size p then
    match znth (mem p) (bpos p) with
    | Some (Some 0) => TNul
    | Some (Some _) => TNonNul
    | Some None => TUnknown
    | None => TOutside
    end
  else TOutside.
