(* AlModel.v — arraylist.c as written (C07).  Memory is concrete: one cell per
   allocated slot, [Undef] = indeterminate (fresh malloc / realloc tail).  Elements are
   opaque ids ([Z]); the NULL pointer is [None].

   size_t arithmetic wraps in C (it is defined), but every wrap in this file would be a
   logic error that the code's own guards are there to exclude.  The model therefore
   computes in [Z] and reports any intermediate value outside [0, SIZE_MAX] as [AUB],
   together with every out-of-bounds slot access, every read of an indeterminate slot that
   is then used as a pointer, and realloc(p, 0).  "No wrap, no out-of-bounds access" is
   thus a theorem (AlProofs.v) and not a by-product of unbounded integers.

   malloc / realloc are an oracle argument ([alloc], asked with the byte count); the
   free_fn calls are recorded, in call order, as the list of released ids.  libc qsort and
   bsearch are not modelled: the model sorts with the merge sort of Coq.Sorting.Mergesort
   and searches with a list-halving binary search over a total order on [option Z]. *)
From JC Require Import Base.
From Coq Require Import Orders Sorting.Mergesort.
Local Open Scope Z_scope.

Definition PTR : Z := 8.          (* sizeof(void * ) on the LP64 target of the harness *)
Definition STRUCT_SZ : Z := 32.   (* sizeof(struct array_list) *)

Definition elt := option Z.       (* None = NULL *)
Inductive cell := Undef | Val (e : elt).

Record alist := mkal { slots : list cell; alen : Z; asize : Z }.

(* one memory write of an operation: slots [off, off+len) of arr->array *)
Record awr := mkawr { aw_off : Z; aw_len : Z }.

Definition alloc := Z -> bool.    (* may an allocation of n bytes succeed? *)

Definition in_size (z : Z) : bool := (0 <=? z) && (z <=? SIZE_MAX).

Inductive nres := NOk (a : alist) | NFail | NUB.
Inductive xres := XOk (a : alist) | XFail | XUB.
Inductive ares :=
| AOk (a : alist) (ret : Z) (rel : list Z) (ws : list awr)   (* returns ret (0); free_fn called on rel *)
| AFail (a : alist)                                           (* returns -1 *)
| AUB.
Inductive gres := GOk (e : elt) | GUB.

(* overwrite the cells [off, off + |cs|) (callers check the bounds first) *)
Definition write_cells (m : list cell) (off : Z) (cs : list cell) : list cell :=
  zfirstn off m ++ cs ++ zskipn (off + zlen cs) m.

(* array_list_new2(free_fn, initial_size) *)
Definition al_new2 (al : alloc) (initial_size : Z) : nres :=
  if (initial_size <? 0) || (initial_size >=? SIZE_MAX / PTR) then NFail
  else if negb (al STRUCT_SZ) then NFail
  else if negb (in_size (initial_size * PTR)) then NUB
  else if al (initial_size * PTR)
  then NOk (mkal (zrepeat Undef initial_size) 0 initial_size)
  else NFail.

(* array_list_get_idx *)
Definition al_get (a : alist) (i : Z) : gres :=
  if i >=? alen a then GOk None
  else match znth (slots a) i with
       | Some (Val e) => GOk e
       | _ => GUB                      (* outside the allocation, or indeterminate *)
       end.

Definition al_length (a : alist) : Z := alen a.

(* array_list_expand_internal(arr, max) *)
Definition al_expand (al : alloc) (a : alist) (max : Z) : xres :=
  if max <? asize a then XOk a
  else
    match (if asize a >=? SIZE_MAX / 2 then Some max
           else let ns := asize a * 2 in               (* arr->size << 1 *)
                if in_size ns then Some (if ns <? max then max else ns) else None) with
    | None => XUB
    | Some new_size =>
        if new_size >? SIZE_MAX / PTR then XFail
        else if negb (in_size (new_size * PTR)) || (new_size =? 0) then XUB
        else if al (new_size * PTR)
        then XOk (mkal (slots a ++ zrepeat Undef (new_size - asize a)) (alen a) new_size)
        else XFail
    end.

(* array_list_shrink(arr, empty_slots) *)
Definition al_shrink (al : alloc) (a : alist) (empty_slots : Z) : ares :=
  if negb (in_size (SIZE_MAX / PTR - alen a)) then AUB
  else if empty_slots >=? SIZE_MAX / PTR - alen a then AFail a
  else
    let new_size := alen a + empty_slots in
    if negb (in_size new_size) then AUB
    else if new_size =? asize a then AOk a 0 [] []
    else if new_size >? asize a then
      match al_expand al a new_size with
      | XOk a' => AOk a' 0 [] []
      | XFail => AFail a
      | XUB => AUB
      end
    else
      let new_size := if new_size =? 0 then 1 else new_size in
      if negb (in_size (new_size * PTR)) then AUB
      else if al (new_size * PTR)
      then AOk (mkal (zfirstn new_size (slots a)) (alen a) new_size) 0 [] []
      else AFail a.

(* the element a slot holds, read in order to be tested / passed to free_fn *)
Definition read_ptr (m : list cell) (i : Z) : option elt :=
  match znth m i with Some (Val e) => Some e | _ => None end.

(* array_list_put_idx(arr, idx, data) *)
Definition al_put (al : alloc) (a : alist) (idx : Z) (data : elt) : ares :=
  if idx >? SIZE_MAX - 1 then AFail a
  else if negb (in_size (idx + 1)) then AUB
  else
    match al_expand al a (idx + 1) with
    | XFail => AFail a
    | XUB => AUB
    | XOk a1 =>
        (* if (idx < arr->length && arr->array[idx]) arr->free_fn(arr->array[idx]); *)
        match (if idx <? alen a1
               then match read_ptr (slots a1) idx with
                    | Some (Some x) => Some [x]
                    | Some None => Some []
                    | None => None
                    end
               else Some []) with
        | None => AUB
        | Some rel =>
            (* arr->array[idx] = data; *)
            if negb ((0 <=? idx) && (idx <? asize a1)) then AUB
            else
              let s1 := write_cells (slots a1) idx [Val data] in
              (* if (idx > arr->length) memset(arr->array + arr->length, 0, (idx - arr->length) * 8) *)
              match (if idx >? alen a1
                     then if negb (in_size ((idx - alen a1) * PTR)) || (alen a1 <? 0) || (idx >? asize a1)
                          then None
                          else Some (write_cells s1 (alen a1) (zrepeat (Val None) (idx - alen a1)),
                                     [mkawr (alen a1) (idx - alen a1)])
                     else Some (s1, [])) with
              | None => AUB
              | Some (s2, w2) =>
                  let len' := if alen a1 <=? idx then idx + 1 else alen a1 in
                  AOk (mkal s2 len' (asize a1)) 0 rel (mkawr idx 1 :: w2)
              end
        end
    end.

(* array_list_insert_idx(arr, idx, data) *)
Definition al_insert (al : alloc) (a : alist) (idx : Z) (data : elt) : ares :=
  if idx >=? alen a then al_put al a idx data
  else if alen a =? SIZE_MAX then AFail a
  else if negb (in_size (alen a + 1)) then AUB
  else
    match al_expand al a (alen a + 1) with
    | XFail => AFail a
    | XUB => AUB
    | XOk a1 =>
        let cnt := alen a1 - idx in
        (* move_amount = (arr->length - idx) * sizeof(void * );
           memmove(arr->array + idx + 1, arr->array + idx, move_amount); *)
        if negb (in_size cnt) || negb (in_size (cnt * PTR)) then AUB
        else if (idx <? 0) || (idx + 1 + cnt >? asize a1) then AUB
        else
          let moved := zfirstn cnt (zskipn idx (slots a1)) in
          let s1 := write_cells (slots a1) (idx + 1) moved in
          (* arr->array[idx] = data; arr->length++; *)
          let s2 := write_cells s1 idx [Val data] in
          if negb (in_size (alen a1 + 1)) then AUB
          else AOk (mkal s2 (alen a1 + 1) (asize a1)) 0 [] [mkawr (idx + 1) cnt; mkawr idx 1]
    end.

(* array_list_add(arr, data) *)
Definition al_add (al : alloc) (a : alist) (data : elt) : ares :=
  let idx := alen a in
  if idx >? SIZE_MAX - 1 then AFail a
  else if negb (in_size (idx + 1)) then AUB
  else
    match al_expand al a (idx + 1) with
    | XFail => AFail a
    | XUB => AUB
    | XOk a1 =>
        if negb ((0 <=? idx) && (idx <? asize a1)) then AUB
        else if negb (in_size (alen a1 + 1)) then AUB
        else AOk (mkal (write_cells (slots a1) idx [Val data]) (alen a1 + 1) (asize a1)) 0 [] [mkawr idx 1]
    end.

(* the free_fn calls of a loop over cells: every cell is read; non-NULL ones released *)
Fixpoint released (cs : list cell) : option (list Z) :=
  match cs with
  | [] => Some []
  | Undef :: _ => None
  | Val e :: t =>
      match released t with
      | None => None
      | Some r => Some (match e with Some x => x :: r | None => r end)
      end
  end.

(* array_list_del_idx(arr, idx, count) *)
Definition al_del (a : alist) (idx count : Z) : ares :=
  if negb (in_size (SIZE_MAX - count)) then AUB
  else if idx >? SIZE_MAX - count then AFail a
  else
    let stop := idx + count in
    if negb (in_size stop) then AUB
    else if (idx >=? alen a) || (stop >? alen a) then AFail a
    else if (idx <? 0) || (stop >? asize a) then AUB        (* the loop reads array[idx..stop) *)
    else
      match released (zfirstn count (zskipn idx (slots a))) with
      | None => AUB
      | Some rel =>
          let cnt := alen a - stop in
          (* memmove(arr->array + idx, arr->array + stop, (arr->length - stop) * 8) *)
          if negb (in_size cnt) || negb (in_size (cnt * PTR)) then AUB
          else if stop + cnt >? asize a then AUB
          else
            let moved := zfirstn cnt (zskipn stop (slots a)) in
            if negb (in_size (alen a - count)) then AUB
            else AOk (mkal (write_cells (slots a) idx moved) (alen a - count) (asize a)) 0 rel [mkawr idx cnt]
      end.

(* array_list_free: the free_fn calls it makes *)
Definition al_free (a : alist) : option (list Z) :=
  if alen a >? asize a then None else released (zfirstn (alen a) (slots a)).

(* ---- the comparator: a total order on elements, NULL first, then by id ---- *)
Module EltOrder <: TotalLeBool.
  Definition t := elt.
  Definition leb (a b : t) : bool :=
    match a, b with
    | None, _ => true
    | Some _, None => false
    | Some x, Some y => x <=? y
    end.
  (* required by the signature of the library functor; nothing else is proved here *)
  Theorem leb_total : forall a1 a2, leb a1 a2 = true \/ leb a2 a1 = true.
  Proof. intros [x|] [y|]; cbn; auto. destruct (x <=? y) eqn:E; [auto|right; lia]. Qed.
End EltOrder.
Module EltSort := Sort EltOrder.

(* a second comparator: the reverse order (descending ids, NULL last) *)
Module EltOrderDesc <: TotalLeBool.
  Definition t := elt.
  Definition leb (a b : t) : bool := EltOrder.leb b a.
  Theorem leb_total : forall a1 a2, leb a1 a2 = true \/ leb a2 a1 = true.
  Proof. intros a1 a2. destruct (EltOrder.leb_total a1 a2); auto. Qed.
End EltOrderDesc.
Module EltSortDesc := Sort EltOrderDesc.

(* which comparator a sort / search call is given *)
Inductive cmpsel := Asc | Desc.

Definition sort_by (c : cmpsel) (l : list elt) : list elt :=
  match c with Asc => EltSort.sort l | Desc => EltSortDesc.sort l end.

Definition elt_leb := EltOrder.leb.
Definition elt_compare (a b : elt) : comparison :=
  match a, b with
  | None, None => Eq
  | None, Some _ => Lt
  | Some _, None => Gt
  | Some x, Some y => x ?= y
  end.

(* all cells of the range determinate? then their values *)
Fixpoint cell_vals (cs : list cell) : option (list elt) :=
  match cs with
  | [] => Some []
  | Undef :: _ => None
  | Val e :: t => match cell_vals t with Some r => Some (e :: r) | None => None end
  end.

(* what comparator [c] returns for (k, x) *)
Definition compare_by (c : cmpsel) (k x : elt) : comparison :=
  match c with Asc => elt_compare k x | Desc => elt_compare x k end.

(* array_list_sort with comparator [c]: qsort(arr->array, arr->length, …).  The result is a
   function of the current cells and of [c] alone: the structure has no field that could
   remember an earlier sort. *)
Definition al_sort (c : cmpsel) (a : alist) : ares :=
  if alen a >? asize a then AUB
  else match cell_vals (zfirstn (alen a) (slots a)) with
       | None => AUB
       | Some vs =>
           AOk (mkal (write_cells (slots a) 0 (map Val (sort_by c vs))) (alen a) (asize a))
               0 [] [mkawr 0 (alen a)]
       end.

(* Binary search.  The comparator has the contract of bsearch(3): it is TWO-SORTED,
   [cmp : K -> elt -> comparison]; its first argument is always the key, its second always an
   array member, and the key need not have the shape of a member (a bare int searched among
   records, say).  Halves the list, comparing the key with the middle member; returns the
   member found. *)
Fixpoint bsearch_list {K : Type} (cmp : K -> elt -> comparison) (fuel : nat) (l : list elt) (k : K)
  : option elt :=
  match fuel with
  | O => None
  | S f =>
      let m := zlen l / 2 in
      match zskipn m l with
      | [] => None
      | x :: r =>
          match cmp k x with
          | Eq => Some x
          | Lt => bsearch_list cmp f (zfirstn m l) k
          | Gt => bsearch_list cmp f r k
          end
      end
  end.

(* array_list_bsearch(&key, arr, cmp): None = undefined behaviour, Some None = NULL (not found),
   Some (Some x) = a pointer to a slot holding x *)
Definition al_bsearch_km {K : Type} (cmp : K -> elt -> comparison) (a : alist) (k : K)
  : option (option elt) :=
  if alen a >? asize a then None
  else match cell_vals (zfirstn (alen a) (slots a)) with
       | None => None
       | Some vs => Some (bsearch_list cmp (S (length vs)) vs k)
       end.

(* a key that is not a member: a bare id, compared with the value of a member *)
Definition key := Z.
Definition cmp_km (c : cmpsel) (k : key) (x : elt) : comparison := compare_by c (Some k) x.

(* the homogeneous use: the key has the shape of a member (possibly NULL); found? *)
Definition al_bsearch (c : cmpsel) (a : alist) (k : elt) : option bool :=
  match al_bsearch_km (compare_by c) a k with
  | None => None
  | Some (Some _) => Some true
  | Some None => Some false
  end.

(* An element's value changed in place by the client, e.g.
   json_object_set_int64(json_object_array_get_idx(arr, i), v): the array is not called at all
   and the slot keeps the same pointer.  The model identifies an element with the value the
   comparator reads, so the cell's id becomes [v].  Returns 1, or 0 when the element is NULL
   (gap or index past the end: json_object_set_int64(NULL, v) does nothing). *)
Definition al_setval (a : alist) (i v : Z) : ares :=
  match al_get a i with
  | GUB => AUB
  | GOk None => AOk a 0 [] []
  | GOk (Some _) => AOk (mkal (write_cells (slots a) i [Val (Some v)]) (alen a) (asize a)) 1 [] []
  end.

(* ---- operations of a history (the state-changing ones) ---- *)
Inductive alop :=
| OAdd (e : elt)
| OPut (i : Z) (e : elt)
| OInsert (i : Z) (e : elt)
| ODel (i c : Z)
| OShrink (n : Z)
| OSort (c : cmpsel)
| OSetVal (i v : Z).

Definition al_step (al : alloc) (a : alist) (o : alop) : ares :=
  match o with
  | OAdd e => al_add al a e
  | OPut i e => al_put al a i e
  | OInsert i e => al_insert al a i e
  | ODel i c => al_del a i c
  | OShrink n => al_shrink al a n
  | OSort c => al_sort c a
  | OSetVal i v => al_setval a i v
  end.

(* the contents as the drivers print them: the first [alen] cells *)
Definition al_cells (a : alist) : list cell := zfirstn (alen a) (slots a).

(* ---------------- abstract specification: a plain list with null gaps ---------------- *)

Definition spec := list elt.

Definition sget (l : spec) (i : Z) : elt := match znth l i with Some e => e | None => None end.

Definition nonnull (l : list elt) : list Z :=
  flat_map (fun e => match e with Some x => [x] | None => [] end) l.

Definition sput (l : spec) (i : Z) (e : elt) : spec :=
  if i <? zlen l then zfirstn i l ++ [e] ++ zskipn (i + 1) l
  else l ++ zrepeat None (i - zlen l) ++ [e].
Definition sput_rel (l : spec) (i : Z) : list Z :=
  if i <? zlen l then nonnull [sget l i] else [].

Definition sinsert (l : spec) (i : Z) (e : elt) : spec :=
  if i >=? zlen l then sput l i e else zfirstn i l ++ [e] ++ zskipn i l.

Definition sdel (l : spec) (i c : Z) : spec := zfirstn i l ++ zskipn (i + c) l.
Definition sdel_rel (l : spec) (i c : Z) : list Z := nonnull (zfirstn c (zskipn i l)).

(* in-place change of the value of the element at [i] (nothing happens on NULL) *)
Definition ssetval (l : spec) (i v : Z) : spec :=
  match sget l i with
  | Some _ => zfirstn i l ++ [Some v] ++ zskipn (i + 1) l
  | None => l
  end.

(* new contents and the elements released, in release order *)
Definition spec_step (l : spec) (o : alop) : spec * list Z :=
  match o with
  | OAdd e => (l ++ [e], [])
  | OPut i e => (sput l i e, sput_rel l i)
  | OInsert i e => (sinsert l i e, if i >=? zlen l then sput_rel l i else [])
  | ODel i c => (sdel l i c, sdel_rel l i c)
  | OShrink _ => (l, [])
  | OSort c => (sort_by c l, [])
  | OSetVal i v => (ssetval l i v, [])
  end.

(* the value an accepted operation returns *)
Definition spec_ret (l : spec) (o : alop) : Z :=
  match o with
  | OSetVal i _ => match sget l i with Some _ => 1 | None => 0 end
  | _ => 0
  end.

(* are the arguments in range?  (the bound on representable lengths is SIZE_MAX / PTR slots) *)
Definition spec_ok (l : spec) (o : alop) : bool :=
  match o with
  | OAdd _ => zlen l + 1 <=? SIZE_MAX / PTR
  | OPut i _ => i + 1 <=? SIZE_MAX / PTR
  | OInsert i _ => Z.max i (zlen l) + 1 <=? SIZE_MAX / PTR
  | ODel i c => (i <? zlen l) && (i + c <=? zlen l)
  | OShrink n => n <? SIZE_MAX / PTR - zlen l
  | OSort _ | OSetVal _ _ => true
  end.
