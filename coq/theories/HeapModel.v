(* HeapModel.v — the reference-counted node heap of json_object.c (C05).

   heap  := association list id -> node (script-visible ids, never addresses)
   node  := { rc; kind; children (ordered, (key, option id)); cb (user delete callback tag) }
   state := heap + the next fresh id (ids are never reused).

   Modelling convention for every operation that makes a container drop a reference
   (object replace / delete, array put_idx over an occupied slot / del_idx, destruction
   of a container): the container is first *detached* from the element (slot rewritten,
   node removed from the heap) and then the detached references are released in
   container order.  The C code releases first and rewrites the slot afterwards
   (json_object_object_add_ex: put(existing) then lh_entry_set_val; array_list_put_idx:
   free_fn(old) then store; json_object_put: callback, children, free(jso)).  The two
   orders are indistinguishable unless the container is reachable from the element it
   releases, i.e. unless the heap has a cycle, which the documented rules forbid; on a
   cyclic heap C aborts on `assert(jso->_ref_count > 0)` or recurses without bound, the
   model answers [RUB].  The differential run checks this equivalence on every history.

   json_object_put's user callback runs BEFORE the children are released, so the event
   list is pre-order.  No proofs in this file. *)
From JC Require Import Base.
Local Open Scope Z_scope.

Definition id := Z.
Definition key := list byte.
Inductive styp := TBool | TInt | TDouble | TString.
Inductive kind := KScalar (t : styp) | KArray | KObject.

Record node := mkNode {
  rc : Z;                                  (* _ref_count *)
  nkind : kind;
  children : list (key * option id);       (* object: (key, value) in insertion order;
                                              array: ([], element) by position; None = NULL *)
  cb : option Z;                           (* Some r = a user delete callback is installed; r identifies
                                              the registration (0: made when the node was created, else
                                              a number drawn from the state's counter, never reused;
                                              -1: not a caller's registration but the library's own
                                              (text, json_object_free_userdata) pair that
                                              json_object_new_double_s installs to retain the text) *)
  ud : bool                                (* _userdata != NULL *)
}.
Definition has_cb (n : node) : bool := match cb n with Some _ => true | None => false end.
(* what json_object_copy_serializer_data looks at: _userdata || _user_delete *)
Definition has_userinfo (n : node) : bool := has_cb n || ud n.
Definition lib_reg : Z := -1.
Definition has_lib_reg (n : node) : bool := match cb n with Some t => t =? lib_reg | None => false end.

Definition heap := list (id * node).

Fixpoint hfind (h : heap) (i : id) : option node :=
  match h with
  | [] => None
  | (j, n) :: t => if j =? i then Some n else hfind t i
  end.
Definition hdel (h : heap) (i : id) : heap := filter (fun p => negb (fst p =? i)) h.
Definition hset (h : heap) (i : id) (n : node) : heap := (i, n) :: hdel h i.

Definition set_rc (n : node) (r : Z) : node := mkNode r (nkind n) (children n) (cb n) (ud n).
Definition set_children (n : node) (cs : list (key * option id)) : node := mkNode (rc n) (nkind n) cs (cb n) (ud n).
Definition set_cb (n : node) (c : option Z) (u : bool) : node := mkNode (rc n) (nkind n) (children n) c u.

(* what the user callbacks observe *)
Inductive ev :=
| EDestroy (i : id) (c : option Z)   (* node i freed; c = the callback that ran (None: none installed) *)
| EUser (i : id) (tag : Z).          (* old callback of live node i invoked by set_userdata *)

Fixpoint kid_ids (cs : list (key * option id)) : list id :=
  match cs with
  | [] => []
  | (_, Some c) :: t => c :: kid_ids t
  | (_, None) :: t => kid_ids t
  end.

(* ------------------------------------------------------------------ json_object_put *)
Inductive pres := POk (h : heap) (evs : list ev) (freed : bool) | PUB | PFuel.
Inductive lres := LOk (h : heap) (evs : list ev) | LUB | LFuel.

Section PutList.
  Variable P : heap -> id -> pres.
  Fixpoint put_list (l : list id) (h : heap) : lres :=
    match l with
    | [] => LOk h []
    | c :: t =>
        match P h c with
        | POk h1 e1 _ =>
            match put_list t h1 with
            | LOk h2 e2 => LOk h2 (e1 ++ e2)
            | x => x
            end
        | PUB => LUB
        | PFuel => LFuel
        end
    end.
End PutList.

Fixpoint put_f (f : nat) (h : heap) (i : id) : pres :=
  match f with
  | O => PFuel
  | S f' =>
      match hfind h i with
      | None => PUB                                        (* put on a freed node *)
      | Some n =>
          if rc n <=? 0 then PUB                           (* assert(jso->_ref_count > 0) *)
          else if 1 <? rc n then POk (hset h i (set_rc n (rc n - 1))) [] false
          else
            match put_list (put_f f') (kid_ids (children n)) (hdel h i) with
            | LOk h' evs => POk h' (EDestroy i (cb n) :: evs) true
            | LUB => PUB
            | LFuel => PFuel
            end
      end
  end.

(* fuel: one more than the number of nodes (HeapProofs.put_fuel_sufficient) *)
Definition put_h (h : heap) (i : id) : pres := put_f (S (length h)) h i.
Definition release_list (h : heap) (l : list id) : lres := put_list (fun h i => put_h h i) l h.

(* ------------------------------------------------------------------ state, results *)
Record state := mkSt { heap_of : heap; nxt : Z }.
Definition init_state : state := mkSt [] 1.

Inductive res := ROk (s : state) (ret : Z) (evs : list ev) | RUB | RFuel.

Definition lift_l (nx : Z) (ret : Z) (r : lres) : res :=
  match r with LOk h evs => ROk (mkSt h nx) ret evs | LUB => RUB | LFuel => RFuel end.

Definition opt_ids (o : option id) : list id := match o with Some i => [i] | None => [] end.

(* constructors: rc = 1; the driver installs the logging callback with tag 0 at once *)
Definition new_node (s : state) (k : kind) : res :=
  ROk (mkSt ((nxt s, mkNode 1 k [] (Some 0) true) :: heap_of s) (nxt s + 1)) (nxt s) [].

(* json_object_new_double_s: the node retains the source text through the library's own
   registration; the driver installs nothing on it *)
Definition new_double_s (s : state) : res :=
  ROk (mkSt ((nxt s, mkNode 1 (KScalar TDouble) [] (Some lib_reg) true) :: heap_of s) (nxt s + 1)) (nxt s) [].

Definition get_node (s : state) (i : id) : res :=
  match hfind (heap_of s) i with
  | None => RUB
  | Some n => ROk (mkSt (hset (heap_of s) i (set_rc n (rc n + 1))) (nxt s)) i []
  end.

Definition put_node (s : state) (i : id) : res :=
  match put_h (heap_of s) i with
  | POk h evs b => ROk (mkSt h (nxt s)) (if b then 1 else 0) evs
  | PUB => RUB
  | PFuel => RFuel
  end.

(* ------------------------------------------------------------------ objects *)
Fixpoint keq (a b : key) : bool :=
  match a, b with
  | [], [] => true
  | x :: a', y :: b' => (x =? y) && keq a' b'
  | _, _ => false
  end.

(* Who owns the storage of a member name (lh_entry.k_is_constant): an entry inserted with
   JSON_C_OBJECT_ADD_CONSTANT_KEY keeps the caller's pointer and the library never frees it;
   every other entry holds a strdup'ed copy that is freed together with the entry (delete,
   destruction of the object) and kept by a replace.  The flag is part of the entry: such an
   entry is written with the marker [-1] (not a byte) in front of its name.  A table resize
   re-inserts every entry with its own flag. *)
Definition kmark (k : key) : key := (-1) :: k.
Definition kstrip (k : key) : key :=
  match k with x :: t => if x =? -1 then t else k | [] => k end.
Definition kconst (k : key) : bool :=
  match k with x :: _ => x =? -1 | [] => false end.

Fixpoint assoc_find (k : key) (cs : list (key * option id)) : option (option id) :=
  match cs with
  | [] => None
  | (k', v) :: t => if keq (kstrip k') k then Some v else assoc_find k t
  end.
(* lh_entry_set_val on the existing entry: the key (and its flag) keeps its position *)
Fixpoint assoc_set (k : key) (v : option id) (cs : list (key * option id)) : list (key * option id) :=
  match cs with
  | [] => []
  | (k', v') :: t => if keq (kstrip k') k then (k', v) :: t else (k', v') :: assoc_set k v t
  end.
Fixpoint assoc_del (k : key) (cs : list (key * option id)) : list (key * option id) :=
  match cs with
  | [] => []
  | (k', v') :: t => if keq (kstrip k') k then t else (k', v') :: assoc_del k t
  end.

(* key copies the library owns in one member list / in the whole heap *)
Fixpoint key_copies (cs : list (key * option id)) : Z :=
  match cs with [] => 0 | (k, _) :: t => (if kconst k then 0 else 1) + key_copies t end.

Definition is_kind (n : node) (k : kind) : bool :=
  match nkind n, k with
  | KScalar _, KScalar _ | KArray, KArray | KObject, KObject => true
  | _, _ => false
  end.

Definition opt_is (v : option id) (p : id) : bool := match v with Some c => c =? p | None => false end.

(* json_object_object_add_ex(jso, key, val, opts); [is_new] = JSON_C_OBJECT_ADD_KEY_IS_NEW (the
   lookup is skipped: the caller promises the key is absent), [const] =
   JSON_C_OBJECT_ADD_CONSTANT_KEY (only looked at when a new entry is made) *)
Definition obj_add_ex (s : state) (p : id) (k : key) (v : option id) (is_new const : bool) : res :=
  match hfind (heap_of s) p with
  | None => RUB
  | Some n =>
      if negb (is_kind n KObject) then RUB                  (* assert(type == object) *)
      else if opt_is v p then ROk s (-1) []                 (* if (jso == val) return -1 *)
      else
        match (if is_new then None else assoc_find k (children n)) with
        | None =>
            ROk (mkSt (hset (heap_of s) p
                         (set_children n (children n ++ [(if const then kmark k else k, v)]))) (nxt s)) 0 []
        | Some old =>
            lift_l (nxt s) 0
              (release_list (hset (heap_of s) p (set_children n (assoc_set k v (children n)))) (opt_ids old))
        end
  end.

(* json_object_object_add *)
Definition obj_add (s : state) (p : id) (k : key) (v : option id) : res := obj_add_ex s p k v false false.

(* json_object_object_del: void; a missing key is a no-op *)
Definition obj_del (s : state) (p : id) (k : key) : res :=
  match hfind (heap_of s) p with
  | None => RUB
  | Some n =>
      if negb (is_kind n KObject) then RUB
      else
        match assoc_find k (children n) with
        | None => ROk s 0 []
        | Some old =>
            lift_l (nxt s) 0
              (release_list (hset (heap_of s) p (set_children n (assoc_del k (children n)))) (opt_ids old))
        end
  end.

(* ------------------------------------------------------------------ arrays *)
Definition slot (v : option id) : key * option id := ([], v).

(* json_object_array_add *)
Definition arr_add (s : state) (p : id) (v : option id) : res :=
  match hfind (heap_of s) p with
  | None => RUB
  | Some n =>
      if negb (is_kind n KArray) then RUB
      else ROk (mkSt (hset (heap_of s) p (set_children n (children n ++ [slot v]))) (nxt s)) 0 []
  end.

(* array_list_put_idx on the children list [cs] of node p *)
Definition arr_put_on (s : state) (p : id) (n : node) (idx : Z) (v : option id) : res :=
  let cs := children n in
  if (idx <? 0) || (SIZE_MAX <? idx) then RUB                (* not a size_t *)
  else if SIZE_MAX - 1 <? idx then ROk s (-1) []             (* idx > SIZE_T_MAX - 1 *)
  else if SIZE_MAX / 8 <? idx + 1 then ROk s (-1) []         (* expand: new_size > SIZE_MAX / sizeof(void * ) *)
  else if idx <? zlen cs then
    match znth cs idx with
    | Some (_, old) =>
        lift_l (nxt s) 0
          (release_list (hset (heap_of s) p (set_children n (zfirstn idx cs ++ slot v :: zskipn (idx + 1) cs)))
                        (opt_ids old))
    | None => RUB
    end
  else
    ROk (mkSt (hset (heap_of s) p (set_children n (cs ++ zrepeat (slot None) (idx - zlen cs) ++ [slot v]))) (nxt s)) 0 [].

Definition arr_put (s : state) (p : id) (idx : Z) (v : option id) : res :=
  match hfind (heap_of s) p with
  | None => RUB
  | Some n => if negb (is_kind n KArray) then RUB else arr_put_on s p n idx v
  end.

(* array_list_insert_idx: beyond the end it is put_idx *)
Definition arr_ins (s : state) (p : id) (idx : Z) (v : option id) : res :=
  match hfind (heap_of s) p with
  | None => RUB
  | Some n =>
      if negb (is_kind n KArray) then RUB
      else if (idx <? 0) || (SIZE_MAX <? idx) then RUB
      else if zlen (children n) <=? idx then arr_put_on s p n idx v
      else
        ROk (mkSt (hset (heap_of s) p
                     (set_children n (zfirstn idx (children n) ++ slot v :: zskipn idx (children n)))) (nxt s)) 0 []
  end.

(* array_list_del_idx(idx, count) *)
Definition arr_del (s : state) (p : id) (idx count : Z) : res :=
  match hfind (heap_of s) p with
  | None => RUB
  | Some n =>
      let cs := children n in
      if negb (is_kind n KArray) then RUB
      else if (idx <? 0) || (SIZE_MAX <? idx) || (count <? 0) || (SIZE_MAX <? count) then RUB
      else if SIZE_MAX - count <? idx then ROk s (-1) []
      else if (zlen cs <=? idx) || (zlen cs <? idx + count) then ROk s (-1) []
      else
        lift_l (nxt s) 0
          (release_list (hset (heap_of s) p (set_children n (zfirstn idx cs ++ zskipn (idx + count) cs)))
                        (kid_ids (zfirstn count (zskipn idx cs))))
  end.

(* ------------------------------------------------------------------ userdata *)
(* json_object_set_userdata(jso, userdata, user_delete) and json_object_set_serializer(jso, fn,
   userdata, user_delete), which calls it: the previously registered delete callback — if
   there is one, whatever the previous userdata was, NULL included — is invoked once, on the
   live node, then (userdata, user_delete) are replaced.  [u]: the new userdata is non-NULL;
   [d]: a delete callback is registered; the registration gets the next number of the
   state's counter.  (u, d) = (false, false) is the reset.  The serializer function itself
   has no bearing on ownership and is not modelled. *)
Definition set_ud (s : state) (i : id) (u d : bool) : res :=
  match hfind (heap_of s) i with
  | None => RUB
  | Some n =>
      ROk (mkSt (hset (heap_of s) i (set_cb n (if d then Some (nxt s) else None) u)) (nxt s + 1)) 0
          (match cb n with Some t => [EUser i t] | None => [] end)
  end.

(* the value setters json_object_set_boolean / set_int / set_int64 / set_uint64 / int_inc /
   set_double / set_string / set_string_len: 1 when the node has the setter's type, else 0.  None
   of them touches a registration, with one exception written into json_object_set_double: when
   the node still carries the library's own retained-text registration of
   json_object_new_double_s (recognised by the private serializer only that constructor
   installs) the text no longer matches and json_object_set_serializer(jso, NULL, NULL, NULL)
   drops it.  A caller's registration — whatever serializer function it names — stays. *)
Inductive setter := SBool | SInt | SInt64 | SUint64 | SIntInc | SDouble | SString | SStringLen.
Definition setter_type (w : setter) : styp :=
  match w with
  | SBool => TBool
  | SInt | SInt64 | SUint64 | SIntInc => TInt
  | SDouble => TDouble
  | SString | SStringLen => TString
  end.
Definition styp_eqb (a b : styp) : bool :=
  match a, b with
  | TBool, TBool | TInt, TInt | TDouble, TDouble | TString, TString => true
  | _, _ => false
  end.

Definition set_value (s : state) (i : id) (w : setter) : res :=
  match hfind (heap_of s) i with
  | None => RUB
  | Some n =>
      match nkind n with
      | KScalar t =>
          if styp_eqb t (setter_type w) then
            match w with
            | SDouble =>
                if has_lib_reg n
                then match set_ud s i false false with ROk s' _ evs => ROk s' 1 evs | x => x end
                else ROk s 1 []
            | _ => ROk s 1 []
            end
          else ROk s 0 []
      | _ => ROk s 0 []
      end
  end.

Definition use_node (s : state) (i : id) : res :=
  match hfind (heap_of s) i with None => RUB | Some _ => ROk s 0 [] end.

(* ------------------------------------------------------------------ deep copy *)
(* json_object_deep_copy_recursive as written: shallow copy of the node (a fresh node
   with one reference, held by the copying frame), then for every member in container
   order: copy it recursively and hand the copy to object_add / array_add.
   [custom] = true: the driver's shallow-copy function (default copy + set_userdata with a
   fresh id and tag 0, returns 2).  [custom] = false: shallow_copy == NULL, i.e.
   json_c_shallow_copy_default followed by json_object_copy_serializer_data, which FAILS
   (-1) on a node that carries userdata or a delete callback it does not know; the partial
   copy is released by the caller and the source is untouched.
   The source is read from [hs], from which the node being copied is removed before
   descending: on an acyclic heap this changes nothing, on a cyclic one C never returns. *)
Inductive cres := COk (s : state) (root : id) | CFail | CUB | CFuel.

(* json_object_copy_serializer_data: nothing to copy when there is neither userdata nor a delete
   function; the library's own retained-text registration is duplicated (strdup of the text);
   anything else is userdata it does not know: -1 *)
Definition copy_refused (custom : bool) (n : node) : bool :=
  negb custom && has_userinfo n && negb (has_lib_reg n).
Definition copy_cb (custom : bool) (n : node) : option Z :=
  if custom then Some 0 else if has_lib_reg n then Some lib_reg else None.
Definition copy_ud (custom : bool) (n : node) : bool := custom || has_lib_reg n.

Definition attach (s : state) (me : id) (k : key) (v : option id) : state :=
  match hfind (heap_of s) me with
  | Some m => mkSt (hset (heap_of s) me (set_children m (children m ++ [(k, v)]))) (nxt s)
  | None => s
  end.

Section CopyKids.
  Variable C : state -> id -> cres.
  Variable me : id.
  Inductive kres := KOk (s : state) | KFail | KUB | KFuel.
  Fixpoint copy_kids (cs : list (key * option id)) (s : state) : kres :=
    match cs with
    | [] => KOk s
    | (k, None) :: t => copy_kids t (attach s me (kstrip k) None)   (* object_add copies the name *)
    | (k, Some c) :: t =>
        match C s c with
        | COk s' c' => copy_kids t (attach s' me (kstrip k) (Some c'))
        | CFail => KFail
        | CUB => KUB
        | CFuel => KFuel
        end
    end.
End CopyKids.

Fixpoint copy_f (f : nat) (custom : bool) (hs : heap) (s : state) (src : id) : cres :=
  match f with
  | O => CFuel
  | S f' =>
      match hfind hs src with
      | None => CUB
      | Some n =>
          if copy_refused custom n then CFail
          else
            let me := nxt s in
            let s1 := mkSt ((me, mkNode 1 (nkind n) [] (copy_cb custom n) (copy_ud custom n)) :: heap_of s) (me + 1) in
            match copy_kids (copy_f f' custom (hdel hs src)) me (children n) s1 with
            | KOk s' => COk s' me
            | KFail => CFail
            | KUB => CUB
            | KFuel => CFuel
            end
      end
  end.

Definition deep_copy (s : state) (src : id) (custom : bool) : res :=
  match copy_f (S (length (heap_of s))) custom (heap_of s) s src with
  | COk s' r => ROk s' r []
  | CFail => ROk s (-1) []
  | CUB => RUB
  | CFuel => RFuel
  end.

(* ------------------------------------------------------------------ json_pointer_set *)
Definition is_digit (b : Z) : bool := (48 <=? b) && (b <=? 57).
Fixpoint dec_val (acc : Z) (l : list byte) : Z :=
  match l with [] => acc | b :: t => dec_val (acc * 10 + (b - 48)) t end.
(* is_valid_index; strtoull saturates *)
Definition valid_index (t : key) : option Z :=
  match t with
  | [] => None
  | [b] => if is_digit b then Some (b - 48) else None
  | b :: _ => if b =? 48 then None
              else if forallb is_digit t then Some (Z.min (dec_val 0 t) UINT64_MAX) else None
  end.
Fixpoint valid_escaping (t : key) : bool :=
  match t with
  | [] => true
  | x :: t' => (if x =? 126 then match t' with y :: _ => (y =? 48) || (y =? 49) | [] => false end else true)
               && valid_escaping t'
  end.
(* string_replace_all_occurrences_with_char(s, [a;b], r) *)
Fixpoint repl (a b r : Z) (l : list byte) : list byte :=
  match l with
  | x :: t' => match t' with
               | y :: t => if (x =? a) && (y =? b) then r :: repl a b r t else x :: repl a b r t'
               | [] => l
               end
  | [] => l
  end.
Definition unescape (t : key) : key := repl 126 48 126 (repl 126 49 47 t).

(* json_pointer_get_single_path; None = -1 *)
Definition ptr_get1 (h : heap) (obj : option id) (t : key) : option (option id) :=
  match obj with
  | None => None
  | Some o =>
      match hfind h o with
      | None => None
      | Some n =>
          match nkind n with
          | KArray =>
              match valid_index t with
              | None => None
              | Some idx => if idx <? zlen (children n)
                            then match znth (children n) idx with Some (_, v) => Some v | None => None end
                            else None
              end
          | KObject => if valid_escaping t then assoc_find (unescape t) (children n) else None
          | KScalar _ => None
          end
      end
  end.

Fixpoint ptr_walk (h : heap) (obj : option id) (toks : list key) : option (option id) :=
  match toks with
  | [] => Some obj
  | t :: r => match ptr_get1 h obj t with Some o' => ptr_walk h o' r | None => None end
  end.

Inductive ptarget :=
| PTNone                      (* the call fails with -1 before touching anything *)
| PTRoot                      (* path "": put( *obj ); *obj = value *)
| PTObj (p : id) (k : key)    (* json_object_object_add(p, k, value) *)
| PTArrAdd (p : id)           (* "-" *)
| PTArrPut (p : id) (idx : Z).

(* [path] = None: the string does not start with '/'; Some toks: the reference tokens *)
Definition ptr_target (h : heap) (root : id) (path : option (list key)) : ptarget :=
  match path with
  | None => PTNone
  | Some [] => PTRoot
  | Some toks =>
      let pre := removelast toks in
      let lastt := last toks [] in
      match ptr_walk h (Some root) pre with
      | None | Some None => PTNone
      | Some (Some p) =>
          match hfind h p with
          | None => PTNone
          | Some n =>
              match nkind n with
              | KArray =>
                  if keq lastt [45] then PTArrAdd p
                  else match valid_index lastt with Some idx => PTArrPut p idx | None => PTNone end
              | KObject => if valid_escaping lastt then PTObj p (unescape lastt) else PTNone
              | KScalar _ => PTNone
              end
          end
      end
  end.

Definition ptr_set (s : state) (root : id) (path : option (list key)) (v : option id) : res :=
  match hfind (heap_of s) root with
  | None => RUB
  | Some _ =>
      match ptr_target (heap_of s) root path with
      | PTNone => ROk s (-1) []
      | PTRoot => match put_node s root with ROk s' _ evs => ROk s' 0 evs | x => x end
      | PTObj p k => obj_add s p k v
      | PTArrAdd p => arr_add s p v
      | PTArrPut p idx => arr_put s p idx v
      end
  end.

(* ------------------------------------------------------------------ operations *)
Inductive op :=
| ONew (k : kind)
| ONewDoubleS
| OSetVal (i : id) (w : setter)
| OGet (i : id)
| OPut (i : id)
| OObjAdd (p : id) (k : key) (v : option id)
| OObjAddEx (p : id) (k : key) (v : option id) (is_new const : bool)
| OObjDel (p : id) (k : key)
| OArrAdd (p : id) (v : option id)
| OArrPut (p : id) (idx : Z) (v : option id)
| OArrIns (p : id) (idx : Z) (v : option id)
| OArrDel (p : id) (idx count : Z)
| OSetUd (i : id) (u d : bool)          (* set_userdata / set_serializer: userdata non-NULL, delete callback given *)
| OCopy (src : id) (custom : bool)
| OPtrSet (root : id) (path : option (list key)) (v : option id)
| OUse (i : id).                        (* read-only use of a handle *)

Definition step (s : state) (o : op) : res :=
  match o with
  | ONew k => new_node s k
  | ONewDoubleS => new_double_s s
  | OSetVal i w => set_value s i w
  | OGet i => get_node s i
  | OPut i => put_node s i
  | OObjAdd p k v => obj_add s p k v
  | OObjAddEx p k v nw cst => obj_add_ex s p k v nw cst
  | OObjDel p k => obj_del s p k
  | OArrAdd p v => arr_add s p v
  | OArrPut p idx v => arr_put s p idx v
  | OArrIns p idx v => arr_ins s p idx v
  | OArrDel p idx c => arr_del s p idx c
  | OSetUd i u d => set_ud s i u d
  | OCopy src cu => deep_copy s src cu
  | OPtrSet r path v => ptr_set s r path v
  | OUse i => use_node s i
  end.

(* ------------------------------------------------------------------ the client's ledger *)
Definition ledger := id -> Z.
Definition upd (L : ledger) (i : id) (d : Z) : ledger := fun j => if j =? i then L j + d else L j.
Definition upd_opt (L : ledger) (v : option id) (d : Z) : ledger :=
  match v with Some c => upd L c d | None => L end.

(* the documented ownership rules, as the change of the client's owned references *)
Definition ledger_step (h : heap) (L : ledger) (o : op) (ret : Z) : ledger :=
  match o with
  | ONew _ | ONewDoubleS => upd L ret 1                     (* constructors give one reference *)
  | OGet i => upd L i 1
  | OPut i => upd L i (-1)
  | OObjAdd _ _ v | OObjAddEx _ _ v _ _ | OArrAdd _ v | OArrPut _ _ v | OArrIns _ _ v =>
      if ret =? 0 then upd_opt L v (-1) else L              (* transferred on success only *)
  | OCopy _ _ => if 0 <=? ret then upd L ret 1 else L
  | OPtrSet r path v =>
      if ret =? 0 then
        match ptr_target h r path with
        | PTRoot => upd L r (-1)                            (* *obj released; value stays the caller's, now in *obj *)
        | _ => upd_opt L v (-1)
        end
      else L
  | OObjDel _ _ | OArrDel _ _ _ | OSetUd _ _ _ | OUse _ | OSetVal _ _ => L
  end.

(* edges and reachability *)
Definition edge (h : heap) (a b : id) : Prop :=
  exists n, hfind h a = Some n /\ In b (kid_ids (children n)).
Inductive reach (h : heap) : id -> id -> Prop :=
| reach_refl : forall a, reach h a a
| reach_step : forall a m b, edge h a m -> reach h m b -> reach h a b.

Definition live (h : heap) (i : id) : Prop := hfind h i <> None.
Definition live_kind (h : heap) (i : id) (k : kind) : Prop :=
  exists n, hfind h i = Some n /\ is_kind n k = true.

(* the client owns what it transfers and does not close a cycle *)
Definition transfer_ok (h : heap) (L : ledger) (p : id) (v : option id) : Prop :=
  match v with None => True | Some c => L c >= 1 /\ ~ reach h c p end.
Definition size_t (z : Z) : Prop := 0 <= z <= SIZE_MAX.

Definition admissible (s : state) (L : ledger) (o : op) : Prop :=
  let h := heap_of s in
  match o with
  | ONew _ | ONewDoubleS => True
  | OGet i => live h i                       (* any live node the client can reach may be retained *)
  | OPut i => L i >= 1                       (* never puts more than it owns *)
  | OObjAdd p _ v =>
      live_kind h p KObject /\
      (v = Some p (* refused by the library: -1, nothing changes *) \/ transfer_ok h L p v)
  | OObjAddEx p k v nw _ =>
      live_kind h p KObject /\
      (v = Some p \/ transfer_ok h L p v) /\
      (* JSON_C_OBJECT_ADD_KEY_IS_NEW is a promise that the key is not there yet *)
      (nw = true -> forall n, hfind h p = Some n -> assoc_find k (children n) = None)
  | OObjDel p _ => live_kind h p KObject
  | OArrAdd p v => live_kind h p KArray /\ transfer_ok h L p v
  | OArrPut p idx v | OArrIns p idx v => live_kind h p KArray /\ size_t idx /\ transfer_ok h L p v
  | OArrDel p idx c => live_kind h p KArray /\ size_t idx /\ size_t c
  | OSetUd i _ _ | OUse i | OSetVal i _ => live h i
  | OCopy src _ => live h src
  | OPtrSet r path v =>
      live h r /\
      match ptr_target h r path with
      | PTNone => True
      | PTRoot => L r >= 1
      | PTObj p _ => v = Some p \/ transfer_ok h L p v
      | PTArrAdd p => transfer_ok h L p v
      | PTArrPut p idx => transfer_ok h L p v
      end
  end.
