(* TokBigInt.v — C01, last sentence: "Integers beyond 64 bits saturate in default mode and are
   rejected in strict mode", lifted from tokens to documents.
   (1) parse_valid_sat: default mode, no hypothesis on the integers: the value is value_sat
       (TokValidSat.v), which is value when every integer is in range;
   (2) parse_strict_rejects_big: strict mode refuses every well-formed document that contains an
       integer token outside [INT64_MIN, UINT64_MAX], wherever it is (at the first such token). *)
From JC Require Import Base BaseLemmas Value TokModel TokProofs TokSyntax
  TokValidBase TokValidLit TokValidNum TokValidStr TokValidObj TokValid TokDepth TokStrictPos
  TokSyntaxExt TokValidExtNum TokValidExt TokValid2 TokExt TokStrictExt TokValidSat.
Local Open Scope Z_scope.

(* ================================================================ (1) default mode *)
Section Sat.
Variable sb : list byte -> Z.

Theorem parse_valid_sat D al s lead trail t :
  wf_stx s -> all_ws lead = true -> all_ws trail = true ->
  Z.of_nat (nest s) < D -> names_nul_free s = true ->
  tok_new D false al false = Some t ->
  exists t', parse_ex_cstr sb t (render_doc lead s trail) = PR t' (Some (value_sat sb s)) /\
             err t' = TE_success /\ char_offset t' = zlen (render_doc lead s trail).
Proof.
  intros Hw Hl Htr Hd Hn Hnew.
  pose proof (value_ok3 sb (mkcf D false al) s Hw eq_refl Hn) as HV.
  unfold tok_new in Hnew. destruct (D <? 1); [discriminate|]. inversion Hnew; subst t; clear Hnew.
  unfold parse_ex_cstr, render_doc. rewrite upto_nul_nonul.
  2:{ rewrite !nonul_app, (render_nonul s Hw), (nonul_ws _ Hl), (nonul_ws _ Htr). reflexivity. }
  unfold parse_ex.
  change (set_err (set_off (mktok [fresh_level] D [] false 0 0 0 0 false al false 0 TE_success) 0) TE_success)
    with (T (mkcf D false al) [fresh_level] (mkgb [] false 0 0 0) 0 0).
  rewrite run_run_f. rewrite <- !app_assoc. unfold val_ok3, fresh_level in *.
  destruct (run_ws sb (mkcf D false al) lead REDO_FUEL S_start JNull None [] (mkgb [] false 0 0 0) 0 0 1 0 JNull None
              (render s ++ trail ++ [0])) as (f1 & x1 & Hf1 & ->); [unfold REDO_FUEL; lia|exact Hl|].
  destruct (HV f1 [] (mkgb [] false 0 0 0) (0 + zlen lead) x1 0 JNull (trail ++ [0])) as (f2 & g2 & x2 & lo2 & Hf2 & ->).
  { lia. } { cbn [zlen c_md]. lia. }
  { destruct trail as [|b w]; [reflexivity|]. cbn [app xfol_rest xfol_ok is_nil].
    cbn [all_ws forallb] in Htr. apply andb_true_iff in Htr. destruct Htr as [Hb _]. unfold xstop, is_ws, is_digit in *. lia. }
  destruct (run_ws sb (mkcf D false al) trail f2 S_finish (value_sat sb s) None [] g2 0 (0 + zlen lead + zlen (render s)) x2 0 lo2 None
              [0]) as (f3 & x3 & Hf3 & ->); [exact Hf2|exact Htr|].
  destruct (final_nul sb (mkcf D false al) f3 (value_sat sb s) g2 (0 + zlen lead + zlen (render s) + zlen trail) x3 0 lo2)
    as (t' & l' & -> & -> & He & Ho); [lia|].
  exists (reset_levels t'). split; [reflexivity|]. split; [exact He|].
  change (char_offset (reset_levels t')) with (char_offset t'). rewrite Ho, !zlen_app. lia.
Qed.

(* parse_valid (default mode) is the special case *)
Corollary parse_valid_default_of_sat D al s lead trail t :
  wf_stx s -> all_ws lead = true -> all_ws trail = true ->
  Z.of_nat (nest s) < D -> ints_in_range s = true -> names_nul_free s = true ->
  tok_new D false al false = Some t ->
  exists t', parse_ex_cstr sb t (render_doc lead s trail) = PR t' (Some (value sb s)) /\
             err t' = TE_success /\ char_offset t' = zlen (render_doc lead s trail).
Proof.
  intros Hw Hl Htr Hd Hi Hn Hnew. rewrite <- (value_sat_in_range sb s Hi). apply (parse_valid_sat D al); assumption.
Qed.
End Sat.

(* ================================================================ (2) strict mode *)
(* an integer token outside [INT64_MIN, UINT64_MAX] *)
Definition big_int (n : numtok) : bool := is_int_tok n && negb (int_in_range n).

Section Big.
Variable sb : list byte -> Z.
Variable md : Z.
Local Notation SC := (mkcf md true false).

Lemma classify_strict_big below n s u q off :
  wf_num n = true -> big_int n = true ->
  classify_number sb (NS SC below (render_num n) (negb (is_int_tok n)) s u q off) = NumErr.
Proof.
  intros Hw Hb. unfold big_int in Hb. apply andb_true_iff in Hb. destruct Hb as [Hi Hr]. rewrite Hi. cbn [negb].
  destruct n as [neg ip fr ex]. unfold is_int_tok in Hi. cbn [n_frac n_exp] in Hi.
  destruct fr; [discriminate|]. destruct ex; [discriminate|].
  unfold int_in_range, is_int_tok in Hr. cbn [n_frac n_exp n_neg n_int] in Hr.
  unfold wf_num in Hw. cbn [n_neg n_int n_frac n_exp] in Hw. apply andb_true_iff in Hw. destruct Hw as [Hw _].
  apply andb_true_iff in Hw. destruct Hw as [Hip _]. destruct (wf_int_facts ip Hip) as (Hne & Hd & Hlz).
  unfold render_num. cbn [n_neg n_int n_frac n_exp render_frac render_exp]. rewrite !app_nil_r.
  destruct neg; cbn [app].
  - rewrite (neg_int_token_exact sb (NS SC below (45 :: ip) false s u q off) ip Hne (all_digits_Forall ip Hd) eq_refl eq_refl).
    cbv zeta. rewrite Hlz, andb_false_r, (digits_value_dec ip Hd).
    destruct (dec_value ip <=? 9223372036854775808); [discriminate|reflexivity].
  - rewrite (int_token_exact sb (NS SC below ip false s u q off) ip Hne (all_digits_Forall ip Hd) eq_refl eq_refl).
    cbv zeta. rewrite Hlz, andb_false_r, (digits_value_dec ip Hd).
    destruct (dec_value ip <=? UINT64_MAX) eqn:E; [discriminate|].
    destruct (dec_value ip <=? INT64_MAX) eqn:E2; [unfold INT64_MAX, UINT64_MAX in *; lia|reflexivity].
Qed.

Lemma bad_big f n fc Q stk g off x nb lo :
  (4 <= f)%nat -> wf_num n = true -> big_int n = true -> xstop fc = true ->
  bad_out (run_f sb f (render_num n ++ fc :: Q) (T SC (fresh_level :: stk) g 0 off) (mkloc x nb lo None)).
Proof.
  intros Hf Hw He Hfc.
  destruct (num_scan sb SC n (wf_num_x sb n Hw) f stk g off x nb lo Hf) as (x3 & n3 & ->).
  set (p := render_num n). set (dbl := negb (is_int_tok n)).
  assert (S1 : step1 sb (NS SC stk p dbl (g_sp g) (g_ucs g) (g_q g) (off + zlen p)) (mkloc fc nb lo (Some n3)) =
               Out (set_err (NS SC stk p dbl (g_sp g) (g_ucs g) (g_q g) (off + zlen p)) TE_number) (mkloc fc nb lo None)).
  { unfold NS. unfold step1. cbn [st top stack T s_state lc lnum].
    assert (E1 : num_char_ok (T SC (mksrec S_number S_start JNull None :: stk) (mkgb p dbl (g_sp g) (g_ucs g) (g_q g)) 0 (off + zlen p)) n3 fc = false).
    { unfold num_char_ok. cbn [is_double T g_dbl]. unfold xstop in Hfc. unfold is_digit in *.
      destruct (nl_exp n3), (nl_neg n3), (nl_pos n3), dbl; lia. }
    rewrite E1. unfold fail.
    match goal with |- (if ?b then _ else _) = _ => destruct b; [reflexivity|] end.
    assert (E3 : ((fc =? 105) || (fc =? 73)) = false) by (unfold xstop in Hfc; lia).
    rewrite E3, andb_false_r.
    cbn [is_double strict T g_dbl c_sf negb andb]. rewrite andb_false_r.
    change (T SC (mksrec S_number S_start JNull None :: stk) (mkgb p dbl (g_sp g) (g_ucs g) (g_q g)) 0 (off + zlen p))
      with (NS SC stk p dbl (g_sp g) (g_ucs g) (g_q g) (off + zlen p)).
    subst p dbl. rewrite (classify_strict_big stk n _ _ _ _ Hw He). reflexivity. }
  unfold REDO_FUEL. unfold NS in *.
  destruct (fc =? 0) eqn:E0.
  all: eexists _, _, _; (split; [apply runT_O; cbn [redo]; rewrite S1; reflexivity|]).
  all: unfold finish_call; cbn [lc validate_utf8 set_err T andb st top stack s_state sv s_saved tstate_eqb negb err]; rewrite E0;
       cbn [andb negb err set_err]; rewrite ?orb_true_r; cbn [andb negb err set_err]; (split; [reflexivity|split; discriminate]).
Qed.
End Big.

Section BigThm.
Variable sb : list byte -> Z.

(* at a value position: one more [rejected] case *)
Theorem strict_rejects_big_int D p n Q t :
  vgood p = true -> vfit D p = true -> Z.of_nat (vdepth p) < D ->
  wf_num n = true -> big_int n = true -> stops Q = true ->
  tok_new D true false false = Some t ->
  rejected sb t (render_vpos p ++ render_num n ++ Q).
Proof.
  intros Hg Hfit Hd Hw He Hs Hnew. pose proof (wf_num_x sb n Hw) as Hwx.
  assert (En : exists fc Q', upto_nul (render_num n ++ Q) = render_num n ++ fc :: Q' /\ xstop fc = true).
  { rewrite upto_nul_app by (apply nonul_xnum; exact Hwx). destruct Q as [|fc Q']; cbn [upto_nul].
    - exists 0, []. split; reflexivity.
    - destruct (fc =? 0) eqn:E0; [exists 0, []; split; reflexivity|]. exists fc, (upto_nul Q'). split; [reflexivity|exact Hs]. }
  destruct En as (fc & Q' & En & Hfc).
  apply (reject_value sb D p _ Q t Hg Hfit Hd); [| |exact Hnew].
  - rewrite En. destruct (xrender_first (XNum n) Hwx) as (x0 & tl & E & Hx). cbn [xrender] in E. rewrite E.
    exists x0, (tl ++ fc :: Q'). split; [reflexivity|exact Hx].
  - intros frs f g off x lo Hf. rewrite En. apply bad_big; assumption.
Qed.

(* ---------------------------------------------------------------- locating the first big integer of a document *)
Lemma forallb_false_split {A} (f : A -> bool) l : forallb f l = false ->
  exists pre x post, l = pre ++ x :: post /\ forallb f pre = true /\ f x = false.
Proof.
  induction l as [|y r IH]; [discriminate|]. cbn [forallb]. destruct (f y) eqn:E.
  - cbn [andb]. intros H. destruct (IH H) as (pre & x & post & -> & Hp & Hx). exists (y :: pre), x, post.
    split; [reflexivity|]. cbn [forallb]. rewrite E, Hp. auto.
  - intros _. exists [], y, r. auto.
Qed.

Lemma render_elems_split pre x post :
  render_elems (pre ++ x :: post) = pre_elems pre ++ render_el x ++ match post with [] => [93] | _ => 44 :: render_elems post end.
Proof.
  induction pre as [|y r IH]; [reflexivity|].
  change ((y :: r) ++ x :: post) with (y :: (r ++ x :: post)).
  change (pre_elems (y :: r)) with ((render_el y ++ [44]) ++ pre_elems r).
  assert (C : forall l, l <> [] -> render_elems (y :: l) = render_el y ++ 44 :: render_elems l) by (intros [|? ?]; [congruence|reflexivity]).
  rewrite C by (destruct r; discriminate). rewrite IH, <- !app_assoc. reflexivity.
Qed.
Lemma render_mems_split pre x post :
  render_mems (pre ++ x :: post) = pre_mems pre ++ render_mem x ++ match post with [] => [125] | _ => 44 :: render_mems post end.
Proof.
  induction pre as [|y r IH]; [reflexivity|].
  change ((y :: r) ++ x :: post) with (y :: (r ++ x :: post)).
  change (pre_mems (y :: r)) with ((render_mem y ++ [44]) ++ pre_mems r).
  assert (C : forall l, l <> [] -> render_mems (y :: l) = render_mem y ++ 44 :: render_mems l) by (intros [|? ?]; [congruence|reflexivity]).
  rewrite C by (destruct r; discriminate). rewrite IH, <- !app_assoc. reflexivity.
Qed.

Lemma stops_ws_then w more : all_ws w = true -> stops more = true -> stops (w ++ more) = true.
Proof.
  destruct w as [|b w]; [intros _ H; exact H|]. cbn [all_ws forallb app stops]. intros H _. apply andb_true_iff in H. destruct H as [H _].
  unfold xstop, is_ws, is_digit in *. lia.
Qed.

Lemma big_locate D s : wf_stx s -> names_nul_free s = true -> ints_in_range s = false ->
  forall p rest, vgood p = true -> vfit D p = true -> Z.of_nat (vdepth p) + Z.of_nat (nest s) < D -> stops rest = true ->
  exists p' n Q, render_vpos p ++ render s ++ rest = render_vpos p' ++ render_num n ++ Q /\
     vgood p' = true /\ vfit D p' = true /\ Z.of_nat (vdepth p') < D /\ wf_num n = true /\ big_int n = true /\ stops Q = true.
Proof.
  induction s as [l|n|cs|w es IH|w ms IH] using stx_ind'; intros Hw Hn Hi p rest Hg Hfit Hd Hs; cbn [ints_in_range] in Hi; try discriminate.
  - exists p, n, rest. cbn [render nest] in *. repeat split; auto; try lia.
    unfold big_int. unfold int_in_range in Hi. destruct (is_int_tok n) eqn:E; [|discriminate].
    cbn [andb]. unfold int_in_range. rewrite E, Hi. reflexivity.
  - (* arrays *)
    destruct (forallb_false_split _ es Hi) as (pre & [[a e] b] & post & -> & Hpre & Hx).
    unfold el_val in Hx. cbn [fst snd] in Hx.
    unfold wf_stx in Hw. cbn [wf_stxb names_nul_free] in Hw, Hn. apply andb_true_iff in Hw. destruct Hw as [_ Hes].
    rewrite forallb_app in Hes, Hn. apply andb_true_iff in Hes. destruct Hes as [Hwpre Hes]. apply andb_true_iff in Hn. destruct Hn as [Hnpre Hn].
    cbn [forallb] in Hes, Hn. apply andb_true_iff in Hes. destruct Hes as [Hwx _]. apply andb_true_iff in Hn. destruct Hn as [Hnx _].
    apply andb_true_iff in Hwx. destruct Hwx as [Hwx Hwb]. apply andb_true_iff in Hwx. destruct Hwx as [Hwa Hwe].
    unfold el_val in Hnx. cbn [fst snd] in Hnx.
    pose proof (nest_arr_elems sb w (pre ++ (a, e, b) :: post)) as HN. rewrite Forall_forall in HN.
    assert (Hne : (S (nest e) <= nest (SArr w (pre ++ (a, e, b) :: post)))%nat).
    { apply (HN (a, e, b)). apply in_or_app. right. left. reflexivity. }
    set (tl_ := match post with [] => [93] | _ :: _ => 44 :: render_elems post end).
    rewrite Forall_forall in IH.
    destruct (IH (a, e, b) ltac:(apply in_or_app; right; left; reflexivity) Hwe Hnx Hx (VArr p pre a) (b ++ tl_ ++ rest)) as (p' & n & Q & E & R).
    + cbn [vgood]. rewrite Hg, Hwa, andb_true_r. cbn [andb]. apply forallb_forall. intros y Hy.
      rewrite forallb_forall in Hwpre, Hpre, Hnpre.
      pose proof (Hwpre y Hy) as W. pose proof (Hpre y Hy) as P. pose proof (Hnpre y Hy) as N. cbn beta in P, N.
      destruct y as [[ya ye] yb]. unfold good_el, good_stx, el_val in *. cbn [fst snd el_ok] in *. rewrite W, P, N. cbn [andb].
      apply andb_true_iff in W. destruct W as [W _]. apply andb_true_iff in W. destruct W as [_ W]. rewrite W. reflexivity.
    + apply Nat2Z.inj_le in Hne. rewrite Nat2Z.inj_succ in Hne.
      cbn [vfit]. rewrite Hfit. cbn [andb]. apply andb_true_iff. split; [apply Z.ltb_lt; lia|]. apply forallb_forall. intros y Hy.
      assert (Hy' : (S (nest (el_val y)) <= nest (SArr w (pre ++ (a, e, b) :: post)))%nat) by (apply HN; apply in_or_app; left; exact Hy).
      apply Nat2Z.inj_le in Hy'. rewrite Nat2Z.inj_succ in Hy'. cbn beta. apply Z.ltb_lt. lia.
    + apply Nat2Z.inj_le in Hne. rewrite Nat2Z.inj_succ in Hne. cbn [vdepth]. rewrite Nat2Z.inj_succ. unfold el_val, m_val. cbn [fst snd]. lia.
    + apply stops_ws_then; [exact Hwb|]. subst tl_. destruct post; reflexivity.
    + exists p', n, Q. split; [|exact R]. rewrite <- E. cbn [render_vpos].
      destruct (pre ++ (a, e, b) :: post) eqn:El; [destruct pre; discriminate|]. rewrite render_arr_cons, <- El, render_elems_split. fold tl_.
      cbn [render_el]. repeat (rewrite <- ?app_assoc; cbn [app]; rewrite <- ?app_comm_cons). reflexivity.
  - (* objects *)
    destruct (forallb_false_split _ ms Hi) as (pre & [[[[[a k] b] cw] v] d] & post & -> & Hpre & Hx).
    unfold m_val in Hx. cbn [fst snd] in Hx.
    unfold wf_stx in Hw. cbn [wf_stxb names_nul_free] in Hw, Hn. apply andb_true_iff in Hw. destruct Hw as [_ Hms].
    rewrite forallb_app in Hms, Hn. apply andb_true_iff in Hms. destruct Hms as [Hwpre Hms]. apply andb_true_iff in Hn. destruct Hn as [Hnpre Hn].
    cbn [forallb] in Hms, Hn. apply andb_true_iff in Hms. destruct Hms as [Hwx _]. apply andb_true_iff in Hn. destruct Hn as [Hnx _].
    apply andb_true_iff in Hwx. destruct Hwx as [Hwx Hwd]. apply andb_true_iff in Hwx. destruct Hwx as [Hwx Hwv].
    apply andb_true_iff in Hwx. destruct Hwx as [Hwx Hwc]. apply andb_true_iff in Hwx. destruct Hwx as [Hwx Hwb].
    apply andb_true_iff in Hwx. destruct Hwx as [Hwa Hwk].
    unfold m_val, m_name in Hnx. cbn [fst snd] in Hnx. apply andb_true_iff in Hnx. destruct Hnx as [Hnk Hnv].
    pose proof (nest_obj_mems w (pre ++ (a, k, b, cw, v, d) :: post)) as HN. rewrite Forall_forall in HN.
    assert (Hne : (S (nest v) <= nest (SObj w (pre ++ (a, k, b, cw, v, d) :: post)))%nat).
    { apply (HN (a, k, b, cw, v, d)). apply in_or_app. right. left. reflexivity. }
    set (tl_ := match post with [] => [125] | _ :: _ => 44 :: render_mems post end).
    rewrite Forall_forall in IH.
    destruct (IH (a, k, b, cw, v, d) ltac:(apply in_or_app; right; left; reflexivity) Hwv Hnv Hx (VObj p pre a k b cw) (d ++ tl_ ++ rest)) as (p' & n & Q & E & R).
    + cbn [vgood]. rewrite Hg, Hwa, Hwk, Hwb, Hwc, Hnk, !andb_true_r. cbn [andb]. apply forallb_forall. intros y Hy.
      rewrite forallb_forall in Hwpre, Hpre, Hnpre.
      pose proof (Hwpre y Hy) as W. pose proof (Hpre y Hy) as P. pose proof (Hnpre y Hy) as N. cbn beta in P, N.
      apply andb_true_iff in N. destruct N as [N1 N2].
      destruct y as [[[[[ya yk] yb] yc] yv] yd]. unfold good_mem, good_stx, m_val, m_name in *. cbn [fst snd mem_ok] in *. rewrite W, P, N1, N2. cbn [andb].
      apply andb_true_iff in W. destruct W as [W _]. apply andb_true_iff in W. destruct W as [_ W]. rewrite W. reflexivity.
    + apply Nat2Z.inj_le in Hne. rewrite Nat2Z.inj_succ in Hne.
      cbn [vfit]. rewrite Hfit. cbn [andb]. apply andb_true_iff. split; [apply Z.ltb_lt; lia|]. apply forallb_forall. intros y Hy.
      assert (Hy' : (S (nest (m_val y)) <= nest (SObj w (pre ++ (a, k, b, cw, v, d) :: post)))%nat) by (apply HN; apply in_or_app; left; exact Hy).
      apply Nat2Z.inj_le in Hy'. rewrite Nat2Z.inj_succ in Hy'. cbn beta. apply Z.ltb_lt. lia.
    + apply Nat2Z.inj_le in Hne. rewrite Nat2Z.inj_succ in Hne. cbn [vdepth]. rewrite Nat2Z.inj_succ. unfold el_val, m_val. cbn [fst snd]. lia.
    + apply stops_ws_then; [exact Hwd|]. subst tl_. destruct post; reflexivity.
    + exists p', n, Q. split; [|exact R]. rewrite <- E. cbn [render_vpos].
      destruct (pre ++ (a, k, b, cw, v, d) :: post) eqn:El; [destruct pre; discriminate|]. rewrite render_obj_cons, <- El, render_mems_split. fold tl_.
      cbn [render_mem]. repeat (rewrite <- ?app_assoc; cbn [app]; rewrite <- ?app_comm_cons). reflexivity.
Qed.

(* ---------------------------------------------------------------- the document theorem *)
Theorem parse_strict_rejects_big D s lead trail t :
  wf_stx s -> all_ws lead = true -> all_ws trail = true ->
  Z.of_nat (nest s) < D -> names_nul_free s = true -> ints_in_range s = false ->
  tok_new D true false false = Some t ->
  rejected sb t (render_doc lead s trail).
Proof.
  intros Hw Hl Htr Hd Hn Hi Hnew.
  destruct (big_locate D s Hw Hn Hi (VTop lead) trail Hl eq_refl ltac:(cbn [vdepth]; lia)) as (p' & n & Q & E & Hg & Hf & Hdp & Hwn & Hb & Hs).
  { destruct trail as [|b w]; [reflexivity|]. cbn [stops]. cbn [all_ws forallb] in Htr. apply andb_true_iff in Htr. destruct Htr as [Hb _].
    unfold xstop, is_ws, is_digit in *. lia. }
  unfold render_doc. cbn [render_vpos] in E. rewrite E. apply (strict_rejects_big_int D); assumption.
Qed.

End BigThm.

(* ================================================================ non-vacuity *)
(* {"a":[1, 18446744073709551616 ,{"b":-9223372036854775809}]}  : wf, nesting 3, names fine, two big integers *)
Definition big_doc : stx :=
  SObj [] [([], [CRaw 97], [], [], SArr [] [([], SNum (mknum false [49] None None), []);
                                            ([32], SNum (mknum false [49;56;52;52;54;55;52;52;48;55;51;55;48;57;53;53;49;54;49;54] None None), [32]);
                                            ([], SObj [] [([], [CRaw 98], [], [], SNum (mknum true [57;50;50;51;51;55;50;48;51;54;56;53;52;55;55;53;56;48;57] None None), [])], [])], [])].
Definition big_example_ok : bool :=
  let sb := fun _ : list byte => 0 in
  wf_stxb big_doc && (Z.of_nat (nest big_doc) <? 4) && names_nul_free big_doc && negb (ints_in_range big_doc) &&
  match value_sat sb big_doc with
  | JObj [([97], JArr [JInt 1; JUint 18446744073709551615; JObj [([98], JInt (-9223372036854775808))]])] => true
  | _ => false end &&
  match tok_new 4 false false false, tok_new 4 true false false with
  | Some t, Some ts =>
      match parse_ex_cstr sb t (render_doc [32] big_doc [10]), parse_ex_cstr sb ts (render_doc [32] big_doc [10]) with
      | PR t1 (Some (JObj [([97], JArr [JInt 1; JUint 18446744073709551615; JObj [([98], JInt (-9223372036854775808))]])])), PR t2 None =>
          match err t1, err t2 with TE_success, TE_number => true | _, _ => false end
      | _, _ => false end
  | _, _ => false end.
Lemma big_example : big_example_ok = true.
Proof. vm_compute. reflexivity. Qed.
