(* TokDead.v — the fields json_tokener_reset leaves alone (pb, is_double, st_pos, ucs_char,
   quote_char) are dead: every state in which one of them is read is entered through a
   transition that writes it first.  Hence a reset parser behaves exactly like a new one (C04). *)
From JC Require Import Base BaseLemmas Value TokModel TokFrame TokStack TokTotal TokReset TokOff TokSim.
Local Open Scope Z_scope.

Definition live_pb (s : tstate) : bool :=
  match s with
  | S_inf | S_null | S_boolean | S_string | S_string_escape | S_escape_unicode | S_need_escape | S_need_u
  | S_number | S_object_field | S_comment_start | S_comment | S_comment_eol | S_comment_end => true
  | _ => false end.
Definition live_dbl (s : tstate) : bool := match s with S_number => true | _ => false end.
Definition live_stpos (s : tstate) : bool :=
  match s with S_inf | S_null | S_boolean | S_escape_unicode | S_need_escape | S_need_u => true | _ => false end.
Definition live_ucs (s : tstate) : bool :=
  match s with S_escape_unicode | S_need_escape | S_need_u => true | _ => false end.
Definition live_quote (s : tstate) : bool :=
  match s with S_string | S_object_field | S_string_escape | S_escape_unicode | S_need_escape | S_need_u => true | _ => false end.

(* a tokener with its five resettable-but-not-reset fields replaced *)
Definition dv (t : tok) (p : list byte) (d : bool) (s u q : Z) : tok :=
  set_quote (set_ucs (set_st_pos (set_is_double (set_pb t p) d) s) u) q.

(* the replaced fields agree with t wherever they are live *)
Definition dead_ok (t : tok) (p : list byte) (d : bool) (s u q : Z) : Prop :=
  (p = pb t \/ live_pb (st t) = false) /\ (d = is_double t \/ live_dbl (st t) = false) /\
  (s = st_pos t \/ live_stpos (st t) = false) /\ (u = ucs_char t \/ live_ucs (st t) = false) /\
  (q = quote_char t \/ live_quote (st t) = false).

Section Rw.
Variables (p : list byte) (d : bool) (s u q : Z).
Lemma v_stack t : stack (dv t p d s u q) = stack t. Proof. reflexivity. Qed.
Lemma v_maxd t : max_depth (dv t p d s u q) = max_depth t. Proof. reflexivity. Qed.
Lemma v_pb t : pb (dv t p d s u q) = p. Proof. reflexivity. Qed.
Lemma v_dbl t : is_double (dv t p d s u q) = d. Proof. reflexivity. Qed.
Lemma v_stpos t : st_pos (dv t p d s u q) = s. Proof. reflexivity. Qed.
Lemma v_ucs t : ucs_char (dv t p d s u q) = u. Proof. reflexivity. Qed.
Lemma v_high t : high_surrogate (dv t p d s u q) = high_surrogate t. Proof. reflexivity. Qed.
Lemma v_quote t : quote_char (dv t p d s u q) = q. Proof. reflexivity. Qed.
Lemma v_strict t : strict (dv t p d s u q) = strict t. Proof. reflexivity. Qed.
Lemma v_trail t : allow_trailing (dv t p d s u q) = allow_trailing t. Proof. reflexivity. Qed.
Lemma v_val t : validate_utf8 (dv t p d s u q) = validate_utf8 t. Proof. reflexivity. Qed.
Lemma v_err t : err (dv t p d s u q) = err t. Proof. reflexivity. Qed.
Lemma v_off t : char_offset (dv t p d s u q) = char_offset t. Proof. reflexivity. Qed.
Lemma v_top t : top (dv t p d s u q) = top t. Proof. reflexivity. Qed.
Lemma v_st t : st (dv t p d s u q) = st t. Proof. reflexivity. Qed.
Lemma v_sv t : sv (dv t p d s u q) = sv t. Proof. reflexivity. Qed.
Lemma v_depth t : depth (dv t p d s u q) = depth t. Proof. reflexivity. Qed.
Lemma v_set_top t x : set_top (dv t p d s u q) x = dv (set_top t x) p d s u q. Proof. reflexivity. Qed.
Lemma v_set_stack t x : set_stack (dv t p d s u q) x = dv (set_stack t x) p d s u q. Proof. reflexivity. Qed.
Lemma v_set_high t x : set_high (dv t p d s u q) x = dv (set_high t x) p d s u q. Proof. reflexivity. Qed.
Lemma v_set_err t x : set_err (dv t p d s u q) x = dv (set_err t x) p d s u q. Proof. reflexivity. Qed.
Lemma v_set_state t x : set_state (dv t p d s u q) x = dv (set_state t x) p d s u q. Proof. reflexivity. Qed.
Lemma v_value_done t x : value_done (dv t p d s u q) x = dv (value_done t x) p d s u q. Proof. reflexivity. Qed.
Lemma v_set_pb t x : set_pb (dv t p d s u q) x = dv (set_pb t x) x d s u q. Proof. reflexivity. Qed.
Lemma v_append t x : append (dv t p d s u q) x = dv (append t x) (p ++ x) d s u q. Proof. reflexivity. Qed.
Lemma v_set_dbl t x : set_is_double (dv t p d s u q) x = dv (set_is_double t x) p x s u q. Proof. reflexivity. Qed.
Lemma v_set_stpos t x : set_st_pos (dv t p d s u q) x = dv (set_st_pos t x) p d x u q. Proof. reflexivity. Qed.
Lemma v_set_ucs t x : set_ucs (dv t p d s u q) x = dv (set_ucs t x) p d s x q. Proof. reflexivity. Qed.
Lemma v_set_quote t x : set_quote (dv t p d s u q) x = dv (set_quote t x) p d s u x. Proof. reflexivity. Qed.
End Rw.
Global Hint Rewrite v_stack v_maxd v_pb v_dbl v_stpos v_ucs v_high v_quote v_strict v_trail v_val v_err v_off v_top v_st v_sv
  v_depth v_set_top v_set_stack v_set_high v_set_err v_set_state v_value_done v_set_pb v_append v_set_dbl v_set_stpos
  v_set_ucs v_set_quote : tokdv.

(* results related: same constructor, same locals, toks equal up to dead fields *)
Definition dres (r1 r2 : sres) : Prop :=
  match r1, r2 with
  | Consumed a x, Consumed b y | Redo a x, Redo b y | Out a x, Out b y =>
      x = y /\ exists p d s u q, b = dv a p d s u q /\ dead_ok a p d s u q
  | _, _ => False
  end.

Lemma dres_intro (C : tok -> locals -> sres) a l p d s u q :
  (C = Consumed \/ C = Redo \/ C = Out) -> dead_ok a p d s u q -> dres (C a l) (C (dv a p d s u q) l).
Proof. intros HC H. destruct HC as [HC|[HC|HC]]; subst C; cbn; (split; [reflexivity|]); exists p, d, s, u, q; auto. Qed.

Lemma dv_dbl_only T d : dv T (pb T) d (st_pos T) (ucs_char T) (quote_char T) = set_is_double T d.
Proof. destruct T; reflexivity. Qed.

Lemma resolve_dbl T d : resolve_pair (set_is_double T d) = (set_is_double (fst (resolve_pair T)) d, snd (resolve_pair T)).
Proof. unfold resolve_pair. cbn [high_surrogate ucs_char set_is_double].
  repeat match goal with |- context [if ?b then _ else _] => destruct b end; reflexivity. Qed.
Lemma emit_dbl T d u l : emit_unicode (set_is_double T d) u l = sres_map (fun x => set_is_double x d) (emit_unicode T u l).
Proof. unfold emit_unicode. repeat match goal with |- context [if ?b then _ else _] => destruct b end; reflexivity. Qed.
Lemma finish_unicode_dbl T d l : finish_unicode (set_is_double T d) l = sres_map (fun x => set_is_double x d) (finish_unicode T l).
Proof.
  unfold finish_unicode. change (set_st_pos (set_is_double T d) 0) with (set_is_double (set_st_pos T 0) d).
  rewrite resolve_dbl. cbn [fst snd]. apply emit_dbl.
Qed.

Lemma st_set_stack_cons t x r : st (set_stack t (x :: r)) = s_state x. Proof. reflexivity. Qed.
Lemma stpos_append t x : st_pos (append t x) = st_pos t. Proof. reflexivity. Qed.
Global Hint Rewrite st_set_stack_cons : tokst.

Lemma stpos_set_stpos t x : st_pos (set_st_pos t x) = x. Proof. reflexivity. Qed.
Lemma stpos_set_ucs t x : st_pos (set_ucs t x) = st_pos t. Proof. reflexivity. Qed.
Lemma emit_not_number T u l top0 below :
  stack T = top0 :: below -> str_like (s_saved top0) = true ->
  live_dbl (st (sres_tok (emit_unicode T u l))) = false.
Proof.
  intros E Hs. unfold emit_unicode.
  assert (Hsv : sv T = s_saved top0) by (unfold sv, top; rewrite E; reflexivity).
  repeat match goal with |- context [if ?b then _ else _] => destruct b end; cbn [sres_tok]; autorewrite with tokst;
    rewrite ?Hsv; try reflexivity; destruct (s_saved top0); try discriminate Hs; reflexivity.
Qed.
Lemma finish_unicode_not_number T l top0 below :
  stack T = top0 :: below -> str_like (s_saved top0) = true ->
  live_dbl (st (sres_tok (finish_unicode T l))) = false.
Proof.
  intros E Hs. unfold finish_unicode. eapply emit_not_number; [|exact Hs].
  rewrite stack_resolve. autorewrite with tokstk. exact E.
Qed.
Lemma dres_dbl r d : live_dbl (st (sres_tok r)) = false -> dres r (sres_map (fun x => set_is_double x d) r).
Proof.
  intros H. destruct r as [a x|a x|a x]; cbn [sres_map sres_tok dres] in *; (split; [reflexivity|]);
    exists (pb a), d, (st_pos a), (ucs_char a), (quote_char a); (split; [symmetry; apply dv_dbl_only|]);
    unfold dead_ok; repeat split; try (left; reflexivity); right; exact H.
Qed.

Ltac dead_done Hst Hsv Ht :=
  unfold dead_ok; autorewrite with tokst; rewrite ?Hst, ?Hsv;
  cbn [s_state live_pb live_dbl live_stpos live_ucs live_quote];
  repeat match goal with
         | |- _ /\ _ => split
         | |- _ \/ _ => first [left; reflexivity | right; reflexivity]
         end.

Section S.
Variable sb : list byte -> Z.

Lemma classify_dv t p d s u q : classify_number sb (dv t p d s u q) = classify_number sb (set_is_double (set_pb t p) d).
Proof. reflexivity. Qed.

Lemma step1_dv t p d s u q l :
  wfs (stack t) = true -> dead_ok t p d s u q -> dres (step1 sb t l) (step1 sb (dv t p d s u q) l).
Proof.
  intros Hw (Hp & Hd & Hs & Hu & Hq).
  destruct (stack t) as [|[s0 v cur nm] below] eqn:E; [discriminate|].
  assert (Htop : top t = mksrec s0 v cur nm) by (unfold top; rewrite E; reflexivity).
  assert (Hst : st t = s0) by (unfold st; rewrite Htop; reflexivity).
  assert (Hsv : sv t = v) by (unfold sv; rewrite Htop; reflexivity).
  cbn [wfs s_state s_saved] in Hw. apply andb_true_iff in Hw. destruct Hw as [Ht Hb].
  rewrite Hst in Hp, Hd, Hs, Hu, Hq.
  unfold step1, fail. autorewrite with tokdv. rewrite Hst.
  destruct s0; cbv iota; cbn [live_pb live_dbl live_stpos live_ucs live_quote] in Hp, Hd, Hs, Hu, Hq.
  all: repeat match goal with
              | H : _ \/ true = false |- _ => destruct H as [H|H]; [|discriminate H]
              | H : _ \/ false = false |- _ => clear H
              end; try subst p; try subst d; try subst s; try subst u; try subst q.
  15: { (* S_number: pb and is_double are live *)
    repeat match goal with
           | |- context [num_char_ok (dv ?T ?p' ?d' ?s' ?u' ?q') ?n ?c] =>
               change (num_char_ok (dv T p' d' s' u' q') n c) with (num_char_ok T n c)
           end.
    match goal with |- context [if ?b then _ else _] => destruct b end.
    - repeat match goal with |- context [if ?b then _ else _] => destruct b end; autorewrite with tokdv;
        match goal with |- dres (?C ?a ?x) (?C (dv ?a ?p' ?d' ?s' ?u' ?q') ?x) =>
          apply (dres_intro C a x p' d' s' u' q'); [auto|] end;
        unfold dead_ok; autorewrite with tokst; rewrite ?Hst; cbn [live_pb live_dbl live_stpos live_ucs live_quote];
        repeat split; first [left; reflexivity | right; reflexivity].
    - repeat match goal with
             | |- context [classify_number sb (dv ?T ?p' ?d' ?s' ?u' ?q')] =>
                 change (classify_number sb (dv T p' d' s' u' q')) with (classify_number sb T)
             | |- context [if ?b then _ else _] => destruct b
             | |- context [match classify_number sb ?x with _ => _ end] => destruct (classify_number sb x)
             end; autorewrite with tokdv;
        match goal with |- dres (?C ?a ?x) (?C (dv ?a ?p' ?d' ?s' ?u' ?q') ?x) =>
          apply (dres_intro C a x p' d' s' u' q'); [auto|] end;
        unfold dead_ok; autorewrite with tokst; rewrite ?Hst; cbn [live_pb live_dbl live_stpos live_ucs live_quote];
        repeat split; first [left; reflexivity | right; reflexivity].
  }
  11: { (* S_escape_unicode: everything but is_double is live *)
    unfold wf_top in Ht; cbn [ws_like esc_like andb] in Ht.
    destruct (negb (is_hex (lc l))).
    - autorewrite with tokdv.
      match goal with |- dres (?C ?a ?x) (?C (dv ?a ?p' ?d' ?s' ?u' ?q') ?x) =>
        apply (dres_intro C a x p' d' s' u' q'); [auto|] end.
      unfold dead_ok; autorewrite with tokst; rewrite ?Hst; cbn [live_pb live_dbl live_stpos live_ucs live_quote];
        repeat split; first [left; reflexivity | right; reflexivity].
    - rewrite ?stpos_set_stpos, ?stpos_set_ucs.
      match goal with |- context [if ?b then _ else _] => destruct b end.
      + match goal with |- dres (finish_unicode ?T ?x) (finish_unicode (dv ?T ?p' ?d' ?s' ?u' ?q') ?x) =>
          change (dv T p' d' s' u' q') with (dv T (pb T) d' (st_pos T) (ucs_char T) (quote_char T)) end.
        rewrite dv_dbl_only, finish_unicode_dbl. apply dres_dbl.
        eapply finish_unicode_not_number; [autorewrite with tokstk; exact E|exact Ht].
      + match goal with |- dres (?C ?a ?x) (?C (dv ?a ?p' ?d' ?s' ?u' ?q') ?x) =>
          apply (dres_intro C a x p' d' s' u' q'); [auto|] end.
        unfold dead_ok; autorewrite with tokst; rewrite ?Hst; cbn [live_pb live_dbl live_stpos live_ucs live_quote];
          repeat split; first [left; reflexivity | right; reflexivity].
  }
  all: rewrite ?stpos_append.
  all: repeat match goal with |- context [lit_match (dv ?T ?p' ?d' ?s' ?u' ?q') ?li ?n] =>
         change (lit_match (dv T p' d' s' u' q') li n) with (lit_match T li n) end.
  all: try (timeout 30 (
    repeat match goal with
           | |- context [if ?b then _ else _] => destruct b
           | |- context [match stack ?x with _ => _ end] => rewrite E
           | |- context [match ?y with [] => _ | _ :: _ => _ end] => destruct y as [|[ps pv pc pn] below2]
           end;
    autorewrite with tokdv;
    match goal with |- dres (?C ?a ?x) (?C (dv ?a ?p' ?d' ?s' ?u' ?q') ?x) =>
      apply (dres_intro C a x p' d' s' u' q'); [auto|dead_done Hst Hsv Ht] end)).
  all: try (unfold wf_top in Ht; cbn [ws_like esc_like andb] in Ht; rewrite ?andb_true_r in Ht;
            destruct v; try discriminate Ht; cbn [live_pb live_dbl live_stpos live_ucs live_quote];
            first [left; reflexivity | right; reflexivity]).
  all: try (match goal with H : forallb _ (?x :: _) = true |- _ =>
              cbn [forallb] in H; apply andb_true_iff in H; destruct H as [Hpar _];
              destruct (s_state x); try discriminate Hpar;
              cbn [live_pb live_dbl live_stpos live_ucs live_quote]; right; reflexivity end).
Qed.
End S.
