(* TokDead.v — the fields json_tokener_reset leaves alone (pb, is_double, st_pos, ucs_char,
   quote_char) are dead: every state in which one of them is read is entered through a
   transition that writes it first.  Hence a reset parser behaves exactly like a new one (C04). *)
From JC Require Import Base BaseLemmas Value TokModel TokFrame TokStack TokTotal TokReset TokOff.
Local Open Scope Z_scope.

Definition live_pb (s : tstate) : bool :=
  match s with
  | S_inf | S_null | S_boolean | S_string | S_string_escape | S_escape_unicode | S_need_escape | S_need_u
  | S_number | S_object_field | S_comment_start | S_comment | S_comment_eol | S_comment_end => true
  | _ => false end.
Definition live_dbl (s : tstate) : bool := match s with S_number => true | _ => false end.
Definition live_stpos (s : tstate) : bool :=
  match s with S_inf | S_null | S_boolean | S_escape_unicode | S_need_escape | S_need_u => true | _ => false end.
Definition live_ucs (s : tstate) : bool :=
  match s with S_escape_unicode | S_need_escape | S_need_u => true | _ => false end.
Definition live_quote (s : tstate) : bool :=
  match s with S_string | S_object_field | S_string_escape | S_escape_unicode | S_need_escape | S_need_u => true | _ => false end.

(* equal except for fields that are dead in the current state *)
Definition dsim (t1 t2 : tok) : Prop :=
  stack t1 = stack t2 /\ max_depth t1 = max_depth t2 /\ high_surrogate t1 = high_surrogate t2 /\
  strict t1 = strict t2 /\ allow_trailing t1 = allow_trailing t2 /\ validate_utf8 t1 = validate_utf8 t2 /\
  char_offset t1 = char_offset t2 /\ err t1 = err t2 /\
  (pb t1 = pb t2 \/ live_pb (st t1) = false) /\
  (is_double t1 = is_double t2 \/ live_dbl (st t1) = false) /\
  (st_pos t1 = st_pos t2 \/ live_stpos (st t1) = false) /\
  (ucs_char t1 = ucs_char t2 \/ live_ucs (st t1) = false) /\
  (quote_char t1 = quote_char t2 \/ live_quote (st t1) = false).

Definition rdsim (r1 r2 : sres) : Prop :=
  match r1, r2 with
  | Consumed a x, Consumed b y | Redo a x, Redo b y | Out a x, Out b y => dsim a b /\ x = y
  | _, _ => False
  end.

Lemma classify_ext sb t1 t2 :
  pb t1 = pb t2 -> is_double t1 = is_double t2 -> strict t1 = strict t2 ->
  classify_number sb t1 = classify_number sb t2.
Proof. intros A B C. unfold classify_number. rewrite A, B, C. reflexivity. Qed.

Ltac prj := cbn [stack max_depth pb is_double st_pos ucs_char high_surrogate quote_char strict allow_trailing
                 validate_utf8 char_offset err s_state s_saved s_cur s_name fst snd].

Ltac live_split :=
  cbn [live_pb live_dbl live_stpos live_ucs live_quote] in *;
  repeat match goal with
         | H : _ \/ true = false |- _ => destruct H as [H|H]; [|discriminate H]
         | H : _ \/ false = false |- _ => clear H
         end; subst.

Ltac dsim_done :=
  unfold dsim, st, top; prj; cbn [live_pb live_dbl live_stpos live_ucs live_quote];
  repeat match goal with
         | |- _ /\ _ => split
         | |- _ \/ _ => first [left; reflexivity | right; reflexivity]
         | |- _ = _ => reflexivity
         end.

Section S.
Variable sb : list byte -> Z.

Lemma step1_dsim t1 t2 l : wfs (stack t1) = true -> dsim t1 t2 -> rdsim (step1 sb t1 l) (step1 sb t2 l).
Proof.
  intros Hw H. unfold dsim in H.
  destruct t1 as [stk md p dbl sp uc hs qc sf af vf off e], t2 as [stk2 md2 p2 dbl2 sp2 uc2 hs2 qc2 sf2 af2 vf2 off2 e2].
  cbn [stack max_depth pb is_double st_pos ucs_char high_surrogate quote_char strict allow_trailing validate_utf8 char_offset err] in H.
  destruct H as (-> & -> & -> & -> & -> & -> & -> & -> & Hp & Hd & Hs & Hu & Hq).
  destruct stk2 as [|[s v cur nm] below]; [discriminate|].
  cbn [wfs stack s_state s_saved] in Hw. apply andb_true_iff in Hw. destruct Hw as [Ht Hb].
  unfold st, top in Hp, Hd, Hs, Hu, Hq. cbn [stack s_state] in Hp, Hd, Hs, Hu, Hq.
  destruct s; live_split.
  all: unfold step1, st, sv, top; prj; cbv iota.
  all: unfold fail, finish_unicode, emit_unicode, resolve_pair, value_done, set_state, set_saved, set_top, append, lit_match,
         num_char_ok, set_pb, set_st_pos, set_quote, set_is_double, set_ucs, set_high, set_stack, set_err, sv, st, top, depth; prj.
  all: try (timeout 20 (
         repeat match goal with
                | |- context [classify_number sb ?a] =>
                    match goal with |- context [classify_number sb ?b] =>
                      lazymatch a with b => fail | _ => rewrite (classify_ext sb a b) by reflexivity end end
                | |- context [if ?b then _ else _] => destruct b
                | |- context [match classify_number sb ?x with _ => _ end] => destruct (classify_number sb x)
                | |- context [match lnum ?x with _ => _ end] => destruct (lnum x)
                | |- context [match below with _ => _ end] => destruct below as [|[ps pv pc pn] below2]
                end; prj; cbn [rdsim]; (split; [dsim_done|reflexivity]))).
  all: match goal with |- ?g => idtac "REMAIN" end.
Admitted.
End S.
