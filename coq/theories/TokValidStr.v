(* TokValidStr.v — parse_valid (C01), part 3: string bodies (values and member names):
   raw bytes, simple escapes, \uXXXX with surrogate pairing and replacement. *)
From JC Require Import Base BaseLemmas Value TokModel TokProofs TokSyntax TokValidBase TokValidLit.
Local Open Scope Z_scope.

(* ---------------------------------------------------------------- decoding, one character at a time *)
(* [hi] is the pending high surrogate (0 = none) *)
Definition flush (hi : Z) : list byte := if hi =? 0 then [] else utf8_replacement.

Definition dstep (hi : Z) (ch : schar) : list byte * Z :=
  match ch with
  | CRaw b => (flush hi ++ [b], 0)
  | CEsc e => (flush hi ++ [esc_byte e], 0)
  | CUni d1 d2 d3 d4 =>
      let u := code_unit d1 d2 d3 d4 in
      if negb (hi =? 0) && is_low_surrogate u then (utf8_ref (pair_scalar hi u), 0)
      else if is_high_surrogate u then (flush hi, u)
      else (flush hi ++ (if is_low_surrogate u then utf8_replacement else utf8_ref u), 0)
  end.

Fixpoint dec (hi : Z) (cs : list schar) : list byte :=
  match cs with
  | [] => flush hi
  | ch :: r => fst (dstep hi ch) ++ dec (snd (dstep hi ch)) r
  end.

Lemma high_not_low u : is_high_surrogate u = true -> is_low_surrogate u = false.
Proof. unfold is_high_surrogate, is_low_surrogate. lia. Qed.
Lemma high_nonzero u : is_high_surrogate u = true -> (u =? 0) = false.
Proof. unfold is_high_surrogate. lia. Qed.

Lemma dec_units cs :
  dec 0 cs = utf8_of_units (map unit_of cs) /\
  forall h, is_high_surrogate h = true -> dec h cs = utf8_of_units (UCode h :: map unit_of cs).
Proof.
  induction cs as [|ch r [IH0 IHh]].
  - split; [reflexivity|]. intros h Hh. cbn [dec map utf8_of_units]. unfold flush.
    rewrite Hh, (high_nonzero h Hh). reflexivity.
  - split.
    + destruct ch as [b|e|d1 d2 d3 d4]; cbn [dec dstep fst snd map unit_of utf8_of_units flush Z.eqb app negb andb].
      * rewrite IH0. reflexivity.
      * rewrite IH0. reflexivity.
      * set (u := code_unit d1 d2 d3 d4). cbv zeta.
        destruct (is_high_surrogate u) eqn:Eh; cbn [fst snd app].
        { rewrite (IHh u Eh). cbn [utf8_of_units]. rewrite Eh. reflexivity. }
        rewrite IH0. destruct (is_low_surrogate u); reflexivity.
    + intros h Hh. pose proof (high_nonzero h Hh) as Hz. pose proof (high_not_low h Hh) as Hl.
      destruct ch as [b|e|d1 d2 d3 d4]; cbn [dec dstep fst snd map unit_of]; unfold flush; rewrite ?Hz; cbn [negb andb].
      * cbn [utf8_of_units]. rewrite Hh. cbn [fst snd]. rewrite IH0, <- app_assoc. reflexivity.
      * cbn [utf8_of_units]. rewrite Hh. cbn [fst snd]. rewrite IH0, <- app_assoc. reflexivity.
      * set (u := code_unit d1 d2 d3 d4). cbv zeta.
        change (utf8_of_units (UCode h :: UCode u :: map unit_of r))
          with (if is_high_surrogate h then
                  if is_low_surrogate u then utf8_ref (pair_scalar h u) ++ utf8_of_units (map unit_of r)
                  else utf8_replacement ++ utf8_of_units (UCode u :: map unit_of r)
                else if is_low_surrogate h then utf8_replacement ++ utf8_of_units (UCode u :: map unit_of r)
                else utf8_ref h ++ utf8_of_units (UCode u :: map unit_of r)).
        rewrite Hh. destruct (is_low_surrogate u) eqn:El; cbn [fst snd].
        { rewrite IH0. reflexivity. }
        destruct (is_high_surrogate u) eqn:Eh; cbn [fst snd].
        { rewrite (IHh u Eh). reflexivity. }
        rewrite IH0, <- app_assoc. cbn [utf8_of_units]. rewrite Eh, El. reflexivity.
Qed.

Lemma dec_decode cs : dec 0 cs = decode cs.
Proof. apply dec_units. Qed.

(* ---------------------------------------------------------------- hex digits *)
Lemma is_hex_cases c : is_hex c = true ->
  (48 <= c <= 57) \/ (65 <= c <= 70) \/ (97 <= c <= 102).
Proof. unfold is_hex, is_digit. lia. Qed.

Lemma hexdigit_hexval c : is_hex c = true -> hexdigit c = hexval c /\ 0 <= hexval c < 16.
Proof.
  intros H. apply is_hex_cases in H. unfold hexdigit, hexval.
  destruct H as [H|[H|H]].
  - destruct (c <=? 57) eqn:E; lia.
  - destruct (c <=? 57) eqn:E; [lia|]. destruct (c <=? 70) eqn:E2; [|lia].
    assert (c = 65 \/ c = 66 \/ c = 67 \/ c = 68 \/ c = 69 \/ c = 70) as X by lia.
    destruct X as [->|[->|[->|[->|[->| ->]]]]]; cbn; lia.
  - destruct (c <=? 57) eqn:E; [lia|]. destruct (c <=? 70) eqn:E2; [lia|].
    assert (c = 97 \/ c = 98 \/ c = 99 \/ c = 100 \/ c = 101 \/ c = 102) as X by lia.
    destruct X as [->|[->|[->|[->|[->| ->]]]]]; cbn; lia.
Qed.

Lemma code_unit_range d1 d2 d3 d4 :
  is_hex d1 = true -> is_hex d2 = true -> is_hex d3 = true -> is_hex d4 = true ->
  0 <= code_unit d1 d2 d3 d4 < 65536.
Proof.
  intros H1 H2 H3 H4. unfold code_unit.
  pose proof (hexdigit_hexval d1 H1). pose proof (hexdigit_hexval d2 H2).
  pose proof (hexdigit_hexval d3 H3). pose proof (hexdigit_hexval d4 H4). lia.
Qed.

(* ---------------------------------------------------------------- transitions *)
Definition str_state (S : tstate) : Prop := S = S_string \/ S = S_object_field.

(* what finish_unicode does, by cases *)
Lemma emit_nonhigh c sx S cur nm below p dbl sp uc hi off U l :
  0 <= U < 65536 -> is_high_surrogate U = false ->
  emit_unicode (T c (mksrec sx S cur nm :: below) (mkgb p dbl sp uc 34) hi off) U l =
  Consumed (T c (mksrec S S cur nm :: below) (mkgb (p ++ (if is_low_surrogate U then utf8_replacement else utf8_ref U)) dbl sp uc 34) hi off) l.
Proof.
  intros HU Hh. unfold emit_unicode. rewrite Hh. rewrite <- (utf8_encode_ref U) by lia.
  destruct (U <? 128) eqn:E1.
  { assert (El : is_low_surrogate U = false) by (unfold is_low_surrogate; lia). rewrite El.
    unfold utf8_encode. rewrite E1. reflexivity. }
  destruct (U <? 2048) eqn:E2.
  { assert (El : is_low_surrogate U = false) by (unfold is_low_surrogate; lia). rewrite El. reflexivity. }
  destruct (is_low_surrogate U) eqn:El; [reflexivity|].
  destruct (U <? 65536) eqn:E3; [reflexivity|lia].
Qed.

Lemma emit_high c sx S cur nm below p dbl sp uc hi off U l :
  is_high_surrogate U = true ->
  emit_unicode (T c (mksrec sx S cur nm :: below) (mkgb p dbl sp uc 34) hi off) U l =
  Consumed (T c (mksrec S_need_escape S cur nm :: below) (mkgb p dbl sp 0 34) U off) l.
Proof.
  intros Hh. unfold emit_unicode. rewrite Hh.
  assert (E1 : (U <? 128) = false) by (unfold is_high_surrogate in Hh; lia).
  assert (E2 : (U <? 2048) = false) by (unfold is_high_surrogate in Hh; lia).
  rewrite E1, E2. reflexivity.
Qed.

Lemma emit_pair c sx S cur nm below p dbl sp uc hi off U l :
  65536 <= U < 1114112 ->
  emit_unicode (T c (mksrec sx S cur nm :: below) (mkgb p dbl sp uc 34) hi off) U l =
  Consumed (T c (mksrec S S cur nm :: below) (mkgb (p ++ utf8_ref U) dbl sp uc 34) hi off) l.
Proof.
  intros HU. unfold emit_unicode. rewrite <- (utf8_encode_ref U) by lia.
  assert (E1 : (U <? 128) = false) by lia. assert (E2 : (U <? 2048) = false) by lia.
  assert (E3 : is_high_surrogate U = false) by (unfold is_high_surrogate; lia).
  assert (E4 : is_low_surrogate U = false) by (unfold is_low_surrogate; lia).
  assert (E5 : (U <? 65536) = false) by lia. assert (E6 : (U <? 1114112) = true) by lia.
  rewrite E1, E2, E3, E4, E5, E6. reflexivity.
Qed.

Lemma fin_plain_nonhigh c S cur nm below p dbl U off l :
  0 <= U < 65536 -> is_high_surrogate U = false ->
  finish_unicode (T c (mksrec S_escape_unicode S cur nm :: below) (mkgb p dbl 4 U 34) 0 off) l =
  Consumed (T c (mksrec S S cur nm :: below) (mkgb (p ++ (if is_low_surrogate U then utf8_replacement else utf8_ref U)) dbl 0 U 34) 0 off) l.
Proof.
  intros HU Hh. unfold finish_unicode, resolve_pair. cbn [high_surrogate set_st_pos T Z.eqb negb fst snd ucs_char g_ucs].
  apply (emit_nonhigh c S_escape_unicode S cur nm below p dbl 0 U 0 off U l HU Hh).
Qed.

Lemma fin_plain_high c S cur nm below p dbl U off l :
  is_high_surrogate U = true ->
  finish_unicode (T c (mksrec S_escape_unicode S cur nm :: below) (mkgb p dbl 4 U 34) 0 off) l =
  Consumed (T c (mksrec S_need_escape S cur nm :: below) (mkgb p dbl 0 0 34) U off) l.
Proof.
  intros Hh. unfold finish_unicode, resolve_pair. cbn [high_surrogate set_st_pos T Z.eqb negb fst snd ucs_char g_ucs].
  apply (emit_high c S_escape_unicode S cur nm below p dbl 0 U 0 off U l Hh).
Qed.

Lemma fin_pend_low c S cur nm below p dbl U h off l :
  is_high_surrogate h = true -> is_low_surrogate U = true ->
  finish_unicode (T c (mksrec S_escape_unicode S cur nm :: below) (mkgb p dbl 4 U 34) h off) l =
  Consumed (T c (mksrec S S cur nm :: below) (mkgb (p ++ utf8_ref (pair_scalar h U)) dbl 0 (pair_scalar h U) 34) 0 off) l.
Proof.
  intros Hh Hl. unfold finish_unicode, resolve_pair. cbn [high_surrogate set_st_pos T fst snd ucs_char g_ucs].
  rewrite (high_nonzero h Hh). cbn [negb]. rewrite Hl. cbn [fst snd].
  assert (Hhr : 55296 <= h < 56320) by (unfold is_high_surrogate in Hh; lia).
  assert (Hlr : 56320 <= U < 57344) by (unfold is_low_surrogate in Hl; lia).
  rewrite (decode_pair_val h U Hhr Hlr). fold (pair_scalar h U).
  apply (emit_pair c S_escape_unicode S cur nm below p dbl 0 (pair_scalar h U) 0 off (pair_scalar h U) l).
  unfold pair_scalar. lia.
Qed.

Lemma fin_pend_high c S cur nm below p dbl U h off l :
  is_high_surrogate h = true -> is_high_surrogate U = true ->
  finish_unicode (T c (mksrec S_escape_unicode S cur nm :: below) (mkgb p dbl 4 U 34) h off) l =
  Consumed (T c (mksrec S_need_escape S cur nm :: below) (mkgb (p ++ utf8_replacement) dbl 0 0 34) U off) l.
Proof.
  intros Hh HU. unfold finish_unicode, resolve_pair. cbn [high_surrogate set_st_pos T fst snd ucs_char g_ucs].
  rewrite (high_nonzero h Hh). cbn [negb]. rewrite (high_not_low U HU). cbn [fst snd].
  apply (emit_high c S_escape_unicode S cur nm below (p ++ utf8_replacement) dbl 0 U 0 off U l HU).
Qed.

Lemma fin_pend_other c S cur nm below p dbl U h off l :
  is_high_surrogate h = true -> 0 <= U < 65536 -> is_high_surrogate U = false -> is_low_surrogate U = false ->
  finish_unicode (T c (mksrec S_escape_unicode S cur nm :: below) (mkgb p dbl 4 U 34) h off) l =
  Consumed (T c (mksrec S S cur nm :: below) (mkgb ((p ++ utf8_replacement) ++ utf8_ref U) dbl 0 U 34) 0 off) l.
Proof.
  intros Hh HU HUh HUl. unfold finish_unicode, resolve_pair. cbn [high_surrogate set_st_pos T fst snd ucs_char g_ucs].
  rewrite (high_nonzero h Hh). cbn [negb]. rewrite HUl. cbn [fst snd].
  pose proof (emit_nonhigh c S_escape_unicode S cur nm below (p ++ utf8_replacement) dbl 0 U 0 off U l HU HUh) as E.
  rewrite HUl in E. exact E.
Qed.

Section S.
Variable sb : list byte -> Z.

(* raw byte *)
Lemma redo_raw c f S b svx cur nm below p dbl sp uc off nb lo :
  str_state S -> (1 <= f)%nat -> wf_schar (CRaw b) = true ->
  redo sb f (T c (mksrec S svx cur nm :: below) (mkgb p dbl sp uc 34) 0 off) (mkloc b nb lo None) =
  Some (Consumed (T c (mksrec S svx cur nm :: below) (mkgb (p ++ [b]) dbl sp uc 34) 0 off) (mkloc b nb lo None)).
Proof.
  intros HS Hf Hb. fuel f. cbn [wf_schar] in Hb.
  assert (E1 : (b =? 34) = false) by lia. assert (E2 : (b =? 92) = false) by lia. assert (E3 : (b <=? 31) = false) by lia.
  cbn [redo]. unfold step1.
  destruct HS as [->| ->]; cbn [st top stack T s_state lc quote_char g_q]; rewrite E1, E2, E3, andb_false_r; reflexivity.
Qed.

(* hex digits 1..3 *)
Lemma redo_hex c f S d k cur nm below p dbl uc hi off nb lo :
  (1 <= f)%nat -> is_hex d = true -> (k = 0 \/ k = 1 \/ k = 2) ->
  redo sb f (T c (mksrec S_escape_unicode S cur nm :: below) (mkgb p dbl k uc 34) hi off) (mkloc d nb lo None) =
  Some (Consumed (T c (mksrec S_escape_unicode S cur nm :: below) (mkgb p dbl (k + 1) (uc + hexval d * 2 ^ ((3 - k) * 4)) 34) hi off) (mkloc d nb lo None)).
Proof.
  intros Hf Hd Hk. fuel f. destruct (hexdigit_hexval d Hd) as [<- _].
  cbn [redo]. unfold step1. cbn [st top stack T s_state lc]. rewrite Hd. cbn [negb].
  cbn [set_ucs set_st_pos st_pos ucs_char T g_sp g_ucs].
  destruct Hk as [->|[->| ->]]; reflexivity.
Qed.
Lemma step_hex4 c S d cur nm below p dbl uc hi off nb lo :
  is_hex d = true ->
  step1 sb (T c (mksrec S_escape_unicode S cur nm :: below) (mkgb p dbl 3 uc 34) hi off) (mkloc d nb lo None) =
  finish_unicode (T c (mksrec S_escape_unicode S cur nm :: below) (mkgb p dbl 4 (uc + hexval d) 34) hi off) (mkloc d nb lo None).
Proof.
  intros Hd. destruct (hexdigit_hexval d Hd) as [<- _].
  unfold step1. cbn [st top stack T s_state lc]. rewrite Hd. cbn [negb].
  cbn [set_ucs set_st_pos st_pos ucs_char T g_sp g_ucs]. 
  change (3 + 1 >=? 4) with true. cbv iota.
  replace (hexdigit d * 2 ^ ((3 - 3) * 4)) with (hexdigit d) by (change (2 ^ ((3 - 3) * 4)) with 1; lia).
  reflexivity.
Qed.

(* ---------------------------------------------------------------- the same, for the loop *)
Lemma run_raw c f S b more svx cur nm below p dbl sp uc off x nb lo :
  str_state S -> (1 <= f)%nat -> wf_schar (CRaw b) = true ->
  run_f sb f (b :: more) (T c (mksrec S svx cur nm :: below) (mkgb p dbl sp uc 34) 0 off) (mkloc x nb lo None) =
  run_f sb REDO_FUEL more (T c (mksrec S svx cur nm :: below) (mkgb (p ++ [b]) dbl sp uc 34) 0 (off + 1)) (mkloc b nb lo None).
Proof.
  intros HS Hf Hb. apply runT_C; [cbn [wf_schar] in Hb; lia|]. apply redo_raw; assumption.
Qed.

Lemma run_bs c f S more svx cur nm below p dbl sp uc off x nb lo :
  str_state S -> (1 <= f)%nat ->
  run_f sb f (92 :: more) (T c (mksrec S svx cur nm :: below) (mkgb p dbl sp uc 34) 0 off) (mkloc x nb lo None) =
  run_f sb REDO_FUEL more (T c (mksrec S_string_escape S cur nm :: below) (mkgb p dbl sp uc 34) 0 (off + 1)) (mkloc 92 nb lo None).
Proof.
  intros HS Hf. fuel f. destruct c as [md sf al].
  destruct HS as [->| ->]; destruct sf; stepC; reflexivity.
Qed.

Lemma run_esc c f S e more cur nm below p dbl sp uc off x nb lo :
  str_state S -> (1 <= f)%nat ->
  run_f sb f (render_esc e :: more) (T c (mksrec S_string_escape S cur nm :: below) (mkgb p dbl sp uc 34) 0 off) (mkloc x nb lo None) =
  run_f sb REDO_FUEL more (T c (mksrec S S cur nm :: below) (mkgb (p ++ [esc_byte e]) dbl sp uc 34) 0 (off + 1)) (mkloc (render_esc e) nb lo None).
Proof.
  intros HS Hf. fuel f. destruct c as [md sf al].
  destruct HS as [->| ->]; destruct sf, e; cbn [render_esc esc_byte]; stepC; reflexivity.
Qed.

Lemma run_u c f S more cur nm below p dbl sp uc hi off x nb lo :
  (1 <= f)%nat ->
  run_f sb f (117 :: more) (T c (mksrec S_string_escape S cur nm :: below) (mkgb p dbl sp uc 34) hi off) (mkloc x nb lo None) =
  run_f sb REDO_FUEL more (T c (mksrec S_escape_unicode S cur nm :: below) (mkgb p dbl 0 0 34) hi (off + 1)) (mkloc 117 nb lo None).
Proof.
  intros Hf. fuel f. destruct c as [md sf al]. destruct sf; stepC; reflexivity.
Qed.

Lemma run_hex3 c f S d1 d2 d3 more cur nm below p dbl hi off x nb lo :
  (1 <= f)%nat -> is_hex d1 = true -> is_hex d2 = true -> is_hex d3 = true ->
  run_f sb f (d1 :: d2 :: d3 :: more) (T c (mksrec S_escape_unicode S cur nm :: below) (mkgb p dbl 0 0 34) hi off) (mkloc x nb lo None) =
  run_f sb REDO_FUEL more (T c (mksrec S_escape_unicode S cur nm :: below)
                             (mkgb p dbl 3 (hexval d1 * 4096 + hexval d2 * 256 + hexval d3 * 16) 34) hi (off + 1 + 1 + 1)) (mkloc d3 nb lo None).
Proof.
  intros Hf H1 H2 H3.
  assert (N0 : forall d, is_hex d = true -> (d =? 0) = false) by (intros d Hd; apply is_hex_cases in Hd; lia).
  erewrite runT_C; [|apply N0; exact H1|apply redo_hex; [exact Hf|exact H1|left; reflexivity]].
  erewrite runT_C; [|apply N0; exact H2|apply redo_hex; [unfold REDO_FUEL; lia|exact H2|right; left; reflexivity]].
  erewrite runT_C; [|apply N0; exact H3|apply redo_hex; [unfold REDO_FUEL; lia|exact H3|right; right; reflexivity]].
  reflexivity.
Qed.

(* the fourth digit, according to what finish_unicode does *)
Lemma run_hex4 c f S d4 more cur nm below p dbl uc hi off x nb lo t' :
  (1 <= f)%nat -> is_hex d4 = true ->
  finish_unicode (T c (mksrec S_escape_unicode S cur nm :: below) (mkgb p dbl 4 (uc + hexval d4) 34) hi off) (mkloc d4 nb lo None) =
    Consumed t' (mkloc d4 nb lo None) ->
  forall stk' p' d' s' u' q' hi', t' = T c stk' (mkgb p' d' s' u' q') hi' off ->
  run_f sb f (d4 :: more) (T c (mksrec S_escape_unicode S cur nm :: below) (mkgb p dbl 3 uc 34) hi off) (mkloc x nb lo None) =
  run_f sb REDO_FUEL more (T c stk' (mkgb p' d' s' u' q') hi' (off + 1)) (mkloc d4 nb lo None).
Proof.
  intros Hf Hd Hfin stk' p' d' s' u' q' hi' ->.
  apply runT_C; [apply is_hex_cases in Hd; lia|]. fuel f. cbn [redo]. rewrite step_hex4 by exact Hd. rewrite Hfin. reflexivity.
Qed.

(* a pending high surrogate is given up *)
Lemma run_need_flush c f S b more cur nm below p dbl h off x nb lo :
  (b =? 92) = false ->
  run_f sb (Datatypes.S f) (b :: more) (T c (mksrec S_need_escape S cur nm :: below) (mkgb p dbl 0 0 34) h off) (mkloc x nb lo None) =
  run_f sb f (b :: more) (T c (mksrec S S cur nm :: below) (mkgb (p ++ utf8_replacement) dbl 0 0 34) 0 off) (mkloc b nb lo None).
Proof.
  intros Hb. apply runT_R. unfold step1. cbn [st top stack T s_state lc]. rewrite Hb. reflexivity.
Qed.

Lemma run_need_bs c f S more cur nm below p dbl h off x nb lo :
  (1 <= f)%nat ->
  run_f sb f (92 :: more) (T c (mksrec S_need_escape S cur nm :: below) (mkgb p dbl 0 0 34) h off) (mkloc x nb lo None) =
  run_f sb REDO_FUEL more (T c (mksrec S_need_u S cur nm :: below) (mkgb p dbl 0 0 34) h (off + 1)) (mkloc 92 nb lo None).
Proof.
  intros Hf. fuel f. destruct c as [md sf al]. destruct sf; stepC; reflexivity.
Qed.

Lemma run_needu_flush c f S e more cur nm below p dbl h off x nb lo :
  run_f sb (Datatypes.S f) (render_esc e :: more) (T c (mksrec S_need_u S cur nm :: below) (mkgb p dbl 0 0 34) h off) (mkloc x nb lo None) =
  run_f sb f (render_esc e :: more) (T c (mksrec S_string_escape S cur nm :: below) (mkgb (p ++ utf8_replacement) dbl 0 0 34) 0 off)
        (mkloc (render_esc e) nb lo None).
Proof.
  apply runT_R. destruct e; reflexivity.
Qed.

Lemma run_needu_u c f S more cur nm below p dbl h off x nb lo :
  (1 <= f)%nat ->
  run_f sb f (117 :: more) (T c (mksrec S_need_u S cur nm :: below) (mkgb p dbl 0 0 34) h off) (mkloc x nb lo None) =
  run_f sb REDO_FUEL more (T c (mksrec S_escape_unicode S cur nm :: below) (mkgb p dbl 0 0 34) h (off + 1)) (mkloc 117 nb lo None).
Proof.
  intros Hf. fuel f. destruct c as [md sf al]. destruct sf; stepC; reflexivity.
Qed.

End S.

(* ---------------------------------------------------------------- one character of a string *)
(* the tokener inside a string body: no surrogate pending (state S, any saved state) or a
   high surrogate pending (state need_escape, saved S) *)
Definition SS (c : cf) (S : tstate) (below : list srec) (cur : jv) (nm : option (list byte))
    (hi : Z) (p : list byte) (svx : tstate) (dbl : bool) (sp uc : Z) (off : Z) : tok :=
  if hi =? 0 then T c (mksrec S svx cur nm :: below) (mkgb p dbl sp uc 34) 0 off
  else T c (mksrec S_need_escape S cur nm :: below) (mkgb p dbl 0 0 34) hi off.

Definition hi_ok (hi : Z) : Prop := hi = 0 \/ is_high_surrogate hi = true.

Section S3.
Variable sb : list byte -> Z.

Lemma str_char c S ch : str_state S -> wf_schar ch = true ->
  forall f hi p svx dbl sp uc below cur nm off x nb lo more,
  (8 <= f)%nat -> hi_ok hi ->
  exists x' svx' sp' uc', hi_ok (snd (dstep hi ch)) /\
   run_f sb f (render_schar ch ++ more) (SS c S below cur nm hi p svx dbl sp uc off) (mkloc x nb lo None) =
   run_f sb REDO_FUEL more (SS c S below cur nm (snd (dstep hi ch)) (p ++ fst (dstep hi ch)) svx' dbl sp' uc'
                               (off + zlen (render_schar ch))) (mkloc x' nb lo None).
Proof.
  intros HS Hw f hi p svx dbl sp uc below cur nm off x nb lo more Hf Hhi.
  assert (F1 : (1 <= f)%nat) by lia. assert (F16 : (1 <= REDO_FUEL)%nat) by (unfold REDO_FUEL; lia).
  destruct Hhi as [->|Hh].
  - (* nothing pending *)
    unfold SS at 1. cbn [Z.eqb].
    destruct ch as [b|e|d1 d2 d3 d4]; cbn [render_schar app zlen].
    + rewrite run_raw by assumption. exists b, svx, sp, uc. split; [left; reflexivity|]. reflexivity.
    + rewrite run_bs by assumption. rewrite run_esc by assumption.
      exists (render_esc e), S, sp, uc. split; [left; reflexivity|].
      replace (off + (1 + (1 + 0))) with (off + 1 + 1) by lia. reflexivity.
    + cbn [wf_schar] in Hw. apply andb_true_iff in Hw. destruct Hw as [Hw H4]. apply andb_true_iff in Hw. destruct Hw as [Hw H3].
      apply andb_true_iff in Hw. destruct Hw as [H1 H2].
      pose proof (code_unit_range d1 d2 d3 d4 H1 H2 H3 H4) as HU.
      rewrite run_bs by assumption. rewrite run_u by assumption. rewrite run_hex3 by assumption.
      replace (off + (1 + (1 + (1 + (1 + (1 + (1 + 0))))))) with (off + 1 + 1 + 1 + 1 + 1 + 1) by lia.
      cbn [dstep]. cbv zeta. cbn [Z.eqb negb andb].
      change (hexval d1 * 4096 + hexval d2 * 256 + hexval d3 * 16 + hexval d4) with (code_unit d1 d2 d3 d4).
      set (U := code_unit d1 d2 d3 d4) in *.
      destruct (is_high_surrogate U) eqn:EU; cbn [fst snd].
      * erewrite run_hex4; [|exact F16|exact H4|apply fin_plain_high; exact EU|reflexivity].
        exists d4, S, 0, 0. split; [right; exact EU|]. unfold SS. rewrite (high_nonzero U EU).
        unfold flush. cbn [Z.eqb]. rewrite app_nil_r. reflexivity.
      * erewrite run_hex4; [|exact F16|exact H4|apply fin_plain_nonhigh; [exact HU|exact EU]|reflexivity].
        exists d4, S, 0, U. split; [left; reflexivity|]. reflexivity.
  - (* a high surrogate is pending *)
    pose proof (high_nonzero hi Hh) as Hz. unfold SS at 1. rewrite Hz.
    destruct ch as [b|e|d1 d2 d3 d4]; cbn [render_schar app zlen].
    + fuel f. rewrite run_need_flush by (cbn [wf_schar] in Hw; lia).
      rewrite run_raw; [|exact HS|lia|exact Hw].
      exists b, S, 0, 0. split; [left; reflexivity|]. cbn [dstep fst snd]. unfold flush. rewrite Hz.
      unfold SS. cbn [Z.eqb]. rewrite app_assoc. reflexivity.
    + rewrite run_need_bs by assumption. unfold REDO_FUEL at 1. rewrite run_needu_flush.
      rewrite run_esc; [|exact HS|lia].
      exists (render_esc e), S, 0, 0. split; [left; reflexivity|]. cbn [dstep fst snd]. unfold flush. rewrite Hz.
      unfold SS. cbn [Z.eqb]. rewrite app_assoc.
      replace (off + (1 + (1 + 0))) with (off + 1 + 1) by lia. reflexivity.
    + cbn [wf_schar] in Hw. apply andb_true_iff in Hw. destruct Hw as [Hw H4]. apply andb_true_iff in Hw. destruct Hw as [Hw H3].
      apply andb_true_iff in Hw. destruct Hw as [H1 H2].
      pose proof (code_unit_range d1 d2 d3 d4 H1 H2 H3 H4) as HU.
      rewrite run_need_bs by assumption. rewrite run_needu_u by assumption. rewrite run_hex3 by assumption.
      replace (off + (1 + (1 + (1 + (1 + (1 + (1 + 0))))))) with (off + 1 + 1 + 1 + 1 + 1 + 1) by lia.
      cbn [dstep]. cbv zeta. rewrite Hz. cbn [negb andb].
      change (hexval d1 * 4096 + hexval d2 * 256 + hexval d3 * 16 + hexval d4) with (code_unit d1 d2 d3 d4).
      set (U := code_unit d1 d2 d3 d4) in *.
      destruct (is_low_surrogate U) eqn:EL; cbn [fst snd].
      { erewrite run_hex4; [|exact F16|exact H4|apply fin_pend_low; [exact Hh|exact EL]|reflexivity].
        exists d4, S, 0, (pair_scalar hi U). split; [left; reflexivity|]. reflexivity. }
      destruct (is_high_surrogate U) eqn:EU; cbn [fst snd].
      * erewrite run_hex4; [|exact F16|exact H4|apply fin_pend_high; [exact Hh|exact EU]|reflexivity].
        exists d4, S, 0, 0. split; [right; exact EU|]. unfold SS. rewrite (high_nonzero U EU).
        unfold flush. rewrite Hz. reflexivity.
      * erewrite run_hex4; [|exact F16|exact H4|apply fin_pend_other; [exact Hh|exact HU|exact EU|exact EL]|reflexivity].
        exists d4, S, 0, U. split; [left; reflexivity|]. unfold flush. rewrite Hz.
        unfold SS. cbn [Z.eqb]. rewrite app_assoc. reflexivity.
Qed.

(* ---------------------------------------------------------------- a whole string body *)
Lemma str_body c S cs : str_state S -> wf_chars cs = true ->
  forall f hi p svx dbl sp uc below cur nm off x nb lo more,
  (8 <= f)%nat -> hi_ok hi ->
  exists f' x' hi' pend svx' sp' uc', (8 <= f')%nat /\ hi_ok hi' /\ p ++ dec hi cs = pend ++ flush hi' /\
   run_f sb f (render_chars cs ++ more) (SS c S below cur nm hi p svx dbl sp uc off) (mkloc x nb lo None) =
   run_f sb f' more (SS c S below cur nm hi' pend svx' dbl sp' uc' (off + zlen (render_chars cs))) (mkloc x' nb lo None).
Proof.
  intros HS. induction cs as [|ch r IH]; intros Hw f hi p svx dbl sp uc below cur nm off x nb lo more Hf Hhi.
  - exists f, x, hi, p, svx, sp, uc. split; [exact Hf|]. split; [exact Hhi|]. split; [reflexivity|].
    cbn [render_chars flat_map app zlen]. rewrite Z.add_0_r. reflexivity.
  - cbn [wf_chars forallb] in Hw. apply andb_true_iff in Hw. destruct Hw as [Hch Hr].
    change (render_chars (ch :: r)) with (render_schar ch ++ render_chars r). rewrite <- app_assoc.
    destruct (str_char c S ch HS Hch f hi p svx dbl sp uc below cur nm off x nb lo (render_chars r ++ more) Hf Hhi)
      as (x1 & svx1 & sp1 & uc1 & Hhi1 & ->).
    destruct (IH Hr REDO_FUEL (snd (dstep hi ch)) (p ++ fst (dstep hi ch)) svx1 dbl sp1 uc1 below cur nm
                 (off + zlen (render_schar ch)) x1 nb lo more) as (f' & x' & hi' & pend & svx' & sp' & uc' & Hf' & Hhi' & Hp & ->);
      [unfold REDO_FUEL; lia|exact Hhi1|].
    exists f', x', hi', pend, svx', sp', uc'. split; [exact Hf'|]. split; [exact Hhi'|]. split.
    + rewrite <- Hp. cbn [dec]. rewrite app_assoc. reflexivity.
    + rewrite zlen_app, Z.add_assoc. reflexivity.
Qed.

(* the closing quote *)
Definition close_top (S : tstate) (cur : jv) (nm : option (list byte)) (s : list byte) : srec :=
  match S with
  | S_object_field => mksrec S_eatws S_object_field_end cur (Some (cstr s))
  | _ => mksrec S_eatws S_finish (JStr s) nm
  end.

Lemma str_close c S : str_state S ->
  forall f hi pend svx dbl sp uc below cur nm off x nb lo more,
  (8 <= f)%nat -> hi_ok hi ->
  exists g',
   run_f sb f (34 :: more) (SS c S below cur nm hi pend svx dbl sp uc off) (mkloc x nb lo None) =
   run_f sb REDO_FUEL more (T c (close_top S cur nm (pend ++ flush hi) :: below) g' 0 (off + 1)) (mkloc 34 nb lo None).
Proof.
  intros HS f hi pend svx dbl sp uc below cur nm off x nb lo more Hf Hhi.
  assert (P : forall f p svx sp uc x, (2 <= f)%nat -> exists g',
    run_f sb f (34 :: more) (T c (mksrec S svx cur nm :: below) (mkgb p dbl sp uc 34) 0 off) (mkloc x nb lo None) =
    run_f sb REDO_FUEL more (T c (close_top S cur nm p :: below) g' 0 (off + 1)) (mkloc 34 nb lo None)).
  { clear - HS. intros f p svx sp uc x Hf. fuel f. destruct c as [md sf al]. eexists (mkgb _ _ _ _ _).
    destruct HS as [->| ->]; destruct sf; cbn [close_top]; stepC; reflexivity. }
  destruct Hhi as [->|Hh].
  - unfold SS, flush. cbn [Z.eqb]. rewrite app_nil_r. apply P. lia.
  - unfold SS, flush. rewrite (high_nonzero hi Hh). fuel f.
    rewrite run_need_flush by reflexivity. apply P. lia.
Qed.

(* ---------------------------------------------------------------- string values *)
Lemma str_ok c cs : wf_chars cs = true -> val_ok sb c (SStr cs).
Proof.
  intros Hw f below g off x nb lo rest Hf _ _.
  cbn [render value]. unfold render_str. cbn [app]. rewrite <- app_assoc. cbn [app].
  destruct g as [p0 d0 s0 u0 q0].
  assert (E1 : run_f sb f (34 :: render_chars cs ++ 34 :: rest) (T c (fresh_level :: below) (mkgb p0 d0 s0 u0 q0) 0 off) (mkloc x nb lo None) =
               run_f sb REDO_FUEL (render_chars cs ++ 34 :: rest) (SS c S_string below JNull None 0 [] S_start d0 s0 u0 (off + 1)) (mkloc 34 nb lo None)).
  { fuel f. destruct c as [md sf al]. unfold SS. cbn [Z.eqb]. destruct sf; stepC; reflexivity. }
  rewrite E1.
  destruct (str_body c S_string cs (or_introl eq_refl) Hw REDO_FUEL 0 [] S_start d0 s0 u0 below JNull None (off + 1) 34 nb lo (34 :: rest))
    as (f2 & x2 & hi2 & pend & svx2 & sp2 & uc2 & Hf2 & Hhi2 & Hp & ->); [unfold REDO_FUEL; lia|left; reflexivity|].
  destruct (str_close c S_string (or_introl eq_refl) f2 hi2 pend svx2 d0 sp2 uc2 below JNull None (off + 1 + zlen (render_chars cs)) x2 nb lo rest Hf2 Hhi2)
    as (g3 & ->).
  exists REDO_FUEL, g3, 34, lo. split; [unfold REDO_FUEL; lia|].
  cbn [close_top]. rewrite <- Hp. cbn [app]. rewrite dec_decode. f_equal. f_equal.
  cbn [zlen]. rewrite zlen_app. cbn [zlen]. lia.
Qed.

End S3.
