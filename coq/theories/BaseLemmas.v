From JC Require Import Base.
Local Open Scope Z_scope.

Lemma zlen_length {A} (l : list A) : zlen l = Z.of_nat (length l).
Proof. induction l as [|x l IH]; cbn [zlen length]; [reflexivity|]. rewrite IH. lia. Qed.

Lemma zlen_nonneg {A} (l : list A) : 0 <= zlen l.
Proof. rewrite zlen_length. lia. Qed.

Lemma zlen_app {A} (a b : list A) : zlen (a ++ b) = zlen a + zlen b.
Proof. rewrite !zlen_length, app_length. lia. Qed.

Lemma zlen_map {A B} (f : A -> B) l : zlen (map f l) = zlen l.
Proof. rewrite !zlen_length, map_length. reflexivity. Qed.

Lemma zlen_zrepeat {A} (x : A) n : zlen (zrepeat x n) = Z.max 0 n.
Proof. unfold zrepeat. rewrite zlen_length, repeat_length. lia. Qed.

Lemma zlen_zfirstn {A} n (l : list A) : zlen (zfirstn n l) = Z.min (Z.max 0 n) (zlen l).
Proof. unfold zfirstn. rewrite !zlen_length, firstn_length. lia. Qed.

Lemma zlen_zskipn {A} n (l : list A) : zlen (zskipn n l) = Z.max 0 (zlen l - Z.max 0 n).
Proof. unfold zskipn. rewrite !zlen_length, skipn_length. lia. Qed.

Lemma zfirstn_all {A} n (l : list A) : zlen l <= n -> zfirstn n l = l.
Proof. intros H. unfold zfirstn. apply firstn_all2. rewrite zlen_length in H. lia. Qed.

Lemma zfirstn_app_l {A} n (a b : list A) : n <= zlen a -> zfirstn n (a ++ b) = zfirstn n a.
Proof.
  intros H. unfold zfirstn. rewrite firstn_app.
  replace (Z.to_nat n - length a)%nat with 0%nat by (rewrite zlen_length in H; lia).
  cbn. apply app_nil_r.
Qed.

Lemma zfirstn_app_r {A} n (a b : list A) : zlen a <= n -> zfirstn n (a ++ b) = a ++ zfirstn (n - zlen a) b.
Proof.
  intros H. unfold zfirstn. rewrite firstn_app. rewrite zlen_length in *.
  rewrite firstn_all2 by lia. f_equal. f_equal. lia.
Qed.

Lemma zskipn_app_r {A} n (a b : list A) : zlen a <= n -> zskipn n (a ++ b) = zskipn (n - zlen a) b.
Proof.
  intros H. unfold zskipn. rewrite skipn_app. rewrite zlen_length in *.
  rewrite skipn_all2 by lia. cbn. f_equal. lia.
Qed.

Lemma zskipn_app_l {A} n (a b : list A) : 0 <= n <= zlen a -> zskipn n (a ++ b) = zskipn n a ++ b.
Proof.
  intros H. unfold zskipn. rewrite skipn_app. rewrite zlen_length in *.
  replace (Z.to_nat n - length a)%nat with 0%nat by lia. reflexivity.
Qed.

Lemma zfirstn_zskipn {A} n (l : list A) : zfirstn n l ++ zskipn n l = l.
Proof. apply firstn_skipn. Qed.

Lemma zfirstn_nonpos {A} n (l : list A) : n <= 0 -> zfirstn n l = [].
Proof. intros H. unfold zfirstn. replace (Z.to_nat n) with 0%nat by lia. reflexivity. Qed.

Lemma zskipn_nonpos {A} n (l : list A) : n <= 0 -> zskipn n l = l.
Proof. intros H. unfold zskipn. replace (Z.to_nat n) with 0%nat by lia. reflexivity. Qed.

Lemma zskipn_all {A} n (l : list A) : zlen l <= n -> zskipn n l = [].
Proof. intros H. unfold zskipn. apply skipn_all2. rewrite zlen_length in H. lia. Qed.

Lemma zfirstn_zfirstn {A} a b (l : list A) : zfirstn a (zfirstn b l) = zfirstn (Z.min a b) l.
Proof.
  unfold zfirstn. rewrite firstn_firstn. f_equal. lia.
Qed.

Lemma zrepeat_nonpos {A} (x : A) n : n <= 0 -> zrepeat x n = [].
Proof. intros H. unfold zrepeat. replace (Z.to_nat n) with 0%nat by lia. reflexivity. Qed.

Lemma map_zrepeat {A B} (f : A -> B) x n : map f (zrepeat x n) = zrepeat (f x) n.
Proof. unfold zrepeat. induction (Z.to_nat n); cbn; congruence. Qed.

Lemma map_zfirstn {A B} (f : A -> B) n l : map f (zfirstn n l) = zfirstn n (map f l).
Proof. unfold zfirstn. symmetry. apply firstn_map. Qed.

Lemma map_zskipn {A B} (f : A -> B) n l : map f (zskipn n l) = zskipn n (map f l).
Proof. unfold zskipn. symmetry. apply skipn_map. Qed.

Lemma znth_app_r {A} (a b : list A) i : zlen a <= i -> znth (a ++ b) i = znth b (i - zlen a).
Proof.
  intros H. pose proof (zlen_nonneg a). unfold znth.
  destruct (i <? 0) eqn:E1; [lia|]. destruct (i - zlen a <? 0) eqn:E2; [lia|].
  rewrite nth_error_app2 by (rewrite zlen_length in H; lia).
  f_equal. rewrite zlen_length. lia.
Qed.

Lemma znth_app_l {A} (a b : list A) i : i < zlen a -> znth (a ++ b) i = znth a i.
Proof.
  intros H. unfold znth. destruct (i <? 0) eqn:E1; [reflexivity|].
  apply nth_error_app1. rewrite zlen_length in H. lia.
Qed.
