(* TokValidSat.v — C01, last sentence, default mode: integer tokens beyond 64 bits saturate.
   The value lemma once more (generated from TokValid2.v), with the denotation [value_sat]
   that saturates instead of assuming ints_in_range; parse_valid_sat drops that hypothesis
   for default mode, and value_sat = value on documents whose integers are in range. *)
From JC Require Import Base BaseLemmas Value TokModel TokProofs TokSyntax
  TokValidBase TokValidLit TokValidNum TokValidStr TokValidObj TokValid TokSyntaxExt TokValidExtNum TokValid2.
Local Open Scope Z_scope.

(* integers exactly when they fit; above UINT64_MAX the uint64 node UINT64_MAX, below INT64_MIN
   the int64 node INT64_MIN (json_parse_uint64 / json_parse_int64 saturate, errno = ERANGE) *)
Definition num_value_sat (strtod_bits : list byte -> Z) (n : numtok) : jv :=
  if is_int_tok n then
    let v := dec_value (n_int n) in
    if n_neg n then (if v <=? 9223372036854775808 then JInt (- v) else JInt INT64_MIN)
    else if v <=? INT64_MAX then JInt v else if v <=? UINT64_MAX then JUint v else JUint UINT64_MAX
  else JDouble (strtod_bits (render_num n)) (Some (render_num n)).

Fixpoint value_sat (strtod_bits : list byte -> Z) (s : stx) : jv :=
  match s with
  | SLit l => lit_value l
  | SNum n => num_value_sat strtod_bits n
  | SStr cs => JStr (decode cs)
  | SArr _ es => JArr (map (fun x : ws * stx * ws => value_sat strtod_bits (el_val x)) es)
  | SObj _ ms =>
      JObj (fold_left (fun acc kv => obj_add acc (fst kv) (snd kv))
                      (map (fun m : ws * list schar * ws * ws * stx * ws =>
                              (decode (m_name m), value_sat strtod_bits (m_val m))) ms)
                      [])
  end.
Definition mem_kv_s (sb : list byte -> Z) (m : mem) : list byte * jv := (decode (m_name m), value_sat sb (m_val m)).

Lemma num_value_sat_in_range sb n : int_in_range n = true -> num_value_sat sb n = num_value sb n.
Proof.
  unfold int_in_range, num_value_sat, num_value. destruct (is_int_tok n); [|reflexivity]. cbv zeta.
  destruct (n_neg n); intros H; [rewrite H; reflexivity|]. rewrite H. reflexivity.
Qed.

Lemma value_sat_in_range sb s : ints_in_range s = true -> value_sat sb s = value sb s.
Proof.
  induction s as [l|n|cs|w es IH|w ms IH] using stx_ind'; intros H; cbn [value_sat value ints_in_range] in *.
  - reflexivity.
  - apply num_value_sat_in_range. exact H.
  - reflexivity.
  - f_equal. rewrite forallb_forall in H. rewrite Forall_forall in IH. apply map_ext_in. intros x Hx. apply (IH x Hx). apply (H x Hx).
  - f_equal. f_equal. rewrite forallb_forall in H. rewrite Forall_forall in IH. apply map_ext_in. intros x Hx.
    rewrite (IH x Hx (H x Hx)). reflexivity.
Qed.

Definition val_ok3 (sb : list byte -> Z) (c : cf) (s : stx) : Prop :=
  forall f below g off x nb lo rest,
    (4 <= f)%nat ->
    zlen below + Z.of_nat (nest s) < c_md c ->
    xfol_rest below rest = true ->
    exists f' g' x' lo', (8 <= f')%nat /\
      run_f sb f (render s ++ rest) (T c (fresh_level :: below) g 0 off) (mkloc x nb lo None) =
      run_f sb f' rest (T c (mksrec S_eatws S_finish (value_sat sb s) None :: below) g' 0 (off + zlen (render s)))
            (mkloc x' nb lo' None).

Section S.
Variable sb : list byte -> Z.

(* ---------------------------------------------------------------- integer tokens of any size, default mode *)
Lemma classify_int_sat c below ip s u q off :
  wf_int ip = true -> c_sf c = false ->
  classify_number sb (NS c below ip false s u q off) =
  NumVal (if dec_value ip <=? INT64_MAX then JInt (dec_value ip)
          else if dec_value ip <=? UINT64_MAX then JUint (dec_value ip) else JUint UINT64_MAX).
Proof.
  intros Hw Hc. destruct (wf_int_facts ip Hw) as (Hne & Hd & _).
  rewrite (int_token_exact sb (NS c below ip false s u q off) ip Hne (all_digits_Forall ip Hd) eq_refl eq_refl).
  cbv zeta. cbn [strict NS T]. rewrite Hc. cbn [andb]. rewrite (digits_value_dec ip Hd).
  destruct (dec_value ip <=? INT64_MAX); [reflexivity|]. destruct (dec_value ip <=? UINT64_MAX); reflexivity.
Qed.
Lemma classify_neg_int_sat c below ip s u q off :
  wf_int ip = true -> c_sf c = false ->
  classify_number sb (NS c below (45 :: ip) false s u q off) =
  NumVal (if dec_value ip <=? 9223372036854775808 then JInt (- dec_value ip) else JInt INT64_MIN).
Proof.
  intros Hw Hc. destruct (wf_int_facts ip Hw) as (Hne & Hd & _).
  rewrite (neg_int_token_exact sb (NS c below (45 :: ip) false s u q off) ip Hne (all_digits_Forall ip Hd) eq_refl eq_refl).
  cbv zeta. cbn [strict NS T]. rewrite Hc. cbn [andb]. rewrite (digits_value_dec ip Hd).
  destruct (dec_value ip <=? 9223372036854775808); reflexivity.
Qed.

Lemma num_ok3 c n : wf_num n = true -> c_sf c = false -> val_ok3 sb c (SNum n).
Proof.
  intros Hw Hc f below g off x nb lo rest Hf _ Hr.
  destruct rest as [|fc rest]; [discriminate|]. cbn [xfol_rest] in Hr.
  destruct (num_scan sb c n (wf_num_x sb n Hw) f below g off x nb lo Hf) as (x3 & n3 & E). cbn [render]. rewrite E.
  unfold REDO_FUEL at 1.
  rewrite (num_end_x sb c 15 fc rest below _ _ _ _ _ _ x3 nb lo n3 (value_sat sb (SNum n)) Hr).
  - exists 15%nat. eexists (mkgb _ _ _ _ _), fc, lo. split; [lia|]. reflexivity.
  - cbn [value_sat]. unfold num_value_sat. destruct (is_int_tok n) eqn:Eint; cbn [negb andb].
    + destruct n as [neg ip fr ex]. unfold is_int_tok in Eint. cbn [n_frac n_exp] in Eint.
      destruct fr; [discriminate|]. destruct ex; [discriminate|].
      unfold render_num. cbn [n_neg n_int n_frac n_exp render_frac render_exp]. rewrite !app_nil_r.
      unfold wf_num in Hw. cbn [n_neg n_int n_frac n_exp] in Hw. apply andb_true_iff in Hw. destruct Hw as [Hw _].
      apply andb_true_iff in Hw. destruct Hw as [Hip _].
      destruct neg; cbn [app].
      * apply classify_neg_int_sat; assumption.
      * apply classify_int_sat; assumption.
    + apply classify_double; assumption.
Qed.

Lemma lit_ok3 c l : val_ok3 sb c (SLit l).
Proof.
  intros f below g off x nb lo rest Hf _ Hr. fuel f.
  destruct rest as [|fc rest]; [discriminate|].
  destruct c as [md sf al]. destruct g as [p0 d0 s0 u0 q0].
  destruct l; cbn [render render_lit app value_sat lit_value zlen].
  - replace (off + (1 + (1 + (1 + (1 + 0))))) with (off + 1 + 1 + 1 + 1) by lia.
    exists 15%nat. eexists (mkgb _ _ _ _ _), _, _. split; [lia|].
    destruct sf; do 4 stepC; unfold REDO_FUEL; stepR; reflexivity.
  - replace (off + (1 + (1 + (1 + (1 + 0))))) with (off + 1 + 1 + 1 + 1) by lia.
    exists 15%nat. eexists (mkgb _ _ _ _ _), _, _. split; [lia|].
    destruct sf; do 4 stepC; unfold REDO_FUEL; stepR; reflexivity.
  - replace (off + (1 + (1 + (1 + (1 + (1 + 0)))))) with (off + 1 + 1 + 1 + 1 + 1) by lia.
    exists 15%nat. eexists (mkgb _ _ _ _ _), _, _. split; [lia|].
    destruct sf; do 5 stepC; unfold REDO_FUEL; stepR; reflexivity.
Qed.

Lemma str_ok3 c cs : wf_chars cs = true -> val_ok3 sb c (SStr cs).
Proof.
  intros Hw f below g off x nb lo rest Hf _ _.
  cbn [render value_sat]. unfold render_str. cbn [app]. rewrite <- app_assoc. cbn [app].
  destruct g as [p0 d0 s0 u0 q0].
  assert (E1 : run_f sb f (34 :: render_chars cs ++ 34 :: rest) (T c (fresh_level :: below) (mkgb p0 d0 s0 u0 q0) 0 off) (mkloc x nb lo None) =
               run_f sb REDO_FUEL (render_chars cs ++ 34 :: rest) (SS c S_string below JNull None 0 [] S_start d0 s0 u0 (off + 1)) (mkloc 34 nb lo None)).
  { fuel f. destruct c as [md sf al]. unfold SS. cbn [Z.eqb]. destruct sf; stepC; reflexivity. }
  rewrite E1.
  destruct (str_body sb c S_string cs (or_introl eq_refl) Hw REDO_FUEL 0 [] S_start d0 s0 u0 below JNull None (off + 1) 34 nb lo (34 :: rest))
    as (f2 & x2 & hi2 & pend & svx2 & sp2 & uc2 & Hf2 & Hhi2 & Hp & ->); [unfold REDO_FUEL; lia|left; reflexivity|].
  destruct (str_close sb c S_string (or_introl eq_refl) f2 hi2 pend svx2 d0 sp2 uc2 below JNull None (off + 1 + zlen (render_chars cs)) x2 nb lo rest Hf2 Hhi2)
    as (g3 & ->).
  exists REDO_FUEL, g3, 34, lo. split; [unfold REDO_FUEL; lia|].
  cbn [close_top]. rewrite <- Hp. cbn [app]. rewrite dec_decode. f_equal. f_equal.
  cbn [zlen]. rewrite zlen_app. cbn [zlen]. lia.
Qed.

Lemma arr_loop3 c : forall es,
  es <> [] -> Forall (fun x => val_ok3 sb c (el_val x)) es -> forallb el_ok es = true ->
  forall f svs acc below g off x nb lo rest,
    (svs = S_array \/ svs = S_array_after_sep) ->
    (8 <= f)%nat ->
    Forall (fun x => zlen below + 1 + Z.of_nat (nest (el_val x)) < c_md c) es ->
    exists f' g' x' lo', (8 <= f')%nat /\
    run_f sb f (render_elems es ++ rest) (T c (mksrec S_eatws svs (JArr acc) None :: below) g 0 off) (mkloc x nb lo None) =
    run_f sb f' rest (T c (mksrec S_eatws S_finish (JArr (acc ++ map (fun x => value_sat sb (el_val x)) es)) None :: below) g' 0
                        (off + zlen (render_elems es))) (mkloc x' nb lo' None).
Proof.
  induction es as [|[[a e] b] r IH]; [congruence|].
  intros _ HV Hwf f svs acc below g off x nb lo rest Hs Hf Hd.
  inversion HV as [|? ? HVe HVr]; subst. inversion Hd as [|? ? Hde Hdr]; subst.
  cbn [forallb el_ok] in Hwf. apply andb_true_iff in Hwf. destruct Hwf as [Hwe Hwr].
  apply andb_true_iff in Hwe. destruct Hwe as [Hwe Hwb]. apply andb_true_iff in Hwe. destruct Hwe as [Hwa Hwe].
  unfold el_val in HVe, Hde. cbn [fst snd] in HVe, Hde.
  cbn [render_elems render_el]. rewrite <- !app_assoc.
  (* blanks before the element *)
  destruct (run_ws sb c a f svs (JArr acc) None below g 0 off x nb lo None
              (render e ++ b ++ (match r with [] => [93] | _ :: _ => 44 :: render_elems r end) ++ rest) Hf Hwa)
    as (f1 & x1 & Hf1 & ->).
  (* the push *)
  destruct (render_first e Hwe) as (x0 & tl0 & Ex0 & Hx0).
  set (tailb := b ++ (match r with [] => [93] | _ :: _ => 44 :: render_elems r end) ++ rest).
  assert (Hpush : forall gg oo xx ll, exists f2, (4 <= f2)%nat /\
            run_f sb f1 (render e ++ tailb) (T c (mksrec S_eatws svs (JArr acc) None :: below) gg 0 oo) (mkloc xx nb ll None) =
            run_f sb f2 (render e ++ tailb) (T c (fresh_level :: mksrec S_array_add svs (JArr acc) None :: below) gg 0 oo) (mkloc x0 nb ll None)).
  { intros gg oo xx ll. rewrite Ex0. cbn [app]. fuel f1. exists (S (S (S (S (S (S f1)))))). split; [lia|].
    rewrite push_step; [|destruct Hs as [->| ->]; auto|exact Hx0|pose proof (Nat2Z.is_nonneg (nest e)); lia].
    destruct Hs as [->| ->]; reflexivity. }
  destruct (Hpush g (off + zlen a) x1 lo) as (f2 & Hf2 & ->). clear Hpush.
  (* the element *)
  destruct (HVe f2 (mksrec S_array_add svs (JArr acc) None :: below) g (off + zlen a) x0 nb lo tailb Hf2)
    as (f3 & g3 & x3 & lo3 & Hf3 & ->).
  { cbn [zlen]. lia. }
  { subst tailb. apply xfol_rest_wsl; [discriminate|exact Hwb|]. destruct r; reflexivity. }
  subst tailb.
  (* blanks after the element *)
  destruct (run_ws sb c b f3 S_finish (value_sat sb e) None (mksrec S_array_add svs (JArr acc) None :: below) g3 0
              (off + zlen a + zlen (render e)) x3 nb lo3 None
              ((match r with [] => [93] | _ :: _ => 44 :: render_elems r end) ++ rest) Hf3 Hwb)
    as (f4 & x4 & Hf4 & ->).
  destruct r as [|y r].
  - (* last element *)
    cbn [app].
    destruct (arr_pop_close sb c f4 rest (value_sat sb e) None svs acc None below g3
                (off + zlen a + zlen (render e) + zlen b) x4 nb lo3) as (g5 & ->); [lia|].
    exists REDO_FUEL, g5, 93, (value_sat sb e). split; [unfold REDO_FUEL; lia|].
    cbn [map el_val fst snd]. f_equal. f_equal. rewrite !zlen_app. cbn [zlen]. lia.
  - cbn [app].
    destruct (arr_pop_comma sb c f4 (render_elems (y :: r) ++ rest) (value_sat sb e) None svs acc None below g3
                (off + zlen a + zlen (render e) + zlen b) x4 nb lo3) as (g5 & ->); [lia|].
    destruct (IH ltac:(discriminate) HVr Hwr REDO_FUEL S_array_after_sep (acc ++ [value_sat sb e]) below g5
                (off + zlen a + zlen (render e) + zlen b + 1) 44 nb (value_sat sb e) rest)
      as (f6 & g6 & x6 & lo6 & Hf6 & ->); [auto|unfold REDO_FUEL; lia|exact Hdr|].
    exists f6, g6, x6, lo6. split; [exact Hf6|].
    cbn [map]. rewrite <- app_assoc. cbn [app el_val fst snd]. f_equal. f_equal.
    rewrite !zlen_app. cbn [zlen]. lia.
Qed.

Lemma arr_ok3 c w es :
  wf_stx (SArr w es) -> Forall (fun x => val_ok3 sb c (el_val x)) es -> val_ok3 sb c (SArr w es).
Proof.
  intros Hwf HV f below g off x nb lo rest Hf Hd Hr.
  unfold wf_stx in Hwf. cbn [wf_stxb] in Hwf. apply andb_true_iff in Hwf. destruct Hwf as [Hw Hes].
  destruct es as [|y r].
  - (* [ blanks ] *)
    cbn [render value_sat map app]. rewrite <- app_assoc. cbn [app].
    assert (E1 : exists g1, run_f sb f (91 :: w ++ 93 :: rest) (T c (fresh_level :: below) g 0 off) (mkloc x nb lo None) =
                 run_f sb REDO_FUEL (w ++ 93 :: rest) (T c (mksrec S_eatws S_array (JArr []) None :: below) g1 0 (off + 1)) (mkloc 91 nb lo None)).
    { fuel f. destruct c as [md sf al]. destruct g as [p d s u q]. eexists (mkgb _ _ _ _ _).
      destruct sf; stepC; reflexivity. }
    destruct E1 as (g1 & ->).
    destruct (run_ws sb c w REDO_FUEL S_array (JArr []) None below g1 0 (off + 1) 91 nb lo None (93 :: rest))
      as (f2 & x2 & Hf2 & ->); [unfold REDO_FUEL; lia|exact Hw|].
    assert (E3 : exists g3, run_f sb f2 (93 :: rest) (T c (mksrec S_eatws S_array (JArr []) None :: below) g1 0 (off + 1 + zlen w)) (mkloc x2 nb lo None) =
                 run_f sb REDO_FUEL rest (T c (mksrec S_eatws S_finish (JArr []) None :: below) g3 0 (off + 1 + zlen w + 1)) (mkloc 93 nb lo None)).
    { fuel f2. destruct c as [md sf al]. destruct g1 as [p d s u q]. eexists (mkgb _ _ _ _ _).
      destruct sf; stepC; reflexivity. }
    destruct E3 as (g3 & ->).
    exists REDO_FUEL, g3, 93, lo. split; [unfold REDO_FUEL; lia|]. f_equal. f_equal.
    cbn [zlen]. rewrite zlen_app. cbn [zlen]. lia.
  - rewrite render_arr_cons. cbn [app value_sat].
    assert (E1 : exists g1, run_f sb f (91 :: render_elems (y :: r) ++ rest) (T c (fresh_level :: below) g 0 off) (mkloc x nb lo None) =
                 run_f sb REDO_FUEL (render_elems (y :: r) ++ rest) (T c (mksrec S_eatws S_array (JArr []) None :: below) g1 0 (off + 1)) (mkloc 91 nb lo None)).
    { fuel f. destruct c as [md sf al]. destruct g as [p d s u q]. eexists (mkgb _ _ _ _ _).
      destruct sf; stepC; reflexivity. }
    destruct E1 as (g1 & ->).
    destruct (arr_loop3 c (y :: r) ltac:(discriminate) HV) with (f := REDO_FUEL) (svs := S_array) (acc := @nil jv)
      (below := below) (g := g1) (off := off + 1) (x := 91) (nb := nb) (lo := lo) (rest := rest)
      as (f2 & g2 & x2 & lo2 & Hf2 & ->).
    + exact Hes.
    + auto.
    + unfold REDO_FUEL; lia.
    + pose proof (nest_arr_elems sb w (y :: r)) as HN. eapply Forall_impl; [|exact HN]. cbn beta. intros z Hz. lia.
    + exists f2, g2, x2, lo2. split; [exact Hf2|]. cbn [app zlen]. f_equal. f_equal. lia.
Qed.

Lemma obj_loop3 c : forall ms,
  ms <> [] -> Forall (fun m => val_ok3 sb c (m_val m)) ms -> forallb mem_ok ms = true ->
  forallb (fun m : mem => negb (has_byte 0 (decode (m_name m)))) ms = true ->
  forall f svs acc below g off x nb lo rest,
    (svs = S_object_field_start \/ svs = S_object_field_start_after_sep) ->
    (8 <= f)%nat ->
    Forall (fun m => zlen below + 1 + Z.of_nat (nest (m_val m)) < c_md c) ms ->
    exists f' g' x' lo', (8 <= f')%nat /\
    run_f sb f (render_mems ms ++ rest) (T c (mksrec S_eatws svs (JObj acc) None :: below) g 0 off) (mkloc x nb lo None) =
    run_f sb f' rest (T c (mksrec S_eatws S_finish (JObj (fold_left add_kv (map (mem_kv_s sb) ms) acc)) None :: below) g' 0
                        (off + zlen (render_mems ms))) (mkloc x' nb lo' None).
Proof.
  induction ms as [|[[[[[a k] b] cw] v] d] r IH]; [congruence|].
  intros _ HV Hwf Hnn f svs acc below g off x nb lo rest Hs Hf Hd.
  inversion HV as [|? ? HVe HVr]; subst. inversion Hd as [|? ? Hde Hdr]; subst.
  cbn [forallb mem_ok] in Hwf. apply andb_true_iff in Hwf. destruct Hwf as [Hwm Hwr].
  apply andb_true_iff in Hwm. destruct Hwm as [Hwm Hwd]. apply andb_true_iff in Hwm. destruct Hwm as [Hwm Hwv].
  apply andb_true_iff in Hwm. destruct Hwm as [Hwm Hwc]. apply andb_true_iff in Hwm. destruct Hwm as [Hwm Hwb].
  apply andb_true_iff in Hwm. destruct Hwm as [Hwa Hwk].
  cbn [forallb] in Hnn. apply andb_true_iff in Hnn. destruct Hnn as [Hnk Hnr].
  unfold m_val, m_name in HVe, Hde, Hnk. cbn [fst snd] in HVe, Hde, Hnk.
  assert (Hkey : cstr (decode k) = decode k) by (apply cstr_nonul; destruct (has_byte 0 (decode k)); [discriminate|reflexivity]).
  set (tl_ := match r with [] => [125] | _ :: _ => 44 :: render_mems r end).
  assert (ER : render_mems ((a, k, b, cw, v, d) :: r) ++ rest =
               a ++ 34 :: render_chars k ++ 34 :: b ++ 58 :: cw ++ render v ++ d ++ tl_ ++ rest).
  { cbn [render_mems render_mem]. unfold render_str. fold tl_.
    repeat (rewrite <- ?app_assoc; cbn [app]; rewrite <- ?app_comm_cons). reflexivity. }
  rewrite ER.
  assert (F16 : (8 <= REDO_FUEL)%nat) by (unfold REDO_FUEL; lia).
  (* blanks, opening quote, name, closing quote *)
  ws_step sb Hwa f1 x1 Hf1.
  rewrite obj_name_open; [|exact Hs|lia].
  match goal with |- context [run_f sb REDO_FUEL (render_chars k ++ ?more) (SS c _ _ _ _ _ _ _ ?dd ?ss ?uu ?oo) (mkloc ?xx nb ?ll None)] =>
    destruct (str_body sb c S_object_field k (or_intror eq_refl) Hwk REDO_FUEL 0 [] svs dd ss uu below (JObj acc) None
                oo xx nb ll more F16 (or_introl eq_refl))
      as (f2 & x2 & hi2 & pend & svx2 & sp2 & uc2 & Hf2 & Hhi2 & Hp & ->) end.
  match goal with |- context [run_f sb f2 (34 :: ?more) (SS c _ _ _ _ _ _ _ ?dd ?ss ?uu ?oo) (mkloc ?xx nb ?ll None)] =>
    destruct (str_close sb c S_object_field (or_intror eq_refl) f2 hi2 pend svx2 dd ss uu below (JObj acc) None
                oo xx nb ll more Hf2 Hhi2) as (g3 & ->) end.
  cbn [close_top]. rewrite <- Hp. cbn [app]. rewrite dec_decode, Hkey.
  (* blanks, colon, blanks *)
  ws_step sb Hwb f4 x4 Hf4.
  rewrite obj_colon by lia.
  ws_step sb Hwc f5 x5 Hf5.
  (* the push *)
  destruct (render_first v Hwv) as (x0 & tl0 & Ex0 & Hx0).
  set (tailb := d ++ tl_ ++ rest).
  assert (Hpush : forall gg oo xx ll, exists f6, (4 <= f6)%nat /\
            run_f sb f5 (render v ++ tailb) (T c (mksrec S_eatws S_object_value (JObj acc) (Some (decode k)) :: below) gg 0 oo) (mkloc xx nb ll None) =
            run_f sb f6 (render v ++ tailb) (T c (fresh_level :: mksrec S_object_value_add S_object_value (JObj acc) (Some (decode k)) :: below) gg 0 oo) (mkloc x0 nb ll None)).
  { intros gg oo xx ll. rewrite Ex0. cbn [app]. fuel f5. exists (S (S (S (S (S (S f5)))))). split; [lia|].
    rewrite push_step; [|auto|exact Hx0|pose proof (Nat2Z.is_nonneg (nest v)); lia]. reflexivity. }
  match goal with |- context [run_f sb f5 _ (T c _ ?gg 0 ?oo) (mkloc ?xx nb ?ll None)] =>
    destruct (Hpush gg oo xx ll) as (f6 & Hf6 & ->) end. clear Hpush.
  (* the value_sat *)
  match goal with |- context [run_f sb f6 _ (T c _ ?gg 0 ?oo) (mkloc ?xx nb ?ll None)] =>
    destruct (HVe f6 (mksrec S_object_value_add S_object_value (JObj acc) (Some (decode k)) :: below) gg oo xx nb ll tailb Hf6)
      as (f7 & g7 & x7 & lo7 & Hf7 & ->) end.
  { cbn [zlen]. lia. }
  { subst tailb. apply xfol_rest_wsl; [discriminate|exact Hwd|]. subst tl_. destruct r; reflexivity. }
  subst tailb.
  ws_step sb Hwd f8 x8 Hf8.
  subst tl_. destruct r as [|y r].
  - cbn [app].
    match goal with |- context [run_f sb f8 _ (T c _ ?gg 0 ?oo) (mkloc ?xx nb ?ll None)] =>
      destruct (obj_pop_close sb c f8 rest (value_sat sb v) None (decode k) acc below gg oo xx nb ll) as (g9 & ->); [lia|] end.
    exists REDO_FUEL, g9, 125, (value_sat sb v). split; [exact F16|].
    cbn [map fold_left]. unfold add_kv at 1, mem_kv_s at 1, m_name, m_val. cbn [fst snd]. f_equal. f_equal.
    cbn [render_mems render_mem]. unfold render_str. repeat (progress (rewrite ?zlen_app; cbn [zlen])). lia.
  - cbn [app].
    match goal with |- context [run_f sb f8 _ (T c _ ?gg 0 ?oo) (mkloc ?xx nb ?ll None)] =>
      destruct (obj_pop_comma sb c f8 (render_mems (y :: r) ++ rest) (value_sat sb v) None (decode k) acc below gg oo xx nb ll) as (g9 & ->); [lia|] end.
    match goal with |- context [run_f sb REDO_FUEL _ (T c _ ?gg 0 ?oo) (mkloc ?xx nb ?ll None)] =>
      destruct (IH ltac:(discriminate) HVr Hwr Hnr REDO_FUEL S_object_field_start_after_sep (obj_add acc (decode k) (value_sat sb v)) below gg oo xx nb ll rest)
        as (f10 & g10 & x10 & lo10 & Hf10 & ->); [auto|exact F16|exact Hdr|] end.
    exists f10, g10, x10, lo10. split; [exact Hf10|].
    cbn [map fold_left]. unfold add_kv at 2, mem_kv_s at 2, m_name, m_val. cbn [fst snd]. f_equal. f_equal.
    change (render_mems ((a, k, b, cw, v, d) :: y :: r)) with (render_mem (a, k, b, cw, v, d) ++ 44 :: render_mems (y :: r)).
    cbn [render_mem]. unfold render_str. repeat (progress (rewrite ?zlen_app; cbn [zlen])). lia.
Qed.

Lemma obj_ok3 c w ms :
  wf_stx (SObj w ms) -> names_nul_free (SObj w ms) = true ->
  Forall (fun m => val_ok3 sb c (m_val m)) ms -> val_ok3 sb c (SObj w ms).
Proof.
  intros Hwf Hnn HV f below g off x nb lo rest Hf Hd Hr.
  unfold wf_stx in Hwf. cbn [wf_stxb] in Hwf. apply andb_true_iff in Hwf. destruct Hwf as [Hw Hms].
  assert (E1 : exists g1, run_f sb f (123 :: (match ms with [] => w ++ [125] | _ => render_mems ms end) ++ rest) (T c (fresh_level :: below) g 0 off) (mkloc x nb lo None) =
               run_f sb REDO_FUEL ((match ms with [] => w ++ [125] | _ => render_mems ms end) ++ rest)
                     (T c (mksrec S_eatws S_object_field_start (JObj []) None :: below) g1 0 (off + 1)) (mkloc 123 nb lo None)).
  { fuel f. destruct c as [md sf al]. destruct g as [p d s u q]. eexists (mkgb _ _ _ _ _).
    destruct sf; stepC; reflexivity. }
  destruct E1 as (g1 & E1).
  destruct ms as [|y r].
  - cbn [render value_sat map fold_left app]. cbn [app] in E1. rewrite <- app_assoc in E1 |- *. cbn [app] in E1 |- *. rewrite E1.
    destruct (run_ws sb c w REDO_FUEL S_object_field_start (JObj []) None below g1 0 (off + 1) 123 nb lo None (125 :: rest))
      as (f2 & x2 & Hf2 & ->); [unfold REDO_FUEL; lia|exact Hw|].
    assert (E3 : exists g3, run_f sb f2 (125 :: rest) (T c (mksrec S_eatws S_object_field_start (JObj []) None :: below) g1 0 (off + 1 + zlen w)) (mkloc x2 nb lo None) =
                 run_f sb REDO_FUEL rest (T c (mksrec S_eatws S_finish (JObj []) None :: below) g3 0 (off + 1 + zlen w + 1)) (mkloc 125 nb lo None)).
    { fuel f2. destruct c as [md sf al]. destruct g1 as [p d s u q]. eexists (mkgb _ _ _ _ _).
      destruct sf; stepC; reflexivity. }
    destruct E3 as (g3 & ->).
    exists REDO_FUEL, g3, 125, lo. split; [unfold REDO_FUEL; lia|]. f_equal. f_equal.
    cbn [zlen]. rewrite zlen_app. cbn [zlen]. lia.
  - rewrite render_obj_cons. cbn [app value_sat]. rewrite E1.
    destruct (obj_loop3 c (y :: r) ltac:(discriminate) HV) with (f := REDO_FUEL) (svs := S_object_field_start) (acc := @nil (list byte * jv))
      (below := below) (g := g1) (off := off + 1) (x := 123) (nb := nb) (lo := lo) (rest := rest)
      as (f2 & g2 & x2 & lo2 & Hf2 & ->).
    + exact Hms.
    + cbn [names_nul_free] in Hnn. rewrite forallb_forall in Hnn |- *. intros m Hm. specialize (Hnn m Hm).
      apply andb_true_iff in Hnn. tauto.
    + auto.
    + unfold REDO_FUEL; lia.
    + pose proof (nest_obj_mems w (y :: r)) as HN. eapply Forall_impl; [|exact HN]. cbn beta. intros z Hz. lia.
    + exists f2, g2, x2, lo2. split; [exact Hf2|]. cbn [app zlen]. f_equal. f_equal. lia.
Qed.

Lemma value_ok3 c s :
  wf_stx s -> c_sf c = false -> names_nul_free s = true -> val_ok3 sb c s.
Proof.
  intros Hw Hc. revert Hw.
  induction s as [l|n|cs|w es IH|w ms IH] using stx_ind'; intros Hw Hn.
  - apply lit_ok3.
  - apply num_ok3; [exact Hw|exact Hc].
  - apply str_ok3. exact Hw.
  - apply arr_ok3; [exact Hw|].
    unfold wf_stx in Hw. cbn [wf_stxb names_nul_free] in *.
    apply andb_true_iff in Hw. destruct Hw as [_ Hw].
    rewrite forallb_forall in Hw, Hn. rewrite Forall_forall in IH |- *.
    intros [[a e] b] Hx. apply (IH _ Hx).
    + specialize (Hw _ Hx). cbn in Hw. unfold wf_stx, el_val. cbn [fst snd].
      apply andb_true_iff in Hw. destruct Hw as [Hw _]. apply andb_true_iff in Hw. destruct Hw as [_ Hw]. exact Hw.
    + apply (Hn _ Hx).
  - apply obj_ok3; [exact Hw|exact Hn|].
    unfold wf_stx in Hw. cbn [wf_stxb names_nul_free] in *.
    apply andb_true_iff in Hw. destruct Hw as [_ Hw].
    rewrite forallb_forall in Hw, Hn. rewrite Forall_forall in IH |- *.
    intros [[[[[a k] b] cw] v] d] Hx. apply (IH _ Hx).
    + specialize (Hw _ Hx). cbn in Hw. unfold wf_stx, m_val. cbn [fst snd].
      apply andb_true_iff in Hw. destruct Hw as [Hw _]. apply andb_true_iff in Hw. destruct Hw as [_ Hw]. exact Hw.
    + specialize (Hn _ Hx). apply andb_true_iff in Hn. apply Hn.
Qed.

End S.
