(* Properties_C14.v — statements only.  C14: parse/serialize are locale-independent and leave
   the caller's locale untouched.  The theorems about exits are about `LocaleExits.exits`,
   which tr/locale_exits.py regenerates from the preprocessed json_tokener.c on every run. *)
From JC Require Import Base LocaleModel LocaleExits LocaleProofs.
Local Open Scope Z_scope.

(* ---- serializer: the ','->'.' fix-up makes the number text independent of the separator *)

(* for every well-formed %.17g shape and sep in {',', '.'}: the fixed-up buffer is the C-locale text *)
Theorem C14_fixup_render : forall g sep, g17_wf g = true -> (sep = CH_COMMA \/ sep = CH_DOT) ->
  fst (comma_fix (render_with sep g)) = render_with CH_DOT g.
Proof. exact fixup_render. Qed.
Print Assumptions C14_fixup_render.

(* hence the whole number text (".0" suffix, NOZERO trimming, NaN/Infinity) is the same under the
   comma locale and the C locale — for every oracle `snprintf17` that differs between locales
   only in the separator byte (hypothesis on libc, stated in the theorem) *)
Theorem C14_ser_locale_indep : forall (shape : Z -> g17) (snprintf17 : numloc -> Z -> list byte),
  (forall b, g17_wf (shape b) = true) ->
  (forall l b, snprintf17 l b = render_with (sep_of l) (shape b)) ->
  forall l c nz b, ser_double c nz (snprintf17 l b) = ser_double c nz (snprintf17 NumC b).
Proof. exact ser_locale_indep. Qed.
Print Assumptions C14_ser_locale_indep.

Theorem C14_ser_nonvacuous :
  render_with CH_COMMA g_1_5 = [49; 44; 53] /\
  double_text false (render_with CH_COMMA g_1_5) = [49; 46; 53] /\
  double_text false (render_with CH_COMMA g_3) = [51; 46; 48] /\
  double_text false (render_with CH_COMMA g_1e20) = [49; 101; 43; 50; 48] /\
  double_text true (render_with CH_COMMA g_m0_2500) = [45; 48; 46; 50; 53] /\
  g17_wf g_1_5 && g17_wf g_3 && g17_wf g_1e20 && g17_wf g_m0_2500 = true.
Proof. exact ser_examples. Qed.
Print Assumptions C14_ser_nonvacuous.

(* the same for ANY double format in effect (json_c_set_serialization_double_format global / per
   thread, or a per-object format): whatever snprintf wrote, if the locale shows in it only as the
   one separator byte between a ','/'.'-free prefix and a ','-free suffix (or not at all), the text
   after the fix-up, the ".0" rule (format_drops_decimals) and NOZERO is that of the C locale *)
Theorem C14_ser_fmt_locale_indep : forall (txt : numloc -> list byte) fmt c nz,
  one_conversion txt ->
  forall l, ser_double_fmt fmt c nz (txt l) = ser_double_fmt fmt c nz (txt NumC).
Proof. exact ser_fmt_locale_indep. Qed.
Print Assumptions C14_ser_fmt_locale_indep.

Theorem C14_ser_fmt_nonvacuous :
  one_conversion (txt_of [49] [53; 48; 48]) /\
  ser_double_fmt (Some [37; 46; 51; 102]) DFin false (txt_of [49] [53; 48; 48] NumComma) = [49; 46; 53; 48; 48] /\
  ser_double_fmt (Some [37; 46; 51; 102]) DFin true (txt_of [49] [53; 48; 48] NumComma) = [49; 46; 53] /\
  ser_double_fmt (Some [37; 49; 48; 46; 50; 102]) DFin false (txt_of [32; 32; 32; 49] [53; 48] NumComma) = [32; 32; 32; 49; 46; 53; 48] /\
  ser_double_fmt (Some [37; 46; 48; 102]) DFin false [50] = [50] /\
  ser_double_fmt (Some [37; 103]) DFin false [50] = [50; 46; 48] /\
  format_drops_decimals (Some [37; 46; 48; 102]) = false /\ format_drops_decimals (Some [37; 46; 51; 102]) = true /\
  format_drops_decimals None = true.
Proof. exact ser_fmt_examples. Qed.
Print Assumptions C14_ser_fmt_nonvacuous.

(* limit of the statement above, with its witness: a format with a literal comma before the number *)
Theorem C14_ser_fmt_literal_comma_dependent :
  let txt := fun l => [120; 44; 49] ++ sep_of l :: [53; 48] in
  ser_double_fmt (Some [120; 44; 37; 46; 50; 102]) DFin false (txt NumC) = [120; 46; 49; 46; 53; 48] /\
  ser_double_fmt (Some [120; 44; 37; 46; 50; 102]) DFin false (txt NumComma) = [120; 46; 49; 44; 53; 48].
Proof. exact ser_fmt_literal_comma_dependent. Qed.
Print Assumptions C14_ser_fmt_literal_comma_dependent.

(* ---- per thread, concurrently.  ser_spec is a function of the job's data alone: it has no
   locale, no thread and no shared-state argument.  In the concurrent system — every thread under
   its own numeric locale `tl t`, any interleaving `sch` of serializer calls with localeconv()
   calls of arbitrary threads overwriting the one shared struct lconv, any initial content of that
   struct — the outputs are exactly the specification applied to the jobs in order: threads cannot
   influence each other's texts (the serializer as written never reads the shared cell). *)
Theorem C14_ser_concurrent_indep : forall (tl : nat -> numloc) (cell0 : byte) (sch : list sched_ev),
  jobs_one_conversion sch ->
  conc_run tl cell0 sch = map ser_spec (jobs_of sch).
Proof. exact ser_concurrent_indep. Qed.
Print Assumptions C14_ser_concurrent_indep.

Theorem C14_ser_concurrent_nonvacuous :
  let tl := fun t => match t with O => NumComma | _ => NumC end in
  conc_run tl 0 [SClobber 0; SJob (job_1_5 0); SClobber 1; SJob (job_1_5 0); SJob (job_1_5 1); SClobber 0; SJob (job_1_5 1)]
  = [[49; 46; 53]; [49; 46; 53]; [49; 46; 53]; [49; 46; 53]].
Proof. exact ser_concurrent_example. Qed.
Print Assumptions C14_ser_concurrent_nonvacuous.

(* contrast with witness: a fix-up that reads the separator from the shared struct lconv is right
   single-threaded and wrong once another thread's localeconv() got in between *)
Theorem C14_cell_variant_interference :
  double_text_cell CH_COMMA true false [49; 44; 53] = [49; 46; 53] /\
  double_text_cell CH_DOT true false [49; 46; 53] = [49; 46; 53] /\
  double_text_cell CH_DOT true false [49; 44; 53] = [49; 44; 53; 46; 48] /\
  double_text_cell CH_COMMA true false [51; 46; 49; 52] = [51; 46; 49; 52] /\
  double_text_cell CH_DOT true false [51; 44; 49; 52] = [51; 44; 49; 52; 46; 48].
Proof. exact cell_variant_interference. Qed.
Print Assumptions C14_cell_variant_interference.

(* ---- parser: the locale protocol over the regenerated exits *)

(* the translator recognised the shape of json_tokener_parse_ex *)
Theorem C14_shape_recognised : shape_recognised = true.
Proof. exact shape_ok. Qed.
Print Assumptions C14_shape_recognised.

(* the rest of the library (serializer included, failing paths included) never calls a
   locale-changing function: regenerated source check over all library files; its locale protocol
   is therefore the empty path, which leaves the caller's locale alone *)
Theorem C14_no_stray_locale_calls : stray_locale_calls = 0%nat.
Proof. exact no_stray_locale_calls. Qed.
Print Assumptions C14_no_stray_locale_calls.

Theorem C14_empty_path_leaves_locale : forall en,
  cur (run en []) = HEntry /\ cur_forced_c (run en []) = false /\ live (run en []) = [] /\ bad (run en []) = false.
Proof. exact empty_path_leaves_locale. Qed.
Print Assumptions C14_empty_path_leaves_locale.

(* every exit behind the switch passes the restore statement and releases what was created *)
Theorem C14_locale_restored_all_exits :
  Forall (fun e => after_switch e = true -> restores e = true /\ frees_created e = true) exits.
Proof. exact locale_restored_all_exits. Qed.
Print Assumptions C14_locale_restored_all_exits.

(* every exit (also those before the switch) releases every locale object created on its path *)
Theorem C14_created_freed_all_exits : Forall (fun e => frees_created e = true) exits.
Proof. exact created_freed_all_exits. Qed.
Print Assumptions C14_created_freed_all_exits.

(* the translator's booleans are those the protocol model computes from the paths *)
Theorem C14_exits_consistent : forallb exit_consistent exits = true.
Proof. exact exits_consistent. Qed.
Print Assumptions C14_exits_consistent.

(* protocol theorem: for every exit, every entry locale, every open outcome of the creating
   calls: the thread's locale at the exit is the entry locale, no created object is alive,
   nothing undefined (free of a dead/NULL/in-use locale, switch to a dead locale) happened *)
Theorem C14_protocol_all_exits : forall e en q, In e exits -> In q (expand (path e)) ->
  cur (run en q) = HEntry /\ cur_forced_c (run en q) = false /\ live (run en q) = [] /\ bad (run en q) = false.
Proof. exact protocol_all_exits. Qed.
Print Assumptions C14_protocol_all_exits.

(* the body (strtod) runs under the "C" numeric locale for every entry locale *)
Theorem C14_parse_locale_indep : forall e en q, In e exits -> In q (expand (path e)) ->
  Forall (fun n => n = NumC) (body_log (run en q)).
Proof. exact parse_locale_indep. Qed.
Print Assumptions C14_parse_locale_indep.

Theorem C14_entry_sequence_numeric_C : forall en,
  let s := run en [EvQuery; EvDup OSucc; EvNew OSucc; EvSwitch] in
  cur_num en s = Some NumC /\ bad s = false /\ length (live s) = 1%nat.
Proof. exact entry_sequence_numeric_C. Qed.
Print Assumptions C14_entry_sequence_numeric_C.

(* ---- non-vacuity: the list is not empty, has exits of both kinds, reaches the body and the
   failure paths of the creating calls; and the criterion rejects the four ways to get it wrong *)
Theorem C14_exits_nonempty : exits <> [].
Proof. exact exits_nonempty. Qed.
Print Assumptions C14_exits_nonempty.

Theorem C14_exits_both_kinds :
  (exists e, In e exits /\ after_switch e = true /\ restores e = true) /\
  (exists e, In e exits /\ after_switch e = false).
Proof. exact exits_both_kinds. Qed.
Print Assumptions C14_exits_both_kinds.

Theorem C14_exits_reach_body_and_failures :
  (exists e, In e exits /\ existsb is_body (path e) = true) /\
  (exists e, In e exits /\ existsb (fun x => match x with EvNew OFail | EvDup OFail => true | _ => false end) (path e) = true).
Proof. exact exits_reach_body_and_failures. Qed.
Print Assumptions C14_exits_reach_body_and_failures.

Theorem C14_bad_exits_rejected :
  exit_ok x_skip = false /\ exit_ok x_leak = false /\ exit_ok x_noswitch = false /\ exit_ok x_nofree = false /\
  exit_ok x_freeinuse = false /\
  cur (run NumComma (path x_skip)) = HObj 1 /\ live (run NumComma (path x_leak)) = [(0%nat, NumComma)] /\
  body_log (run NumComma (path x_noswitch)) = [NumComma].
Proof. exact bad_exits_rejected. Qed.
Print Assumptions C14_bad_exits_rejected.
