(* TokChunk2.v — split independence of the tokener model (C03): a call on A that asks for
   more input, followed by a call on B, is observationally a single call on A ++ B. *)
From JC Require Import Base BaseLemmas Value TokModel TokFrame TokStack TokTotal TokReset TokOff TokSim TokChunk TokSim2.
Local Open Scope Z_scope.

Definition lsim0 (t : tok) (l1 l2 : locals) : Prop :=
  nbytes l1 = nbytes l2 /\
  (if tstate_eqb (st t) S_number then nl_eq (eff t l1) (eff t l2) else lnum l1 = None /\ lnum l2 = None) /\
  (add_like (st t) = true -> lobj l1 = lobj l2).
Definition oute (l1 l2 : locals) : Prop := (lc l1 =? 0) = (lc l2 =? 0) /\ nbytes l1 = nbytes l2.

Definition loop_map (f : tok -> tok) (r : loopres) : loopres :=
  match r with LOut t l => LOut (f t) l | LFuel => LFuel end.
Definition pres_map (f : tok -> tok) (r : presult) : presult :=
  match r with PR t v => PR (f t) v | PRFuel => PRFuel end.

Lemma toff_succ t d : set_off (toff t d) (char_offset (toff t d) + 1) = toff (set_off t (char_offset t + 1)) d.
Proof. unfold toff, set_off; cbn. f_equal. lia. Qed.

Section S.
Variable sb : list byte -> Z.

Lemma redo_sim fuel : forall t l1 l2, wfs (stack t) = true -> lsim t l1 l2 ->
  match redo sb fuel t l1, redo sb fuel t l2 with
  | Some r1, Some r2 => rsim r1 r2
  | None, None => True
  | _, _ => False
  end.
Proof.
  induction fuel as [|f IH]; intros t l1 l2 Hw Hl; [exact I|]. cbn [redo].
  pose proof (step1_sim sb t l1 l2 Hw Hl) as R. pose proof (step1_res sb t l1 Hw) as W.
  destruct (step1 sb t l1) as [a x|a x|a x], (step1 sb t l2) as [b y|b y|b y]; cbn [rsim] in R; try contradiction.
  - exact R.
  - destruct R as [<- Hl']. cbn [res_ok] in W. apply IH; [exact (proj1 W)|exact Hl'].
  - exact R.
Qed.

(* facts carried along a redo chain *)
Lemma redo_facts fuel : forall t l r, wfs (stack t) = true -> linv t l -> redo sb fuel t l = Some r ->
  lres (fun t' l' => linv t' l' /\ nbytes l' = nbytes l /\ lc l' = lc l) r /\ wfs (stack (sres_tok r)) = true /\ err_ok t r /\
  match r with Consumed t' _ => add_like (st t') = false | _ => True end.
Proof.
  induction fuel as [|f IH]; intros t l r Hw Hi E; [discriminate|]. cbn [redo] in E.
  pose proof (step1_linv sb t l Hi) as L. pose proof (step1_res sb t l Hw) as W.
  pose proof (step1_err sb t l) as Er. pose proof (step1_boundary sb t l Hw) as B.
  destruct (step1 sb t l) as [a x|a x|a x] eqn:S.
  - inversion E; subst. cbn [lres res_ok sres_tok] in *. auto.
  - cbn [lres res_ok err_ok] in *. destruct L as (L1 & L2 & L3). destruct W as [W1 _].
    destruct (IH _ _ _ W1 L1 E) as (A1 & A2 & A3 & A4).
    repeat split; try assumption.
    + destruct r; cbn [lres] in *; destruct A1 as (? & ? & ?); repeat split; congruence.
    + destruct r; cbn [err_ok] in *; rewrite <- Er; exact A3.
  - inversion E; subst. cbn [lres res_ok sres_tok] in *. auto.
Qed.

Lemma lsim0_lsim t l1 l2 b nb : lsim0 t l1 l2 ->
  lsim t (mkloc b nb (lobj l1) (lnum l1)) (mkloc b nb (lobj l2) (lnum l2)).
Proof. intros (A & B & C). unfold lsim, eff in *; cbn [lc nbytes lobj lnum]. repeat split; assumption. Qed.
Lemma lsim_lsim0 t l1 l2 k : lsim t l1 l2 -> lsim0 (set_off t k) l1 l2.
Proof. intros (A & B & C & D). repeat split; assumption. Qed.

Lemma run_sim bytes : forall t l1 l2, wfs (stack t) = true -> lsim0 t l1 l2 -> (lc l1 =? 0) = (lc l2 =? 0) ->
  match run sb bytes t l1, run sb bytes t l2 with
  | LOut t1 x1, LOut t2 x2 => t1 = t2 /\ oute x1 x2
  | LFuel, LFuel => True
  | _, _ => False
  end.
Proof.
  induction bytes as [|b rest IH]; intros t l1 l2 Hw Hl Hz; cbn [run].
  - split; [reflexivity|]. split; [exact Hz|exact (proj1 Hl)].
  - rewrite <- (proj1 Hl).
    destruct (if validate_utf8 t then validate_utf8_step b (nbytes l1) else Some (nbytes l1)) as [nb|].
    2:{ split; [reflexivity|]. split; [exact Hz|exact (proj1 Hl)]. }
    pose proof (redo_sim REDO_FUEL t _ _ Hw (lsim0_lsim t l1 l2 b nb Hl)) as R.
    destruct (redo sb REDO_FUEL t (mkloc b nb (lobj l1) (lnum l1))) as [r1|] eqn:E1,
             (redo sb REDO_FUEL t (mkloc b nb (lobj l2) (lnum l2))) as [r2|] eqn:E2; try contradiction; [|exact I].
    destruct r1 as [a x|a x|a x], r2 as [c y|c y|c y]; cbn [rsim] in R; try contradiction.
    + destruct R as [<- Hl'].
      destruct (b =? 0).
      * split; [reflexivity|]. destruct Hl' as (A & B & _). split; [rewrite A; reflexivity|exact B].
      * apply IH.
        -- destruct (redo_total sb REDO_FUEL t (mkloc b nb (lobj l1) (lnum l1)) Hw) as (r & Hr & Hwr & _).
           { pose proof (mus_bound (stack t)). unfold REDO_FUEL. lia. }
           rewrite E1 in Hr. inversion Hr; subst. exact Hwr.
        -- apply lsim_lsim0. exact Hl'.
        -- rewrite (proj1 Hl'). reflexivity.
    + exact I.
    + destruct R as [<- (A & B)]. split; [reflexivity|]. split; [rewrite A; reflexivity|exact B].
Qed.

Lemma run_toff bytes : forall t d l, run sb bytes (toff t d) l = loop_map (fun x => toff x d) (run sb bytes t l).
Proof.
  induction bytes as [|b rest IH]; intros t d l; cbn [run]; [reflexivity|].
  change (validate_utf8 (toff t d)) with (validate_utf8 t).
  destruct (if validate_utf8 t then validate_utf8_step b (nbytes l) else Some (nbytes l)) as [nb|]; [|reflexivity].
  rewrite redo_toff.
  destruct (redo sb REDO_FUEL t (mkloc b nb (lobj l) (lnum l))) as [[a x|a x|a x]|]; cbn [option_map sres_map loop_map]; try reflexivity.
  rewrite toff_succ. destruct (b =? 0); [reflexivity|]. apply IH.
Qed.

(* the outcome of the code after  out:  does not depend on the character offset *)
Definition pobs (r : presult) : option (option jv * terr) :=
  match r with PR t v => Some (v, err t) | PRFuel => None end.

Lemma finish_call_view t1 t2 l :
  stack t1 = stack t2 -> strict t1 = strict t2 -> allow_trailing t1 = allow_trailing t2 ->
  validate_utf8 t1 = validate_utf8 t2 -> err t1 = err t2 ->
  pobs (finish_call t1 l) = pobs (finish_call t2 l).
Proof.
  destruct t1 as [stk md p dbl sp uc hs qc sf af vf off e], t2 as [stk2 md2 p2 dbl2 sp2 uc2 hs2 qc2 sf2 af2 vf2 off2 e2].
  cbn [stack strict allow_trailing validate_utf8 err]. intros -> -> -> -> ->.
  unfold finish_call, set_err, st, sv, top, depth, reset_levels, set_stack.
  cbn [stack max_depth pb is_double st_pos ucs_char high_surrogate quote_char strict allow_trailing validate_utf8 char_offset err].
  destruct (vf2 && negb (nbytes l =? 0));
    cbn [stack max_depth pb is_double st_pos ucs_char high_surrogate quote_char strict allow_trailing validate_utf8 char_offset err];
  destruct (negb (lc l =? 0) && tstate_eqb (s_state match stk2 with [] => fresh_level | s :: _ => s end) S_finish &&
            (zlen stk2 - 1 =? 0) && sf2 && negb af2);
    cbn [stack max_depth pb is_double st_pos ucs_char high_surrogate quote_char strict allow_trailing validate_utf8 char_offset err];
  destruct ((lc l =? 0) && (negb (zlen stk2 - 1 =? 0) ||
            (negb (tstate_eqb (s_state match stk2 with [] => fresh_level | s :: _ => s end) S_finish) &&
             negb (tstate_eqb (s_saved match stk2 with [] => fresh_level | s :: _ => s end) S_finish))));
    cbn [stack max_depth pb is_double st_pos ucs_char high_surrogate quote_char strict allow_trailing validate_utf8 char_offset err pobs];
  try reflexivity; destruct e2; reflexivity.
Qed.

Lemma finish_call_oute t l1 l2 : oute l1 l2 -> finish_call t l1 = finish_call t l2.
Proof.
  intros (A & B). unfold finish_call. rewrite B.
  rewrite A. reflexivity.
Qed.
End S.
