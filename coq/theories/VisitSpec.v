(* VisitSpec.v — the documented traversal of json_visit.h, formulated independently of
   the recursive function (C17).

   1. [flatten] lays the tree out in document order, with no reference to the callback:
      one [Pre] item per node and, for a container, one [Post] item (JSON_C_VISIT_SECOND)
      after the items of its members; every item carries the nesting depth.
   2. [machine] is a small automaton that walks that list once, left to right, and is the
      only place where the callback is consulted.  It is in one of three modes:
        Run         the next item is a call;
        Skipping d  a container at depth d answered SKIP: everything deeper than d is passed
                    over, and so is the item that closes it (no second call after SKIP);
        Popping d   a node at depth d answered POP: everything at depth >= d is passed over
                    (the node's own members and second call, its remaining siblings and
                    theirs); the first shallower item — the second call of the parent — is
                    a call again.
      STOP ends the walk with 0, ERROR and any undefined code end it with -1; on a second
      call CONTINUE, SKIP and POP all mean "go on".  Reaching the end of the list is 0. *)
From JC Require Import Base Value VisitModel.
Local Open Scope Z_scope.

Inductive code := CContinue | CSkip | CPop | CStop | CError | CInvalid.

Definition classify (z : Z) : code :=
  if z =? 0 then CContinue
  else if z =? 7547 then CSkip
  else if z =? 767 then CPop
  else if z =? 7867 then CStop
  else if z =? -1 then CError
  else CInvalid.

Inductive phase := Pre (container : bool) | Post.
Record item := mkitem { it_phase : phase; it_ev : event }.
Definition it_depth (it : item) : Z := ev_depth (it_ev it).

(* ---- 1. the tree in document order ------------------------------------------------ *)
Section Members.
  Context {A : Type}.
  Variable f : A -> Z -> list item.
  Fixpoint flat_members (l : list A) (i : Z) : list item :=
    match l with
    | [] => []
    | c :: rest => f c i ++ flat_members rest (i + 1)
    end.
End Members.

Fixpoint flatten (v : jv) (path : list Z) (pk : pkind) (ki : kidx) (d : Z) : list item :=
  match v with
  | JArr l =>
      mkitem (Pre true) (mkev path 0 pk ki d)
      :: flat_members (fun c i => flatten c (path ++ [i]) PArr (KIdx i) (d + 1)) l 0
      ++ [mkitem Post (mkev path 2 pk ki d)]
  | JObj l =>
      mkitem (Pre true) (mkev path 0 pk ki d)
      :: flat_members (fun kv i => flatten (snd kv) (path ++ [i]) PObj (KKey (fst kv)) (d + 1)) l 0
      ++ [mkitem Post (mkev path 2 pk ki d)]
  | _ => [mkitem (Pre false) (mkev path 0 pk ki d)]
  end.

(* ---- 2. the automaton -------------------------------------------------------------- *)
Inductive mode := Run | Skipping (d : Z) | Popping (d : Z).
Inductive outcome := Go (m : mode) | Halt (res : Z).

(* is the item passed over in this mode?  [Some m'] = yes, go on in [m']; [None] = it is a call *)
Definition passed_over (m : mode) (it : item) : option mode :=
  match m with
  | Run => None
  | Skipping d => if d <? it_depth it then Some (Skipping d) else Some Run
  | Popping d => if d <=? it_depth it then Some (Popping d) else None
  end.

(* what the answer to a call means *)
Definition react (it : item) (c : code) : outcome :=
  match c with
  | CStop => Halt 0
  | CError | CInvalid => Halt (-1)
  | CContinue => Go Run
  | CSkip => match it_phase it with Pre true => Go (Skipping (it_depth it)) | _ => Go Run end
  | CPop => match it_phase it with Pre _ => Go (Popping (it_depth it)) | Post => Go Run end
  end.

Section Spec.
  Variable userfunc : list event -> Z.

  Fixpoint machine (its : list item) (m : mode) (tr : list event) : list event * Z :=
    match its with
    | [] => (tr, 0)
    | it :: rest =>
        match passed_over m it with
        | Some m' => machine rest m' tr
        | None =>
            let tr1 := it_ev it :: tr in
            match react it (classify (userfunc tr1)) with
            | Go m' => machine rest m' tr1
            | Halt r => (tr1, r)
            end
        end
    end.

  (* the reference traversal: calls in call order, final result *)
  Definition spec_visit (v : jv) : list event * Z :=
    let '(tr, res) := machine (flatten v [] PNone KNone 0) Run [] in (rev_append tr [], res).   (* = rev tr *)
End Spec.

(* ---- several traversals: every traversal of a program is the reference traversal of its
   own tree with its own callback; a nested one takes place iff the call that starts it does *)
Fixpoint spec_prog (p : prog) : list (option (list event * Z)) :=
  match p with
  | Prog v _ codes nested =>
      let out := spec_visit (sched_fun codes) v in
      Some out :: (fix go (l : list (Z * prog)) :=
                     match l with
                     | [] => []
                     | kq :: t =>
                         (if (1 <=? fst kq) && (fst kq <=? zlen (fst out)) then spec_prog (snd kq)
                          else not_run (snd kq)) ++ go t
                     end) nested
  end.
