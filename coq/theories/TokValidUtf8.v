(* TokValidUtf8.v — parse_valid and its companions with JSON_TOKENER_VALIDATE_UTF8: for every
   document whose text is valid UTF-8 (the validator scan of the text ends with nothing pending)
   the validating parser gives exactly the result of the plain one.  Corollaries of
   TokUtf8.validate_utf8_neutral. *)
From JC Require Import Base BaseLemmas Value TokModel TokFrame TokStack TokTotal TokStream2 TokUtf8
  TokProofs TokSyntax TokValidBase TokValidLit TokValid TokValidSat TokBigInt TokSyntaxExt TokExt.
Local Open Scope Z_scope.

Lemma tok_new_vf_inv D sf al t : tok_new D sf al true = Some t ->
  exists t0, tok_new D sf al false = Some t0 /\ t = set_vf t0 true /\ validate_utf8 t0 = false.
Proof.
  unfold tok_new. destruct (D <? 1); [discriminate|]. intros H. inversion H. eexists. split; [reflexivity|]. split; reflexivity.
Qed.

Section S.
Variable sb : list byte -> Z.

(* the shape all corollaries share *)
Lemma transfer D sf al t text v :
  nonul text = true -> u8scan 0 text = Some 0 ->
  (forall t0, tok_new D sf al false = Some t0 ->
     exists t', parse_ex_cstr sb t0 text = PR t' (Some v) /\ err t' = TE_success /\ char_offset t' = zlen text) ->
  tok_new D sf al true = Some t ->
  exists t', parse_ex_cstr sb t text = PR t' (Some v) /\ err t' = TE_success /\ char_offset t' = zlen text.
Proof.
  intros Hz Hs Hplain Hnew. destruct (tok_new_vf_inv D sf al t Hnew) as (t0 & H0 & -> & Hv).
  destruct (Hplain t0 H0) as (t' & E & He & Ho).
  exists (set_vf t' true). split; [|split; [exact He|exact Ho]].
  apply (validate_utf8_neutral sb t0 text t' (Some v) Hv Hz Hs E Ho).
Qed.

(* parse_valid, both modes, with validation *)
Theorem parse_valid_utf8 D strictf s lead trail t :
  wf_stx s -> all_ws lead = true -> all_ws trail = true ->
  Z.of_nat (nest s) < D -> ints_in_range s = true -> names_nul_free s = true ->
  u8scan 0 (render_doc lead s trail) = Some 0 ->
  tok_new D strictf false true = Some t ->
  exists t', parse_ex_cstr sb t (render_doc lead s trail) = PR t' (Some (value sb s)) /\
             err t' = TE_success /\ char_offset t' = zlen (render_doc lead s trail).
Proof.
  intros Hw Hl Htr Hd Hi Hn Hs Hnew. apply (transfer D strictf false t); [|exact Hs| |exact Hnew].
  - unfold render_doc. rewrite !nonul_app, (render_nonul s Hw), (nonul_ws _ Hl), (nonul_ws _ Htr). reflexivity.
  - intros t0 H0. apply (parse_valid sb D strictf s lead trail t0); assumption.
Qed.

(* parse_valid_sat (default mode, integers of any size) with validation *)
Theorem parse_valid_sat_utf8 D al s lead trail t :
  wf_stx s -> all_ws lead = true -> all_ws trail = true ->
  Z.of_nat (nest s) < D -> names_nul_free s = true ->
  u8scan 0 (render_doc lead s trail) = Some 0 ->
  tok_new D false al true = Some t ->
  exists t', parse_ex_cstr sb t (render_doc lead s trail) = PR t' (Some (value_sat sb s)) /\
             err t' = TE_success /\ char_offset t' = zlen (render_doc lead s trail).
Proof.
  intros Hw Hl Htr Hd Hn Hs Hnew. apply (transfer D false al t); [|exact Hs| |exact Hnew].
  - unfold render_doc. rewrite !nonul_app, (render_nonul s Hw), (nonul_ws _ Hl), (nonul_ws _ Htr). reflexivity.
  - intros t0 H0. apply (parse_valid_sat sb D al s lead trail t0); assumption.
Qed.

(* the documented extensions (default mode) with validation *)
Theorem default_accepts_ext_utf8 D x lead trail t :
  wf_xstx x -> wf_xws lead = true -> wf_xws trail = true ->
  Z.of_nat (xnest x) < D -> xints_in_range x = true -> xnames_nul_free x = true ->
  u8scan 0 (render_xdoc lead x trail) = Some 0 ->
  tok_new D false false true = Some t ->
  exists t', parse_ex_cstr sb t (render_xdoc lead x trail) = PR t' (Some (xvalue sb x)) /\
             err t' = TE_success /\ char_offset t' = zlen (render_xdoc lead x trail).
Proof.
  intros Hw Hl Htr Hd Hi Hn Hs Hnew. apply (transfer D false false t); [|exact Hs| |exact Hnew].
  - unfold render_xdoc. rewrite !nonul_app, (xrender_nonul x Hw), (nonul_xws _ Hl), (nonul_xws _ Htr). reflexivity.
  - intros t0 H0.
    destruct (default_accepts_ext sb D x lead trail [] t0 Hw Hl Htr (covered_x_all x) Hd Hi Hn eq_refl H0) as (t' & E & R).
    rewrite app_nil_r in E. exists t'. split; [exact E|exact R].
Qed.

End S.

(* ---------------------------------------------------------------- examples *)
Definition pres (vf : bool) (text : list byte) : option (terr * Z * option jv) :=
  match tok_new 4 false false vf with
  | Some t => match parse_ex_cstr (fun _ => 0) t text with PR t' r => Some (err t', char_offset t', r) | PRFuel => None end
  | None => None end.

(* non-vacuity: [ "e-acute euro gothic-hwair", 1 ] with the 2-, 3- and 4-byte characters written raw:
   the hypotheses of parse_valid_utf8 hold and the validating parser returns the bytes *)
Definition u8_doc : stx :=
  SArr [] [([32], SStr [CRaw 195; CRaw 169; CRaw 226; CRaw 130; CRaw 172; CRaw 240; CRaw 144; CRaw 141; CRaw 136], []);
           ([], SNum (mknum false [49] None None), [32])].
Definition utf8_example_ok : bool :=
  wf_stxb u8_doc && (Z.of_nat (nest u8_doc) <? 4) && ints_in_range u8_doc && names_nul_free u8_doc &&
  match u8scan 0 (render_doc [10] u8_doc [10]) with Some 0 => true | _ => false end &&
  match pres true (render_doc [10] u8_doc [10]), pres false (render_doc [10] u8_doc [10]) with
  | Some (TE_success, o1, Some (JArr [JStr [195;169;226;130;172;240;144;141;136]; JInt 1])),
    Some (TE_success, o2, Some (JArr [JStr [195;169;226;130;172;240;144;141;136]; JInt 1])) =>
      (o1 =? zlen (render_doc [10] u8_doc [10])) && (o2 =? o1)
  | _, _ => false end.
Lemma utf8_example : utf8_example_ok = true.
Proof. vm_compute. reflexivity. Qed.

(* the statement is about whole valid documents: directly after a value the two settings differ.
   The text  1 e-acute  (31 C3 A9): the lead byte C3 is validated (a sequence is now pending) before
   the number state ends the value, so the plain parser reports success at offset 1 (trailing
   bytes are ignored in default mode) while the validating parser reports json_tokener_error_parse_utf8_string *)
Lemma utf8_after_value_differs :
  pres false [49; 195; 169] = Some (TE_success, 1, Some (JInt 1)) /\
  pres true [49; 195; 169] = Some (TE_utf8, 1, None).
Proof. split; vm_compute; reflexivity. Qed.
