(* Properties_C16.v — statements only (C16: strict rejects the documented extensions). *)
From JC Require Import Base Value TokModel TokFrame TokStrict.
Local Open Scope Z_scope.

(* per-site rejections, for ALL tokener states with the named configuration and all
   locals: the dispatch on the offending character ends the call with an error *)
Theorem C16_strict_no_comment : forall sb t l,
  strict t = true -> st t = S_eatws -> lc l = 47 ->
  step1 sb t l = Redo (set_state t (sv t)) l /\
  (* ... and no state that can be saved while whitespace is eaten takes '/' *)
  (forall t2, st t2 = S_start \/ st t2 = S_array_sep \/ st t2 = S_object_sep \/ st t2 = S_object_field_end \/
              st t2 = S_object_field_start \/ st t2 = S_object_field_start_after_sep ->
     exists t', step1 sb t2 l = Out t' l /\ err t' <> TE_success /\ err t' <> TE_continue).
Proof. exact strict_no_comment. Qed.
Print Assumptions C16_strict_no_comment.

Theorem C16_strict_rejects_single_quote_value : forall sb t l,
  strict t = true -> st t = S_start -> lc l = 39 ->
  exists t', step1 sb t l = Out t' l /\ err t' = TE_unexpected.
Proof. exact strict_rejects_single_quote_value. Qed.
Print Assumptions C16_strict_rejects_single_quote_value.

Theorem C16_strict_rejects_trailing_comma : forall sb t l,
  strict t = true -> (st t = S_array_after_sep /\ lc l = 93 \/ st t = S_object_field_start_after_sep /\ lc l = 125) ->
  exists t', step1 sb t l = Out t' l /\ err t' = TE_unexpected.
Proof. exact strict_rejects_trailing_comma. Qed.
Print Assumptions C16_strict_rejects_trailing_comma.

Theorem C16_strict_rejects_control_char : forall sb t l,
  strict t = true -> (st t = S_string \/ st t = S_object_field) -> 0 <= lc l <= 31 -> lc l <> quote_char t ->
  exists t', step1 sb t l = Out t' l /\ err t' = TE_string.
Proof. exact strict_rejects_control_char. Qed.
Print Assumptions C16_strict_rejects_control_char.

Theorem C16_default_accepts_sites : forall sb t l,
  strict t = false ->
  (st t = S_start -> lc l = 39 -> exists t', step1 sb t l = Consumed t' l /\ st t' = S_string) /\
  (st t = S_array_after_sep -> lc l = 93 -> exists t', step1 sb t l = Consumed t' l /\ sv t' = S_finish) /\
  (st t = S_eatws -> lc l = 47 -> exists t', step1 sb t l = Consumed t' l /\ st t' = S_comment_start).
Proof. exact default_accepts_sites. Qed.
Print Assumptions C16_default_accepts_sites.

(* end-to-end witnesses evaluated inside Coq: strict rejects / default accepts *)
Theorem C16_examples : strict_examples_ok = true.
Proof. exact strict_examples. Qed.
Print Assumptions C16_examples.
