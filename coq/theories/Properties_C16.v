(* Properties_C16.v — statements only (C16: strict rejects the documented extensions). *)
From JC Require Import Base Value TokModel TokFrame TokStrict.
Local Open Scope Z_scope.

(* per-site rejections, for ALL tokener states with the named configuration and all
   locals: the dispatch on the offending character ends the call with an error *)
Theorem C16_strict_no_comment : forall sb t l,
  strict t = true -> st t = S_eatws -> lc l = 47 ->
  step1 sb t l = Redo (set_state t (sv t)) l /\
  (* ... and no state that can be saved while whitespace is eaten takes '/' *)
  (forall t2, st t2 = S_start \/ st t2 = S_array_sep \/ st t2 = S_object_sep \/ st t2 = S_object_field_end \/
              st t2 = S_object_field_start \/ st t2 = S_object_field_start_after_sep ->
     exists t', step1 sb t2 l = Out t' l /\ err t' <> TE_success /\ err t' <> TE_continue).
Proof. exact strict_no_comment. Qed.
Print Assumptions C16_strict_no_comment.

Theorem C16_strict_rejects_single_quote_value : forall sb t l,
  strict t = true -> st t = S_start -> lc l = 39 ->
  exists t', step1 sb t l = Out t' l /\ err t' = TE_unexpected.
Proof. exact strict_rejects_single_quote_value. Qed.
Print Assumptions C16_strict_rejects_single_quote_value.

Theorem C16_strict_rejects_trailing_comma : forall sb t l,
  strict t = true -> (st t = S_array_after_sep /\ lc l = 93 \/ st t = S_object_field_start_after_sep /\ lc l = 125) ->
  exists t', step1 sb t l = Out t' l /\ err t' = TE_unexpected.
Proof. exact strict_rejects_trailing_comma. Qed.
Print Assumptions C16_strict_rejects_trailing_comma.

Theorem C16_strict_rejects_control_char : forall sb t l,
  strict t = true -> (st t = S_string \/ st t = S_object_field) -> 0 <= lc l <= 31 -> lc l <> quote_char t ->
  exists t', step1 sb t l = Out t' l /\ err t' = TE_string.
Proof. exact strict_rejects_control_char. Qed.
Print Assumptions C16_strict_rejects_control_char.

Theorem C16_default_accepts_sites : forall sb t l,
  strict t = false ->
  (st t = S_start -> lc l = 39 -> exists t', step1 sb t l = Consumed t' l /\ st t' = S_string) /\
  (st t = S_array_after_sep -> lc l = 93 -> exists t', step1 sb t l = Consumed t' l /\ sv t' = S_finish) /\
  (st t = S_eatws -> lc l = 47 -> exists t', step1 sb t l = Consumed t' l /\ st t' = S_comment_start).
Proof. exact default_accepts_sites. Qed.
Print Assumptions C16_default_accepts_sites.

(* end-to-end witnesses evaluated inside Coq: strict rejects / default accepts *)
Theorem C16_examples : strict_examples_ok = true.
Proof. exact strict_examples. Qed.
Print Assumptions C16_examples.

(* ---- end-to-end, default mode (syntax: TokSyntaxExt.v, proofs: TokValidExt*.v, TokExt.v) ---- *)
From JC Require Import TokSyntax TokSyntaxExt TokExt.

(* every document written with the documented extension spellings — comments between any two
   tokens, strings and names in single quotes, a trailing comma, literals in any letter case,
   raw control bytes in strings, superfluous leading zeros, an exponent without digits —
   followed by arbitrary trailing garbage, is accepted in default mode with the value xvalue,
   and the reported end position is the end of the document *)
Theorem C16_default_accepts_ext : forall sb D x lead trail junk t,
  wf_xstx x -> wf_xws lead = true -> wf_xws trail = true -> covered_x x = true ->
  Z.of_nat (xnest x) < D -> xints_in_range x = true -> xnames_nul_free x = true -> junk_ok junk = true ->
  tok_new D false false false = Some t ->
  exists t', parse_ex_cstr sb t (render_xdoc lead x trail ++ junk) = PR t' (Some (xvalue sb x)) /\
             err t' = TE_success /\ char_offset t' = zlen (render_xdoc lead x trail).
Proof. exact default_accepts_ext. Qed.
Print Assumptions C16_default_accepts_ext.

Theorem C16_covered_x_all : forall x, covered_x x = true.
Proof. exact covered_x_all. Qed.
Print Assumptions C16_covered_x_all.

(* ... and that value is the value of the erased RFC 8259 document whenever the number tokens
   are RFC-shaped (comments, quotes, trailing commas, letter case, control bytes are neutral) *)
Theorem C16_default_value_neutral : forall sb x,
  wf_xstx x -> neutral x = true -> xvalue sb x = value sb (erase x).
Proof. exact default_value_neutral. Qed.
Print Assumptions C16_default_value_neutral.

Theorem C16_ext_example : ext_example_ok = true.
Proof. exact ext_example. Qed.
Print Assumptions C16_ext_example.

(* ---- end-to-end, strict mode (positions: TokStrictPos.v, proofs: TokStrictExt.v) ----
   A position in a valid document is given by the valid text to its left (render_pos /
   render_vpos; pgood / vgood: well-formed, integers within 64 bits, names free of U+0000;
   pfit / vfit: the nesting fits the depth).  One extension form put at the position makes
   the strict parser return an error, WHATEVER follows (Q is arbitrary). *)
From JC Require Import TokStrictPos TokStrictExt TokValidExtNum.

Theorem C16_strict_rejects_comment : forall sb D q Q t,
  pgood q = true -> pfit D q = true -> tok_new D true false false = Some t ->
  rejected sb t (render_pos q ++ 47 :: Q).
Proof. exact strict_rejects_comment. Qed.
Print Assumptions C16_strict_rejects_comment.

Theorem C16_strict_rejects_single_quote_value_at : forall sb D p Q t,
  vgood p = true -> vfit D p = true -> Z.of_nat (vdepth p) < D -> tok_new D true false false = Some t ->
  rejected sb t (render_vpos p ++ 39 :: Q).
Proof. exact strict_rejects_single_quote_value. Qed.
Print Assumptions C16_strict_rejects_single_quote_value_at.

Theorem C16_strict_rejects_single_quote_name : forall sb D p pre a Q t,
  pgood (PB p pre a) = true -> pfit D (PB p pre a) = true -> tok_new D true false false = Some t ->
  rejected sb t (render_pos (PB p pre a) ++ 39 :: Q).
Proof. exact strict_rejects_single_quote_name. Qed.
Print Assumptions C16_strict_rejects_single_quote_name.

Theorem C16_strict_rejects_trailing_comma_array : forall sb D p pre a Q t,
  pre <> [] -> vgood (VArr p pre a) = true -> vfit D (VArr p pre a) = true -> tok_new D true false false = Some t ->
  rejected sb t (render_vpos (VArr p pre a) ++ 93 :: Q).
Proof. exact strict_rejects_trailing_comma_array. Qed.
Print Assumptions C16_strict_rejects_trailing_comma_array.

Theorem C16_strict_rejects_trailing_comma_object : forall sb D p pre a Q t,
  pre <> [] -> pgood (PB p pre a) = true -> pfit D (PB p pre a) = true -> tok_new D true false false = Some t ->
  rejected sb t (render_pos (PB p pre a) ++ 125 :: Q).
Proof. exact strict_rejects_trailing_comma_object. Qed.
Print Assumptions C16_strict_rejects_trailing_comma_object.

Theorem C16_strict_rejects_trailing_bytes : forall sb D lead v w j Q t,
  pgood (PF (VTop lead) v w) = true -> pfit D (PF (VTop lead) v w) = true ->
  is_ws j = false -> j <> 0 -> (w <> [] \/ xstop j = true) ->
  tok_new D true false false = Some t ->
  rejected sb t (render_pos (PF (VTop lead) v w) ++ j :: Q).
Proof. exact strict_rejects_trailing_bytes. Qed.
Print Assumptions C16_strict_rejects_trailing_bytes.

Theorem C16_strict_rejects_literal_case : forall sb D p l ups Q t,
  vgood p = true -> vfit D p = true -> Z.of_nat (vdepth p) < D ->
  Nat.eqb (length ups) (length (render_lit l)) = true -> existsb (fun u => u) ups = true ->
  tok_new D true false false = Some t ->
  rejected sb t (render_vpos p ++ render_xlit l ups ++ Q).
Proof. exact strict_rejects_literal_case. Qed.
Print Assumptions C16_strict_rejects_literal_case.

Theorem C16_strict_rejects_number : forall sb D p n Q t,
  vgood p = true -> vfit D p = true -> Z.of_nat (vdepth p) < D ->
  wf_xnum n = true -> ext_num n = true -> stops Q = true ->
  tok_new D true false false = Some t ->
  rejected sb t (render_vpos p ++ render_num n ++ Q).
Proof. exact strict_rejects_number. Qed.
Print Assumptions C16_strict_rejects_number.

Theorem C16_strict_rejects_control_char_value : forall sb D p cs b Q t,
  vgood p = true -> vfit D p = true -> Z.of_nat (vdepth p) < D ->
  wf_chars cs = true -> 1 <= b <= 31 ->
  tok_new D true false false = Some t ->
  rejected sb t (render_vpos p ++ (34 :: render_chars cs ++ [b]) ++ Q).
Proof. exact strict_rejects_control_char_value. Qed.
Print Assumptions C16_strict_rejects_control_char_value.

Theorem C16_strict_rejects_control_char_name : forall sb D p pre a cs b Q t,
  pgood (PB p pre a) = true -> pfit D (PB p pre a) = true ->
  wf_chars cs = true -> 1 <= b <= 31 ->
  tok_new D true false false = Some t ->
  rejected sb t (render_pos (PB p pre a) ++ (34 :: render_chars cs ++ [b]) ++ Q).
Proof. exact strict_rejects_control_char_name. Qed.
Print Assumptions C16_strict_rejects_control_char_name.

Theorem C16_strict_pos_example : strict_pos_example_ok = true.
Proof. exact strict_pos_example. Qed.
Print Assumptions C16_strict_pos_example.

(* the erased tree is a well-formed RFC 8259 tree; the two default-mode theorems combined *)
Theorem C16_erase_wf : forall x, wf_xstx x -> wf_stx (erase x).
Proof. exact erase_wf. Qed.
Print Assumptions C16_erase_wf.

Theorem C16_default_accepts_neutral : forall sb D x lead trail junk t,
  wf_xstx x -> wf_xws lead = true -> wf_xws trail = true -> neutral x = true ->
  Z.of_nat (xnest x) < D -> xints_in_range x = true -> xnames_nul_free x = true -> junk_ok junk = true ->
  tok_new D false false false = Some t ->
  wf_stx (erase x) /\
  exists t', parse_ex_cstr sb t (render_xdoc lead x trail ++ junk) = PR t' (Some (value sb (erase x))) /\ err t' = TE_success.
Proof. exact default_accepts_neutral. Qed.
Print Assumptions C16_default_accepts_neutral.

(* ---- the allow-trailing-characters clause (TokStrictTrail.v) ----
   With JSON_TOKENER_ALLOW_TRAILING_CHARS strict mode accepts ANY valid document followed by
   trailing bytes and reports where the value ended (the end position is the end of the
   document incl. its trailing blanks).  Guard on the first trailing byte only (tjunk_ok):
   not a blank (else the end position lies behind it) and, when no blank separates it from
   the value, not a byte a number token would absorb; in default mode not '/' (a comment).
   [trailing_accepted_len] is the explicit-length entry. *)
From JC Require Import TokStrictTrail.

Theorem C16_strict_allow_trailing : forall sb D s lead trail junk t,
  wf_stx s -> all_ws lead = true -> all_ws trail = true ->
  Z.of_nat (nest s) < D -> ints_in_range s = true -> names_nul_free s = true ->
  tjunk_ok true trail junk = true ->
  tok_new D true true false = Some t ->
  exists t', parse_ex_cstr sb t (render_doc lead s trail ++ junk) = PR t' (Some (value sb s)) /\
             err t' = TE_success /\ char_offset t' = zlen (render_doc lead s trail).
Proof. exact strict_allow_trailing. Qed.
Print Assumptions C16_strict_allow_trailing.

Theorem C16_trailing_accepted_len : forall sb D sf al s lead trail j js t,
  wf_stx s -> all_ws lead = true -> all_ws trail = true ->
  Z.of_nat (nest s) < D -> ints_in_range s = true -> names_nul_free s = true ->
  tjunk_ok sf trail (j :: js) = true -> mode_ok sf al = true ->
  tok_new D sf al false = Some t ->
  exists t', parse_ex sb t (render_doc lead s trail ++ j :: js) = PR t' (Some (value sb s)) /\
             err t' = TE_success /\ char_offset t' = zlen (render_doc lead s trail).
Proof. exact trailing_accepted_len. Qed.
Print Assumptions C16_trailing_accepted_len.

Theorem C16_trailing_example : trail_example_ok = true.
Proof. exact trail_example. Qed.
Print Assumptions C16_trailing_example.

(* ---- the documented extensions are accepted in default mode with VALIDATE_UTF8 as well (TokValidUtf8.v) ---- *)
From JC Require Import TokStream2 TokValidUtf8.
Theorem C16_default_accepts_ext_utf8 : forall sb D x lead trail t,
  wf_xstx x -> wf_xws lead = true -> wf_xws trail = true ->
  Z.of_nat (xnest x) < D -> xints_in_range x = true -> xnames_nul_free x = true ->
  u8scan 0 (render_xdoc lead x trail) = Some 0 ->
  tok_new D false false true = Some t ->
  exists t', parse_ex_cstr sb t (render_xdoc lead x trail) = PR t' (Some (xvalue sb x)) /\
             err t' = TE_success /\ char_offset t' = zlen (render_xdoc lead x trail).
Proof. exact default_accepts_ext_utf8. Qed.
Print Assumptions C16_default_accepts_ext_utf8.
