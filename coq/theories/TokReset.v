(* TokReset.v — well-formed tokener states, the bound on the redo chain (totality, C04),
   and reset (C04). *)
From JC Require Import Base BaseLemmas Value TokModel TokFrame TokStack TokTotal.
Local Open Scope Z_scope.

(* states in which whitespace/comments are being skipped: the saved state is where to go next *)
Definition ws_like (s : tstate) : bool :=
  match s with S_eatws | S_comment_start | S_comment | S_comment_eol | S_comment_end => true | _ => false end.
Definition esc_like (s : tstate) : bool :=
  match s with S_string_escape | S_escape_unicode | S_need_escape | S_need_u => true | _ => false end.
Definition after_ws (v : tstate) : bool :=
  match v with
  | S_start | S_finish | S_array | S_array_sep | S_array_after_sep | S_object_field_start
  | S_object_field_start_after_sep | S_object_field_end | S_object_value | S_object_sep => true
  | _ => false end.
Definition str_like (v : tstate) : bool := match v with S_string | S_object_field => true | _ => false end.
Definition add_like (s : tstate) : bool := match s with S_array_add | S_object_value_add => true | _ => false end.

Definition wf_top (s v : tstate) : bool :=
  (if ws_like s then after_ws v else true) && (if esc_like s then str_like v else true).

Definition wfb (t : tok) : bool :=
  match stack t with
  | top :: below => wf_top (s_state top) (s_saved top) && forallb (fun r => add_like (s_state r)) below
  | [] => false
  end.
Definition wf_tok (t : tok) : Prop := wfb t = true.

(* length of the longest redo chain that can start in a state *)
Definition rk0 (s : tstate) : nat :=
  match s with
  | S_need_escape | S_need_u => 1
  | S_array_add | S_object_value_add => 2
  | S_finish => 3
  | S_inf | S_null | S_boolean => 5
  | S_number => 6
  | S_start => 7
  | S_array | S_array_after_sep | S_object_value => 9
  | _ => 0
  end%nat.
Definition rk (s v : tstate) : nat := match s with S_eatws => S (rk0 v) | _ => rk0 s end.
Definition mu (t : tok) : nat := match stack t with top :: _ => rk (s_state top) (s_saved top) | [] => 0%nat end.

Lemma top_set_top t s : top (set_top t s) = s. Proof. unfold top. rewrite stack_set_top. reflexivity. Qed.
Lemma top_set_pb t s : top (set_pb t s) = top t. Proof. reflexivity. Qed.
Lemma top_set_is_double t s : top (set_is_double t s) = top t. Proof. reflexivity. Qed.
Lemma top_set_st_pos t s : top (set_st_pos t s) = top t. Proof. reflexivity. Qed.
Lemma top_set_ucs t s : top (set_ucs t s) = top t. Proof. reflexivity. Qed.
Lemma top_set_high t s : top (set_high t s) = top t. Proof. reflexivity. Qed.
Lemma top_set_quote t s : top (set_quote t s) = top t. Proof. reflexivity. Qed.
Lemma top_set_err t s : top (set_err t s) = top t. Proof. reflexivity. Qed.
Lemma top_append t s : top (append t s) = top t. Proof. reflexivity. Qed.
Lemma top_set_state t s : top (set_state t s) = mksrec s (s_saved (top t)) (s_cur (top t)) (s_name (top t)).
Proof. unfold set_state. apply top_set_top. Qed.
Lemma top_value_done t v : top (value_done t v) = mksrec S_eatws S_finish v (s_name (top t)).
Proof. unfold value_done. apply top_set_top. Qed.
Lemma sv_top t : sv t = s_saved (top t). Proof. reflexivity. Qed.
Lemma st_top t : st t = s_state (top t). Proof. reflexivity. Qed.
Global Hint Rewrite top_set_top top_set_pb top_set_is_double top_set_st_pos top_set_ucs top_set_high top_set_quote
  top_set_err top_append top_set_state top_value_done : tokstk.

Definition wfs (stk : list srec) : bool :=
  match stk with
  | top :: below => wf_top (s_state top) (s_saved top) && forallb (fun r => add_like (s_state r)) below
  | [] => false
  end.
Definition mus (stk : list srec) : nat := match stk with top :: _ => rk (s_state top) (s_saved top) | [] => 0%nat end.
Lemma wfb_wfs t : wfb t = wfs (stack t). Proof. reflexivity. Qed.
Lemma mu_mus t : mu t = mus (stack t). Proof. reflexivity. Qed.

(* result classes of one dispatch, as a proposition about the new stack *)
Definition res_ok (t : tok) (r : sres) : Prop :=
  match r with
  | Consumed t' _ => wfs (stack t') = true
  | Redo t' _ => wfs (stack t') = true /\ (mus (stack t') < mus (stack t))%nat
  | Out t' _ => wfs (stack t') = true
  end.

Lemma emit_res t0 t u l top0 below :
  stack t0 = top0 :: below -> stack t = stack t0 -> esc_like (s_state top0) = true ->
  wfs (stack t0) = true -> res_ok t0 (emit_unicode t u l).
Proof.
  intros E H Hs Hw. unfold emit_unicode.
  assert (Hsv : sv t = s_saved top0) by (unfold sv, top; rewrite H, E; reflexivity).
  assert (Htop : top t = top0) by (unfold top; rewrite H, E; reflexivity).
  rewrite E in Hw. cbn [wfs] in Hw. apply andb_true_iff in Hw. destruct Hw as [Hw Hb].
  unfold wf_top in Hw. rewrite Hs in Hw. apply andb_true_iff in Hw. destruct Hw as [_ Hw].
  repeat match goal with |- context [if ?b then _ else _] => destruct b end; cbn [res_ok];
    autorewrite with tokstk; rewrite ?Htop, ?Hsv, ?H, ?E; cbn [tl wfs s_state s_saved];
    rewrite Hb, ?andb_true_r; destruct (s_saved top0); try discriminate Hw; reflexivity.
Qed.

Lemma finish_unicode_res t0 t l top0 below :
  stack t0 = top0 :: below -> stack t = stack t0 -> esc_like (s_state top0) = true -> wfs (stack t0) = true ->
  res_ok t0 (finish_unicode t l).
Proof.
  intros E H Hs Hw. unfold finish_unicode. eapply emit_res; eauto.
  rewrite stack_resolve. autorewrite with tokstk. exact H.
Qed.

Lemma aw_wf v : after_ws v = true -> wf_top v v = true /\ rk v v = rk0 v.
Proof. destruct v; try discriminate; intros _; split; reflexivity. Qed.
Lemma sl_wf v : str_like v = true -> wf_top v v = true /\ rk v v = 0%nat.
Proof. destruct v; try discriminate; intros _; split; reflexivity. Qed.

Section S.
Variable sb : list byte -> Z.

Lemma step1_res t l : wfs (stack t) = true -> res_ok t (step1 sb t l).
Proof.
  intros Hw. destruct (stack t) as [|[s v cur nm] below] eqn:E; [discriminate|].
  assert (Htop : top t = mksrec s v cur nm) by (unfold top; rewrite E; reflexivity).
  assert (Hst : st t = s) by (unfold st; rewrite Htop; reflexivity).
  assert (Hsv : sv t = v) by (unfold sv; rewrite Htop; reflexivity).
  pose proof Hw as Hw0. cbn [wfs s_state s_saved] in Hw. apply andb_true_iff in Hw. destruct Hw as [Ht Hb].
  unfold step1. rewrite Hst.
  destruct s; cbv iota; unfold fail.
  all: repeat match goal with
              | |- res_ok _ (finish_unicode _ _) => fail 1
              | |- context [if ?b then _ else _] => destruct b
              | |- context [match classify_number ?a ?x with _ => _ end] => destruct (classify_number a x)
              | |- context [match lnum ?x with _ => _ end] => destruct (lnum x)
              | |- context [match stack ?x with _ => _ end] => rewrite E
              | |- context [match ?y with [] => _ | _ :: _ => _ end] => destruct y as [|[ps pv pc pn] below2]
              end; cbn [res_ok].
  all: try (eapply finish_unicode_res; [exact E|autorewrite with tokstk; reflexivity|reflexivity|rewrite E; exact Hw0]).
  all: autorewrite with tokstk; rewrite ?Htop, ?Hsv, ?E; unfold fresh_level;
       cbn [tl wfs mus s_state s_saved s_cur s_name forallb] in *;
       cbn [wf_top ws_like esc_like after_ws str_like add_like andb rk rk0 negb] in *;
       rewrite ?andb_true_r in *; rewrite ?Hb, ?andb_true_r.
  all: try reflexivity; try (split; [reflexivity|lia]); try assumption.
  all: try (destruct (aw_wf v Ht) as [A B]; rewrite ?A, ?B; first [reflexivity | split; [reflexivity|lia]]).
  all: try (destruct (sl_wf v Ht) as [A B]; rewrite ?A, ?B; first [reflexivity | split; [reflexivity|lia]]).
  all: try (split; [exact Ht|lia]).
  - (* eatws hands over to the saved state *)
    assert (Hv : after_ws v = true) by (unfold wf_top in Ht; cbn [ws_like esc_like] in Ht; rewrite andb_true_r in Ht; exact Ht).
    destruct (aw_wf v Hv) as [A B]. rewrite A, B. split; [reflexivity|lia].
  - (* finish pops to the parent, which is in one of the two add states *)
    apply andb_true_iff in Hb. destruct Hb as [Hp Hb']. rewrite Hb'.
    destruct (s_state s); try discriminate Hp; cbn; split; try reflexivity; lia.
Qed.

Lemma mus_bound stk : (mus stk <= 10)%nat.
Proof. destruct stk as [|[s v c n] r]; cbn; [lia|]. destruct s; cbn; try lia; destruct v; cbn; lia. Qed.

Lemma redo_total fuel : forall t l,
  wfs (stack t) = true -> (mus (stack t) < fuel)%nat ->
  exists r, redo sb fuel t l = Some r /\ wfs (stack (sres_tok r)) = true /\ (forall t' l', r <> Redo t' l').
Proof.
  induction fuel as [|f IH]; intros t l Hw Hm; [lia|]. cbn [redo].
  pose proof (step1_res t l Hw) as R.
  destruct (step1 sb t l) as [t' l'|t' l'|t' l'] eqn:S; cbn [res_ok] in R.
  - eexists. split; [reflexivity|]. split; [exact R|]. intros; discriminate.
  - destruct R as [R1 R2]. apply IH; [exact R1|lia].
  - eexists. split; [reflexivity|]. split; [exact R|]. intros; discriminate.
Qed.

Theorem redo_fuel_sufficient t l : wf_tok t -> exists r, redo sb REDO_FUEL t l = Some r.
Proof.
  intros H. destruct (redo_total REDO_FUEL t l H) as (r & Hr & _).
  - pose proof (mus_bound (stack t)). unfold REDO_FUEL. lia.
  - eauto.
Qed.

Lemma run_total bytes : forall t l, wfs (stack t) = true ->
  exists t' l', run sb bytes t l = LOut t' l' /\ wfs (stack t') = true.
Proof.
  induction bytes as [|b rest IH]; intros t l Hw; cbn [run].
  - eexists _, _. split; [reflexivity|exact Hw].
  - destruct (if validate_utf8 t then validate_utf8_step b (nbytes l) else Some (nbytes l)) as [nb|].
    2:{ eexists _, _. split; [reflexivity|exact Hw]. }
    destruct (redo_total REDO_FUEL t (mkloc b nb (lobj l) (lnum l)) Hw) as (r & Hr & Hwr & Hnr).
    { pose proof (mus_bound (stack t)). unfold REDO_FUEL. lia. }
    rewrite Hr. destruct r as [t1 l1|t1 l1|t1 l1]; cbn [sres_tok] in Hwr.
    + destruct (b =? 0).
      * eexists _, _. split; [reflexivity|exact Hwr].
      * apply IH. exact Hwr.
    + exfalso. eapply Hnr. reflexivity.
    + eexists _, _. split; [reflexivity|exact Hwr].
Qed.

(* a call from a well-formed state always produces an outcome; the state stays well formed
   except in one corner: a success reported at depth > 0 (a NUL byte inside a comment that
   follows a complete value inside a container), after which the parser must be reset *)
Theorem parse_total t bytes :
  wf_tok t -> exists t' r, parse_ex sb t bytes = PR t' r /\
                          (err t' <> TE_success \/ depth t' = 0 -> wf_tok t').
Proof.
  intros H. unfold parse_ex.
  destruct (run_total bytes (set_err (set_off t 0) TE_success) (mkloc 1 0 JNull None) H) as (t1 & l1 & -> & Hw1).
  unfold finish_call.
  match goal with |- context [if ?b then set_err ?x TE_utf8 else _] => set (ta := if b then set_err x TE_utf8 else x);
    assert (Ha : stack ta = stack t1) by (subst ta; destruct b; reflexivity) end.
  match goal with |- context [if ?b then set_err ?x TE_unexpected else _] => set (tb := if b then set_err x TE_unexpected else x);
    assert (Hb : stack tb = stack ta) by (subst tb; destruct b; reflexivity) end.
  match goal with |- context [if ?b then set_err ?x TE_eof else _] => set (tc := if b then set_err x TE_eof else x);
    assert (Hc : stack tc = stack tb) by (subst tc; destruct b; reflexivity) end.
  assert (Hwc : wfs (stack tc) = true) by (rewrite Hc, Hb, Ha; exact Hw1).
  destruct (err tc) eqn:Ee; eexists _, _; (split; [reflexivity|]); intros Hcond; try exact Hwc.
  (* success: all levels are reset; well formed when only one level remains *)
  destruct Hcond as [Hcond|Hcond]; [exfalso; apply Hcond; exact Ee|].
  unfold wf_tok, wfb, reset_levels, depth in *. cbn [stack set_stack] in *.
  rewrite zlen_map in Hcond. destruct (stack tc) as [|s0 [|s1 r]]; cbn [zlen map] in *; try reflexivity.
  - discriminate.
  - pose proof (zlen_nonneg r). lia.
Qed.
End S.

(* reset *)
Lemma reset_levels_as_new t :
  stack (tok_reset t) = [fresh_level] /\ err (tok_reset t) = TE_success /\ cfg0 (tok_reset t) = cfg0 t.
Proof. repeat split. Qed.
Lemma tok_reset_wf t : wf_tok (tok_reset t). Proof. reflexivity. Qed.
Lemma tok_new_wf d s a v t : tok_new d s a v = Some t -> wf_tok t.
Proof. unfold tok_new. destruct (d <? 1); [discriminate|]. intros H; inversion H. reflexivity. Qed.

(* the corner that parse_total used to name is gone (fix "a finished value inside an open container does not end
   the text"): the C string  [1 slash star  was reported as success with the value 1 while one level was still
   open; the end-of-text test now also requires depth 0, and the text is refused as incomplete *)
Lemma open_container_at_nul_is_eof :
  exists t t', tok_new 32 false false false = Some t /\
    parse_ex_cstr (fun _ => 0) t [91;49;32;47;42] = PR t' None /\ err t' = TE_eof.
Proof. eexists _, _. split; [reflexivity|]. vm_compute. split; reflexivity. Qed.

(* reset: examples where the fields that reset leaves alone are stale, evaluated inside Coq:
   (1) an abandoned string ending in the escape ud800, then reset, then the string u0041 gives A,
       as a new parser does;
   (2) an abandoned number 12, then reset, then true gives true *)
Definition two_calls (first second : list byte) : option (terr * option jv) :=
  match tok_new 32 false false false with
  | Some t => match parse_ex (fun _ => 0) t first with
              | PR t1 _ => match parse_ex (fun _ => 0) (tok_reset t1) second with
                           | PR t2 r => Some (err t2, r) | PRFuel => None end
              | PRFuel => None end
  | None => None
  end.
Definition fresh_call (second : list byte) : option (terr * option jv) :=
  match tok_new 32 false false false with
  | Some t => match parse_ex (fun _ => 0) t second with PR t2 r => Some (err t2, r) | PRFuel => None end
  | None => None
  end.
Definition reset_examples_ok : bool :=
  match two_calls [34;92;117;100;56;48;48] [34;92;117;48;48;52;49;34;32], fresh_call [34;92;117;48;48;52;49;34;32] with
  | Some (TE_success, Some (JStr [65])), Some (TE_success, Some (JStr [65])) => true | _, _ => false end &&
  match two_calls [49;50] [116;114;117;101;32], fresh_call [116;114;117;101;32] with
  | Some (TE_success, Some (JBool true)), Some (TE_success, Some (JBool true)) => true | _, _ => false end.
Lemma reset_examples : reset_examples_ok = true.
Proof. vm_compute. reflexivity. Qed.
