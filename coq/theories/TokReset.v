(* TokReset.v — well-formed tokener states, the bound on the redo chain (totality, C04),
   and reset (C04). *)
From JC Require Import Base BaseLemmas Value TokModel TokFrame TokStack TokTotal.
Local Open Scope Z_scope.

(* states in which whitespace/comments are being skipped: the saved state is where to go next *)
Definition ws_like (s : tstate) : bool :=
  match s with S_eatws | S_comment_start | S_comment | S_comment_eol | S_comment_end => true | _ => false end.
Definition esc_like (s : tstate) : bool :=
  match s with S_string_escape | S_escape_unicode | S_need_escape | S_need_u => true | _ => false end.
Definition after_ws (v : tstate) : bool :=
  match v with
  | S_start | S_finish | S_array | S_array_sep | S_array_after_sep | S_object_field_start
  | S_object_field_start_after_sep | S_object_field_end | S_object_value | S_object_sep => true
  | _ => false end.
Definition str_like (v : tstate) : bool := match v with S_string | S_object_field => true | _ => false end.
Definition add_like (s : tstate) : bool := match s with S_array_add | S_object_value_add => true | _ => false end.

Definition wf_top (s v : tstate) : bool :=
  (if ws_like s then after_ws v else true) && (if esc_like s then str_like v else true).

Definition wfb (t : tok) : bool :=
  match stack t with
  | top :: below => wf_top (s_state top) (s_saved top) && forallb (fun r => add_like (s_state r)) below
  | [] => false
  end.
Definition wf_tok (t : tok) : Prop := wfb t = true.

(* length of the longest redo chain that can start in a state *)
Definition rk0 (s : tstate) : nat :=
  match s with
  | S_need_escape | S_need_u => 1
  | S_array_add | S_object_value_add => 2
  | S_finish => 3
  | S_inf | S_null | S_boolean => 5
  | S_number => 6
  | S_start => 7
  | S_array | S_array_after_sep | S_object_value => 9
  | _ => 0
  end%nat.
Definition rk (s v : tstate) : nat := match s with S_eatws => S (rk0 v) | _ => rk0 s end.
Definition mu (t : tok) : nat := match stack t with top :: _ => rk (s_state top) (s_saved top) | [] => 0%nat end.

Section S.
Variable sb : list byte -> Z.

Lemma step1_wf_mu t l :
  wf_tok t ->
  match step1 sb t l with
  | Consumed t' _ => wf_tok t'
  | Redo t' _ => wf_tok t' /\ (mu t' < mu t)%nat
  | Out _ _ => True
  end.
Proof.
  unfold wf_tok. destruct t as [stk md p dbl sp uc hs qc sf af vf off e].
  destruct stk as [|[s v cur nm] below]; [discriminate|].
  unfold wfb, mu; cbn [stack s_state s_saved]. intros H. apply andb_true_iff in H. destruct H as [Ht Hb].
  destruct s; unfold step1, st, sv, top; cbn [stack s_state s_saved s_cur s_name].
  all: try (destruct v; try discriminate Ht).
  all: unfold fail, finish_unicode, emit_unicode, resolve_pair, value_done, set_state, set_saved, set_top, append,
         set_pb, set_st_pos, set_quote, set_is_double, set_ucs, set_high, set_stack, set_err, sv, st, top, depth;
       cbn [stack max_depth pb is_double st_pos ucs_char high_surrogate quote_char strict allow_trailing
            validate_utf8 char_offset err s_state s_saved s_cur s_name fst snd].
  all: repeat match goal with
              | |- context [if ?b then _ else _] => destruct b
              | |- context [match classify_number ?a ?x with _ => _ end] => destruct (classify_number a x)
              | |- context [match lnum ?x with _ => _ end] => destruct (lnum x)
              | |- context [match below with _ => _ end] => destruct below as [|[ps pv pc pn] below']
              end;
       cbn [stack s_state s_saved fst snd forallb wf_top ws_like esc_like after_ws str_like add_like andb rk rk0] in *;
       try exact I; try (split; [|lia]); try reflexivity; try assumption.
Qed.
End S.
