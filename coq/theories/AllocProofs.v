(* AllocProofs.v — proofs about AllocModel.v (C08), and the fault lemmas of the print buffer
   (C19), the array list (C07), the hash table / object add (C06) and the string node (C11)
   restated in the uniform shape [op_fault_clean].  Every statement quantifies over the
   allocator oracle: all single faults, all double faults, all other patterns. *)
From JC Require Import Base BaseLemmas Value PbModel SerModel AllocModel.
From JC Require PbProofs AlModel AlProofs LhModel LhProofs StrModel StrProofs.
From JC Require Properties_C19 Properties_C07 Properties_C06 Properties_C11.
From Coq Require Import Permutation Arith.
Local Open Scope Z_scope.

(* ------------------------------------------------------------------ multisets of blocks *)
Fixpoint cnt (x : nat) (l : list nat) : nat :=
  match l with [] => 0 | y :: t => (if Nat.eqb x y then 1 else 0) + cnt x t end%nat.

Lemma cnt_app x a b : cnt x (a ++ b) = (cnt x a + cnt x b)%nat.
Proof. induction a as [|y a IH]; cbn; [reflexivity|rewrite IH; lia]. Qed.

Lemma cnt_count_occ x l : cnt x l = count_occ Nat.eq_dec l x.
Proof.
  induction l as [|y l IH]; cbn; [reflexivity|].
  destruct (Nat.eq_dec y x) as [->|N].
  - rewrite Nat.eqb_refl, IH. reflexivity.
  - destruct (Nat.eqb x y) eqn:E; [apply Nat.eqb_eq in E; congruence|]. rewrite IH. reflexivity.
Qed.

Lemma perm_cnt a b : Permutation a b <-> (forall x, cnt x a = cnt x b).
Proof.
  rewrite (Permutation_count_occ Nat.eq_dec). split; intros H x; specialize (H x);
    rewrite ?cnt_count_occ in *; assumption.
Qed.

Lemma remove1_cnt x l l' : remove1 x l = Some l' ->
  forall y, cnt y l = ((if Nat.eqb y x then 1 else 0) + cnt y l')%nat.
Proof.
  revert l'. induction l as [|z l IH]; cbn; intros l' H y; [discriminate|].
  destruct (Nat.eqb x z) eqn:E.
  - apply Nat.eqb_eq in E. subst z. inversion H; subst. reflexivity.
  - destruct (remove1 x l) as [t|]; [|discriminate]. inversion H; subst. cbn.
    rewrite (IH t eq_refl y). lia.
Qed.

Lemma remove1_ok x l : (1 <= cnt x l)%nat -> exists l', remove1 x l = Some l'.
Proof.
  induction l as [|z l IH]; cbn; intros H; [lia|].
  destruct (Nat.eqb x z) eqn:E; [eauto|]. destruct IH as (t & ->); [lia|eauto].
Qed.

Lemma remove1_head x l : remove1 x (x :: l) = Some l.
Proof. cbn. rewrite Nat.eqb_refl. reflexivity. Qed.

Lemma free_head b n l : free b (mkast n (b :: l)) = Ok tt (mkast n l).
Proof. unfold free. cbn [live nreq]. rewrite remove1_head. reflexivity. Qed.

(* releasing blocks that are all live succeeds and removes exactly them *)
Lemma free_list_ok bs : forall s r,
  (forall y, cnt y (live s) = (cnt y bs + cnt y r)%nat) ->
  exists s', free_list bs s = Ok tt s' /\ (forall y, cnt y (live s') = cnt y r) /\ nreq s' = nreq s.
Proof.
  induction bs as [|b bs IH]; intros s r H; cbn [free_list].
  - exists s. split; [reflexivity|]. split; [intros y; rewrite H; reflexivity|reflexivity].
  - unfold free. destruct (remove1_ok b (live s)) as (l' & Hl).
    { rewrite H. cbn. rewrite Nat.eqb_refl. lia. }
    rewrite Hl. destruct (IH (mkast (nreq s) l') r) as (s' & -> & Hc & Hn).
    { intros y. cbn [live]. pose proof (remove1_cnt _ _ _ Hl y) as E. rewrite H in E. cbn in E.
      lia. }
    exists s'. auto.
Qed.

(* the blocks just obtained are released in reverse order: exact list equality *)
Lemma free_list_prefix got : forall n L,
  free_list got (mkast n (got ++ L)) = Ok tt (mkast n L).
Proof.
  induction got as [|b got IH]; intros n L; [reflexivity|].
  change ((b :: got) ++ L) with (b :: got ++ L). cbn [free_list]. rewrite free_head. apply IH.
Qed.

Ltac ledger :=
  repeat (cbn [alloc free fail_after live nreq fst snd] in *;
          rewrite ?remove1_head, ?Nat.eqb_refl in *).

(* ------------------------------------------------------------------ constructors with roll-back *)
(* success: exactly the new blocks are added; failure: the ledger of live blocks is what it
   was (every block obtained so far was released, once); never a bad release *)
Theorem new_double_s_clean o s :
  op_fault_clean same_live s (fun s' r => live s' = snd r :: fst r :: live s) (res_out (new_double_s o s)).
Proof.
  unfold new_double_s, alloc, same_live. destruct (o (nreq s)); cbn; [|reflexivity].
  destruct (o (S (nreq s))); cbn; [reflexivity|]. unfold free. cbn. rewrite Nat.eqb_refl. reflexivity.
Qed.

Theorem printbuf_new_clean o s :
  op_fault_clean same_live s (fun s' r => live s' = snd r :: fst r :: live s) (res_out (printbuf_new o s)).
Proof.
  unfold printbuf_new, alloc, same_live. destruct (o (nreq s)); cbn; [|reflexivity].
  destruct (o (S (nreq s))); cbn; [reflexivity|]. unfold free. cbn. rewrite Nat.eqb_refl. reflexivity.
Qed.

Lemma lh_table_new_spec o s :
  match lh_table_new o s with
  | Ok (t, tab) s' => live s' = tab :: t :: live s /\ nreq s' = S (S (nreq s)) /\ t = nreq s /\ tab = S (nreq s)
  | Fail s' => live s' = live s
  | UB => False
  end.
Proof.
  unfold lh_table_new, alloc. destruct (o (nreq s)); cbn; [|reflexivity].
  destruct (o (S (nreq s))); cbn; [auto|]. unfold free. cbn. rewrite Nat.eqb_refl. reflexivity.
Qed.

Theorem lh_table_new_clean o s :
  op_fault_clean same_live s (fun s' r => live s' = snd r :: fst r :: live s) (res_out (lh_table_new o s)).
Proof.
  pose proof (lh_table_new_spec o s) as H. destruct (lh_table_new o s) as [[t tab] s'|s'|]; cbn; tauto.
Qed.

Theorem new_object_clean o s :
  op_fault_clean same_live s
    (fun s' r => live s' = snd r :: snd (fst r) :: fst (fst r) :: live s) (res_out (new_object o s)).
Proof.
  unfold new_object, same_live. unfold alloc at 1. destruct (o (nreq s)); cbn; [|reflexivity].
  pose proof (lh_table_new_spec o (mkast (S (nreq s)) (nreq s :: live s))) as H.
  destruct (lh_table_new o _) as [[t tab] s'|s'|]; cbn in *; [tauto| |contradiction].
  unfold free. rewrite H. cbn. rewrite Nat.eqb_refl. reflexivity.
Qed.

Theorem new_array_clean o s :
  op_fault_clean same_live s
    (fun s' r => live s' = snd r :: snd (fst r) :: fst (fst r) :: live s) (res_out (new_array o s)).
Proof.
  unfold new_array, array_list_new2, alloc, same_live. destruct (o (nreq s)); cbn; [|reflexivity].
  destruct (o (S (nreq s))); cbn.
  - destruct (o (S (S (nreq s)))); cbn; [reflexivity|].
    unfold free. cbn. rewrite Nat.eqb_refl. cbn. rewrite Nat.eqb_refl. reflexivity.
  - unfold free. cbn. rewrite Nat.eqb_refl. reflexivity.
Qed.

Theorem tokener_new_clean o s :
  op_fault_clean same_live s (fun s' r => live s' = rev r ++ live s /\ length r = 4%nat)
    (res_out (tokener_new o s)).
Proof.
  unfold tokener_new, printbuf_new, alloc, same_live. destruct (o (nreq s)); cbn; [|reflexivity].
  destruct (o (S (nreq s))); cbn.
  - destruct (o (S (S (nreq s)))); cbn.
    + destruct (o (S (S (S (nreq s))))); cbn; [auto|].
      unfold free. cbn. rewrite !Nat.eqb_refl. cbn. rewrite !Nat.eqb_refl. cbn. rewrite !Nat.eqb_refl. reflexivity.
    + unfold free. cbn. rewrite !Nat.eqb_refl. cbn. rewrite !Nat.eqb_refl. reflexivity.
  - unfold free. cbn. rewrite Nat.eqb_refl. reflexivity.
Qed.

(* all of them succeed when the allocator cooperates: the failures are not spurious *)
Example ctors_nonvacuous :
  new_double_s no_fault (mkast 7 [3%nat]) = Ok (7%nat, 8%nat) (mkast 9 [8; 7; 3]%nat) /\
  new_double_s (single_fault 8) (mkast 7 [3%nat]) = Fail (mkast 9 [3%nat]) /\
  tokener_new no_fault (mkast 0 []) = Ok [0; 1; 2; 3]%nat (mkast 4 [3; 2; 1; 0]%nat) /\
  tokener_new (single_fault 3) (mkast 0 []) = Fail (mkast 4 []) /\
  new_object (single_fault 2) (mkast 0 []) = Fail (mkast 3 []) /\
  new_array (single_fault 1) (mkast 0 []) = Fail (mkast 2 []).
Proof. vm_compute. repeat split. Qed.

(* ------------------------------------------------------------------ json_object_object_add_ex *)
Lemma cnt_fm_app y (a b : list oent) :
  cnt y (flat_map ent_blocks (a ++ b)) = (cnt y (flat_map ent_blocks a) + cnt y (flat_map ent_blocks b))%nat.
Proof. rewrite flat_map_app, cnt_app. reflexivity. Qed.

Lemma cnt_ent y e :
  cnt y (ent_blocks e) = (cnt y (match e_kblk e with Some b => [b] | None => [] end) + cnt y (e_val e))%nat.
Proof. unfold ent_blocks. apply cnt_app. Qed.

Ltac cn :=
  repeat (cbn [cnt flat_map app t_struct t_array t_ents t_size e_kblk e_val e_key live nreq] in *;
          rewrite ?cnt_app, ?flat_map_app, ?cnt_ent in *).

Lemma table_resize_spec o t ns s rest :
  (forall y, cnt y (live s) = (cnt y (tab_blocks t) + cnt y rest)%nat) ->
  match table_resize o t ns s with
  | Ok t' s' => (forall y, cnt y (live s') = (cnt y (tab_blocks t') + cnt y rest)%nat) /\
                t_ents t' = t_ents t /\ t_struct t' = t_struct t /\ t_size t' = ns
  | Fail s' => live s' = live s
  | UB => False
  end.
Proof.
  intros H. unfold table_resize. pose proof (lh_table_new_spec o s) as N.
  destruct (lh_table_new o s) as [[nt ntab] s1|s1|]; [|exact N|contradiction].
  destruct N as (L1 & _). unfold free.
  destruct (remove1_ok (t_array t) (live s1)) as (l2 & R2).
  { rewrite L1. cbn [cnt]. rewrite H. cbn [tab_blocks cnt]. rewrite Nat.eqb_refl. lia. }
  rewrite R2. cbn [nreq live].
  pose proof (remove1_cnt _ _ _ R2) as C2.
  destruct (remove1_ok nt l2) as (l3 & R3).
  { pose proof (C2 nt) as E. rewrite L1 in E. cbn [cnt] in E. rewrite Nat.eqb_refl in E.
    pose proof (H nt) as E2. cbn [tab_blocks cnt] in E2.
    destruct (Nat.eqb nt (t_array t)); lia. }
  rewrite R3. cbn [nreq live]. pose proof (remove1_cnt _ _ _ R3) as C3.
  split; [|auto]. intros y. cbn [tab_blocks cnt t_struct t_array t_ents].
  specialize (C2 y). specialize (C3 y). specialize (H y). rewrite L1 in C2. cbn [cnt tab_blocks] in *.
  destruct (Nat.eqb y (t_array t)), (Nat.eqb y nt), (Nat.eqb y ntab), (Nat.eqb y (t_struct t)); lia.
Qed.

Lemma table_insert_spec o t e s rest :
  (forall y, cnt y (live s) = (cnt y (tab_blocks t) + cnt y (ent_blocks e) + cnt y rest)%nat) ->
  match table_insert o t e s with
  | Ok t' s' => (forall y, cnt y (live s') = (cnt y (tab_blocks t') + cnt y rest)%nat) /\
                t_ents t' = t_ents t ++ [e] /\ t_struct t' = t_struct t
  | Fail s' => live s' = live s
  | UB => False
  end.
Proof.
  intros H. unfold table_insert.
  assert (P : forall t' s', t_ents t' = t_ents t ->
            (forall y, cnt y (live s') = (cnt y (tab_blocks t') + cnt y (ent_blocks e ++ rest))%nat) ->
            forall y, cnt y (live s') =
              (cnt y (tab_blocks (mkot (t_struct t') (t_array t') (t_size t') (t_ents t' ++ [e]))) + cnt y rest)%nat).
  { intros t' s' He Hc y. rewrite (Hc y). cbn [tab_blocks cnt t_struct t_array t_ents].
    rewrite cnt_fm_app, cnt_app. cbn [flat_map]. rewrite app_nil_r. lia. }
  destruct (LhModel.load_test (t_count t) (t_size t)).
  - destruct (t_size t =? INT_MAX); [reflexivity|].
    pose proof (table_resize_spec o t (if t_size t >? INT_MAX / 2 then INT_MAX else t_size t * 2) s
                  (ent_blocks e ++ rest)) as R.
    destruct (table_resize o t _ s) as [t' s'|s'|].
    + destruct R as (Hc & He & Hs & _); [intros y; rewrite cnt_app, H; lia|].
      split; [apply P; assumption|]. cbn [t_ents t_struct]. rewrite He. auto.
    + apply R. intros y. rewrite cnt_app, H. lia.
    + apply R. intros y. rewrite cnt_app, H. lia.
  - split; [|auto]. apply P; [reflexivity|]. intros y. rewrite cnt_app, H. lia.
Qed.

Lemma lookup_split k v d : forall es n, lookup k es = Some n ->
  exists es1 e es2, es = es1 ++ e :: es2 /\ nth n es d = e /\
                    set_val es n v = es1 ++ mkoe (e_kblk e) (e_key e) v :: es2.
Proof.
  induction es as [|e es IH]; cbn; intros n H; [discriminate|].
  destruct (key_eqb (e_key e) k).
  - inversion H; subst. exists [], e, es. auto.
  - destruct (lookup k es) as [m|]; [|discriminate]. inversion H; subst.
    destruct (IH m eq_refl) as (es1 & e' & es2 & -> & Hn & Hs).
    exists (e :: es1), e', es2. cbn. rewrite Hn, Hs. auto.
Qed.

(* The repaired code, every allocator behaviour, every table, key, value and flag combination.
   Before the call the live blocks are those of the table, those of the value [v] (the
   caller's) and [rest].  On success the table owns the value and, unless the key is a
   constant, one new key block; nothing else changed hands.  On failure exactly the same
   blocks are live as before (nothing leaked, nothing released: the value is still the
   caller's, the table is untouched), and failure happens only for an absent key.  No
   block is ever released twice. *)
Theorem object_add_clean o t k v (is_new cst : bool) s rest :
  Permutation (live s) (tab_blocks t ++ v ++ rest) ->
  op_fault_clean same_live s
    (fun s' t' =>
       Permutation (live s') (tab_blocks t' ++ rest) /\ t_struct t' = t_struct t /\
       match (if is_new then @None nat else lookup k (t_ents t)) with
       | Some n => t_ents t' = set_val (t_ents t) n v /\ t_array t' = t_array t
       | None => exists kb, t_ents t' = t_ents t ++ [mkoe kb k v] /\ (cst = true <-> kb = None)
       end)
    (res_out (object_add o t k v is_new cst s)).
Proof.
  intros HP. rewrite perm_cnt in HP.
  unfold object_add, object_add_gen.
  destruct (if is_new then None else lookup k (t_ents t)) as [n|] eqn:EL.
  - (* the key exists: the old value is released, the new one stored *)
    assert (Hl : lookup k (t_ents t) = Some n) by (destruct is_new; [discriminate|exact EL]).
    destruct (lookup_split k v (mkoe None [] []) _ _ Hl) as (es1 & e & es2 & Hes & Hn & Hs).
    rewrite Hn.
    destruct (free_list_ok (e_val e) s
                (t_struct t :: t_array t :: flat_map ent_blocks es1 ++
                 (match e_kblk e with Some b => [b] | None => [] end) ++ flat_map ent_blocks es2 ++ v ++ rest))
      as (s1 & -> & Hc & _).
    { intros y. rewrite HP. unfold tab_blocks. rewrite Hes. cn. lia. }
    cbn [res_out op_fault_clean]. split; [|split; [reflexivity|split; reflexivity]].
    rewrite perm_cnt. intros y. rewrite Hc. unfold tab_blocks. cbn [t_struct t_array t_ents]. rewrite Hs. cn. lia.
  - destruct cst.
    + (* constant key: nothing to copy *)
      pose proof (table_insert_spec o t (mkoe None k v) s rest) as T.
      destruct (table_insert o t (mkoe None k v) s) as [t' s'|s'|]; cbn [res_out op_fault_clean].
      * destruct T as (Hc & He & Hs).
        { intros y. rewrite HP, !cnt_app. unfold ent_blocks. cbn. lia. }
        split; [rewrite perm_cnt; intros y; rewrite Hc, cnt_app; reflexivity|].
        split; [exact Hs|]. exists None. split; [exact He|tauto].
      * apply T. intros y. rewrite HP, !cnt_app. unfold ent_blocks. cbn. lia.
      * apply T. intros y. rewrite HP, !cnt_app. unfold ent_blocks. cbn. lia.
    + (* strdup(key), insert, roll back *)
      unfold alloc. destruct (o (nreq s)); [|reflexivity].
      set (s1 := mkast (S (nreq s)) (nreq s :: live s)).
      pose proof (table_insert_spec o t (mkoe (Some (nreq s)) k v) s1 rest) as T.
      assert (Hpre : forall y, cnt y (live s1) =
                (cnt y (tab_blocks t) + cnt y (ent_blocks (mkoe (Some (nreq s)) k v)) + cnt y rest)%nat).
      { intros y. unfold s1. cbn [live cnt]. rewrite HP. unfold tab_blocks. cn. lia. }
      destruct (table_insert o t (mkoe (Some (nreq s)) k v) s1) as [t' s'|s'|]; cbn [res_out op_fault_clean].
      * destruct (T Hpre) as (Hc & He & Hs).
        split; [rewrite perm_cnt; intros y; rewrite Hc, cnt_app; reflexivity|].
        split; [exact Hs|]. exists (Some (nreq s)). split; [exact He|]. split; discriminate.
      * specialize (T Hpre). unfold free. rewrite T. unfold s1. cbn [live nreq].
        rewrite remove1_head. reflexivity.
      * exact (T Hpre).
Qed.

(* negative control: the code BEFORE commit f86b8ce.  A table of 11 members in 16 slots must
   grow for the 12th; the first allocation of the call is the key copy (request 100), the
   second the new table struct (request 101).  When that one is refused the call returns -1
   and the key copy — block 100 — is still live although nobody refers to it. *)
Definition ex_tab11 : otab :=
  mkot 0 1 16 (map (fun i => mkoe (Some (2 + i)%nat) [Z.of_nat i] []) (seq 0 11)).
Definition ex_s11 : ast := mkast 100 (tab_blocks ex_tab11).

Theorem object_add_key_leak_refuted :
  object_add_orig (single_fault 101) ex_tab11 [120] [] false false ex_s11
    = Fail (mkast 102 (100%nat :: live ex_s11)) /\
  ~ op_fault_clean same_live ex_s11 (fun _ _ => True)
      (res_out (object_add_orig (single_fault 101) ex_tab11 [120] [] false false ex_s11)).
Proof.
  assert (E : object_add_orig (single_fault 101) ex_tab11 [120] [] false false ex_s11
              = Fail (mkast 102 (100%nat :: live ex_s11))) by (vm_compute; reflexivity).
  split; [exact E|]. rewrite E. cbn [res_out op_fault_clean]. unfold same_live. cbn [live].
  intros H. apply (f_equal (@length nat)) in H. cbn in H. lia.
Qed.

(* the same call through the repaired code: clean; and with a cooperating allocator the
   table grows to 32 slots and owns the key copy *)
Example object_add_nonvacuous :
  object_add (single_fault 101) ex_tab11 [120] [] false false ex_s11 = Fail (mkast 102 (live ex_s11)) /\
  object_add (single_fault 102) ex_tab11 [120] [] false false ex_s11 = Fail (mkast 103 (live ex_s11)) /\
  match object_add no_fault ex_tab11 [120] [] false false ex_s11 with
  | Ok t' s' => t_size t' = 32 /\ zlen (t_ents t') = 12 /\ t_array t' = 102%nat /\
                Permutation (live s') (tab_blocks t')
  | _ => False
  end.
Proof.
  split; [vm_compute; reflexivity|]. split; [vm_compute; reflexivity|].
  vm_compute. repeat split. rewrite perm_cnt. intros x. vm_compute.
  repeat (destruct x as [|x]; [reflexivity|]). reflexivity.
Qed.

(* ------------------------------------------------------------------ array add and the tokener's attach step *)
Lemma arr_expand_spec o a max s rest :
  (forall y, cnt y (live s) = (cnt y (arr_blocks a) + cnt y rest)%nat) ->
  match arr_expand o a max s with
  | Ok a' s' => (forall y, cnt y (live s') = (cnt y (arr_blocks a') + cnt y rest)%nat) /\
                ar_elems a' = ar_elems a /\ ar_len a' = ar_len a
  | Fail s' => live s' = live s
  | UB => False
  end.
Proof.
  intros H. unfold arr_expand. destruct (max <? ar_size a); [auto|].
  match goal with |- context [if ?c then Fail s else _] => destruct c end; [reflexivity|].
  unfold realloc. destruct (o (nreq s)); [|reflexivity].
  destruct (remove1_ok (ar_store a) (live s)) as (l & R).
  { rewrite H. unfold arr_blocks. cbn [cnt]. rewrite Nat.eqb_refl. lia. }
  rewrite R. split; [|auto]. intros y. pose proof (remove1_cnt _ _ _ R y) as C. specialize (H y).
  unfold arr_blocks in *. cbn [cnt live ar_node ar_struct ar_store ar_elems] in *.
  destruct (Nat.eqb y (ar_store a)); lia.
Qed.

Lemma arr_add_spec o a child s rest :
  (forall y, cnt y (live s) = (cnt y (arr_blocks a) + cnt y child + cnt y rest)%nat) ->
  match arr_add o a child s with
  | Ok a' s' => (forall y, cnt y (live s') = (cnt y (arr_blocks a') + cnt y rest)%nat) /\
                ar_elems a' = ar_elems a ++ [child] /\ ar_len a' = ar_len a + 1
  | Fail s' => live s' = live s
  | UB => False
  end.
Proof.
  intros H. unfold arr_add. destruct (ar_len a >? SIZE_MAX - 1); [reflexivity|].
  pose proof (arr_expand_spec o a (ar_len a + 1) s (child ++ rest)) as E.
  destruct (arr_expand o a (ar_len a + 1) s) as [a1 s1|s1|].
  - destruct E as (Hc & He & Hl); [intros y; rewrite cnt_app, H; lia|].
    split; [|cbn [ar_elems ar_len]; rewrite He, Hl; auto].
    intros y. rewrite (Hc y), cnt_app. unfold arr_blocks. cbn [cnt ar_node ar_struct ar_store ar_elems].
    rewrite concat_app, cnt_app. cbn [concat]. rewrite app_nil_r. lia.
  - apply E. intros y. rewrite cnt_app, H. lia.
  - apply E. intros y. rewrite cnt_app, H. lia.
Qed.

(* array_list_add on its own, in the uniform shape *)
Theorem arr_add_clean o a child s rest :
  Permutation (live s) (arr_blocks a ++ child ++ rest) ->
  op_fault_clean same_live s
    (fun s' a' => Permutation (live s') (arr_blocks a' ++ rest) /\ ar_elems a' = ar_elems a ++ [child])
    (res_out (arr_add o a child s)).
Proof.
  intros HP. rewrite perm_cnt in HP. pose proof (arr_add_spec o a child s rest) as A.
  destruct (arr_add o a child s) as [a' s'|s'|]; cbn [res_out op_fault_clean].
  - destruct A as (Hc & He & _); [intros y; rewrite HP, !cnt_app; lia|].
    split; [|exact He]. rewrite perm_cnt. intros y. rewrite Hc, cnt_app. reflexivity.
  - apply A. intros y. rewrite HP, !cnt_app. lia.
  - apply A. intros y. rewrite HP, !cnt_app. lia.
Qed.

(* The attach step after commit 1c6a7b2.  Before it the live blocks are: the current array
   (or object), the finished child — referenced by the call-local only — and [rest] (the
   tokener, its stack, the member name, the levels below).  Either the child now belongs to
   the container, or the parse stops with "memory" and exactly the child's blocks have been
   released: what is live is the container as it was and [rest]. *)
Theorem attach_array_clean o cur child s rest :
  Permutation (live s) (arr_blocks cur ++ child ++ rest) ->
  op_fault_clean (fun _ s' => Permutation (live s') (arr_blocks cur ++ rest)) s
    (fun s' a' => Permutation (live s') (arr_blocks a' ++ rest) /\ ar_elems a' = ar_elems cur ++ [child])
    (res_out (attach_array o cur child s)).
Proof.
  intros HP. pose proof (arr_add_clean o cur child s rest HP) as A.
  unfold attach_array, attach_array_gen.
  destruct (arr_add o cur child s) as [a' s'|s'|]; cbn [res_out op_fault_clean] in *; [exact A| |exact A].
  unfold same_live in A. rewrite perm_cnt in HP.
  destruct (free_list_ok child s' (arr_blocks cur ++ rest)) as (s2 & -> & Hc & _).
  { intros y. rewrite A, HP, !cnt_app. lia. }
  cbn [fail_after res_out op_fault_clean]. rewrite perm_cnt. exact Hc.
Qed.

Theorem attach_object_clean o cur name child s rest :
  Permutation (live s) (tab_blocks cur ++ child ++ rest) ->
  op_fault_clean (fun _ s' => Permutation (live s') (tab_blocks cur ++ rest)) s
    (fun s' t' => Permutation (live s') (tab_blocks t' ++ rest))
    (res_out (attach_object o cur name child s)).
Proof.
  intros HP. pose proof (object_add_clean o cur name child false false s rest HP) as A.
  unfold attach_object, attach_object_gen.
  destruct (object_add o cur name child false false s) as [t' s'|s'|]; cbn [res_out op_fault_clean] in *;
    [tauto| |exact A].
  unfold same_live in A. rewrite perm_cnt in HP.
  destruct (free_list_ok child s' (tab_blocks cur ++ rest)) as (s2 & -> & Hc & _).
  { intros y. rewrite A, HP, !cnt_app. lia. }
  cbn [fail_after res_out op_fault_clean]. rewrite perm_cnt. exact Hc.
Qed.

(* negative control: the code BEFORE commit 1c6a7b2.  A full array of 32 slots (blocks 0,1,2),
   a child made of blocks 50 and 51, the tokener's block 9: the slot array must grow, the
   realloc (request 100) is refused, the parse stops — and 50, 51 are live with no owner. *)
Definition ex_arr32 : arr := mkarr 0 1 2 32 32 (repeat [] 32).
Definition ex_sa : ast := mkast 100 (arr_blocks ex_arr32 ++ [50; 51; 9]%nat).

Theorem parse_child_leak_refuted :
  attach_array_orig (single_fault 100) ex_arr32 [50; 51]%nat ex_sa = Fail (mkast 101 (live ex_sa)) /\
  ~ op_fault_clean (fun _ s' => Permutation (live s') (arr_blocks ex_arr32 ++ [9%nat])) ex_sa (fun _ _ => True)
      (res_out (attach_array_orig (single_fault 100) ex_arr32 [50; 51]%nat ex_sa)).
Proof.
  assert (E : attach_array_orig (single_fault 100) ex_arr32 [50; 51]%nat ex_sa = Fail (mkast 101 (live ex_sa)))
    by (vm_compute; reflexivity).
  split; [exact E|]. rewrite E. cbn [res_out op_fault_clean live]. intros H.
  apply Permutation_length in H. vm_compute in H. discriminate.
Qed.

Example attach_nonvacuous :
  attach_array (single_fault 100) ex_arr32 [50; 51]%nat ex_sa = Fail (mkast 101 (arr_blocks ex_arr32 ++ [9%nat])) /\
  match attach_array no_fault ex_arr32 [50; 51]%nat ex_sa with
  | Ok a' s' => ar_size a' = 64 /\ ar_len a' = 33 /\ ar_store a' = 100%nat /\ live s' = [100; 0; 1; 50; 51; 9]%nat
  | _ => False
  end /\
  attach_object (single_fault 101) ex_tab11 [120] [50; 51]%nat (mkast 100 (tab_blocks ex_tab11 ++ [50; 51; 9]%nat))
    = Fail (mkast 102 (tab_blocks ex_tab11 ++ [9%nat])).
Proof. vm_compute. repeat split. Qed.

(* ------------------------------------------------------------------ the serializer over the fallible print buffer *)
Definition op_ok (o : pbop) : Prop :=
  match o with
  | OpAppend _ => True
  | OpMemset off _ len => off = -1 /\ 0 <= len
  | _ => False
  end.
Definition ops_ok (l : list tagged) : Prop := Forall (fun t => op_ok (snd t)) l.

Lemma pb_text_abs p : pb_text p = PbProofs.pb_abs p.
Proof. reflexivity. Qed.

(* one call: it appends exactly its bytes, or fails and leaves the buffer as it was (C19) *)
Lemma step_text al p o :
  PbProofs.Inv p -> op_ok o ->
  match pb_step al p o with
  | POk p' _ _ => PbProofs.Inv p' /\ pb_text p' = pb_text p ++ op_bytes o
  | PErr p' _ => p' = p
  | PUB => False
  end.
Proof.
  intros HI Hok. assert (Hwf : PbProofs.op_wf o) by (destruct o; cbn in *; tauto).
  pose proof (PbProofs.step_spec al p o HI Hwf) as S.
  destruct (pb_step al p o) as [p' r ws|p' e|]; [|tauto|exact S].
  destruct S as (HI' & Ha & _). split; [exact HI'|]. rewrite !pb_text_abs, Ha.
  destruct o as [bs| | off c len | |]; cbn in Hok; try contradiction; [reflexivity|].
  destruct Hok as [-> Hlen]. cbn [spec_step op_bytes]. change (-1 =? -1) with true. cbv iota.
  set (s := PbProofs.pb_abs p). rewrite Z.ltb_irrefl.
  rewrite zfirstn_all by lia. rewrite zskipn_all by lia. rewrite app_nil_r. reflexivity.
Qed.

(* the repaired emitters: when they return >= 0 the buffer holds exactly the text of all calls *)
Lemma run_ops_fixed orc : forall ops i p,
  PbProofs.Inv p -> ops_ok ops ->
  match run_ops false orc i p ops with
  | Some (Some p') => PbProofs.Inv p' /\ pb_text p' = pb_text p ++ ops_text ops
  | Some None => True
  | None => False
  end.
Proof.
  induction ops as [|[chk o] ops IH]; intros i p HI Hok; cbn [run_ops].
  - split; [exact HI|]. cbn. rewrite app_nil_r. reflexivity.
  - inversion Hok as [|? ? Ho Hos]; subst. cbn [snd] in Ho.
    pose proof (step_text (orc i) p o HI Ho) as S.
    destruct (pb_step (orc i) p o) as [p' r ws|p' e|]; [|exact I|exact S].
    destruct S as (HI' & Ht). specialize (IH (S i) p' HI' Hos).
    destruct (run_ops false orc (S i) p' ops) as [[q|]|]; [|exact I|exact IH].
    destruct IH as (HIq & Hq). split; [exact HIq|]. rewrite Hq, Ht. unfold ops_text. cbn [flat_map snd].
    rewrite app_assoc. reflexivity.
Qed.

Lemma ops_ok_app a b : ops_ok a -> ops_ok b -> ops_ok (a ++ b).
Proof. intros A B. apply Forall_app. split; assumption. Qed.

Lemma ops_ok_appd c bs : ops_ok (emit c bs).
Proof. repeat constructor. Qed.
Lemma ops_ok_app_if c k bs : ops_ok (emit_if c k bs).
Proof. destruct c; [apply ops_ok_appd|constructor]. Qed.
Lemma ops_ok_esc fl s : ops_ok (esc_ops fl s).
Proof. unfold esc_ops, ops_ok. rewrite Forall_map. apply Forall_forall. intros; exact I. Qed.
Lemma ops_ok_indent fl n : ops_ok (indent_ops fl n).
Proof. unfold indent_ops. destruct (pretty fl); [|constructor]. destruct (pretty_tab fl); repeat constructor; cbn; lia. Qed.
Ltac oksplit := repeat match goal with |- ops_ok (_ ++ _) => apply ops_ok_app end.
Lemma ops_ok_null fl : ops_ok (null_ops fl).
Proof. unfold null_ops. oksplit; auto using ops_ok_appd, ops_ok_app_if. Qed.
Lemma ops_ok_prefix fl n h : ops_ok (prefix_ops fl n h).
Proof. unfold prefix_ops. oksplit; auto using ops_ok_appd, ops_ok_app_if, ops_ok_indent. Qed.
Lemma ops_ok_close fl n h c : ops_ok (close_ops fl n h c).
Proof.
  unfold close_ops. apply ops_ok_app; [|apply ops_ok_appd].
  destruct (pretty fl && h); [|constructor]. apply ops_ok_app; auto using ops_ok_appd, ops_ok_indent.
Qed.
Lemma ops_ok_quoted fl s : ops_ok (quoted_ops fl s).
Proof. unfold quoted_ops. oksplit; auto using ops_ok_appd, ops_ok_esc. Qed.
Lemma ops_ok_join pre items : (forall h, ops_ok (pre h)) -> Forall ops_ok items ->
  forall h, ops_ok (join_ops pre items h).
Proof.
  intros Hp. induction 1 as [|x r Hx Hr IH]; intros h; cbn [join_ops]; [constructor|].
  oksplit; auto.
Qed.
Local Hint Resolve ops_ok_appd ops_ok_app_if ops_ok_esc ops_ok_indent ops_ok_null ops_ok_prefix
  ops_ok_close ops_ok_quoted : okdb.

Section Ser.
Variable fmt17 : Z -> list byte.

Lemma ser_ops_ok fl : forall v level, ops_ok (ser_ops fmt17 fl level v).
Proof.
  induction v as [| b | z | z | bits t | s | l IH | l IH] using jv_ind'; intros level; cbn [ser_ops].
  - auto with okdb.
  - oksplit; auto with okdb.
  - auto with okdb.
  - auto with okdb.
  - destruct t; auto with okdb.
  - oksplit; auto with okdb.
  - oksplit; auto with okdb.
    apply ops_ok_join; [auto with okdb|]. rewrite Forall_map. revert IH. apply Forall_impl.
    intros x Hx. destruct x; cbn [child_ops]; auto with okdb.
  - oksplit; auto with okdb.
    apply ops_ok_join; [auto with okdb|]. rewrite Forall_map. revert IH. apply Forall_impl.
    intros [k x] Hx. cbn [fst snd] in *.
    oksplit; auto with okdb.
    destruct x; cbn [child_ops]; auto with okdb.
Qed.

(* C08, serialization, after commit cfba3e0: for EVERY allocator behaviour during every
   print-buffer call, every tree, every flag word, and whether the buffer is fresh or left
   from an earlier call: the function never reaches undefined behaviour, and when it returns
   a text, that text is the complete fault-free text — never a text with holes. *)
Theorem serialize_fallible_exact pb orc fl v :
  (forall p, pb = Some p -> PbProofs.Inv p) ->
  match serialize_fallible fmt17 pb orc fl v with
  | STxt t => t = ser_text fmt17 fl v
  | SNull => True
  | SUB => False
  end.
Proof.
  intros Hpb. unfold serialize_fallible, serialize_gen, ser_text.
  assert (G : forall p, pb = Some p ->
            match pb_reset p with
            | POk p0 _ _ =>
                match run_ops false orc 0 p0 (ser_ops fmt17 fl 0 v) with
                | Some (Some p') => pb_text p' = ops_text (ser_ops fmt17 fl 0 v)
                | Some None => True
                | None => False
                end
            | _ => False
            end).
  { intros p Hp. pose proof (PbProofs.reset_spec p (Hpb p Hp)) as R.
    destruct (pb_reset p) as [p0 r ws| |]; try contradiction. destruct R as (HI0 & Ha0 & _).
    pose proof (run_ops_fixed orc (ser_ops fmt17 fl 0 v) 0%nat p0 HI0 (ser_ops_ok fl v 0%nat)) as Q.
    destruct (run_ops false orc 0 p0 (ser_ops fmt17 fl 0 v)) as [[q|]|]; auto.
    destruct Q as (_ & Hq). rewrite Hq, pb_text_abs, Ha0. reflexivity. }
  destruct v; try reflexivity;
    (destruct pb as [p|]; [|exact I]; specialize (G p eq_refl);
     destruct (pb_reset p) as [p0 r ws| |]; try contradiction;
     match goal with |- context [run_ops false orc 0 p0 ?ops] =>
       destruct (run_ops false orc 0 p0 ops) as [[q|]|]; auto end).
Qed.

(* not vacuous: with a cooperating allocator the text IS returned (for texts below INT_MAX) *)
Lemma run_ops_served : forall ops i p,
  PbProofs.Inv p -> ops_ok ops -> zlen (pb_text p) + zlen (ops_text ops) <= INT_MAX - 9 ->
  exists p', run_ops false (fun _ _ => true) i p ops = Some (Some p').
Proof.
  induction ops as [|[chk o] ops IH]; intros i p HI Hok Hlen; cbn [run_ops]; [eauto|].
  inversion Hok as [|? ? Ho Hos]; subst. cbn [snd] in Ho.
  unfold ops_text in Hlen. cbn [flat_map snd] in Hlen. rewrite zlen_app in Hlen.
  pose proof (zlen_nonneg (flat_map (fun t => op_bytes (snd t)) ops)) as Hnn.
  pose proof (zlen_nonneg (op_bytes o)) as Hno.
  destruct (PbProofs.fitting_request_served p o HI) as (p' & r & ws & E).
  { destruct o; cbn in Ho |- *; try tauto; lia. }
  { rewrite <- pb_text_abs. destruct o as [bs| | off c len | |]; cbn in Ho; try contradiction;
      cbn [req_size op_bytes] in *.
    - lia.
    - destruct Ho as [-> Hl]. change (-1 =? -1) with true. cbv iota.
      rewrite zlen_zrepeat in Hlen. lia. }
  rewrite E. pose proof (step_text (fun _ => true) p o HI Ho) as S. rewrite E in S. destruct S as (HI' & Ht).
  apply IH; [exact HI'|exact Hos|]. rewrite Ht, zlen_app. unfold ops_text. lia.
Qed.

Theorem serialize_fault_free_returns fl v p :
  PbProofs.Inv p -> zlen (ser_text fmt17 fl v) <= INT_MAX - 9 ->
  serialize_fallible fmt17 (Some p) (fun _ _ => true) fl v = STxt (ser_text fmt17 fl v).
Proof.
  intros HI Hlen.
  pose proof (serialize_fallible_exact (Some p) (fun _ _ => true) fl v) as X.
  assert (Hne : serialize_fallible fmt17 (Some p) (fun _ _ => true) fl v <> SNull).
  { unfold serialize_fallible, serialize_gen. destruct v; try discriminate;
      (pose proof (PbProofs.reset_spec p HI) as R; destruct (pb_reset p) as [p0 r ws| |]; try contradiction;
       destruct R as (HI0 & Ha0 & _);
       match goal with |- context [run_ops false ?orc 0 p0 ?ops] =>
         destruct (run_ops_served ops 0%nat p0 HI0 (ser_ops_ok fl _ 0%nat)) as (q & ->);
           [rewrite pb_text_abs, Ha0; cbn [zlen]; unfold ser_text in Hlen; lia|discriminate] end). }
  destruct (serialize_fallible fmt17 (Some p) (fun _ _ => true) fl v) as [t| |].
  - rewrite X; [reflexivity|]. intros q Hq. inversion Hq; subst. exact HI.
  - congruence.
  - exfalso. apply X. intros q Hq. inversion Hq; subst. exact HI.
Qed.

End Ser.

(* negative control: the code BEFORE commit cfba3e0 on the 40-byte string "aaaa…": the
   opening quote fits the fresh 32-byte buffer, the 40 bytes need it to grow — refused —
   and are skipped, the closing quote fits again: the function returns the text  ""  . *)
Definition ex_str40 : jv := JStr (repeat 97 40).
Definition ex_orc_first_growth : nat -> PbModel.alloc := fun i _ => negb (Nat.eqb i 1).

Theorem ser_fault_wrong_text_refuted :
  serialize_orig (fun _ => []) (Some pb_new) ex_orc_first_growth flags_plain ex_str40 = STxt [34; 34] /\
  ser_text (fun _ => []) flags_plain ex_str40 = 34 :: repeat 97 40 ++ [34] /\
  serialize_fallible (fun _ => []) (Some pb_new) ex_orc_first_growth flags_plain ex_str40 = SNull /\
  serialize_fallible (fun _ => []) (Some pb_new) (fun _ _ => true) flags_plain ex_str40
    = STxt (34 :: repeat 97 40 ++ [34]).
Proof. vm_compute. repeat split. Qed.

(* ------------------------------------------------------------------ the fault-free text is the text of the C02 serializer model *)
Lemma ops_text_app a b : ops_text (a ++ b) = ops_text a ++ ops_text b.
Proof. unfold ops_text. apply flat_map_app. Qed.
Lemma ops_text_appd c bs : ops_text (emit c bs) = bs.
Proof. unfold ops_text, emit. cbn. apply app_nil_r. Qed.
Lemma ops_text_app_if c k bs : ops_text (emit_if c k bs) = if c then bs else [].
Proof. destruct c; [apply ops_text_appd|reflexivity]. Qed.

Lemma escape_char_plain fl c : needs_escape fl c = false -> escape_char fl c = [c].
Proof.
  unfold needs_escape, escape_char. intros H.
  repeat match goal with
         | |- context [if ?x =? ?k then _ else _] => destruct (x =? k) eqn:?; cbn in H; try discriminate
         end.
  - destruct (noslash fl); cbn in H; [|discriminate]. apply Z.eqb_eq in Heqb6. subst. reflexivity.
  - destruct (c <? 32); [cbn in H; discriminate|reflexivity].
Qed.

Lemma esc_chunks_concat fl : forall s run, concat (esc_chunks fl s run) = run ++ escape_str fl s.
Proof.
  unfold escape_str. induction s as [|c s IH]; intros run; cbn [esc_chunks flat_map].
  - destruct run; cbn; rewrite ?app_nil_r; reflexivity.
  - destruct (needs_escape fl c) eqn:E.
    + destruct run as [|z run]; cbn [app]; rewrite !concat_cons, IH; cbn [app]; reflexivity.
    + rewrite IH, (escape_char_plain fl c E), <- app_assoc. reflexivity.
Qed.

Lemma ops_text_esc fl s : ops_text (esc_ops fl s) = escape_str fl s.
Proof.
  unfold esc_ops, ops_text. pose proof (esc_chunks_concat fl s []) as H. cbn [app] in H. rewrite <- H. clear H.
  induction (esc_chunks fl s []) as [|x r IH]; cbn; [reflexivity|]. rewrite IH. reflexivity.
Qed.

Lemma ops_text_indent fl n : ops_text (indent_ops fl n) = indent fl n.
Proof.
  unfold indent_ops, indent. destruct (pretty fl); [|reflexivity].
  destruct (pretty_tab fl); unfold ops_text; cbn [flat_map snd op_bytes]; rewrite app_nil_r;
    unfold zrepeat; rewrite Nat2Z.id; reflexivity.
Qed.

Lemma ops_text_null fl : ops_text (null_ops fl) = colored fl c_magenta s_null.
Proof.
  unfold null_ops, colored. rewrite !ops_text_app, !ops_text_app_if, ops_text_appd.
  destruct (color fl); [reflexivity|apply app_nil_r].
Qed.

Lemma ops_text_quoted fl s : ops_text (quoted_ops fl s) = quoted fl s.
Proof. unfold quoted_ops, quoted. rewrite !ops_text_app, !ops_text_appd, ops_text_esc. reflexivity. Qed.

Lemma ops_text_prefix fl level had :
  ops_text (prefix_ops fl level had) = (if had then [44] else []) ++ child_prefix fl level.
Proof.
  unfold prefix_ops, child_prefix. rewrite !ops_text_app, !ops_text_app_if, ops_text_indent. reflexivity.
Qed.

Lemma ops_text_close fl level had c :
  ops_text (close_ops fl level had c) = container_close fl level had c.
Proof.
  unfold close_ops, container_close. rewrite ops_text_app, ops_text_appd.
  destruct (pretty fl && had); [|reflexivity]. rewrite ops_text_app, ops_text_appd, ops_text_indent. reflexivity.
Qed.

Lemma ops_text_join fl level : forall items had,
  ops_text (join_ops (prefix_ops fl level) items had) =
  join_children (child_prefix fl level) (map ops_text items) had.
Proof.
  induction items as [|x r IH]; intros had; cbn [join_ops join_children map]; [reflexivity|].
  rewrite !ops_text_app, ops_text_prefix, IH, <- !app_assoc. reflexivity.
Qed.

Section SerTie.
Variable fmt17 : Z -> list byte.

Theorem ser_ops_text fl : forall v level,
  ops_text (ser_ops fmt17 fl level v) = serialize fmt17 fl level v.
Proof.
  induction v as [| b | z | z | bits t | s | l IH | l IH] using jv_ind'; intros level;
    cbn [ser_ops serialize].
  - apply ops_text_appd.
  - unfold colored. rewrite !ops_text_app, !ops_text_app_if, ops_text_appd.
    destruct (color fl); [reflexivity|apply app_nil_r].
  - apply ops_text_appd.
  - apply ops_text_appd.
  - destruct t; apply ops_text_appd.
  - unfold colored. rewrite !ops_text_app, !ops_text_app_if, ops_text_quoted.
    destruct (color fl); [reflexivity|apply app_nil_r].
  - rewrite !ops_text_app, ops_text_appd, ops_text_close, ops_text_join, map_map.
    f_equal. f_equal. f_equal. apply map_ext_in. intros x Hx. rewrite Forall_forall in IH.
    destruct x; cbn [child_ops child_text]; try apply IH; try assumption. apply ops_text_null.
  - rewrite !ops_text_app, ops_text_appd, ops_text_close, ops_text_join, map_map.
    f_equal. f_equal. f_equal. apply map_ext_in. intros [k x] Hx. rewrite Forall_forall in IH.
    cbn [fst snd]. rewrite !ops_text_app, !ops_text_app_if, ops_text_quoted, ops_text_appd.
    assert (Hc : ops_text (child_ops fl (ser_ops fmt17 fl (S level)) x) = child_text fl (serialize fmt17 fl (S level)) x).
    { destruct x; cbn [child_ops child_text]; try apply (IH _ Hx). apply ops_text_null. }
    rewrite Hc. unfold colored. destruct (color fl); cbn [app]; rewrite <- ?app_assoc; reflexivity.
Qed.

(* hence: whatever json_object_to_json_string_ext returns under any allocation faults is
   the serialization that C02 is about *)
Theorem ser_text_is_serialize fl v : ser_text fmt17 fl v = serialize fmt17 fl 0 v.
Proof. destruct v; try apply ser_ops_text. reflexivity. Qed.

End SerTie.

(* ------------------------------------------------------------------ the existing developments in the uniform shape *)
(* Each restatement goes through the published statement of the owning property file
   (Properties_C19 / C07 / C06 / C11), so that it follows those developments. *)

(* C19 print buffer: every operation, every allocator behaviour *)
Definition pb_out (r : pres) : outcome pbuf Z :=
  match r with POk p ret _ => Done p ret | PErr p _ => Refused p | PUB => Undefined end.

Theorem pb_fault_clean al p o :
  PbProofs.Inv p -> PbProofs.op_wf o ->
  op_fault_clean eq p
    (fun p' _ => PbProofs.Inv p' /\ PbProofs.pb_abs p' = PbModel.spec_step (PbProofs.pb_abs p) o)
    (pb_out (pb_step al p o)).
Proof.
  intros HI Hwf. pose proof (Properties_C19.C19_step_refines al p o HI Hwf) as S.
  destruct (pb_step al p o) as [p' r ws|p' e|]; cbn [pb_out op_fault_clean]; [tauto| |exact S].
  destruct S as [-> _]. reflexivity.
Qed.

(* C07 array list: add, put, insert, delete, shrink, sort *)
Definition al_out (r : AlModel.ares) : outcome AlModel.alist (list Z) :=
  match r with
  | AlModel.AOk a _ rel _ => Done a rel
  | AlModel.AFail a => Refused a
  | AlModel.AUB => Undefined
  end.

Theorem al_fault_clean al a o :
  AlProofs.Inv a -> AlProofs.op_wf o ->
  op_fault_clean eq a
    (fun a' rel => AlProofs.Inv a' /\
                   AlProofs.al_abs a' = fst (AlModel.spec_step (AlProofs.al_abs a) o) /\
                   rel = snd (AlModel.spec_step (AlProofs.al_abs a) o))
    (al_out (AlModel.al_step al a o)).
Proof.
  intros HI Hwf. pose proof (Properties_C07.C07_step_refines al a o HI Hwf) as S.
  destruct (AlModel.al_step al a o) as [a' r rel ws|a'|]; cbn [al_out op_fault_clean]; [tauto| |exact S].
  symmetry. exact S.
Qed.

(* C06 hash table / json_object_object_add_ex: every key type, hash function, flag
   combination; the refusal leaves the table as it is (the model's IFail carries no new table) *)
Definition lh_out {key val : Type} (t : LhModel.table key val) (r : LhModel.ires key val)
  : outcome (LhModel.table key val) unit :=
  match r with LhModel.IOk t' => Done t' tt | LhModel.IFail => Refused t | LhModel.IOut _ => Undefined end.

Theorem lh_fault_clean (key val : Type) (keq : key -> key -> bool) (hash : key -> Z) :
  (forall a b, keq a b = true <-> a = b) ->
  forall (al : LhModel.alloc) (fail1 : bool) (t : LhModel.table key val) (k : key) (v : val) (is_new cst : bool),
  LhProofs.Inv hash t -> (is_new = true -> LhModel.a_mem keq (LhProofs.abs t) k = false) ->
  op_fault_clean eq t
    (fun t' _ => LhProofs.Inv hash t' /\ LhProofs.abs t' = LhModel.a_add keq (LhProofs.abs t) k v)
    (lh_out t (LhModel.obj_add_ex keq hash al fail1 t k v is_new cst)).
Proof.
  intros Hkeq al fail1 t k v is_new cst HI Hpre.
  pose proof (Properties_C06.C06_insert_refines key val keq hash Hkeq al fail1 t k v is_new cst HI Hpre) as S.
  destruct (LhModel.obj_add_ex keq hash al fail1 t k v is_new cst) as [t'| |why];
    cbn [lh_out op_fault_clean]; [exact S|reflexivity|exact S].
Qed.

(* C11 string node: set_string / set_string_len from any source the caller contract allows
   (outside the node, or the node's own buffer); a refused set returns 0 and keeps the
   contents, the storage and the malloc/free log (only the request counter moves).
   [bs0] = the contents at the call. *)
Definition str_out (r : StrModel.sres) : outcome StrModel.st (list StrModel.wr) :=
  match r with
  | StrModel.SOk s 0 _ => Refused s
  | StrModel.SOk s _ ws => Done s ws
  | StrModel.SUB => Undefined
  end.

Theorem str_fault_clean al s bs0 o :
  StrProofs.InvC s bs0 -> StrProofs.op_wf bs0 o ->
  op_fault_clean (fun s s' => StrProofs.same_store s s' /\ StrProofs.InvC s' bs0) s
    (fun s' ws => StrProofs.InvC s' (StrModel.op_bytes bs0 o) /\ Forall (StrProofs.wr_ok (StrModel.hp s')) ws)
    (str_out (StrModel.str_step al s o)).
Proof.
  intros HI Hwf. pose proof (Properties_C11.C11_step al s bs0 o HI Hwf) as S.
  pose proof (Properties_C11.C11_failed_set_keeps al s bs0 o) as K.
  unfold StrProofs.step_post in S.
  destruct (StrModel.str_step al s o) as [s' ret ws|]; [|exact S].
  destruct S as [S|S].
  - assert (ret = 1) as -> by tauto. cbn [str_out op_fault_clean]. tauto.
  - assert (ret = 0) as -> by tauto. cbn [str_out op_fault_clean].
    specialize (K s' ws HI Hwf eq_refl). tauto.
Qed.

(* C11 string constructor: one allocation; NULL leaves nothing behind *)
Definition strnew_out (r : StrModel.nres) : outcome unit StrModel.st :=
  match r with StrModel.NOk s => Done tt s | StrModel.NNull _ => Refused tt | StrModel.NUB => Undefined end.

Theorem str_new_fault_clean al src len :
  INT_MIN <= len <= INT_MAX -> (0 <= len -> len <= zlen src) ->
  op_fault_clean eq tt
    (fun _ s => StrProofs.InvC s (zfirstn len src) /\
                StrModel.elog s = [StrModel.EvMalloc 0 (StrProofs.objsize_of len)])
    (strnew_out (StrModel.new_string_len al src len)).
Proof.
  intros Hr Hs. pose proof (Properties_C11.C11_new_len_holds al src len Hr Hs) as S.
  destruct (StrModel.new_string_len al src len); cbn [strnew_out op_fault_clean]; [tauto|reflexivity|exact S].
Qed.

(* the instance the property text names: every single fault index, every pair of indices *)
Theorem object_add_every_k (k j : nat) t key v (is_new cst : bool) s rest :
  Permutation (live s) (tab_blocks t ++ v ++ rest) ->
  (forall s', object_add (single_fault k) t key v is_new cst s = Fail s' -> live s' = live s) /\
  (forall s', object_add (double_fault k j) t key v is_new cst s = Fail s' -> live s' = live s) /\
  object_add (single_fault k) t key v is_new cst s <> UB /\
  object_add (double_fault k j) t key v is_new cst s <> UB.
Proof.
  intros HP.
  pose proof (object_add_clean (single_fault k) t key v is_new cst s rest HP) as A.
  pose proof (object_add_clean (double_fault k j) t key v is_new cst s rest HP) as B.
  repeat split.
  - intros s' E. rewrite E in A. exact A.
  - intros s' E. rewrite E in B. exact B.
  - intros E. rewrite E in A. exact A.
  - intros E. rewrite E in B. exact B.
Qed.

(* ------------------------------------------------------------------ sprintbuf and its temporary *)
(* one print-buffer call with the ledger: C19 for the contents, and the buffer's block is
   replaced by exactly one new block when the buffer grew *)
Lemma lpb_step_spec o q op s rest :
  PbProofs.Inv (lp_buf q) -> PbProofs.op_wf op ->
  (forall y, cnt y (live s) = ((if Nat.eqb y (lp_blk q) then 1 else 0) + cnt y rest)%nat) ->
  match lpb_step o q op s with
  | Ok (q', r) s' =>
      PbProofs.Inv (lp_buf q') /\
      PbProofs.pb_abs (lp_buf q') = PbModel.spec_step (PbProofs.pb_abs (lp_buf q)) op /\
      (forall y, cnt y (live s') = ((if Nat.eqb y (lp_blk q') then 1 else 0) + cnt y rest)%nat)
  | Fail s' => live s' = live s
  | UB => False
  end.
Proof.
  intros HI Hwf HL. unfold lpb_step.
  pose proof (Properties_C19.C19_step_refines (fun _ => o (nreq s)) (lp_buf q) op HI Hwf) as S.
  destruct (pb_step (fun _ => o (nreq s)) (lp_buf q) op) as [p' r ws|p' e|]; [| |exact S].
  - destruct S as (HI' & Ha & _).
    destruct (size p' =? size (lp_buf q)); [cbn [lp_buf lp_blk]; auto|].
    unfold realloc_granted. destruct (remove1_ok (lp_blk q) (live s)) as (l & R).
    { rewrite HL, Nat.eqb_refl. lia. }
    rewrite R. cbn [lp_buf lp_blk live]. split; [exact HI'|]. split; [exact Ha|].
    intros y. pose proof (remove1_cnt _ _ _ R y) as C. specialize (HL y). cbn [cnt].
    destruct (Nat.eqb y (lp_blk q)); lia.
  - destruct e; reflexivity.
Qed.

(* sprintbuf as written, every allocator behaviour, every formatted output (short: stack
   buffer; longer than 127 bytes: vasprintf temporary).  Live before = the buffer's block and
   [rest].  Done: the contents grew by exactly the output, live = the (possibly new) buffer
   block and [rest] — the temporary is gone.  Refused (-1): the very same blocks are live
   (the temporary was released, once) and the buffer is untouched (the model's Fail carries
   no new buffer).  Never a release of a block that is not live. *)
Theorem sprintbuf_clean o q out s rest :
  PbProofs.Inv (lp_buf q) ->
  Permutation (live s) (lp_blk q :: rest) ->
  op_fault_clean same_live s
    (fun s' qr => PbProofs.Inv (lp_buf (fst qr)) /\
                  PbProofs.pb_abs (lp_buf (fst qr)) = PbProofs.pb_abs (lp_buf q) ++ out /\
                  Permutation (live s') (lp_blk (fst qr) :: rest))
    (res_out (sprintbuf o q out s)).
Proof.
  intros HI HP. rewrite perm_cnt in HP.
  assert (HL : forall y, cnt y (live s) = ((if Nat.eqb y (lp_blk q) then 1 else 0) + cnt y rest)%nat)
    by (intros y; rewrite HP; reflexivity).
  assert (Hwf : PbProofs.op_wf (OpSprintf out)) by exact I.
  unfold sprintbuf, sprintbuf_gen. destruct (zlen out >? 127).
  - unfold alloc. destruct (o (nreq s)); [|reflexivity].
    set (s1 := mkast (S (nreq s)) (nreq s :: live s)).
    pose proof (lpb_step_spec o q (OpSprintf out) s1 (nreq s :: rest) HI Hwf) as L.
    assert (H1 : forall y, cnt y (live s1) = ((if Nat.eqb y (lp_blk q) then 1 else 0) + cnt y (nreq s :: rest))%nat).
    { intros y. unfold s1. cbn [live cnt]. rewrite HL. lia. }
    specialize (L H1).
    destruct (lpb_step o q (OpSprintf out) s1) as [[q' r] s2|s2|]; [| |exact L].
    + destruct L as (HI' & Ha & HL2). unfold free.
      destruct (remove1_ok (nreq s) (live s2)) as (l & R).
      { rewrite HL2. cbn [cnt]. rewrite Nat.eqb_refl. lia. }
      rewrite R. cbn [res_out op_fault_clean fst live]. split; [exact HI'|]. split; [exact Ha|].
      rewrite perm_cnt. intros y. pose proof (remove1_cnt _ _ _ R y) as C. rewrite HL2 in C. cbn [cnt] in *. lia.
    + unfold free. rewrite L. unfold s1. cbn [live nreq]. rewrite remove1_head. reflexivity.
  - pose proof (lpb_step_spec o q (OpSprintf out) s rest HI Hwf HL) as L.
    destruct (lpb_step o q (OpSprintf out) s) as [[q' r] s2|s2|]; cbn [res_out op_fault_clean fst]; [|exact L|exact L].
    destruct L as (HI' & Ha & HL2). split; [exact HI'|]. split; [exact Ha|].
    rewrite perm_cnt. intros y. rewrite HL2. reflexivity.
Qed.

(* negative control: the "flattened" long branch (one early return -1 for both failures).
   A fresh 32-byte buffer (block 0), an output of 200 bytes: the temporary is request 10, the
   realloc that must grow the buffer is request 11 and is refused: -1 is returned and block 10
   — the temporary — is still live. *)
Definition ex_lpb : lpb := mklpb pb_new 0.
Definition ex_out200 : list byte := repeat 120 200.

Theorem sprintbuf_tmp_leak_refuted :
  sprintbuf_flat (single_fault 11) ex_lpb ex_out200 (mkast 10 [0%nat]) = Fail (mkast 12 [10; 0]%nat) /\
  ~ op_fault_clean same_live (mkast 10 [0%nat]) (fun _ _ => True)
      (res_out (sprintbuf_flat (single_fault 11) ex_lpb ex_out200 (mkast 10 [0%nat]))) /\
  sprintbuf (single_fault 11) ex_lpb ex_out200 (mkast 10 [0%nat]) = Fail (mkast 12 [0%nat]) /\
  sprintbuf (single_fault 10) ex_lpb ex_out200 (mkast 10 [0%nat]) = Fail (mkast 11 [0%nat]) /\
  match sprintbuf no_fault ex_lpb ex_out200 (mkast 10 [0%nat]) with
  | Ok (q', r) s' => r = 200 /\ live s' = [11%nat] /\ lp_blk q' = 11%nat /\ pb_text (lp_buf q') = ex_out200
  | _ => False
  end /\
  match sprintbuf (single_fault 10) ex_lpb (repeat 120 20) (mkast 10 [0%nat]) with
  | Ok (q', r) s' => r = 20 /\ live s' = [0%nat] /\ nreq s' = 10%nat      (* short output: no request at all *)
  | _ => False
  end.
Proof.
  assert (E : sprintbuf_flat (single_fault 11) ex_lpb ex_out200 (mkast 10 [0%nat]) = Fail (mkast 12 [10; 0]%nat))
    by (vm_compute; reflexivity).
  split; [exact E|]. split.
  - rewrite E. cbn [res_out op_fault_clean]. unfold same_live. cbn [live]. discriminate.
  - vm_compute. repeat split.
Qed.

(* ------------------------------------------------------------------ configuration calls that allocate *)
Lemma free_opt_spec b s r :
  (forall y, cnt y (live s) = (cnt y (match b with Some x => [x] | None => [] end) + cnt y r)%nat) ->
  exists s', free_opt b s = Ok tt s' /\ (forall y, cnt y (live s') = cnt y r) /\ nreq s' = nreq s.
Proof.
  intros H. destruct b as [x|]; cbn [free_opt].
  - destruct (free_list_ok [x] s r) as (s' & E & Hc & Hn); [exact H|].
    cbn [free_list] in E. destruct (free x s) as [[] s1|s1|]; try discriminate. inversion E; subst. eauto.
  - exists s. split; [reflexivity|]. split; [intros y; rewrite H; reflexivity|reflexivity].
Qed.

(* json_c_set_serialization_double_format as written, every scope value, format or NULL,
   every allocator behaviour.  Live before = the strings of the configuration and [rest].
   Return 0: the settings are those of SerModel.set_format (C02's model of the call) and
   exactly their strings are live besides [rest] — the replaced ones were released, once.
   Return -1: the configuration — hence the effective format of every thread — and the live
   blocks are exactly what they were.  Never a release of a block that is not live. *)
Theorem set_format_clean o c tid fmt scope s rest :
  Permutation (live s) (cfg_blocks c ++ rest) ->
  op_fault_clean (fun b a => fst a = fst b /\ live (snd a) = live (snd b)) (c, s)
    (fun a _ => fc_st (fst a) = fst (set_format true (fc_st c) tid fmt scope) /\
                Permutation (live (snd a)) (cfg_blocks (fst a) ++ rest))
    (cfg_out (set_format_cfg o c tid fmt scope s)).
Proof.
  intros HP. rewrite perm_cnt in HP. unfold cfg_blocks in HP.
  assert (D : forall y, cnt y (live s) =
            (cnt y (match fc_gblk c with Some b => [b] | None => [] end) +
             cnt y (match fc_tblk c with Some b => [b] | None => [] end) + cnt y rest)%nat)
    by (intros y; rewrite HP, !cnt_app; lia).
  unfold set_format_cfg, set_format_gen.
  (* the copy: either refused (-1, nothing touched) or one new block *)
  assert (Dup : match dup_opt o fmt s with
                | Ok None s1 => live s1 = live s
                | Ok (Some p) s1 => forall y, cnt y (live s1) =
                    (cnt y (match p with Some b => [b] | None => [] end) + cnt y (live s))%nat
                | Fail _ => False
                | UB => False
                end).
  { unfold dup_opt, alloc. destruct fmt; [|intros y; cbn [cnt]; lia].
    destruct (o (nreq s)); [|reflexivity]. intros y. cbn [live cnt]. lia. }
  destruct (scope =? 0).
  - destruct (dup_opt o fmt s) as [[p|] s1|s1|]; try contradiction.
    + destruct (free_opt_spec (fc_tblk c) s1
                  (match p with Some b => [b] | None => [] end ++
                   match fc_gblk c with Some b => [b] | None => [] end ++ rest)) as (s2 & -> & H2 & _).
      { intros y. rewrite Dup, D, !cnt_app. lia. }
      destruct (free_opt_spec (fc_gblk c) s2 (match p with Some b => [b] | None => [] end ++ rest))
        as (s3 & -> & H3 & _).
      { intros y. rewrite H2, !cnt_app. lia. }
      cbn [cfg_out op_fault_clean fst snd fc_st]. split; [reflexivity|].
      rewrite perm_cnt. intros y. rewrite H3. unfold cfg_blocks. cbn [fc_gblk fc_tblk].
      rewrite !cnt_app. cbn [cnt]. lia.
    + cbn [cfg_out op_fault_clean fst snd]. split; [reflexivity|exact Dup].
  - destruct (scope =? 1).
    + destruct (dup_opt o fmt s) as [[p|] s1|s1|]; try contradiction.
      * destruct (free_opt_spec (fc_tblk c) s1
                    (match p with Some b => [b] | None => [] end ++
                     match fc_gblk c with Some b => [b] | None => [] end ++ rest)) as (s2 & -> & H2 & _).
        { intros y. rewrite Dup, D, !cnt_app. lia. }
        cbn [cfg_out op_fault_clean fst snd fc_st]. split; [reflexivity|].
        rewrite perm_cnt. intros y. rewrite H2. unfold cfg_blocks. cbn [fc_gblk fc_tblk].
        rewrite !cnt_app. lia.
      * cbn [cfg_out op_fault_clean fst snd]. split; [reflexivity|exact Dup].
    + cbn [cfg_out op_fault_clean fst snd]. split; reflexivity.
Qed.

(* what the caller observes: after a failed call every thread serializes doubles as before *)
Corollary set_format_failed_keeps_effective o c tid fmt scope s rest c' rc s' :
  Permutation (live s) (cfg_blocks c ++ rest) ->
  set_format_cfg o c tid fmt scope s = Ok (c', rc) s' -> rc <> 0 ->
  (forall t, effective (fc_st c') t = effective (fc_st c) t) /\ live s' = live s.
Proof.
  intros HP E Hrc. pose proof (set_format_clean o c tid fmt scope s rest HP) as T. rewrite E in T.
  destruct rc; [congruence| |]; cbn [cfg_out op_fault_clean fst snd] in T; destruct T as [-> ->]; auto.
Qed.

(* negative control: the shape that releases the calling thread's override before the copy.
   Thread 1 has "%.3f" (block 5) in effect, no global format; GLOBAL "%.2f" with the copy
   (request 10) refused returns -1 — and thread 1's effective format is gone. *)
Definition ex_cfg : fcfg := mkfc (mkfs None [(1, [37; 46; 51; 102])]) None (Some 5%nat).

Theorem set_format_early_free_refuted :
  set_format_early (single_fault 10) ex_cfg 1 (Some [37; 46; 50; 102]) 0 (mkast 10 [5%nat])
    = Ok (mkfc (mkfs None []) None None, -1) (mkast 11 []) /\
  effective (fc_st ex_cfg) 1 = Some [37; 46; 51; 102] /\
  effective (mkfs None []) 1 = None /\
  (* the code as written, same call: -1 and nothing changed; and with a cooperating allocator
     the global format is installed, the thread's override dropped and released *)
  set_format_cfg (single_fault 10) ex_cfg 1 (Some [37; 46; 50; 102]) 0 (mkast 10 [5%nat])
    = Ok (ex_cfg, -1) (mkast 11 [5%nat]) /\
  set_format_cfg no_fault ex_cfg 1 (Some [37; 46; 50; 102]) 0 (mkast 10 [5%nat])
    = Ok (mkfc (mkfs (Some [37; 46; 50; 102]) []) (Some 10%nat) None, 0) (mkast 11 [10%nat]) /\
  set_format_cfg (single_fault 10) ex_cfg 1 (Some [37; 46; 50; 102]) 7 (mkast 10 [5%nat])
    = Ok (ex_cfg, -1) (mkast 10 [5%nat]).
Proof. vm_compute. repeat split. Qed.

(* ------------------------------------------------------------------ operations that need no memory, and shrinking *)
Lemma skipn_add {A} : forall (m n : nat) (l : list A), skipn n (skipn m l) = skipn (m + n) l.
Proof.
  induction m as [|m IH]; intros n l; [reflexivity|].
  destruct l as [|x l]; cbn [skipn plus]; [destruct n; reflexivity|apply IH].
Qed.

Lemma zsplit3 {A} (l : list A) idx count : 0 <= idx -> 0 <= count ->
  l = zfirstn idx l ++ zfirstn count (zskipn idx l) ++ zskipn (idx + count) l.
Proof.
  intros Hi Hc. rewrite <- (zfirstn_zskipn idx l) at 1. f_equal.
  rewrite <- (zfirstn_zskipn count (zskipn idx l)) at 1. f_equal.
  unfold zskipn. rewrite skipn_add, Z2Nat.inj_add by lia. reflexivity.
Qed.

Lemma cnt_concat_app y (a b : list (list nat)) :
  cnt y (concat (a ++ b)) = (cnt y (concat a) + cnt y (concat b))%nat.
Proof. rewrite concat_app, cnt_app. reflexivity. Qed.

(* json_object_array_del_idx: no allocator in sight, so the statement holds under every
   allocator behaviour by construction.  Done: the elements of the range were released, each
   once, the others kept in order, the capacity and the slot array kept, NO request made.
   Refused (range outside the array): nothing changed at all. *)
Theorem arr_del_clean a idx count s rest :
  Permutation (live s) (arr_blocks a ++ rest) ->
  op_fault_clean eq s
    (fun s' a' => Permutation (live s') (arr_blocks a' ++ rest) /\ nreq s' = nreq s /\
                  ar_elems a' = zfirstn idx (ar_elems a) ++ zskipn (idx + count) (ar_elems a) /\
                  ar_len a' = ar_len a - count /\ ar_size a' = ar_size a /\ ar_store a' = ar_store a)
    (res_out (arr_del a idx count s)).
Proof.
  intros HP. rewrite perm_cnt in HP. unfold arr_del.
  destruct ((idx <? 0) || (count <? 0) || (idx >=? ar_len a) || (idx + count >? ar_len a)) eqn:G;
    [reflexivity|].
  assert (Hi : 0 <= idx) by lia. assert (Hc : 0 <= count) by lia.
  pose proof (zsplit3 (ar_elems a) idx count Hi Hc) as Sp.
  destruct (free_list_ok (concat (zfirstn count (zskipn idx (ar_elems a)))) s
              (ar_node a :: ar_struct a :: ar_store a ::
               concat (zfirstn idx (ar_elems a) ++ zskipn (idx + count) (ar_elems a)) ++ rest))
    as (s' & -> & Hcn & Hn).
  { intros y. rewrite HP. unfold arr_blocks. rewrite Sp at 1. cbn [app cnt].
    rewrite !cnt_app, !cnt_concat_app. cbn [cnt]. lia. }
  cbn [res_out op_fault_clean ar_elems ar_len ar_size ar_store]. repeat split; auto.
  rewrite perm_cnt. intros y. rewrite Hcn. unfold arr_blocks. cbn [app cnt ar_node ar_struct ar_store ar_elems].
  rewrite !cnt_app. reflexivity.
Qed.

(* json_object_array_shrink, every allocator behaviour: Done — same elements, same length, the
   slot array possibly replaced by one new block; Refused (-1) — the same blocks are live and
   the array (the model's Fail carries no new array) is the caller's unchanged one *)
Theorem arr_shrink_clean o a n s rest :
  Permutation (live s) (arr_blocks a ++ rest) ->
  op_fault_clean same_live s
    (fun s' a' => Permutation (live s') (arr_blocks a' ++ rest) /\ ar_elems a' = ar_elems a /\ ar_len a' = ar_len a)
    (res_out (arr_shrink o a n s)).
Proof.
  intros HP. rewrite perm_cnt in HP.
  assert (H : forall y, cnt y (live s) = (cnt y (arr_blocks a) + cnt y rest)%nat)
    by (intros y; rewrite HP, cnt_app; reflexivity).
  unfold arr_shrink. destruct (n >=? SIZE_MAX / 8 - ar_len a); [reflexivity|].
  destruct (ar_len a + n =? ar_size a).
  { cbn [res_out op_fault_clean]. split; [|auto]. rewrite perm_cnt. intros y. rewrite H, cnt_app. reflexivity. }
  destruct (ar_len a + n >? ar_size a).
  - pose proof (arr_expand_spec o a (ar_len a + n) s rest H) as E.
    destruct (arr_expand o a (ar_len a + n) s) as [a' s'|s'|]; cbn [res_out op_fault_clean]; [|exact E|exact E].
    destruct E as (Hc & He & Hl). split; [|auto]. rewrite perm_cnt. intros y. rewrite Hc, cnt_app. reflexivity.
  - unfold realloc. destruct (o (nreq s)); [|reflexivity].
    destruct (remove1_ok (ar_store a) (live s)) as (l & R).
    { rewrite H. unfold arr_blocks. cbn [cnt]. rewrite Nat.eqb_refl. lia. }
    rewrite R. cbn [res_out op_fault_clean ar_elems ar_len]. split; [|auto].
    rewrite perm_cnt. intros y. pose proof (remove1_cnt _ _ _ R y) as C. specialize (H y).
    unfold arr_blocks in *. cbn [app cnt live ar_node ar_struct ar_store ar_elems] in *. rewrite cnt_app in *.
    destruct (Nat.eqb y (ar_store a)); lia.
Qed.

(* negative control: a delete that ends in "return array_list_shrink(...)".  40 elements
   (blocks 10..49) in 64 slots; deleting 35 of them leaves 5 < 64/4: the shrinking realloc
   (request 100) is refused and the call reports failure — but the array has 5 elements now
   and the 35 blocks are gone: a failure report for a call that did change the array. *)
Definition ex_arr40 : arr := mkarr 0 1 2 40 64 (map (fun i => [i]) (seq 10 40)).
Definition ex_s40 : ast := mkast 100 (arr_blocks ex_arr40).

Theorem del_reports_failure_after_change_refuted :
  (let '(r, now) := arr_del_shrinking (single_fault 100) ex_arr40 0 35 ex_s40 in
   r = Fail (mkast 101 [0; 1; 2; 45; 46; 47; 48; 49]%nat) /\
   match now with Some a1 => ar_len a1 = 5 | None => False end) /\
  (* the code as written: same call, any allocator: success, 5 elements, 64 slots kept, no request *)
  arr_del ex_arr40 0 35 ex_s40
    = Ok (mkarr 0 1 2 5 64 (map (fun i => [i]) (seq 45 5))) (mkast 100 [0; 1; 2; 45; 46; 47; 48; 49]%nat) /\
  arr_del ex_arr40 38 3 ex_s40 = Fail ex_s40 /\
  arr_shrink (single_fault 100) ex_arr40 0 ex_s40 = Fail (mkast 101 (live ex_s40)) /\
  match arr_shrink no_fault ex_arr40 0 ex_s40 with
  | Ok a' s' => ar_size a' = 40 /\ ar_store a' = 100%nat /\ ar_elems a' = ar_elems ex_arr40
  | _ => False
  end.
Proof. vm_compute. repeat split. Qed.

(* ------------------------------------------------------------------ the tokener's temporary numeric locale *)
(* every allocator behaviour (duplocale refused, newlocale refused, both granted): Done — one
   new object, the temporary locale, is live; Refused (the parse reports "memory" before reading
   a character) — exactly the blocks that were live: the copy, if it was made, was released *)
Theorem locale_setup_clean o s :
  op_fault_clean same_live s (fun s' l => live s' = l :: live s) (res_out (locale_setup o s)).
Proof.
  unfold locale_setup, locale_setup_gen, alloc, same_live. destruct (o (nreq s)); cbn; [|reflexivity].
  destruct (o (S (nreq s))); cbn; [reflexivity|]. unfold free. cbn. rewrite Nat.eqb_refl. reflexivity.
Qed.

(* the whole call: whatever the parse proper does in between (as long as it leaves the temporary
   locale alone), the locale object is gone afterwards, released once *)
Theorem parse_bracket_clean o body s :
  (forall l s1, live s1 = l :: live s -> exists rest, live (body s1) = l :: rest) ->
  match parse_bracket o body s with
  | Ok _ s' => exists l s1, locale_setup o s = Ok l s1 /\ live (body s1) = l :: live s'
  | Fail s' => live s' = live s
  | UB => False
  end.
Proof.
  intros Hb. unfold parse_bracket. pose proof (locale_setup_clean o s) as L.
  destruct (locale_setup o s) as [l s1|s1|]; cbn [res_out op_fault_clean] in L; [|exact L|exact L].
  destruct (Hb l s1 L) as (rest & Hr). unfold locale_teardown, free. rewrite Hr, remove1_head.
  exists l, s1. split; [reflexivity|]. rewrite Hr. reflexivity.
Qed.

(* negative control: the helper that trusts newlocale to take the copy over in every case.
   duplocale is request 10, newlocale request 11 and refused: "memory" is reported — and the
   copy, block 10, is still live.  Plus non-vacuity of the statement above. *)
Theorem locale_copy_leak_refuted :
  locale_setup_trusting (single_fault 11) (mkast 10 [3%nat]) = Fail (mkast 12 [10; 3]%nat) /\
  ~ op_fault_clean same_live (mkast 10 [3%nat]) (fun _ _ => True)
      (res_out (locale_setup_trusting (single_fault 11) (mkast 10 [3%nat]))) /\
  locale_setup (single_fault 11) (mkast 10 [3%nat]) = Fail (mkast 12 [3%nat]) /\
  locale_setup (single_fault 10) (mkast 10 [3%nat]) = Fail (mkast 11 [3%nat]) /\
  locale_setup no_fault (mkast 10 [3%nat]) = Ok 10%nat (mkast 12 [10; 3]%nat) /\
  parse_bracket no_fault (fun s => s) (mkast 10 [3%nat]) = Ok tt (mkast 12 [3%nat]).
Proof.
  assert (E : locale_setup_trusting (single_fault 11) (mkast 10 [3%nat]) = Fail (mkast 12 [10; 3]%nat))
    by (vm_compute; reflexivity).
  split; [exact E|]. split.
  - rewrite E. cbn [res_out op_fault_clean]. unfold same_live. cbn [live]. discriminate.
  - vm_compute. repeat split.
Qed.
