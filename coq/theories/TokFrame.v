(* TokFrame.v — what one dispatch (step1) can and cannot change: the configuration
   fields and the character offset are never touched; the level stack changes by at most
   one push (guarded by the depth test) or one pop. *)
From JC Require Import Base BaseLemmas Value TokModel.
Local Open Scope Z_scope.

(* the fields step1 never writes *)
Definition cfg (t : tok) := (char_offset t, max_depth t, strict t, allow_trailing t, validate_utf8 t).

Lemma cfg_set_top t s : cfg (set_top t s) = cfg t. Proof. reflexivity. Qed.
Lemma cfg_set_stack t s : cfg (set_stack t s) = cfg t. Proof. reflexivity. Qed.
Lemma cfg_set_pb t s : cfg (set_pb t s) = cfg t. Proof. reflexivity. Qed.
Lemma cfg_set_is_double t s : cfg (set_is_double t s) = cfg t. Proof. reflexivity. Qed.
Lemma cfg_set_st_pos t s : cfg (set_st_pos t s) = cfg t. Proof. reflexivity. Qed.
Lemma cfg_set_ucs t s : cfg (set_ucs t s) = cfg t. Proof. reflexivity. Qed.
Lemma cfg_set_high t s : cfg (set_high t s) = cfg t. Proof. reflexivity. Qed.
Lemma cfg_set_quote t s : cfg (set_quote t s) = cfg t. Proof. reflexivity. Qed.
Lemma cfg_set_err t s : cfg (set_err t s) = cfg t. Proof. reflexivity. Qed.
Lemma cfg_set_state t s : cfg (set_state t s) = cfg t. Proof. reflexivity. Qed.
Lemma cfg_set_cur t s : cfg (set_cur t s) = cfg t. Proof. reflexivity. Qed.
Lemma cfg_value_done t s : cfg (value_done t s) = cfg t. Proof. reflexivity. Qed.
Lemma cfg_append t s : cfg (append t s) = cfg t. Proof. reflexivity. Qed.
Global Hint Rewrite cfg_set_top cfg_set_stack cfg_set_pb cfg_set_is_double cfg_set_st_pos cfg_set_ucs
  cfg_set_high cfg_set_quote cfg_set_err cfg_set_state cfg_set_cur cfg_value_done cfg_append : tokcfg.

Definition sres_tok (r : sres) : tok := match r with Consumed t _ | Redo t _ | Out t _ => t end.

Lemma cfg_emit t u l : cfg (sres_tok (emit_unicode t u l)) = cfg t.
Proof.
  unfold emit_unicode.
  repeat match goal with |- context [if ?b then _ else _] => destruct b end;
    cbn [sres_tok]; autorewrite with tokcfg; reflexivity.
Qed.
Lemma cfg_resolve t : cfg (fst (resolve_pair t)) = cfg t.
Proof.
  unfold resolve_pair.
  repeat match goal with |- context [if ?b then _ else _] => destruct b end;
    cbn [fst]; autorewrite with tokcfg; reflexivity.
Qed.
Lemma cfg_finish_unicode t l : cfg (sres_tok (finish_unicode t l)) = cfg t.
Proof. unfold finish_unicode. rewrite cfg_emit, cfg_resolve. autorewrite with tokcfg. reflexivity. Qed.

Section S.
Variable sb : list byte -> Z.

Lemma cfg_step1 t l : cfg (sres_tok (step1 sb t l)) = cfg t.
Proof.
  unfold step1. generalize (classify_number sb). intros cn.
  destruct (st t).
  all: unfold fail.
  all: repeat match goal with
              | |- context [finish_unicode ?a ?b] => rewrite cfg_finish_unicode
              | |- context [if ?b then _ else _] => destruct b
              | |- context [match ?x with _ => _ end] => destruct x
              end; cbn [sres_tok]; autorewrite with tokcfg; try reflexivity.
Qed.
End S.
