(* TokFd.v — the file/descriptor entry point json_object_from_fd_ex (json_util.c), parse side:
   the accumulated bytes go to json_tokener_parse_ex with their explicit length; when that call
   asks for more input, the terminating NUL the print buffer keeps behind the contents is passed
   on in a second call (fix "a number or literal that ends the data is complete").
   Theorem: for texts without NUL bytes this yields whatever the NUL-terminated parse of the
   text yields as a value — in particular, by C01_parse_valid, the denoted value of every valid
   text, with or without trailing blanks. *)
From JC Require Import Base BaseLemmas Value TokModel TokFrame TokStack TokTotal TokReset TokOff TokSim TokChunk TokSim2
  TokChunk2 TokChunk3.
Local Open Scope Z_scope.

Section S.
Variable sb : list byte -> Z.

(* the vocabulary of the API as the drivers use it (tied to the headers by TokImplCheck.v) *)
Definition default_depth : Z := 32.                      (* JSON_TOKENER_DEFAULT_DEPTH *)
Definition flags_of_word (w : Z) : bool * bool * bool :=  (* STRICT 0x01, ALLOW_TRAILING_CHARS 0x02, VALIDATE_UTF8 0x10 *)
  (Z.odd w, Z.odd (w / 2), Z.odd (w / 16)).

Definition from_fd_parse (t : tok) (bytes : list byte) : presult :=
  match parse_ex sb t bytes with
  | PR t' None => if is_continue (err t') then parse_ex sb t' [0] else PR t' None
  | r => r
  end.

Definition is_fin (s : tstate) : bool := match s with S_finish => true | _ => false end.

(* after a consumed character the top state is never S_finish *)
Lemma step1_not_finish t l :
  wfs (stack t) = true ->
  match step1 sb t l with Consumed t' _ => is_fin (st t') = false | _ => True end.
Proof.
  intros Hw. destruct (stack t) as [|[s v cur nm] below] eqn:E; [discriminate|].
  assert (Htop : top t = mksrec s v cur nm) by (unfold top; rewrite E; reflexivity).
  assert (Hst : st t = s) by (unfold st; rewrite Htop; reflexivity).
  assert (Hsv : sv t = v) by (unfold sv; rewrite Htop; reflexivity).
  cbn [wfs s_state s_saved] in Hw. apply andb_true_iff in Hw. destruct Hw as [Ht Hb].
  unfold step1. rewrite Hst. destruct s; cbv iota; unfold fail.
  11: { (* escape_unicode *)
    unfold wf_top in Ht. cbn [ws_like esc_like andb] in Ht.
    destruct (negb (is_hex (lc l))); [exact I|].
    match goal with |- context [if ?b then _ else _] => destruct b end.
    - unfold finish_unicode, emit_unicode.
      assert (Hsv2 : forall T, stack T = stack t -> sv T = v) by (intros T HT; unfold sv, top; rewrite HT, E; reflexivity).
      repeat match goal with |- context [if ?b then _ else _] => destruct b end; autorewrite with tokst;
        rewrite ?Hsv2 by (rewrite ?stack_resolve; autorewrite with tokstk; reflexivity);
        try reflexivity; destruct v; try discriminate Ht; reflexivity.
    - autorewrite with tokst. rewrite Hst. reflexivity.
  }
  all: repeat match goal with
              | |- context [if ?b then _ else _] => destruct b
              | |- context [match classify_number ?a ?x with _ => _ end] => destruct (classify_number a x)
              | |- context [match lnum ?x with _ => _ end] => destruct (lnum x)
              | |- context [match stack ?x with _ => _ end] => rewrite E
              | |- context [match ?y with [] => _ | _ :: _ => _ end] => destruct y as [|[ps pv pc pn] below2]
              end; try exact I; autorewrite with tokst; rewrite ?Hst, ?Hsv; cbn [s_state is_fin]; try reflexivity.
  all: unfold wf_top in Ht; cbn [ws_like esc_like andb] in Ht; destruct v; try discriminate Ht; reflexivity.
Qed.

Lemma redo_not_finish fuel : forall t l t' l', wfs (stack t) = true ->
  redo sb fuel t l = Some (Consumed t' l') -> is_fin (st t') = false.
Proof.
  induction fuel as [|f IH]; intros t l t' l' Hw E; [discriminate|]. cbn [redo] in E.
  pose proof (step1_not_finish t l Hw) as B. pose proof (step1_res sb t l Hw) as W.
  destruct (step1 sb t l) as [a x|a x|a x] eqn:S1.
  - inversion E; subst. exact B.
  - cbn [res_ok] in W. destruct W as [W _]. exact (IH _ _ _ _ W E).
  - discriminate.
Qed.

Lemma run_prefix_not_finish a : forall t l t' l',
  wfs (stack t) = true -> is_fin (st t) = false -> run_prefix sb a t l = RPCont t' l' -> is_fin (st t') = false.
Proof.
  induction a as [|b rest IH]; intros t l t' l' Hw Hf E; cbn [run_prefix] in E.
  - inversion E; subst. exact Hf.
  - destruct (if validate_utf8 t then validate_utf8_step b (nbytes l) else Some (nbytes l)) as [nb|]; [|discriminate].
    destruct (redo sb REDO_FUEL t (mkloc b nb (lobj l) (lnum l))) as [[t1 l1|t1 l1|t1 l1]|] eqn:R; try discriminate.
    destruct (b =? 0); [discriminate|].
    pose proof (redo_not_finish _ _ _ _ _ Hw R) as F.
    destruct (redo_total sb REDO_FUEL t (mkloc b nb (lobj l) (lnum l)) Hw) as (r & Hr & Hwr & _).
    { pose proof (mus_bound (stack t)). unfold REDO_FUEL. lia. }
    rewrite R in Hr. inversion Hr; subst r. cbn [sres_tok] in Hwr.
    exact (IH (set_off t1 (char_offset t1 + 1)) l1 t' l' Hwr F E).
Qed.

Lemma upto_nul_nonul bytes : Forall (fun b => b <> 0) bytes -> upto_nul bytes = bytes ++ [0].
Proof.
  induction bytes as [|b r IH]; intros H; [reflexivity|]. inversion H; subst. cbn [upto_nul app].
  destruct (b =? 0) eqn:E; [lia|]. rewrite IH by assumption. reflexivity.
Qed.

(* the terminating NUL in S_eatws with nothing but the finished value on the stack: leave the loop *)
Lemma redo_eatws_nul f t nb lo ln x :
  stack t = [x] -> s_state x = S_eatws -> s_saved x = S_finish ->
  redo sb (S (S f)) t (mkloc 0 nb lo ln) = Some (Out (set_state t S_finish) (mkloc 0 nb lo ln)).
Proof.
  intros Es Hs Hv.
  assert (Hst : st t = S_eatws) by (unfold st, top; rewrite Es; exact Hs).
  assert (Hsv : sv t = S_finish) by (unfold sv, top; rewrite Es; exact Hv).
  cbn [redo]. unfold step1 at 1. rewrite Hst. cbn [lc is_ws Z.eqb orb andb]. rewrite Hsv.
  unfold step1. rewrite st_set_state.
  assert (Ek : stack (set_state t S_finish) = [mksrec S_finish (s_saved x) (s_cur x) (s_name x)]).
  { unfold set_state, set_top, top. rewrite Es. reflexivity. }
  rewrite Ek. reflexivity.
Qed.

(* json_object_from_fd_ex's two calls give the value the NUL-terminated parse of the same text gives *)
Theorem from_fd_of_cstr t bytes tc v :
  wf_tok t -> is_fin (st t) = false -> validate_utf8 t = false -> Forall (fun b => b <> 0) bytes ->
  parse_ex_cstr sb t bytes = PR tc (Some v) ->
  exists t', from_fd_parse t bytes = PR t' (Some v) /\ err t' = TE_success.
Proof.
  intros Hwf Hnf Hv Hn Hc. unfold parse_ex_cstr in Hc. rewrite (upto_nul_nonul bytes Hn) in Hc.
  destruct (parse_total sb t bytes Hwf) as (ta & ra & Ha & _).
  destruct (parse_ex_outcome sb t (bytes ++ [0]) tc (Some v) Hc) as ([(_ & Hsc)|[(Hx & _)|(Hx & _)]] & _ & _); try discriminate.
  destruct (parse_ex_outcome sb t bytes ta ra Ha) as ([((v' & ->) & Hsa)|[(-> & Hca)|(-> & Hea1 & Hea2)]] & _ & _).
  - (* the first call returns a value: it is the same value *)
    exists ta. unfold from_fd_parse. rewrite Ha. split; [|exact Hsa]. f_equal. f_equal.
    unfold parse_ex in Ha, Hc.
    set (t0 := set_err (set_off t 0) TE_success) in *. set (l0 := mkloc 1 0 JNull None) in *.
    rewrite run_app in Hc. rewrite run_of_prefix in Ha.
    destruct (run_prefix sb bytes t0 l0) as [t1 l1|r] eqn:RP.
    2:{ rewrite Ha in Hc. inversion Hc. reflexivity. }
    destruct (run_prefix_facts sb bytes t0 l0 t1 l1 Hwf I RP) as (F1 & F2 & F3 & F4 & F5 & F7 & F6).
    change (validate_utf8 t0) with (validate_utf8 t) in F7. change (err t0) with TE_success in F3.
    unfold finish_call in Ha.
    change (validate_utf8 (set_err t1 (end_of_input_err t1))) with (validate_utf8 t1) in Ha.
    rewrite F7, Hv in Ha. cbn [andb] in Ha.
    assert (Hc1 : (lc l1 =? 0) = false).
    { destruct F6 as [(_ & _ & ->)|[_ F6]]; [reflexivity|lia]. }
    rewrite Hc1 in Ha. cbn [negb andb] in Ha.
    change (st (set_err t1 (end_of_input_err t1))) with (st t1) in Ha.
    pose proof (run_prefix_not_finish bytes t0 l0 t1 l1 Hwf Hnf RP) as Hf1.
    assert (Hq : tstate_eqb (st t1) S_finish = false) by (destruct (st t1); cbn in Hf1 |- *; congruence).
    rewrite Hq in Ha. cbn [andb] in Ha. cbn [err set_err] in Ha.
    unfold end_of_input_err in Ha.
    destruct ((depth t1 =? 0) && tstate_eqb (st t1) S_eatws && tstate_eqb (sv t1) S_finish) eqn:C; [|discriminate].
    inversion Ha; subst ta v'. clear Ha.
    apply andb_true_iff in C. destruct C as [C C3]. apply andb_true_iff in C. destruct C as [C1 C2].
    destruct (stack t1) as [|x [|y r]] eqn:Es; [discriminate| |exfalso; unfold depth in C1; rewrite Es in C1; cbn [zlen] in C1; pose proof (zlen_nonneg r); lia].
    assert (Hx1 : s_state x = S_eatws) by (unfold st, top in C2; rewrite Es in C2; destruct (s_state x); try discriminate; reflexivity).
    assert (Hx2 : s_saved x = S_finish) by (unfold sv, top in C3; rewrite Es in C3; destruct (s_saved x); try discriminate; reflexivity).
    cbn [run] in Hc. rewrite F7, Hv in Hc.
    unfold REDO_FUEL in Hc. rewrite (redo_eatws_nul _ t1 (nbytes l1) (lobj l1) (lnum l1) x Es Hx1 Hx2) in Hc.
    unfold finish_call in Hc. cbn [lc Z.eqb negb andb] in Hc.
    change (validate_utf8 (set_state t1 S_finish)) with (validate_utf8 t1) in Hc. rewrite F7, Hv in Hc. cbn [andb] in Hc.
    rewrite st_set_state in Hc. cbn [tstate_eqb negb andb] in Hc.
    assert (Hd0 : (depth (set_state t1 S_finish) =? 0) = true) by (unfold depth, set_state, set_top; cbn [stack]; rewrite Es; reflexivity).
    rewrite Hd0 in Hc. cbn [negb orb andb] in Hc.
    change (err (set_state t1 S_finish)) with (err t1) in Hc. rewrite F3 in Hc.
    inversion Hc. unfold top, set_state, set_top, set_err, top. cbn [stack]. rewrite Es. reflexivity.
  - (* the first call asks for more input: the second call is the rest of the single call *)
    destruct (chunk_independent sb t bytes [0] ta None Hwf Ha Hca) as (_ & _ & _ & tw & ts & r & A & B & C & _).
    rewrite Hc in A. inversion A; subst tw r.
    exists ts. unfold from_fd_parse. rewrite Ha, Hca. cbn [is_continue]. split; [exact B|congruence].
  - (* the first call fails: then so does the NUL-terminated parse *)
    exfalso. unfold parse_ex in Ha, Hc.
    set (t0 := set_err (set_off t 0) TE_success) in *. set (l0 := mkloc 1 0 JNull None) in *.
    rewrite run_app in Hc. rewrite run_of_prefix in Ha.
    destruct (run_prefix sb bytes t0 l0) as [t1 l1|r] eqn:RP.
    2:{ rewrite Ha in Hc. inversion Hc. }
    destruct (run_prefix_facts sb bytes t0 l0 t1 l1 Hwf I RP) as (F1 & F2 & F3 & F4 & F5 & F7 & F6).
    change (validate_utf8 t0) with (validate_utf8 t) in F7. change (err t0) with TE_success in F3.
    unfold finish_call in Ha.
    change (validate_utf8 (set_err t1 (end_of_input_err t1))) with (validate_utf8 t1) in Ha.
    rewrite F7, Hv in Ha. cbn [andb] in Ha.
    assert (Hc1 : (lc l1 =? 0) = false).
    { destruct F6 as [(_ & _ & ->)|[_ F6]]; [reflexivity|lia]. }
    rewrite Hc1 in Ha. cbn [negb andb] in Ha.
    change (st (set_err t1 (end_of_input_err t1))) with (st t1) in Ha.
    pose proof (run_prefix_not_finish bytes t0 l0 t1 l1 Hwf Hnf RP) as Hf1.
    assert (Hq : tstate_eqb (st t1) S_finish = false) by (destruct (st t1); cbn in Hf1 |- *; congruence).
    rewrite Hq in Ha. cbn [andb] in Ha. cbn [err set_err] in Ha.
    unfold end_of_input_err in Ha.
    destruct ((depth t1 =? 0) && tstate_eqb (st t1) S_eatws && tstate_eqb (sv t1) S_finish); inversion Ha; subst ta;
      cbn [err set_err reset_levels set_stack] in Hea1, Hea2; congruence.
Qed.
End S.

(* the parser json_object_from_fd_ex creates (no flags; depth -1 = the default 32) *)
Lemma new_not_fin D s a v t : tok_new D s a v = Some t -> is_fin (st t) = false /\ wf_tok t /\ validate_utf8 t = v.
Proof. unfold tok_new. destruct (D <? 1); [discriminate|]. intros H; inversion H. repeat split. Qed.
