(* Properties_C17.v — statements only.  C17: the tree visitor performs the documented
   traversal for any tree and any callback.

   [json_c_visit userfunc v] is the model of json_visit.c (VisitModel.v): the calls made, in
   call order, and the value returned.  [userfunc] is an arbitrary function of the call
   history (newest first, the current call at the head), i.e. any assignment of return values
   to calls: with the calls in call order [before ++ e :: after], the value returned for [e]
   is [userfunc (e :: rev before)].  Nodes are named by their path (child positions from the
   root); [is_prefix p q] = the node q is the node p or lies below it. *)
From JC Require Import Base Value VisitModel VisitSpec VisitProofs.
Local Open Scope Z_scope.

(* For all trees and all callbacks: the same calls (node, flags, parent, key or index, depth)
   in the same order, and the same final result, as the reference traversal of VisitSpec.v
   (the tree flattened into its pre/post document-order list, walked by the three-mode
   skip/pop/stop automaton). *)
Theorem C17_visit_conforms : forall (userfunc : list event -> Z) (v : jv),
  json_c_visit userfunc v = spec_visit userfunc v.
Proof. exact visit_conforms_tr. Qed.
Print Assumptions C17_visit_conforms.

(* SKIP on a first call: no later call is about that node again (no second call) or about
   anything below it. *)
Theorem C17_skip_omits_children : forall userfunc v before e after res,
  json_c_visit userfunc v = (before ++ e :: after, res) ->
  ev_flags e = 0 -> userfunc (e :: rev before) = RET_SKIP ->
  forall e', In e' after -> ~ is_prefix (ev_path e) (ev_path e').
Proof. exact skip_omits_children. Qed.
Print Assumptions C17_skip_omits_children.

(* POP on a first call: the very next call is the second call on the node's parent (its own
   members and second call and all remaining siblings are abandoned); on the root nothing
   follows and the result is success. *)
Theorem C17_pop_resumes_after_parent : forall userfunc v before e after res,
  json_c_visit userfunc v = (before ++ e :: after, res) ->
  ev_flags e = 0 -> userfunc (e :: rev before) = RET_POP ->
  match after with
  | [] => ev_path e = [] /\ res = 0
  | e2 :: _ => ev_flags e2 = JSON_C_VISIT_SECOND /\ exists i, ev_path e = ev_path e2 ++ [i]
  end.
Proof. exact pop_resumes_after_parent. Qed.
Print Assumptions C17_pop_resumes_after_parent.

(* STOP (on any call, first or second) is the last call and the result is success. *)
Theorem C17_stop_is_success : forall userfunc v before e after res,
  json_c_visit userfunc v = (before ++ e :: after, res) ->
  userfunc (e :: rev before) = RET_STOP ->
  after = [] /\ res = 0.
Proof. exact stop_is_success. Qed.
Print Assumptions C17_stop_is_success.

(* ERROR is the last call and the result is failure. *)
Theorem C17_error_is_failure : forall userfunc v before e after res,
  json_c_visit userfunc v = (before ++ e :: after, res) ->
  userfunc (e :: rev before) = RET_ERROR ->
  after = [] /\ res = RET_ERROR.
Proof. exact error_is_failure. Qed.
Print Assumptions C17_error_is_failure.

(* Any other value is reported as an error. *)
Theorem C17_invalid_code_is_error : forall userfunc v before e after res,
  json_c_visit userfunc v = (before ++ e :: after, res) ->
  let z := userfunc (e :: rev before) in
  z <> RET_CONTINUE -> z <> RET_SKIP -> z <> RET_POP -> z <> RET_STOP -> z <> RET_ERROR ->
  after = [] /\ res = RET_ERROR.
Proof. exact invalid_code_is_error. Qed.
Print Assumptions C17_invalid_code_is_error.

(* There is always at least one call, and when every call is answered CONTINUE, SKIP or POP
   the result is success. *)
Theorem C17_no_halt_is_success : forall userfunc v calls res,
  json_c_visit userfunc v = (calls, res) ->
  calls <> [] /\
  ((forall before e after, calls = before ++ e :: after ->
      goes_on (classify (userfunc (e :: rev before)))) -> res = 0).
Proof. exact no_halt_is_success. Qed.
Print Assumptions C17_no_halt_is_success.

(* The recursive function only ever returns one of the five defined codes: the two
   "INTERNAL ERROR" branches of the loops are unreachable. *)
Theorem C17_internal_error_unreachable : forall userfunc v path pk ki d tr,
  is_code (snd (visit userfunc v path pk ki d tr)).
Proof. exact visit_code. Qed.
Print Assumptions C17_internal_error_unreachable.

(* Every argument of json_c_visit.  [json_c_visit_ff userfunc v future_flags] is the function
   with its reserved argument: whatever is passed there, the calls (in particular the flags the
   user function sees: 0 on a first call, JSON_C_VISIT_SECOND on a second one) and the result
   are those of [json_c_visit].  (userarg is handed through to every call; in the model it is
   part of the closure [userfunc], the C side records its identity at every call.) *)
Theorem C17_visit_ignores_future_flags : forall userfunc v future_flags,
  json_c_visit_ff userfunc v future_flags = json_c_visit userfunc v.
Proof. exact visit_ignores_future_flags. Qed.
Print Assumptions C17_visit_ignores_future_flags.

Theorem C17_flags_are_0_or_second : forall userfunc v future_flags e,
  In e (fst (json_c_visit_ff userfunc v future_flags)) ->
  ev_flags e = 0 \/ ev_flags e = JSON_C_VISIT_SECOND.
Proof. exact flags_are_0_or_second. Qed.
Print Assumptions C17_flags_are_0_or_second.

(* Several traversals.  The visitor keeps no state between or outside its activations: in a
   program of traversals — a callback starting another traversal (same or other tree, other
   user function and argument) before it returns, nested to any depth, or traversals following
   one another — every traversal is the reference traversal of its own tree with its own
   callback, and a nested one takes place iff the call that starts it does. *)
Theorem C17_traversals_independent : forall p, run_prog p = spec_prog p.
Proof. exact run_prog_conforms. Qed.
Print Assumptions C17_traversals_independent.

Theorem C17_consecutive_traversals_independent : forall ps, run_progs ps = flat_map spec_prog ps.
Proof. exact run_progs_conforms. Qed.
Print Assumptions C17_consecutive_traversals_independent.

(* the outer traversal is the traversal without the nested ones *)
Theorem C17_outer_unaffected : forall v ff codes nested,
  hd None (run_prog (Prog v ff codes nested)) = Some (json_c_visit (sched_fun codes) v).
Proof. exact outer_unaffected. Qed.
Print Assumptions C17_outer_unaffected.

(* Non-vacuity.  {"a":[1,2,3],"b":{"c":null},"d":true} with the answers CONTINUE, CONTINUE,
   POP (on a[0]), CONTINUE (second call of a), SKIP (on b), STOP (on d): *)
Theorem C17_nonvacuous :
  json_c_visit (sched_fun [0; 0; 767; 0; 7547; 7867]) demo_tree =
  ([ mkev [] 0 PNone KNone 0;
     mkev [0] 0 PObj (KKey [97]) 1;
     mkev [0; 0] 0 PArr (KIdx 0) 2;
     mkev [0] 2 PObj (KKey [97]) 1;
     mkev [1] 0 PObj (KKey [98]) 1;
     mkev [2] 0 PObj (KKey [100]) 1 ], 0).
Proof. exact visit_nontrivial. Qed.

(* an undefined value (9) answered to the second call of b *)
Theorem C17_nonvacuous_invalid :
  json_c_visit (sched_fun [0; 7547; 0; 0; 9]) demo_tree =
  ([ mkev [] 0 PNone KNone 0;
     mkev [0] 0 PObj (KKey [97]) 1;
     mkev [1] 0 PObj (KKey [98]) 1;
     mkev [1; 0] 0 PObj (KKey [99]) 2;
     mkev [1] 2 PObj (KKey [98]) 1 ], -1).
Proof. exact visit_nontrivial_invalid. Qed.

(* the hypotheses of the SKIP, POP and STOP corollaries are satisfiable, with calls after them *)
Theorem C17_corollaries_nonvacuous :
  exists f v res,
    (exists before e after, json_c_visit f v = (before ++ e :: after, res) /\
        ev_flags e = 0 /\ f (e :: rev before) = RET_SKIP /\ after <> [] /\ ev_path e = [1]) /\
    (exists before e after, json_c_visit f v = (before ++ e :: after, res) /\
        ev_flags e = 0 /\ f (e :: rev before) = RET_POP /\ after <> [] /\ ev_path e = [0; 0]) /\
    (exists before e after, json_c_visit f v = (before ++ e :: after, res) /\
        f (e :: rev before) = RET_STOP).
Proof. exact corollaries_nonvacuous. Qed.

(* the callback of the first example, traversing [null,true] (answers CONTINUE, ERROR) from
   inside its third call (future_flags 2 and -1: the flags the callbacks see stay 0 / 2); a
   traversal attached to a ninth call, which never happens *)
Theorem C17_nonvacuous_nested :
  run_prog (Prog demo_tree 2 [0; 0; 767; 0; 7547; 7867]
              [(3, Prog (JArr [JNull; JBool true]) (-1) [0; -1] []); (9, Prog JNull 0 [] [])]) =
  [ Some ([ mkev [] 0 PNone KNone 0;
            mkev [0] 0 PObj (KKey [97]) 1;
            mkev [0; 0] 0 PArr (KIdx 0) 2;
            mkev [0] 2 PObj (KKey [97]) 1;
            mkev [1] 0 PObj (KKey [98]) 1;
            mkev [2] 0 PObj (KKey [100]) 1 ], 0);
    Some ([ mkev [] 0 PNone KNone 0; mkev [0] 0 PArr (KIdx 0) 1 ], -1);
    None ].
Proof. exact prog_nontrivial. Qed.
