(* Properties_C01.v — statements only (C01: parsing a valid text yields the denoted value). *)
From JC Require Import Base Value TokModel TokProofs TokSweep TokPair.
Local Open Scope Z_scope.

(* integer tokens of ANY length: exact inside the 64-bit ranges, saturating outside in
   default mode, rejected outside in strict mode *)
Theorem C01_int_token_exact : forall sb t ds,
  ds <> [] -> Forall (fun c => is_digit c = true) ds ->
  pb t = ds -> is_double t = false ->
  classify_number sb t =
    let v := digits_value ds in
    if strict t && leading_zero ds then NumErr                   (* not RFC 8259: outside the quantifier *)
    else if v <=? INT64_MAX then NumVal (JInt v)
    else if v <=? UINT64_MAX then NumVal (JUint v)
    else if strict t then NumErr else NumVal (JUint UINT64_MAX).
Proof. exact int_token_exact. Qed.
Print Assumptions C01_int_token_exact.

Theorem C01_neg_int_token_exact : forall sb t ds,
  ds <> [] -> Forall (fun c => is_digit c = true) ds ->
  pb t = 45 :: ds -> is_double t = false ->
  classify_number sb t =
    let v := digits_value ds in
    if strict t && leading_zero ds then NumErr
    else if v <=? 9223372036854775808 then NumVal (JInt (- v))
    else if strict t then NumErr else NumVal (JInt INT64_MIN).
Proof. exact neg_int_token_exact. Qed.
Print Assumptions C01_neg_int_token_exact.

(* every \uXXXX unit outside the surrogate range appends exactly its UTF-8 encoding and
   returns to the saved state; exhaustive over all 65536 units (computed inside Coq) *)
Theorem C01_unicode_unit_all : forall u, 0 <= u < 65536 -> unit_ok u = true.
Proof. exact unicode_unit_all. Qed.
Print Assumptions C01_unicode_unit_all.

(* every high/low surrogate pairing is combined into the 4-byte UTF-8 sequence of the
   scalar value; exhaustive over all 1024 x 1024 pairs *)
Theorem C01_surrogate_pair_all : forall hi lo, 55296 <= hi < 56320 -> 56320 <= lo < 57344 -> pair_ok hi lo = true.
Proof. exact surrogate_pair_all. Qed.
Print Assumptions C01_surrogate_pair_all.

(* members: first-occurrence order, last duplicate's value *)
Theorem C01_obj_add_spec : forall ms k v,
  map fst (obj_add ms k v) = (if existsb (fun kv => bytes_eqb (fst kv) k) ms then map fst ms else map fst ms ++ [k]) /\
  (forall k', bytes_eqb k' k = false -> assoc_get (obj_add ms k v) k' = assoc_get ms k') /\
  assoc_get (obj_add ms k v) k = Some v.
Proof. exact obj_add_spec. Qed.
Print Assumptions C01_obj_add_spec.

(* full-strength parse_valid is FALSE of the code for member names containing U+0000:
   the name is cut at the NUL (keys are C strings) and may then collide *)
Theorem C01_parse_name_nul_refuted :
  exists text t, tok_new 32 false false false = Some t /\
    text = [123;34;97;92;117;48;48;48;48;98;34;58;49;44;34;97;92;117;48;48;48;48;99;34;58;50;125] /\
    match parse_ex_cstr (fun _ => 0) t text with
    | PR _ (Some v) => v = JObj [([97], JInt 2)]
    | _ => False end.
Proof. exact parse_name_nul_refuted. Qed.
Print Assumptions C01_parse_name_nul_refuted.

(* end-to-end on concrete texts (non-vacuity of the model: these evaluate inside Coq) *)
Theorem C01_examples : parse_examples_ok = true.
Proof. exact parse_examples. Qed.
Print Assumptions C01_examples.

(* ---- parse_valid: the end-to-end statement (syntax trees: TokSyntax.v, proofs: TokValid*.v) ---- *)
From JC Require Import TokSyntax TokValid.

(* for every syntax tree of the sub-grammar [covered] (by now: every RFC 8259 tree, see
   C01_parse_valid below): parsing its rendering, NUL-terminated, in default or strict mode,
   returns exactly the denoted value, reports success and consumes exactly the text *)
Theorem C01_parse_valid_covered : forall sb D strictf s lead trail t,
  wf_stx s -> all_ws lead = true -> all_ws trail = true -> covered s = true ->
  Z.of_nat (nest s) < D -> ints_in_range s = true -> names_nul_free s = true ->
  tok_new D strictf false false = Some t ->
  exists t', parse_ex_cstr sb t (render_doc lead s trail) = PR t' (Some (value sb s)) /\
             err t' = TE_success /\ char_offset t' = zlen (render_doc lead s trail).
Proof. exact parse_valid_covered. Qed.
Print Assumptions C01_parse_valid_covered.

(* unrestricted: all literals, numbers (integers exact, fraction/exponent tokens = the
   strtod oracle on the token, retained as text), strings (every escape form, surrogate
   pairs combined, unpaired surrogates replaced), arrays, objects (first-occurrence order,
   last duplicate's value), any blanks, any nesting below the configured depth.
   Outside the quantifier, with the refutations above: integer tokens beyond 64 bits and
   member names containing U+0000. *)
Theorem C01_parse_valid : forall sb D strictf s lead trail t,
  wf_stx s -> all_ws lead = true -> all_ws trail = true ->
  Z.of_nat (nest s) < D -> ints_in_range s = true -> names_nul_free s = true ->
  tok_new D strictf false false = Some t ->
  exists t', parse_ex_cstr sb t (render_doc lead s trail) = PR t' (Some (value sb s)) /\
             err t' = TE_success /\ char_offset t' = zlen (render_doc lead s trail).
Proof. exact parse_valid. Qed.
Print Assumptions C01_parse_valid.

Theorem C01_covered_all : forall s, covered s = true.
Proof. exact covered_all. Qed.
Print Assumptions C01_covered_all.

(* non-vacuity: a tree using every constructor meets the hypotheses and evaluates as stated *)
Theorem C01_parse_valid_example : parse_valid_example_ok = true.
Proof. exact parse_valid_example. Qed.
Print Assumptions C01_parse_valid_example.

(* the other half (shared with C15): a valid text whose nesting does not fit the configured
   depth is refused with json_tokener_error_depth, in both modes *)
From JC Require Import TokDepth.
Theorem C01_parse_depth : forall sb D strictf s lead trail t,
  wf_stx s -> all_ws lead = true -> all_ws trail = true ->
  ints_in_range s = true -> names_nul_free s = true ->
  D <= Z.of_nat (nest s) ->
  tok_new D strictf false false = Some t ->
  exists t', parse_ex_cstr sb t (render_doc lead s trail) = PR t' None /\ err t' = TE_depth.
Proof. exact parse_depth. Qed.
Print Assumptions C01_parse_depth.

Theorem C01_parse_depth_example : parse_depth_example_ok = true.
Proof. exact parse_depth_example. Qed.
Print Assumptions C01_parse_depth_example.

(* ---- the file / descriptor entry point (json_util.c: json_object_from_fd_ex, from_fd, from_file) ----
   parse side = TokFd.from_fd_parse: the bytes read, explicit length; when that call asks for more
   input the terminating NUL behind the contents is passed on (fix f641378: before it a file holding
   just 42, -1.5e3 or true was rejected with "continue").  Every valid text, with or without
   trailing blanks, yields the denoted value.  (Reading the bytes off the descriptor is C20.) *)
From JC Require Import TokFd TokFdValid.

Theorem C01_from_fd_valid : forall sb D s lead trail t,
  wf_stx s -> all_ws lead = true -> all_ws trail = true ->
  Z.of_nat (nest s) < D -> ints_in_range s = true -> names_nul_free s = true ->
  tok_new D false false false = Some t ->
  exists t', from_fd_parse sb t (render_doc lead s trail) = PR t' (Some (value sb s)) /\ err t' = TE_success.
Proof. exact from_fd_valid. Qed.
Print Assumptions C01_from_fd_valid.

(* for ANY text without NUL bytes the two calls return the value the NUL-terminated parse returns *)
Theorem C01_from_fd_of_cstr : forall sb t bytes tc v,
  TokReset.wf_tok t -> is_fin (st t) = false -> validate_utf8 t = false -> Forall (fun b => b <> 0) bytes ->
  parse_ex_cstr sb t bytes = PR tc (Some v) ->
  exists t', from_fd_parse sb t bytes = PR t' (Some v) /\ err t' = TE_success.
Proof. exact from_fd_of_cstr. Qed.
Print Assumptions C01_from_fd_of_cstr.

Theorem C01_from_fd_examples : fd_examples_ok = true.
Proof. exact fd_examples. Qed.
Print Assumptions C01_from_fd_examples.

(* ---- integers beyond 64 bits, at document level (TokValidSat.v, TokBigInt.v) ----
   "Integers beyond 64 bits saturate in default mode and are rejected in strict mode": every valid
   document, whatever integers it contains, is accepted in default mode with the value in which each
   out-of-range integer token is replaced by UINT64_MAX / INT64_MIN (value_sat; equal to [value] when
   all integers are in range); in strict mode a document containing such a token anywhere is rejected. *)
From JC Require Import TokStrictPos TokStrictExt TokValidSat TokBigInt.

Theorem C01_value_sat_in_range : forall sb s, ints_in_range s = true -> value_sat sb s = value sb s.
Proof. exact value_sat_in_range. Qed.
Print Assumptions C01_value_sat_in_range.

Theorem C01_parse_valid_sat : forall sb D al s lead trail t,
  wf_stx s -> all_ws lead = true -> all_ws trail = true -> Z.of_nat (nest s) < D ->
  names_nul_free s = true -> tok_new D false al false = Some t ->
  exists t', parse_ex_cstr sb t (render_doc lead s trail) = PR t' (Some (value_sat sb s)) /\
             err t' = TE_success /\ char_offset t' = zlen (render_doc lead s trail).
Proof. exact parse_valid_sat. Qed.
Print Assumptions C01_parse_valid_sat.

Theorem C01_parse_strict_rejects_big : forall sb D s lead trail t,
  wf_stx s -> all_ws lead = true -> all_ws trail = true -> Z.of_nat (nest s) < D ->
  names_nul_free s = true -> ints_in_range s = false -> tok_new D true false false = Some t ->
  rejected sb t (render_doc lead s trail).
Proof. exact parse_strict_rejects_big. Qed.
Print Assumptions C01_parse_strict_rejects_big.

Theorem C01_big_example : big_example_ok = true.
Proof. exact big_example. Qed.
Print Assumptions C01_big_example.

(* ---- with JSON_TOKENER_VALIDATE_UTF8 (TokUtf8.v, TokValidUtf8.v) ----
   Validation is neutral on valid UTF-8: for ANY grammar, a NUL-free text that is valid UTF-8
   (validator scan u8scan ends in state 0) and on which the plain parser succeeds at the end of the text
   gives the same result with the flag set.  Hence every valid document is parsed to its value with
   the flag as well, in both modes and with integers of any size. *)
From JC Require Import TokStream2 TokUtf8 TokValidUtf8.

Theorem C01_validate_utf8_neutral : forall sb t text t' r,
  validate_utf8 t = false -> nonulb text = true -> u8scan 0 text = Some 0 ->
  parse_ex_cstr sb t text = PR t' r -> char_offset t' = zlen text ->
  parse_ex_cstr sb (set_vf t true) text = PR (set_vf t' true) r.
Proof. exact validate_utf8_neutral. Qed.
Print Assumptions C01_validate_utf8_neutral.

Theorem C01_parse_valid_utf8 : forall sb D strictf s lead trail t,
  wf_stx s -> all_ws lead = true -> all_ws trail = true ->
  Z.of_nat (nest s) < D -> ints_in_range s = true -> names_nul_free s = true ->
  u8scan 0 (render_doc lead s trail) = Some 0 ->
  tok_new D strictf false true = Some t ->
  exists t', parse_ex_cstr sb t (render_doc lead s trail) = PR t' (Some (value sb s)) /\
             err t' = TE_success /\ char_offset t' = zlen (render_doc lead s trail).
Proof. exact parse_valid_utf8. Qed.
Print Assumptions C01_parse_valid_utf8.

Theorem C01_parse_valid_sat_utf8 : forall sb D al s lead trail t,
  wf_stx s -> all_ws lead = true -> all_ws trail = true ->
  Z.of_nat (nest s) < D -> names_nul_free s = true ->
  u8scan 0 (render_doc lead s trail) = Some 0 ->
  tok_new D false al true = Some t ->
  exists t', parse_ex_cstr sb t (render_doc lead s trail) = PR t' (Some (value_sat sb s)) /\
             err t' = TE_success /\ char_offset t' = zlen (render_doc lead s trail).
Proof. exact parse_valid_sat_utf8. Qed.
Print Assumptions C01_parse_valid_sat_utf8.

Theorem C01_utf8_example : utf8_example_ok = true.
Proof. exact utf8_example. Qed.
(* the statement is about whole valid documents: right after a value followed by a multi-byte
   character the two settings differ (the lead byte is validated before the number state ends the value) *)
Theorem C01_utf8_after_value_differs :
  pres false [49; 195; 169] = Some (TE_success, 1, Some (JInt 1)) /\
  pres true [49; 195; 169] = Some (TE_utf8, 1, None).
Proof. exact utf8_after_value_differs. Qed.
