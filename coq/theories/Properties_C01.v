(* Properties_C01.v — statements only (C01: parsing a valid text yields the denoted value). *)
From JC Require Import Base Value TokModel TokProofs TokSweep TokPair.
Local Open Scope Z_scope.

(* integer tokens of ANY length: exact inside the 64-bit ranges, saturating outside in
   default mode, rejected outside in strict mode *)
Theorem C01_int_token_exact : forall sb t ds,
  ds <> [] -> Forall (fun c => is_digit c = true) ds ->
  pb t = ds -> is_double t = false ->
  classify_number sb t =
    let v := digits_value ds in
    if strict t && leading_zero ds then NumErr                   (* not RFC 8259: outside the quantifier *)
    else if v <=? INT64_MAX then NumVal (JInt v)
    else if v <=? UINT64_MAX then NumVal (JUint v)
    else if strict t then NumErr else NumVal (JUint UINT64_MAX).
Proof. exact int_token_exact. Qed.
Print Assumptions C01_int_token_exact.

Theorem C01_neg_int_token_exact : forall sb t ds,
  ds <> [] -> Forall (fun c => is_digit c = true) ds ->
  pb t = 45 :: ds -> is_double t = false ->
  classify_number sb t =
    let v := digits_value ds in
    if strict t && leading_zero ds then NumErr
    else if v <=? 9223372036854775808 then NumVal (JInt (- v))
    else if strict t then NumErr else NumVal (JInt INT64_MIN).
Proof. exact neg_int_token_exact. Qed.
Print Assumptions C01_neg_int_token_exact.

(* every \uXXXX unit outside the surrogate range appends exactly its UTF-8 encoding and
   returns to the saved state; exhaustive over all 65536 units (computed inside Coq) *)
Theorem C01_unicode_unit_all : forall u, 0 <= u < 65536 -> unit_ok u = true.
Proof. exact unicode_unit_all. Qed.
Print Assumptions C01_unicode_unit_all.

(* every high/low surrogate pairing is combined into the 4-byte UTF-8 sequence of the
   scalar value; exhaustive over all 1024 x 1024 pairs *)
Theorem C01_surrogate_pair_all : forall hi lo, 55296 <= hi < 56320 -> 56320 <= lo < 57344 -> pair_ok hi lo = true.
Proof. exact surrogate_pair_all. Qed.
Print Assumptions C01_surrogate_pair_all.

(* members: first-occurrence order, last duplicate's value *)
Theorem C01_obj_add_spec : forall ms k v,
  map fst (obj_add ms k v) = (if existsb (fun kv => bytes_eqb (fst kv) k) ms then map fst ms else map fst ms ++ [k]) /\
  (forall k', bytes_eqb k' k = false -> assoc_get (obj_add ms k v) k' = assoc_get ms k') /\
  assoc_get (obj_add ms k v) k = Some v.
Proof. exact obj_add_spec. Qed.
Print Assumptions C01_obj_add_spec.

(* full-strength parse_valid is FALSE of the code for member names containing U+0000:
   the name is cut at the NUL (keys are C strings) and may then collide *)
Theorem C01_parse_name_nul_refuted :
  exists text t, tok_new 32 false false false = Some t /\
    text = [123;34;97;92;117;48;48;48;48;98;34;58;49;44;34;97;92;117;48;48;48;48;99;34;58;50;125] /\
    match parse_ex_cstr (fun _ => 0) t text with
    | PR _ (Some v) => v = JObj [([97], JInt 2)]
    | _ => False end.
Proof. exact parse_name_nul_refuted. Qed.
Print Assumptions C01_parse_name_nul_refuted.

(* end-to-end on concrete texts (non-vacuity of the model: these evaluate inside Coq) *)
Theorem C01_examples : parse_examples_ok = true.
Proof. exact parse_examples. Qed.
Print Assumptions C01_examples.
