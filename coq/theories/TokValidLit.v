(* TokValidLit.v — parse_valid (C01), part 1: the value lemma (val_ok), literals, the
   level push at the first byte of an element, arrays. *)
From JC Require Import Base BaseLemmas Value TokModel TokProofs TokSyntax TokValidBase.
Local Open Scope Z_scope.

Definition is_nil {A} (l : list A) : bool := match l with [] => true | _ => false end.
(* the bytes that may follow a value: blank , ] } and, outside every container, NUL *)
Definition fol_ok (below : list srec) (c : byte) : bool :=
  is_ws c || (c =? 44) || (c =? 93) || (c =? 125) || ((c =? 0) && is_nil below).
Definition fol_rest (below : list srec) (rest : list byte) : bool :=
  match rest with fc :: _ => fol_ok below fc | [] => false end.

(* THE VALUE LEMMA, as a predicate on syntax trees: from a fresh level (eatws, saved =
   start) on top of any levels [below], with room for the nesting of s, the loop over
   render s ++ rest arrives at rest with the level holding the denoted value in
   (eatws, saved = finish).  The call-local lobj and the scratch fields are existential. *)
Definition val_ok (sb : list byte -> Z) (c : cf) (s : stx) : Prop :=
  forall f below g off x nb lo rest,
    (4 <= f)%nat ->
    zlen below + Z.of_nat (nest s) < c_md c ->
    fol_rest below rest = true ->
    exists f' g' x' lo', (8 <= f')%nat /\
      run_f sb f (render s ++ rest) (T c (fresh_level :: below) g 0 off) (mkloc x nb lo None) =
      run_f sb f' rest (T c (mksrec S_eatws S_finish (value sb s) None :: below) g' 0 (off + zlen (render s)))
            (mkloc x' nb lo' None).

(* first byte of a value *)
Definition vfirst (x : byte) : bool := negb (is_ws x) && negb (x =? 47) && negb (x =? 93).
Definition add_of (s : tstate) : tstate := match s with S_object_value => S_object_value_add | _ => S_array_add end.

Lemma fol_rest_ws below w more : all_ws w = true -> fol_rest below more = true -> fol_rest below (w ++ more) = true.
Proof.
  destruct w as [|b w]; [intros _ H; exact H|]. cbn. intros H _. apply andb_true_iff in H. destruct H as [H _].
  unfold fol_ok. rewrite H. reflexivity.
Qed.

Lemma render_first s : wf_stx s -> exists x0 tl, render s = x0 :: tl /\ vfirst x0 = true.
Proof.
  unfold wf_stx. destruct s as [l|n|cs|w es|w ms]; intros H.
  - destruct l; eexists _, _; split; reflexivity.
  - cbn [wf_stxb] in H. unfold wf_num in H. apply andb_true_iff in H. destruct H as [H _].
    apply andb_true_iff in H. destruct H as [H _].
    cbn [render]. unfold render_num. destruct (n_neg n); [eexists _, _; split; reflexivity|].
    destruct (n_int n) as [|d r]; [discriminate|]. cbn [wf_int all_digits forallb] in H.
    apply andb_true_iff in H. destruct H as [H _]. apply andb_true_iff in H. destruct H as [H _].
    eexists _, _. split; [reflexivity|]. unfold is_digit in H. unfold vfirst, is_ws. lia.
  - eexists _, _; split; reflexivity.
  - eexists _, _; split; reflexivity.
  - eexists _, _; split; reflexivity.
Qed.

(* array bodies in the order the loop reads them: after the opening bracket or a comma,
   up to and including the closing bracket *)
Definition render_el (x : ws * stx * ws) : list byte := let '(a, e, b) := x in a ++ render e ++ b.
Fixpoint render_elems (es : list (ws * stx * ws)) : list byte :=
  match es with
  | [] => []
  | x :: r => render_el x ++ match r with [] => [93] | _ => 44 :: render_elems r end
  end.
Lemma join_elems (f : ws * stx * ws -> list byte) x r :
  (forall y, f y = render_el y) -> join 44 (map f (x :: r)) ++ [93] = render_elems (x :: r).
Proof.
  intros Hf. revert x. induction r as [|y r IH]; intros x.
  - cbn. rewrite Hf. reflexivity.
  - change (join 44 (map f (x :: y :: r))) with (f x ++ 44 :: join 44 (map f (y :: r))).
    change (render_elems (x :: y :: r)) with (render_el x ++ 44 :: render_elems (y :: r)).
    rewrite Hf, <- app_assoc. cbn [app]. rewrite IH. reflexivity.
Qed.
Lemma render_arr_cons w x r : render (SArr w (x :: r)) = 91 :: render_elems (x :: r).
Proof.
  cbn [render]. f_equal. apply join_elems. intros [[a e] b]. reflexivity.
Qed.

Section S.
Variable sb : list byte -> Z.

(* ---------------------------------------------------------------- literals *)
Lemma lit_ok c l : val_ok sb c (SLit l).
Proof.
  intros f below g off x nb lo rest Hf _ Hr. fuel f.
  destruct rest as [|fc rest]; [discriminate|].
  destruct c as [md sf al]. destruct g as [p0 d0 s0 u0 q0].
  destruct l; cbn [render render_lit app value lit_value zlen].
  - replace (off + (1 + (1 + (1 + (1 + 0))))) with (off + 1 + 1 + 1 + 1) by lia.
    exists 15%nat. eexists (mkgb _ _ _ _ _), _, _. split; [lia|].
    destruct sf; do 4 stepC; unfold REDO_FUEL; stepR; reflexivity.
  - replace (off + (1 + (1 + (1 + (1 + 0))))) with (off + 1 + 1 + 1 + 1) by lia.
    exists 15%nat. eexists (mkgb _ _ _ _ _), _, _. split; [lia|].
    destruct sf; do 4 stepC; unfold REDO_FUEL; stepR; reflexivity.
  - replace (off + (1 + (1 + (1 + (1 + (1 + 0)))))) with (off + 1 + 1 + 1 + 1 + 1) by lia.
    exists 15%nat. eexists (mkgb _ _ _ _ _), _, _. split; [lia|].
    destruct sf; do 5 stepC; unfold REDO_FUEL; stepR; reflexivity.
Qed.

(* ---------------------------------------------------------------- level push *)
(* in (eatws, saved = array / array_after_sep / object_value) the first byte of the
   element makes the level push; the same byte is then read by the fresh level *)
Lemma push_step c f x0 more svs cur nm below g off x nb lo :
  (svs = S_array \/ svs = S_array_after_sep \/ svs = S_object_value) ->
  vfirst x0 = true -> zlen below + 1 < c_md c ->
  run_f sb (S (S f)) (x0 :: more) (T c (mksrec S_eatws svs cur nm :: below) g 0 off) (mkloc x nb lo None) =
  run_f sb f (x0 :: more) (T c (fresh_level :: mksrec (add_of svs) svs cur nm :: below) g 0 off) (mkloc x0 nb lo None).
Proof.
  intros Hs Hx Hd. unfold vfirst in Hx.
  destruct (is_ws x0) eqn:E1; [discriminate|]. destruct (x0 =? 47) eqn:E2; [discriminate|].
  destruct (x0 =? 93) eqn:E3; [discriminate|]. clear Hx.
  destruct g as [p d s u q].
  rewrite (runT_R sb c (S f) x0 more _ _ 0 off x nb lo None (mksrec svs svs cur nm :: below) p d s u q 0 lo None).
  2:{ unfold step1. cbn [st top stack T s_state lc]. rewrite E1, E2. cbn [andb]. reflexivity. }
  rewrite (runT_R sb c f x0 more _ _ 0 off x0 nb lo None (fresh_level :: mksrec (add_of svs) svs cur nm :: below) p d s u q 0 lo None).
  2:{ unfold step1.
      match goal with |- context [depth ?t >=? max_depth ?t - 1] =>
        assert (E : (depth t >=? max_depth t - 1) = false) by (unfold depth; cbn [stack T zlen max_depth]; lia) end.
      destruct Hs as [->|[->| ->]]; cbn [st top stack T s_state lc]; rewrite ?E3, E; reflexivity. }
  reflexivity.
Qed.

(* ---------------------------------------------------------------- arrays *)
(* a completed element followed by , or ]: pop, add, separator *)
Lemma arr_pop_comma c f rest v nm' svs acc nm below g off x nb lo :
  (6 <= f)%nat ->
  exists g', 
  run_f sb f (44 :: rest) (T c (mksrec S_eatws S_finish v nm' :: mksrec S_array_add svs (JArr acc) nm :: below) g 0 off) (mkloc x nb lo None) =
  run_f sb REDO_FUEL rest (T c (mksrec S_eatws S_array_after_sep (JArr (acc ++ [v])) nm :: below) g' 0 (off + 1)) (mkloc 44 nb v None).
Proof.
  intros Hf. fuel f. destruct c as [md sf al]. destruct g as [p d s u q]. eexists (mkgb _ _ _ _ _).
  destruct sf; stepC; reflexivity.
Qed.
Lemma arr_pop_close c f rest v nm' svs acc nm below g off x nb lo :
  (6 <= f)%nat ->
  exists g',
  run_f sb f (93 :: rest) (T c (mksrec S_eatws S_finish v nm' :: mksrec S_array_add svs (JArr acc) nm :: below) g 0 off) (mkloc x nb lo None) =
  run_f sb REDO_FUEL rest (T c (mksrec S_eatws S_finish (JArr (acc ++ [v])) nm :: below) g' 0 (off + 1)) (mkloc 93 nb v None).
Proof.
  intros Hf. fuel f. destruct c as [md sf al]. destruct g as [p d s u q]. eexists (mkgb _ _ _ _ _).
  destruct sf; stepC; reflexivity.
Qed.

Definition el_ok (x : ws * stx * ws) : bool := let '(a, e, b) := x in all_ws a && wf_stxb e && all_ws b.

Lemma arr_loop c : forall es,
  es <> [] -> Forall (fun x => val_ok sb c (el_val x)) es -> forallb el_ok es = true ->
  forall f svs acc below g off x nb lo rest,
    (svs = S_array \/ svs = S_array_after_sep) ->
    (8 <= f)%nat ->
    Forall (fun x => zlen below + 1 + Z.of_nat (nest (el_val x)) < c_md c) es ->
    exists f' g' x' lo', (8 <= f')%nat /\
    run_f sb f (render_elems es ++ rest) (T c (mksrec S_eatws svs (JArr acc) None :: below) g 0 off) (mkloc x nb lo None) =
    run_f sb f' rest (T c (mksrec S_eatws S_finish (JArr (acc ++ map (fun x => value sb (el_val x)) es)) None :: below) g' 0
                        (off + zlen (render_elems es))) (mkloc x' nb lo' None).
Proof.
  induction es as [|[[a e] b] r IH]; [congruence|].
  intros _ HV Hwf f svs acc below g off x nb lo rest Hs Hf Hd.
  inversion HV as [|? ? HVe HVr]; subst. inversion Hd as [|? ? Hde Hdr]; subst.
  cbn [forallb el_ok] in Hwf. apply andb_true_iff in Hwf. destruct Hwf as [Hwe Hwr].
  apply andb_true_iff in Hwe. destruct Hwe as [Hwe Hwb]. apply andb_true_iff in Hwe. destruct Hwe as [Hwa Hwe].
  unfold el_val in HVe, Hde. cbn [fst snd] in HVe, Hde.
  cbn [render_elems render_el]. rewrite <- !app_assoc.
  (* blanks before the element *)
  destruct (run_ws sb c a f svs (JArr acc) None below g 0 off x nb lo None
              (render e ++ b ++ (match r with [] => [93] | _ :: _ => 44 :: render_elems r end) ++ rest) Hf Hwa)
    as (f1 & x1 & Hf1 & ->).
  (* the push *)
  destruct (render_first e Hwe) as (x0 & tl0 & Ex0 & Hx0).
  set (tailb := b ++ (match r with [] => [93] | _ :: _ => 44 :: render_elems r end) ++ rest).
  assert (Hpush : forall gg oo xx ll, exists f2, (4 <= f2)%nat /\
            run_f sb f1 (render e ++ tailb) (T c (mksrec S_eatws svs (JArr acc) None :: below) gg 0 oo) (mkloc xx nb ll None) =
            run_f sb f2 (render e ++ tailb) (T c (fresh_level :: mksrec S_array_add svs (JArr acc) None :: below) gg 0 oo) (mkloc x0 nb ll None)).
  { intros gg oo xx ll. rewrite Ex0. cbn [app]. fuel f1. exists (S (S (S (S (S (S f1)))))). split; [lia|].
    rewrite push_step; [|destruct Hs as [->| ->]; auto|exact Hx0|pose proof (Nat2Z.is_nonneg (nest e)); lia].
    destruct Hs as [->| ->]; reflexivity. }
  destruct (Hpush g (off + zlen a) x1 lo) as (f2 & Hf2 & ->). clear Hpush.
  (* the element *)
  destruct (HVe f2 (mksrec S_array_add svs (JArr acc) None :: below) g (off + zlen a) x0 nb lo tailb Hf2)
    as (f3 & g3 & x3 & lo3 & Hf3 & ->).
  { cbn [zlen]. lia. }
  { subst tailb. apply fol_rest_ws; [exact Hwb|]. destruct r; reflexivity. }
  subst tailb.
  (* blanks after the element *)
  destruct (run_ws sb c b f3 S_finish (value sb e) None (mksrec S_array_add svs (JArr acc) None :: below) g3 0
              (off + zlen a + zlen (render e)) x3 nb lo3 None
              ((match r with [] => [93] | _ :: _ => 44 :: render_elems r end) ++ rest) Hf3 Hwb)
    as (f4 & x4 & Hf4 & ->).
  destruct r as [|y r].
  - (* last element *)
    cbn [app].
    destruct (arr_pop_close c f4 rest (value sb e) None svs acc None below g3
                (off + zlen a + zlen (render e) + zlen b) x4 nb lo3) as (g5 & ->); [lia|].
    exists REDO_FUEL, g5, 93, (value sb e). split; [unfold REDO_FUEL; lia|].
    cbn [map el_val fst snd]. f_equal. f_equal. rewrite !zlen_app. cbn [zlen]. lia.
  - cbn [app].
    destruct (arr_pop_comma c f4 (render_elems (y :: r) ++ rest) (value sb e) None svs acc None below g3
                (off + zlen a + zlen (render e) + zlen b) x4 nb lo3) as (g5 & ->); [lia|].
    destruct (IH ltac:(discriminate) HVr Hwr REDO_FUEL S_array_after_sep (acc ++ [value sb e]) below g5
                (off + zlen a + zlen (render e) + zlen b + 1) 44 nb (value sb e) rest)
      as (f6 & g6 & x6 & lo6 & Hf6 & ->); [auto|unfold REDO_FUEL; lia|exact Hdr|].
    exists f6, g6, x6, lo6. split; [exact Hf6|].
    cbn [map]. rewrite <- app_assoc. cbn [app el_val fst snd]. f_equal. f_equal.
    rewrite !zlen_app. cbn [zlen]. lia.
Qed.

Lemma nest_arr_elems w es : 
  Forall (fun x => (S (nest (el_val x)) <= nest (SArr w es))%nat) es.
Proof.
  cbn [nest]. induction es as [|x r IH]; constructor.
  - cbn [map list_max fold_right]. lia.
  - eapply Forall_impl; [|exact IH]. cbn beta. intros y Hy. cbn [map list_max fold_right].
    change (fold_right Init.Nat.max 0%nat (map (fun x0 : ws * stx * ws => S (nest (el_val x0))) r))
      with (list_max (map (fun x0 : ws * stx * ws => S (nest (el_val x0))) r)). lia.
Qed.

Lemma arr_ok c w es :
  wf_stx (SArr w es) -> Forall (fun x => val_ok sb c (el_val x)) es -> val_ok sb c (SArr w es).
Proof.
  intros Hwf HV f below g off x nb lo rest Hf Hd Hr.
  unfold wf_stx in Hwf. cbn [wf_stxb] in Hwf. apply andb_true_iff in Hwf. destruct Hwf as [Hw Hes].
  destruct es as [|y r].
  - (* [ blanks ] *)
    cbn [render value map app]. rewrite <- app_assoc. cbn [app].
    assert (E1 : exists g1, run_f sb f (91 :: w ++ 93 :: rest) (T c (fresh_level :: below) g 0 off) (mkloc x nb lo None) =
                 run_f sb REDO_FUEL (w ++ 93 :: rest) (T c (mksrec S_eatws S_array (JArr []) None :: below) g1 0 (off + 1)) (mkloc 91 nb lo None)).
    { fuel f. destruct c as [md sf al]. destruct g as [p d s u q]. eexists (mkgb _ _ _ _ _).
      destruct sf; stepC; reflexivity. }
    destruct E1 as (g1 & ->).
    destruct (run_ws sb c w REDO_FUEL S_array (JArr []) None below g1 0 (off + 1) 91 nb lo None (93 :: rest))
      as (f2 & x2 & Hf2 & ->); [unfold REDO_FUEL; lia|exact Hw|].
    assert (E3 : exists g3, run_f sb f2 (93 :: rest) (T c (mksrec S_eatws S_array (JArr []) None :: below) g1 0 (off + 1 + zlen w)) (mkloc x2 nb lo None) =
                 run_f sb REDO_FUEL rest (T c (mksrec S_eatws S_finish (JArr []) None :: below) g3 0 (off + 1 + zlen w + 1)) (mkloc 93 nb lo None)).
    { fuel f2. destruct c as [md sf al]. destruct g1 as [p d s u q]. eexists (mkgb _ _ _ _ _).
      destruct sf; stepC; reflexivity. }
    destruct E3 as (g3 & ->).
    exists REDO_FUEL, g3, 93, lo. split; [unfold REDO_FUEL; lia|]. f_equal. f_equal.
    cbn [zlen]. rewrite zlen_app. cbn [zlen]. lia.
  - rewrite render_arr_cons. cbn [app value].
    assert (E1 : exists g1, run_f sb f (91 :: render_elems (y :: r) ++ rest) (T c (fresh_level :: below) g 0 off) (mkloc x nb lo None) =
                 run_f sb REDO_FUEL (render_elems (y :: r) ++ rest) (T c (mksrec S_eatws S_array (JArr []) None :: below) g1 0 (off + 1)) (mkloc 91 nb lo None)).
    { fuel f. destruct c as [md sf al]. destruct g as [p d s u q]. eexists (mkgb _ _ _ _ _).
      destruct sf; stepC; reflexivity. }
    destruct E1 as (g1 & ->).
    destruct (arr_loop c (y :: r) ltac:(discriminate) HV) with (f := REDO_FUEL) (svs := S_array) (acc := @nil jv)
      (below := below) (g := g1) (off := off + 1) (x := 91) (nb := nb) (lo := lo) (rest := rest)
      as (f2 & g2 & x2 & lo2 & Hf2 & ->).
    + exact Hes.
    + auto.
    + unfold REDO_FUEL; lia.
    + pose proof (nest_arr_elems w (y :: r)) as HN. eapply Forall_impl; [|exact HN]. cbn beta. intros z Hz. lia.
    + exists f2, g2, x2, lo2. split; [exact Hf2|]. cbn [app zlen]. f_equal. f_equal. lia.
Qed.

End S.
