(* SerModel.v — the serializer of json_object.c as written (C02):
   json_object_to_json_string_length and the per-type emitters
   json_object_{object,array,boolean,int,double,string}_to_json_string,
   json_object_userdata_to_json_string (retained number text), indent(), json_escape_str,
   over the shared value type [jv].  Appends to the print buffer are list appends (no
   allocation fault here: C08 owns those; C19 proves append = list append).
   [fmt17] is the libc oracle: the bytes snprintf("%.17g") produces for the finite double
   with the given bit pattern (in the current LC_NUMERIC locale: the code repairs a comma).
   The tight loop of json_escape_str that batches unescaped runs is unrolled into one
   append per byte (observationally identical).  No proofs here. *)
From JC Require Import Base Value.
Local Open Scope Z_scope.

(* ------------------------------------------------------------------ flags (json_object.h) *)
(* JSON_C_TO_STRING_SPACED 1<<0, PRETTY 1<<1, NOZERO 1<<2, PRETTY_TAB 1<<3, NOSLASHESCAPE 1<<4,
   COLOR 1<<5; the code only ever tests single bits, so a flag word is six booleans *)
Record sflags := mkfl { spaced : bool; pretty : bool; nozero : bool; pretty_tab : bool;
                        noslash : bool; color : bool }.
Definition flags_of (n : Z) : sflags :=
  mkfl (Z.testbit n 0) (Z.testbit n 1) (Z.testbit n 2) (Z.testbit n 3) (Z.testbit n 4) (Z.testbit n 5).
Definition flags_plain : sflags := mkfl false false false false false false.

(* ------------------------------------------------------------------ constants *)
Definition s_null : list byte := [110;117;108;108].
Definition s_true : list byte := [116;114;117;101].
Definition s_false : list byte := [102;97;108;115;101].
Definition s_NaN : list byte := [78;97;78].
Definition s_Infinity : list byte := [73;110;102;105;110;105;116;121].
Definition s_mInfinity : list byte := 45 :: s_Infinity.
(* "\033[0m" "\033[0;32m" "\033[0;34m" "\033[0;35m" *)
Definition c_reset : list byte := [27;91;48;109].
Definition c_green : list byte := [27;91;48;59;51;50;109].
Definition c_blue : list byte := [27;91;48;59;51;52;109].
Definition c_magenta : list byte := [27;91;48;59;51;53;109].

Definition colored (fl : sflags) (col body : list byte) : list byte :=
  if color fl then col ++ body ++ c_reset else body.

(* a C string: the bytes before the first NUL (strlen) *)
Fixpoint c_str (l : list byte) : list byte :=
  match l with c :: r => if c =? 0 then [] else c :: c_str r | [] => [] end.

(* ------------------------------------------------------------------ json_escape_str *)
(* json_hex_chars[d] for d < 16 *)
Definition hexchar (d : Z) : byte := if d <? 10 then 48 + d else 87 + d.

Definition escape_char (fl : sflags) (c : byte) : list byte :=
  if c =? 8 then [92;98]                                   (* \b *)
  else if c =? 10 then [92;110]                            (* \n *)
  else if c =? 13 then [92;114]                            (* \r *)
  else if c =? 9 then [92;116]                             (* \t *)
  else if c =? 12 then [92;102]                            (* \f *)
  else if c =? 34 then [92;34]                             (* backslash, quote *)
  else if c =? 92 then [92;92]                             (* backslash, backslash *)
  else if c =? 47 then (if noslash fl then [47] else [92;47])
  else if c <? 32 then [92;117;48;48; hexchar (c / 16); hexchar (c mod 16)]   (* "\\u00%c%c" *)
  else [c].                                                (* incl. every byte >= 0x80 *)

Definition escape_str (fl : sflags) (s : list byte) : list byte := flat_map (escape_char fl) s.

Definition quoted (fl : sflags) (s : list byte) : list byte := 34 :: escape_str fl s ++ [34].

(* ------------------------------------------------------------------ integers: "%" PRId64 / PRIu64 *)
Fixpoint dec_digits (fuel : nat) (n : Z) (acc : list byte) : list byte :=
  match fuel with
  | O => acc
  | S f => let acc' := (48 + n mod 10) :: acc in
           if n <? 10 then acc' else dec_digits f (n / 10) acc'
  end.
(* n >= 0; a number has at most as many decimal as binary digits *)
Definition dec_u (n : Z) : list byte := dec_digits (S (Z.to_nat (Z.log2 n))) n [].
Definition dec_s (z : Z) : list byte := if z <? 0 then 45 :: dec_u (- z) else dec_u z.

(* ------------------------------------------------------------------ doubles *)
Definition two52 : Z := 4503599627370496.
Definition dbl_exp (b : Z) : Z := (b / two52) mod 2048.
Definition dbl_man (b : Z) : Z := b mod two52.
Definition dbl_neg (b : Z) : bool := (b / 9223372036854775808) mod 2 =? 1.
Definition dbl_is_nan (b : Z) : bool := (dbl_exp b =? 2047) && negb (dbl_man b =? 0).
Definition dbl_is_inf (b : Z) : bool := (dbl_exp b =? 2047) && (dbl_man b =? 0).
Definition dbl_finite (b : Z) : bool := negb (dbl_exp b =? 2047).

Definition is_digit (c : byte) : bool := (48 <=? c) && (c <=? 57).
Fixpoint has_byte (c : byte) (l : list byte) : bool :=
  match l with [] => false | x :: r => (x =? c) || has_byte c r end.

(* strchr(buf, c): the bytes before and after the first occurrence *)
Fixpoint split_at (c : byte) (l : list byte) : option (list byte * list byte) :=
  match l with
  | [] => None
  | x :: r => if x =? c then Some ([], r)
              else match split_at c r with Some (a, b) => Some (x :: a, b) | None => None end
  end.

(* the same split at the first 'e' or 'E', which stays in the second part *)
Fixpoint split_exp (l : list byte) : list byte * list byte :=
  match l with
  | [] => ([], [])
  | x :: r => if (x =? 101) || (x =? 69) then ([], l) else let '(a, b) := split_exp r in (x :: a, b)
  end.

(* JSON_C_TO_STRING_NOZERO.  [rest] = the bytes after the decimal point.
     p++; for (q = p; q[0] && q[0] != 'e' && q[0] != 'E'; q++) if (q[0] != '0') p = q;
     if (q != p) { p++; memmove(p, q, strlen(q) + 1); size = (p - buf) + strlen(p); }
   [nozero_span] = (the part the scan runs over, the part kept behind it): the scan stops at
   the exponent, which is moved up behind the kept digits (json-c commit c53b19e).  Before
   that commit the scan ran to the end of the buffer, i.e.  nozero_span rest := (rest, []),
   and trimmed exponent digits (class "nozero_eats_exponent"; SerProofs.nozero_old_scan_eats_exponent).
   When the fraction is empty (q == p) the code leaves buf and size alone; the model's
   size := zlen t differs from that only when snprintf truncated, where both are clipped
   to 127 below. *)
Definition nozero_span (rest : list byte) : list byte * list byte := split_exp rest.

(* index of the last byte that is not '0' (0 when there is none) *)
Fixpoint last_nz (l : list byte) (i best : nat) : nat :=
  match l with [] => best | c :: r => last_nz r (S i) (if c =? 48 then best else i) end.
(* keep up to and including that byte: "last useful digit, always keep 1 zero" *)
Definition trim_zeros (fr : list byte) : list byte := firstn (S (last_nz fr 0 0)) fr.
Definition nozero_trim_with (span : list byte -> list byte * list byte) (rest : list byte) : list byte :=
  let '(fr, ex) := span rest in trim_zeros fr ++ ex.
Definition nozero_trim (rest : list byte) : list byte := nozero_trim_with nozero_span rest.

(* is_plain_digit(buf[0]) || (size > 1 && buf[0] == '-' && is_plain_digit(buf[1])) *)
Definition looks_numeric (buf : list byte) (size : Z) : bool :=
  match buf with
  | c0 :: r => is_digit c0 ||
               ((size >? 1) && (c0 =? 45) && match r with c1 :: _ => is_digit c1 | [] => false end)
  | [] => false
  end.

(* the finite branch of json_object_double_to_json_string_format with format == std_format;
   [out] = what snprintf(buf, 128, "%.17g", d) would write in full, size = its return value *)
Definition double_fixup_with (trim : list byte -> list byte) (fl : sflags) (out : list byte) : list byte :=
  let size := zlen out in
  let buf := zfirstn 127 out in
  (* p = strchr(buf, ','); if (p) *p = '.'; else p = strchr(buf, '.'); *)
  let '(buf, p) := match split_at 44 buf with
                   | Some (a, b) => (a ++ 46 :: b, Some (a, b))
                   | None => (buf, split_at 46 buf)
                   end in
  (* ".0" when there is neither a decimal point nor an 'e' and it looks numeric *)
  let '(buf, size) :=
     if (size <? 126) && looks_numeric buf size && (match p with None => true | Some _ => false end)
        && negb (has_byte 101 buf)
     then (buf ++ [46;48], size + 2) else (buf, size) in
  let '(buf, size) :=
     match p with
     | Some (a, b) => if nozero fl then let t := a ++ 46 :: trim b in (t, zlen t) else (buf, size)
     | None => (buf, size)
     end in
  let size := if size >=? 128 then 127 else size in
  zfirstn size buf.
Definition double_fixup : sflags -> list byte -> list byte := double_fixup_with nozero_trim.

Section WithOracle.
Variable fmt17 : Z -> list byte.

Definition double_text (fl : sflags) (bits : Z) : list byte :=
  if dbl_is_nan bits then s_NaN
  else if dbl_is_inf bits then (if dbl_neg bits then s_mInfinity else s_Infinity)
  else double_fixup fl (fmt17 bits).

(* ------------------------------------------------------------------ containers *)
(* indent(): printbuf_memset(pb, -1, '\t', level) / (' ', level * 2), only with PRETTY *)
Definition indent (fl : sflags) (level : nat) : list byte :=
  if pretty fl then (if pretty_tab fl then repeat 9 level else repeat 32 (2 * level)) else [].

(* what precedes every child: "\n" (PRETTY), " " (SPACED and not PRETTY), indent(level + 1) *)
Definition child_prefix (fl : sflags) (level : nat) : list byte :=
  (if pretty fl then [10] else []) ++
  (if spaced fl && negb (pretty fl) then [32] else []) ++
  indent fl (S level).

(* the loop over the children: "," before all but the first *)
Fixpoint join_children (pre : list byte) (items : list (list byte)) (had : bool) : list byte :=
  match items with
  | [] => []
  | x :: r => (if had then [44] else []) ++ pre ++ x ++ join_children pre r true
  end.

(* what follows the children: "\n" indent(level) when PRETTY and there were children;
   then " ]" / "]" *)
Definition container_close (fl : sflags) (level : nat) (had : bool) (close : byte) : list byte :=
  (if pretty fl && had then 10 :: indent fl level else []) ++
  (if spaced fl && negb (pretty fl) then [32; close] else [close]).

Definition nonempty {A} (l : list A) : bool := match l with [] => false | _ => true end.

(* a child that is the NULL pointer is printed by the container itself *)
Definition child_text (fl : sflags) (rec : jv -> list byte) (x : jv) : list byte :=
  match x with JNull => colored fl c_magenta s_null | _ => rec x end.

Definition colon (fl : sflags) : list byte := if spaced fl then [58;32] else [58].

(* jso->_to_json_string(jso, pb, level, flags); [JNull] only at the root
   (json_object_to_json_string_length answers "null" itself, without colour) *)
Fixpoint serialize (fl : sflags) (level : nat) (v : jv) {struct v} : list byte :=
  match v with
  | JNull => s_null
  | JBool b => colored fl c_magenta (if b then s_true else s_false)
  | JInt z => dec_s z
  | JUint z => dec_u z
  | JDouble bits None => double_text fl bits
  | JDouble bits (Some t) => c_str t          (* json_object_userdata_to_json_string: verbatim, no flag *)
  | JStr s => colored fl c_green (quoted fl s)
  | JArr l =>
      [91] ++
      join_children (child_prefix fl level)
        (map (child_text fl (serialize fl (S level))) l) false ++
      container_close fl level (nonempty l) 93
  | JObj l =>
      [123] ++
      join_children (child_prefix fl level)
        (map (fun kv => colored fl c_blue (quoted fl (c_str (fst kv))) ++ colon fl ++
                        child_text fl (serialize fl (S level)) (snd kv)) l) false ++
      container_close fl level (nonempty l) 125
  end.

(* json_object_to_json_string_length(jso, flags, &length): (text, length) *)
Definition to_json_string_length (flags : Z) (v : jv) : list byte * Z :=
  let t := serialize (flags_of flags) 0 v in (t, zlen t).

End WithOracle.

(* ------------------------------------------------------------------ trees reached through histories *)
(* The property speaks of "every tree built through the API": besides the constructors, a tree is
   reached by json_object_deep_copy, by attaching opaque userdata (json_object_set_userdata) or resetting
   the serializer (json_object_set_serializer with NULL), by the in-place setters json_object_set_double / _set_int64 /
   _set_uint64 / _set_boolean / _set_string_len, by replacing a child (json_object_array_put_idx on
   an existing index, json_object_object_add on an existing key) and by deleting one
   (json_object_array_del_idx, json_object_object_del).  What the serializer reads of a node is
   its value and, for a double, the retained text; [jv] holds exactly that, so a history is a
   function on [jv].  A node is addressed by the positions of the children on the way down. *)
Fixpoint nth_upd {A} (n : nat) (f : A -> A) (l : list A) : list A :=
  match l, n with
  | [], _ => []
  | x :: r, O => f x :: r
  | x :: r, S n' => x :: nth_upd n' f r
  end.
Fixpoint nth_del {A} (n : nat) (l : list A) : list A :=
  match l, n with
  | [], _ => []
  | _ :: r, O => r
  | x :: r, S n' => x :: nth_del n' r
  end.

(* apply [f] to the node at [path]; a path that leaves the tree (index out of range, a scalar
   or NULL on the way) addresses nothing *)
Fixpoint jv_at (path : list nat) (f : jv -> jv) (v : jv) : jv :=
  match path with
  | [] => f v
  | i :: p =>
      match v with
      | JArr l => JArr (nth_upd i (jv_at p f) l)
      | JObj l => JObj (nth_upd i (fun kv => (fst kv, jv_at p f (snd kv))) l)
      | _ => v
      end
  end.

(* json_object_set_double: a node of another type is left alone (returns 0); the retained text of
   json_object_new_double_s / of the parser is dropped (the serializer is reset to the default) *)
Definition set_double_node (bits : Z) (v : jv) : jv := match v with JDouble _ _ => JDouble bits None | _ => v end.
(* json_object_set_int64 / _set_uint64: any int node, whatever its current signedness *)
Definition set_int64_node (z : Z) (v : jv) : jv := match v with JInt _ | JUint _ => JInt z | _ => v end.
Definition set_uint64_node (z : Z) (v : jv) : jv := match v with JInt _ | JUint _ => JUint z | _ => v end.
Definition set_boolean_node (b : bool) (v : jv) : jv := match v with JBool _ => JBool b | _ => v end.
Definition set_string_node (s : list byte) (v : jv) : jv := match v with JStr _ => JStr s | _ => v end.
(* child [i] of a container: replaced in place (same index / same member name and position), deleted *)
Definition replace_child (i : nat) (c : jv) (v : jv) : jv :=
  match v with
  | JArr l => JArr (nth_upd i (fun _ => c) l)
  | JObj l => JObj (nth_upd i (fun kv => (fst kv, c)) l)
  | _ => v
  end.
Definition delete_child (i : nat) (v : jv) : jv :=
  match v with JArr l => JArr (nth_del i l) | JObj l => JObj (nth_del i l) | _ => v end.

(* json_object_set_serializer(n, NULL, data, del): "the default behaviour is reset (but the userdata and
   user_delete fields are still set)".  For a double that carried a retained text the text goes away
   (it was the old userdata); for every other node the default serializer was in place already.
   [data] is opaque to the library: it is not part of what the serializer reads, hence not of [jv]. *)
Definition reset_serializer_node (v : jv) : jv := match v with JDouble b _ => JDouble b None | _ => v end.

Inductive hop :=
| HCopy                                        (* json_object_deep_copy: the copy has the same value and retained texts *)
| HResetSerializer (path : list nat)           (* json_object_set_serializer(n, NULL, any data, any deleter), also after a
                                                  public serializer (json_object_userdata_to_json_string,
                                                  json_object_double_to_json_string with a format) had been installed *)
| HSetUserdata (path : list nat)               (* json_object_set_userdata(n, any data, any deleter) on a node without retained
                                                  text (json_object.h sends retained-text doubles to set_serializer(NULL)) *)
| HSetDouble (path : list nat) (bits : Z)
| HSetInt64 (path : list nat) (z : Z)
| HSetUint64 (path : list nat) (z : Z)
| HSetBoolean (path : list nat) (b : bool)
| HSetString (path : list nat) (s : list byte)
| HReplace (path : list nat) (i : nat) (c : jv)
| HDelete (path : list nat) (i : nat).

Definition hop_apply (h : hop) (v : jv) : jv :=
  match h with
  | HCopy => v
  | HResetSerializer p => jv_at p reset_serializer_node v
  | HSetUserdata _ => v
  | HSetDouble p bits => jv_at p (set_double_node bits) v
  | HSetInt64 p z => jv_at p (set_int64_node z) v
  | HSetUint64 p z => jv_at p (set_uint64_node z) v
  | HSetBoolean p b => jv_at p (set_boolean_node b) v
  | HSetString p s => jv_at p (set_string_node s) v
  | HReplace p i c => jv_at p (replace_child i c) v
  | HDelete p i => jv_at p (delete_child i) v
  end.
Definition hist_apply (hs : list hop) (v : jv) : jv := fold_left (fun t h => hop_apply h t) hs v.

(* ------------------------------------------------------------------ the option formats *)
(* json_c_set_serialization_double_format(fmt, JSON_C_OPTION_GLOBAL | JSON_C_OPTION_THREAD): one process-wide
   format and one format per thread (__thread; when thread-local storage is not compiled in, the THREAD call
   fails).  A double without its own serializer data prints with the calling thread's format, else the
   global one, else "%.17g".  [fmtd f bits] is the libc oracle for snprintf(buf, 128, f, d) in full. *)
Fixpoint prefix_of (pat l : list byte) : bool :=
  match pat, l with
  | [], _ => true
  | p :: pat', x :: l' => (p =? x) && prefix_of pat' l'
  | _ :: _, [] => false
  end.
(* strstr(l, pat) != NULL *)
Fixpoint has_sub (pat l : list byte) : bool :=
  prefix_of pat l || match l with [] => false | _ :: r => has_sub pat r end.

(* the finite branch of json_object_double_to_json_string_format for any format: the same steps as
   [double_fixup_with], ".0" only when format_drops_decimals *)
Definition double_fixup_drops (drops : bool) (fl : sflags) (out : list byte) : list byte :=
  let size := zlen out in
  let buf := zfirstn 127 out in
  let '(buf, p) := match split_at 44 buf with
                   | Some (a, b) => (a ++ 46 :: b, Some (a, b))
                   | None => (buf, split_at 46 buf)
                   end in
  let '(buf, size) :=
     if (size <? 126) && looks_numeric buf size && (match p with None => true | Some _ => false end)
        && negb (has_byte 101 buf) && drops
     then (buf ++ [46;48], size + 2) else (buf, size) in
  let '(buf, size) :=
     match p with
     | Some (a, b) => if nozero fl then let t := a ++ 46 :: nozero_trim b in (t, zlen t) else (buf, size)
     | None => (buf, size)
     end in
  let size := if size >=? 128 then 127 else size in
  zfirstn size buf.

(* what a double prints under the option format [f] (a C string):
   format_drops_decimals = (strstr(format, ".0f") == NULL) *)
Definition opt_double_text (fmtd : list byte -> Z -> list byte) (f : list byte) (fl : sflags) (bits : Z) : list byte :=
  if dbl_is_nan bits then s_NaN
  else if dbl_is_inf bits then (if dbl_neg bits then s_mInfinity else s_Infinity)
  else double_fixup_drops (negb (has_sub [46;48;102] f)) fl (fmtd f bits).

(* The per-type emitters are those of [serialize]; only the double emitter consults the option format,
   and what it appends does not depend on level or position.  So "serialize under the option format f"
   is [serialize] on the tree in which every double without retained text carries, as a retained
   text, the bytes the format prints for it (a retained text is appended verbatim; snprintf output
   has no NUL). *)
Fixpoint with_double_texts (pr : Z -> list byte) (v : jv) : jv :=
  match v with
  | JDouble b None => JDouble b (Some (pr b))
  | JArr l => JArr (map (with_double_texts pr) l)
  | JObj l => JObj (map (fun kv => (fst kv, with_double_texts pr (snd kv))) l)
  | _ => v
  end.

Definition serialize_in (fmt17 : Z -> list byte) (fmtd : list byte -> Z -> list byte)
                        (eff : option (list byte)) (fl : sflags) (level : nat) (v : jv) : list byte :=
  match eff with
  | None => serialize fmt17 fl level v
  | Some f => serialize fmt17 fl level (with_double_texts (opt_double_text fmtd f fl) v)
  end.

(* the state json_c_set_serialization_double_format keeps: the global format and the threads' formats *)
Record fmt_state := mkfs { g_fmt : option (list byte); t_fmt : list (Z * list byte) }.
Definition fmt_init : fmt_state := mkfs None [].
Fixpoint t_lookup (tid : Z) (l : list (Z * list byte)) : option (list byte) :=
  match l with [] => None | (k, f) :: r => if k =? tid then Some f else t_lookup tid r end.
Fixpoint t_remove (tid : Z) (l : list (Z * list byte)) : list (Z * list byte) :=
  match l with [] => [] | (k, f) :: r => if k =? tid then t_remove tid r else (k, f) :: t_remove tid r end.
Definition t_set (tid : Z) (f : option (list byte)) (l : list (Z * list byte)) : list (Z * list byte) :=
  match f with Some f => (tid, f) :: t_remove tid l | None => t_remove tid l end.

(* the call made by thread [tid]; scope 0 = JSON_C_OPTION_GLOBAL (also drops the CALLER's thread format),
   1 = JSON_C_OPTION_THREAD, anything else is refused; [fmt] = None is the NULL pointer; returns the new
   state and the return value *)
Definition set_format (tls_supported : bool) (st : fmt_state) (tid : Z) (fmt : option (list byte)) (scope : Z)
  : fmt_state * Z :=
  let fmt := match fmt with Some f => Some (c_str f) | None => None end in
  if scope =? 0 then (mkfs fmt (t_remove tid (t_fmt st)), 0)
  else if scope =? 1 then
    if tls_supported then (mkfs (g_fmt st) (t_set tid fmt (t_fmt st)), 0) else (st, -1)
  else (st, -1).

(* the format json_object_double_to_json_string_format picks in thread [tid] (None = "%.17g") *)
Definition effective (st : fmt_state) (tid : Z) : option (list byte) :=
  match t_lookup tid (t_fmt st) with Some f => Some f | None => g_fmt st end.

Definition serialize_thread (fmt17 : Z -> list byte) (fmtd : list byte -> Z -> list byte)
                            (st : fmt_state) (tid : Z) (fl : sflags) (level : nat) (v : jv) : list byte :=
  serialize_in fmt17 fmtd (effective st tid) fl level v.

(* ------------------------------------------------------------------ custom serializers *)
(* json_object_set_serializer(node, fn, data, del) with a caller's fn: the node prints whatever fn appends
   to the print buffer (C19: an append is a list append), wherever the node sits and whatever the flags;
   the containers around it print as before.  For the serializer the node is an opaque piece of text —
   exactly what a retained text is ([serialize] appends it verbatim, and a piece has no NUL), so the text
   of a tree with custom-serializer nodes is [serialize] on the tree with those nodes replaced.  The NULL
   pointer cannot carry a serializer. *)
Definition piece_node (piece : list byte) : jv := JDouble 0 (Some piece).
Definition with_pieces (ps : list (list nat * list byte)) (v : jv) : jv :=
  fold_left (fun t pp => jv_at (fst pp) (fun n => match n with JNull => JNull | _ => piece_node (snd pp) end) t) ps v.
