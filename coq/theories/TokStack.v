(* TokStack.v — stack discipline of the tokener model: one dispatch changes the number of
   level records by at most one, a push happens only below the configured limit, hence
   for ALL inputs and chunkings  1 <= |stack| <= max_depth  (C15, C04). *)
From JC Require Import Base BaseLemmas Value TokModel TokFrame.
Local Open Scope Z_scope.

Lemma stack_set_top t s : stack (set_top t s) = s :: tl (stack t).
Proof. unfold set_top. destruct (stack t); reflexivity. Qed.
Lemma stack_set_stack t s : stack (set_stack t s) = s. Proof. reflexivity. Qed.
Lemma stack_set_pb t s : stack (set_pb t s) = stack t. Proof. reflexivity. Qed.
Lemma stack_set_is_double t s : stack (set_is_double t s) = stack t. Proof. reflexivity. Qed.
Lemma stack_set_st_pos t s : stack (set_st_pos t s) = stack t. Proof. reflexivity. Qed.
Lemma stack_set_ucs t s : stack (set_ucs t s) = stack t. Proof. reflexivity. Qed.
Lemma stack_set_high t s : stack (set_high t s) = stack t. Proof. reflexivity. Qed.
Lemma stack_set_quote t s : stack (set_quote t s) = stack t. Proof. reflexivity. Qed.
Lemma stack_set_err t s : stack (set_err t s) = stack t. Proof. reflexivity. Qed.
Lemma stack_set_off t s : stack (set_off t s) = stack t. Proof. reflexivity. Qed.
Lemma stack_append t s : stack (append t s) = stack t. Proof. reflexivity. Qed.
Lemma stack_set_state t s : stack (set_state t s) = mksrec s (s_saved (top t)) (s_cur (top t)) (s_name (top t)) :: tl (stack t).
Proof. unfold set_state. apply stack_set_top. Qed.
Lemma stack_value_done t v : stack (value_done t v) = mksrec S_eatws S_finish v (s_name (top t)) :: tl (stack t).
Proof. unfold value_done. apply stack_set_top. Qed.
Global Hint Rewrite stack_set_top stack_set_stack stack_set_pb stack_set_is_double stack_set_st_pos stack_set_ucs
  stack_set_high stack_set_quote stack_set_err stack_set_off stack_append stack_set_state stack_value_done : tokstk.

(* the three possible effects on the list of levels *)
Definition stk_effect (t t' : tok) : Prop :=
  (exists s, stack t' = s :: tl (stack t)) \/
  (stack t' = tl (stack t) /\ 2 <= zlen (stack t)) \/
  (exists s, stack t' = fresh_level :: s :: tl (stack t) /\ depth t < max_depth t - 1).

Lemma eff_same t t' : stack t <> [] -> stack t' = stack t -> stk_effect t t'.
Proof. intros Hne H. left. destruct (stack t) as [|s r] eqn:E; [congruence|]. exists s. rewrite H. reflexivity. Qed.
Lemma eff_top t t' s : stack t' = s :: tl (stack t) -> stk_effect t t'.
Proof. intros H. left. eauto. Qed.

Lemma eff_emit t0 t u l : stack t0 <> [] -> stack t = stack t0 -> stk_effect t0 (sres_tok (emit_unicode t u l)).
Proof.
  intros Hne H. unfold emit_unicode.
  repeat match goal with |- context [if ?b then _ else _] => destruct b end;
    cbn [sres_tok]; eapply eff_top; autorewrite with tokstk; rewrite ?H; reflexivity.
Qed.
Lemma stack_resolve t : stack (fst (resolve_pair t)) = stack t.
Proof.
  unfold resolve_pair.
  repeat match goal with |- context [if ?b then _ else _] => destruct b end; cbn [fst]; autorewrite with tokstk; reflexivity.
Qed.
Lemma eff_finish_unicode t0 t l : stack t0 <> [] -> stack t = stack t0 -> stk_effect t0 (sres_tok (finish_unicode t l)).
Proof.
  intros Hne H. unfold finish_unicode. apply eff_emit; [exact Hne|]. rewrite stack_resolve. autorewrite with tokstk. exact H.
Qed.

Section S.
Variable sb : list byte -> Z.

Lemma step1_stack t l : stack t <> [] -> stk_effect t (sres_tok (step1 sb t l)).
Proof.
  intros Hne. unfold step1.
  destruct (st t); unfold fail.
  all: repeat match goal with
              | |- context [finish_unicode ?a ?b] => apply eff_finish_unicode; [exact Hne|autorewrite with tokstk; reflexivity]
              | |- context [if ?b then _ else _] => destruct b eqn:?
              | |- context [match classify_number sb ?x with _ => _ end] => destruct (classify_number sb x)
              | |- context [match lnum ?x with _ => _ end] => destruct (lnum x)
              end; cbn [sres_tok].
  all: try (apply eff_same; [exact Hne|autorewrite with tokstk; reflexivity]).
  all: try (eapply eff_top; autorewrite with tokstk; reflexivity).
  (* pop *)
  - destruct (stack t) as [|s [|p r]] eqn:E; cbn [sres_tok].
    + congruence.
    + apply eff_same; [rewrite E; discriminate|reflexivity].
    + right; left. autorewrite with tokstk. rewrite E. cbn [tl zlen]. pose proof (zlen_nonneg r). split; [reflexivity|lia].
  (* pushes *)
  - right; right. eexists. autorewrite with tokstk. split; [reflexivity|]. rewrite Z.geb_leb in *. lia.
  - right; right. eexists. autorewrite with tokstk. split; [reflexivity|]. rewrite Z.geb_leb in *. lia.
  - right; right. eexists. autorewrite with tokstk. split; [reflexivity|]. rewrite Z.geb_leb in *. lia.
Qed.

(* the invariant *)
Definition stack_ok (t : tok) : Prop := 1 <= zlen (stack t) <= max_depth t.

Lemma stack_ok_ne t : stack_ok t -> stack t <> [].
Proof. unfold stack_ok. destruct (stack t); cbn [zlen]; [lia|discriminate]. Qed.

Lemma step1_stack_ok t l : stack_ok t -> stack_ok (sres_tok (step1 sb t l)).
Proof.
  intros H. pose proof (stack_ok_ne t H) as Hne. pose proof (step1_stack t l Hne) as E.
  assert (Cm : max_depth (sres_tok (step1 sb t l)) = max_depth t) by (pose proof (cfg_step1 sb t l) as C; unfold cfg in C; congruence).
  unfold stack_ok in *. rewrite Cm. unfold depth in E.
  destruct (stack t) as [|s0 r] eqn:E0; [congruence|]. cbn [tl zlen] in *. pose proof (zlen_nonneg r).
  destruct E as [(s & ->)|[(-> & Hl)|(s & -> & Hd)]]; unfold depth in *; rewrite ?E0 in *; cbn [tl zlen] in *; lia.
Qed.

Lemma redo_stack_ok fuel : forall t l r, stack_ok t -> redo sb fuel t l = Some r -> stack_ok (sres_tok r).
Proof.
  induction fuel as [|f IH]; intros t l r H E; [discriminate|]. cbn [redo] in E.
  pose proof (step1_stack_ok t l H) as H1.
  destruct (step1 sb t l) as [t' l'|t' l'|t' l'] eqn:S; cbn [sres_tok] in H1.
  - inversion E; subst. exact H1.
  - eapply IH; eassumption.
  - inversion E; subst. exact H1.
Qed.

Lemma stack_ok_set_off t n : stack_ok t -> stack_ok (set_off t n).
Proof. intros H; exact H. Qed.
Lemma stack_ok_set_err t e : stack_ok t -> stack_ok (set_err t e).
Proof. intros H; exact H. Qed.
Lemma stack_ok_if (b : bool) t e : stack_ok t -> stack_ok (if b then set_err t e else t).
Proof. intros H; destruct b; exact H. Qed.

Lemma run_stack_ok bytes : forall t l t' l', stack_ok t -> run sb bytes t l = LOut t' l' -> stack_ok t'.
Proof.
  induction bytes as [|b rest IH]; intros t l t' l' H E; cbn [run] in E.
  - inversion E; subst. apply stack_ok_set_err. exact H.
  - destruct (if validate_utf8 t then validate_utf8_step b (nbytes l) else Some (nbytes l)) as [nb|].
    2:{ inversion E; subst. apply stack_ok_set_err. exact H. }
    destruct (redo sb REDO_FUEL t (mkloc b nb (lobj l) (lnum l))) as [[t1 l1|t1 l1|t1 l1]|] eqn:R; try discriminate.
    + pose proof (redo_stack_ok _ _ _ _ H R) as H1. cbn [sres_tok] in H1.
      destruct (b =? 0).
      * inversion E; subst. apply stack_ok_set_off. exact H1.
      * eapply IH; [|exact E]. apply stack_ok_set_off. exact H1.
    + pose proof (redo_stack_ok _ _ _ _ H R) as H1. cbn [sres_tok] in H1. inversion E; subst. exact H1.
Qed.

(* one call: the stack bound holds at the return, whatever the outcome *)
Lemma parse_ex_stack_ok t bytes t' r : stack_ok t -> parse_ex sb t bytes = PR t' r -> stack_ok t'.
Proof.
  intros H E. unfold parse_ex in E.
  destruct (run sb bytes (set_err (set_off t 0) TE_success) (mkloc 1 0 JNull None)) as [t1 l1|] eqn:R; [|discriminate].
  assert (H1 : stack_ok t1) by (eapply run_stack_ok; [|exact R]; exact H).
  unfold finish_call in E.
  match type of E with context [if ?b then set_err ?x TE_utf8 else _] =>
    pose proof (stack_ok_if b x TE_utf8 H1) as Ha; set (ta := if b then set_err x TE_utf8 else x) in * end.
  match type of E with context [if ?b then set_err ?x TE_unexpected else _] =>
    pose proof (stack_ok_if b x TE_unexpected Ha) as Hb; set (tb := if b then set_err x TE_unexpected else x) in * end.
  match type of E with context [if ?b then set_err ?x TE_eof else _] =>
    pose proof (stack_ok_if b x TE_eof Hb) as Hc; set (tc := if b then set_err x TE_eof else x) in * end.
  destruct (err tc); inversion E; subst; try exact Hc.
  unfold stack_ok, reset_levels in *. cbn [stack max_depth set_stack]. rewrite zlen_map. exact Hc.
Qed.
End S.

Lemma tok_new_stack_ok d s a v t : tok_new d s a v = Some t -> stack_ok t /\ max_depth t = d /\ 1 <= d.
Proof.
  unfold tok_new. destruct (d <? 1) eqn:E; [discriminate|]. intros H; inversion H; subst.
  unfold stack_ok; cbn. lia.
Qed.
Lemma tok_new_refuses d s a v : d < 1 -> tok_new d s a v = None.
Proof. intros H. unfold tok_new. destruct (d <? 1) eqn:E; [reflexivity|lia]. Qed.
Lemma tok_reset_stack_ok t : 1 <= max_depth t -> stack_ok (tok_reset t).
Proof. intros H. unfold stack_ok, tok_reset; cbn. lia. Qed.
