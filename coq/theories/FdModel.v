(* FdModel.v — the descriptor I/O functions of json_util.c as written (C20):
   _json_object_to_fd / json_object_to_fd / json_object_to_file_ext (the write loop) and
   json_object_from_fd_ex / json_object_from_fd / json_object_from_file (read into a
   print buffer, then json_tokener_parse_ex on the accumulated bytes and, when that ends in
   json_tokener_continue without a value, ONE more call on the terminating NUL).

   The operating system is a transfer schedule: the k-th entry says what the k-th
   read()/write() call does.  [Short n]: the call transfers min(n, what was asked for /
   what is left) bytes; [Err e]: the call returns -1 with errno = e (any value: EIO, EINTR,
   EAGAIN, ENOSPC, ... — the C code never looks at it except to format the message, so no
   errno is "not really an error": an interrupted read is not resumed).  A finite schedule can run out before
   the C function returns; that is reported as [...OutOfSchedule] (it is not a behaviour
   of the C code, it says "this schedule does not describe a complete run").

   Not modelled here, by design (they are function arguments):
   * the serializer — json_object_to_json_string_ext is C02's business; the write side
     takes its result ([None] = it returned NULL);
   * the tokener — json_tokener_parse_ex is C01's business; the read side takes
     a [tokener] oracle: the outcome of the first call for (depth, bytes) — a value, "continue",
     or an error — and, for the continue case, the outcome of the second call on the single
     byte 0 with the same tokener; [parse2] is the two-step function the C code performs;
   * printbuf_memappend — by C19 (PbProofs.step_spec, fitting_request_served) a
     successful append IS list append and a refused one leaves the buffer unchanged, so the
     accumulated buffer is a plain [list byte] extended with [++]; whether an append
     succeeds (allocator, INT_MAX bound) is the oracle [app_ok len n].
   Message texts are not modelled, only which message was set. *)
From JC Require Import Base Value.
Local Open Scope Z_scope.

Inductive xfer := Short (n : Z) | Err (errno : Z).

Definition JSON_FILE_BUF_SIZE : Z := 4096.
Definition JSON_TOKENER_DEFAULT_DEPTH : Z := 32.

(* what a read()/write() call that was asked for [req] bytes and is scheduled [Short n]
   returns; a non-positive n transfers nothing *)
Definition os_ret (n req : Z) : Z := Z.max 0 (Z.min n req).

(* the bytes strlen() sees *)
Fixpoint c_str (s : list byte) : list byte :=
  match s with
  | [] => []
  | b :: t => if b =? 0 then [] else b :: c_str t
  end.

(* ------------------------------------------------------------------ writing *)

Inductive wout :=
| WRet (rc : Z) (msg : bool) (dev : list byte) (calls : Z)
    (* returned rc; msg: _json_c_set_last_err was called; dev: everything the descriptor
       received, in order of the calls; calls: number of write() calls made *)
| WSpin (dev : list byte) (calls : Z)
    (* write() returned 0 with bytes left: wpos does not advance and the C loop
       calls write() again with the same arguments — for a descriptor that keeps
       accepting nothing it never returns.  The property quantifies over sizes >= 1. *)
| WOutOfSchedule (dev : list byte) (calls : Z).

(*  wsize = strlen(json_str); wpos = 0;
    while (wpos < wsize) {
        if ((ret = write(fd, json_str + wpos, wsize - wpos)) < 0) { set_last_err; return -1; }
        wpos += (size_t)ret;
    }
    return 0;
   [rest] is what the pointer json_str + wpos points at (FdProofs keeps
   rest = zskipn wpos str; carrying the suffix instead of re-slicing the string at
   every call keeps the extracted model linear).  The schedule is the fuel: one entry
   per iteration. *)
Fixpoint write_loop (sched : list xfer) (rest : list byte) (wsize wpos : Z)
                    (dev : list byte) (calls : Z) : wout :=
  if wpos <? wsize then
    match sched with
    | [] => WOutOfSchedule dev calls
    | Err _ :: _ => WRet (-1) true dev (calls + 1)
    | Short n :: sched' =>
        let ret := os_ret n (wsize - wpos) in
        if ret =? 0 then WSpin dev (calls + 1)
        else write_loop sched' (zskipn ret rest) wsize (wpos + ret)
                        (dev ++ zfirstn ret rest) (calls + 1)
    end
  else WRet 0 false dev calls.

(* _json_object_to_fd: [ser] is what json_object_to_json_string_ext returned *)
Definition object_to_fd_inner (sched : list xfer) (ser : option (list byte)) : wout :=
  match ser with
  | None => WRet (-1) false [] 0            (* return -1, no message *)
  | Some s => let str := c_str s in write_loop sched str (zlen str) 0 [] 0
  end.

(* json_object_to_fd *)
Definition object_to_fd (sched : list xfer) (obj_null : bool) (ser : option (list byte)) : wout :=
  if obj_null then WRet (-1) true [] 0      (* "object is null" *)
  else object_to_fd_inner sched ser.

(* json_object_to_file_ext: result, number of open() calls, number of close() calls *)
Definition object_to_file_ext (open_ok : bool) (sched : list xfer) (obj_null : bool)
                              (ser : option (list byte)) : wout * Z * Z :=
  if obj_null then (WRet (-1) true [] 0, 0, 0)
  else if negb open_ok then (WRet (-1) true [] 0, 1, 0)
  else
    let r := object_to_fd_inner sched ser in
    (r, 1, match r with WRet _ _ _ _ => 1 | _ => 0 end).

(* ------------------------------------------------------------------ reading *)

Inductive rloop :=
| LEof (pb : list byte) (calls : Z)           (* read() returned 0 *)
| LErr (pb : list byte) (calls : Z)           (* read() returned -1 *)
| LAppendFail (pb : list byte) (calls : Z)    (* printbuf_memappend returned -1 *)
| LOutOfSchedule (pb : list byte) (calls : Z).

(*  while ((ret = read(fd, buf, sizeof(buf))) > 0)
        if (printbuf_memappend(pb, buf, ret) < 0) { set_last_err; free; return NULL; }
   [rest] is what lies behind the descriptor from the file position on; a call scheduled
   [Short n] copies the first min(n, sizeof buf) bytes of it (fewer at the end of the
   data, none for n <= 0) into buf and returns their number.  [pb]/[bpos] are the print
   buffer's contents and length. *)
Fixpoint read_loop (app_ok : Z -> Z -> bool) (sched : list xfer) (rest : list byte)
                   (pb : list byte) (bpos : Z) (calls : Z) : rloop :=
  match sched with
  | [] => LOutOfSchedule pb calls
  | Err _ :: _ => LErr pb (calls + 1)
  | Short n :: sched' =>
      let chunk := zfirstn (Z.min n JSON_FILE_BUF_SIZE) rest in
      let ret := zlen chunk in
      if 0 <? ret then
        if app_ok bpos ret
        then read_loop app_ok sched' (zskipn ret rest) (pb ++ chunk) (bpos + ret) (calls + 1)
        else LAppendFail pb (calls + 1)
      else LEof pb (calls + 1)
  end.

(* which call of _json_c_set_last_err was made *)
Inductive rmsg := MNone | MTokNew | MRead | MAppend | MParse | MOpen.

Record rout := mkrout {
  r_obj : jv;                           (* returned pointer; JNull = NULL *)
  r_msg : rmsg;
  r_reads : Z;                          (* number of read() calls *)
  r_parsed : option (Z * list byte * Z);(* depth of the tokener, the bytes of the first
                                           json_tokener_parse_ex call, number of calls (1, or 2
                                           when the NUL was handed over); None = not called *)
  r_live : Z                            (* print buffer + tokener still allocated at return *)
}.

Inductive rres :=
| RRet (o : rout)
| ROutOfSchedule (pb : list byte) (calls : Z).

(* The tokener as an oracle.  [tk_first depth bytes]: what json_tokener_parse_ex(tok, bytes, len)
   does on a fresh tokener of that depth — returns a value with success ([PVal v]; [PVal JNull] is
   the text "null": NULL with json_tokener_success), returns NULL with json_tokener_continue
   ([PContinue]: a number or literal that nothing follows, or an unfinished text), or NULL with
   an error ([PError]).  [tk_nul depth bytes]: what the SECOND call, on the one byte 0 (the NUL
   printbuf keeps behind its contents), returns with the tokener left by a first call that
   answered continue. *)
Inductive pres := PVal (v : jv) | PContinue | PError.
Record tokener := mktokener { tk_first : Z -> list byte -> pres; tk_nul : Z -> list byte -> option jv }.

(*  obj = json_tokener_parse_ex(tok, pb->buf, printbuf_length(pb));
    if (obj == NULL && json_tokener_get_error(tok) == json_tokener_continue)
        obj = json_tokener_parse_ex(tok, pb->buf + printbuf_length(pb), 1);
   result ([None] = NULL) and number of calls *)
Definition parse2 (parse : tokener) (depth : Z) (bytes : list byte) : option jv * Z :=
  match tk_first parse depth bytes with
  | PVal v => (Some v, 1)
  | PError => (None, 1)
  | PContinue => (tk_nul parse depth bytes, 2)
  end.

(* json_object_from_fd_ex.  printbuf_new is taken to succeed (allocation failure is C08);
   json_tokener_new_ex fails exactly for depth < 1 (same proviso).  The resource count
   follows the release statements of each return path as written: +1 printbuf_new,
   +1 json_tokener_new_ex, -1 json_tokener_free, -1 printbuf_free. *)
Definition object_from_fd_ex (parse : tokener) (app_ok : Z -> Z -> bool)
                             (sched : list xfer) (data : list byte) (in_depth : Z) : rres :=
  let live := 1 in                                      (* pb = printbuf_new() *)
  let depth := if in_depth =? -1 then JSON_TOKENER_DEFAULT_DEPTH else in_depth in
  if depth <? 1 then                                    (* tok == NULL *)
    RRet (mkrout JNull MTokNew 0 None (live - 1))       (* printbuf_free(pb) *)
  else
    let live := live + 1 in                             (* tok *)
    match read_loop app_ok sched data [] 0 0 with
    | LOutOfSchedule pb c => ROutOfSchedule pb c
    | LAppendFail _ c => RRet (mkrout JNull MAppend c None (live - 1 - 1))
    | LErr _ c => RRet (mkrout JNull MRead c None (live - 1 - 1))
    | LEof pb c =>
        let '(r, ncalls) := parse2 parse depth pb in
        let obj := match r with Some v => v | None => JNull end in
        (* if (obj == NULL) set_last_err — also taken by a successfully parsed "null" *)
        let msg := match obj with JNull => MParse | _ => MNone end in
        RRet (mkrout obj msg c (Some (depth, pb, ncalls)) (live - 1 - 1))
    end.

Definition object_from_fd parse app_ok sched data : rres :=
  object_from_fd_ex parse app_ok sched data (-1).

(* json_object_from_file: result, open() calls, close() calls *)
Definition object_from_file (open_ok : bool) parse app_ok (sched : list xfer) (data : list byte)
  : rres * Z * Z :=
  if negb open_ok then (RRet (mkrout JNull MOpen 0 None 0), 1, 0)
  else
    let r := object_from_fd parse app_ok sched data in
    (r, 1, match r with RRet _ => 1 | _ => 0 end).

(* ------------------------------------------------------------------ schedules *)

(* an error-free entry of at least one byte: the quantifier of the property *)
Definition ge1 (x : xfer) : Prop := match x with Short n => 1 <= n | Err _ => False end.

(* bytes a write schedule offers to take; bytes a read schedule offers to give per call
   (a read never asks for more than the stack buffer holds) *)
Fixpoint wsum (s : list xfer) : Z :=
  match s with [] => 0 | Short n :: t => n + wsum t | Err _ :: t => wsum t end.
Fixpoint rsum (s : list xfer) : Z :=
  match s with [] => 0 | Short n :: t => Z.min n JSON_FILE_BUF_SIZE + rsum t | Err _ :: t => rsum t end.

Definition is_prefix (p l : list byte) : Prop := exists q, l = p ++ q.
Definition strict_prefix (p l : list byte) : Prop := exists q, q <> [] /\ l = p ++ q.

(* ------------------------------------------------------------------ files *)

(* What json_object_to_file(_ext) / json_object_from_file do with the FILE, not only with
   the descriptor: a small file system (path -> contents) and open() with its flags as data,
   honoured as the kernel does: O_CREAT creates an absent file empty, O_CREAT|O_EXCL refuses
   an existing one, O_TRUNC (with write access) empties an existing one, the access mode
   decides whether read()/write() on the descriptor fail with EBADF, O_APPEND moves every
   write to the end.  Flags without effect on contents (O_CLOEXEC, the mode argument) are
   not modelled. *)
Inductive accmode := O_RDONLY | O_WRONLY | O_RDWR.
Record oflags := mkofl { o_acc : accmode; o_creat : bool; o_trunc : bool; o_append : bool; o_excl : bool }.

(* the flag words as written in json_util.c *)
Definition TO_FILE_FLAGS : oflags := mkofl O_WRONLY true true false false.    (* O_WRONLY | O_TRUNC | O_CREAT *)
Definition FROM_FILE_FLAGS : oflags := mkofl O_RDONLY false false false false. (* O_RDONLY *)

Definition readable (a : accmode) : bool := match a with O_WRONLY => false | _ => true end.
Definition writable (a : accmode) : bool := match a with O_RDONLY => false | _ => true end.

Definition path := list byte.
Definition fsys := list (path * list byte).

Fixpoint fs_get (fs : fsys) (p : path) : option (list byte) :=
  match fs with
  | [] => None
  | (q, c) :: t => if bytes_eqb q p then Some c else fs_get t p
  end.
Fixpoint fs_set (fs : fsys) (p : path) (c : list byte) : fsys :=
  match fs with
  | [] => [(p, c)]
  | (q, d) :: t => if bytes_eqb q p then (q, c) :: t else (q, d) :: fs_set t p c
  end.

Record desc := mkdesc { d_path : path; d_off : Z; d_rd : bool; d_wr : bool; d_app : bool }.
Inductive openres := OpenOk (fs' : fsys) (d : desc) | OpenFail (errno : Z).

Definition ENOENT_ : Z := 2.
Definition EBADF_ : Z := 9.
Definition EEXIST_ : Z := 17.

(* open(path, flags); [deny = Some e]: the kernel refuses for a reason outside this model
   (permissions, descriptor table full, ...) with errno e *)
Definition fs_open (deny : option Z) (fs : fsys) (p : path) (fl : oflags) : openres :=
  match deny with
  | Some e => OpenFail e
  | None =>
      let d := mkdesc p 0 (readable (o_acc fl)) (writable (o_acc fl)) (o_append fl) in
      match fs_get fs p with
      | None => if o_creat fl then OpenOk (fs_set fs p []) d else OpenFail ENOENT_
      | Some c =>
          if o_creat fl && o_excl fl then OpenFail EEXIST_
          else OpenOk (fs_set fs p (if o_trunc fl && writable (o_acc fl) then [] else c)) d
      end
  end.

(* a write of [bs] at offset [off] of a file holding [old] (off <= |old| here: no lseek) *)
Definition desc_write (old : list byte) (off : Z) (bs : list byte) : list byte :=
  zfirstn off old ++ bs ++ zskipn (off + zlen bs) old.

(* the file after the descriptor received [bs] (all write() calls of one open descriptor,
   in order: FdProofs.desc_write_app shows that call-by-call delivery at the advancing
   offset is delivery of the concatenation) *)
Definition fs_deliver (fs : fsys) (d : desc) (bs : list byte) : fsys :=
  match fs_get fs (d_path d) with
  | Some old => fs_set fs (d_path d) (desc_write old (if d_app d then zlen old else d_off d) bs)
  | None => fs
  end.

Definition wout_dev (r : wout) : list byte :=
  match r with WRet _ _ d _ => d | WSpin d _ => d | WOutOfSchedule d _ => d end.

(* json_object_to_file_ext with the flag word as a parameter: result, file system after,
   open() calls, close() calls.  A descriptor without write access makes the first write()
   fail with EBADF. *)
Definition object_to_file_with (fl : oflags) (deny : option Z) (fs : fsys) (p : path)
    (sched : list xfer) (obj_null : bool) (ser : option (list byte)) : wout * fsys * Z * Z :=
  if obj_null then (WRet (-1) true [] 0, fs, 0, 0)
  else
    match fs_open deny fs p fl with
    | OpenFail _ => (WRet (-1) true [] 0, fs, 1, 0)
    | OpenOk fs1 d =>
        let r := object_to_fd_inner (if d_wr d then sched else Err EBADF_ :: sched) ser in
        (r, fs_deliver fs1 d (wout_dev r), 1, match r with WRet _ _ _ _ => 1 | _ => 0 end)
    end.

Definition object_to_file_fs := object_to_file_with TO_FILE_FLAGS.

(* json_object_from_file likewise; reading does not change the file *)
Definition object_from_file_with (fl : oflags) (deny : option Z) (fs : fsys) (p : path)
    parse app_ok (sched : list xfer) : rres * fsys * Z * Z :=
  match fs_open deny fs p fl with
  | OpenFail _ => (RRet (mkrout JNull MOpen 0 None 0), fs, 1, 0)
  | OpenOk fs1 d =>
      let data := match fs_get fs1 p with Some c => c | None => [] end in
      let r := object_from_fd parse app_ok (if d_rd d then sched else Err EBADF_ :: sched) data in
      (r, fs1, 1, match r with RRet _ => 1 | _ => 0 end)
  end.

Definition object_from_file_fs := object_from_file_with FROM_FILE_FLAGS.

(* ------------------------------------------------------------------ the descriptor is the caller's *)

(* json_object_from_fd(_ex) / json_object_to_fd get a descriptor that somebody else opened: it
   stands at some position [pos] of its file (the caller may have consumed a header or an earlier
   document), and the functions do nothing to it but read() resp. write() — the model has no
   other descriptor operation (no lseek, pread, fstat, ftruncate, ...); that the C code makes no
   other call is tied by recording stubs in harness/drv_fd.c.  A read therefore sees
   [zskipn pos file] and leaves the position advanced by what the read() calls returned. *)

(* bytes the read() calls of the loop take from the descriptor *)
Fixpoint read_taken (app_ok : Z -> Z -> bool) (sched : list xfer) (rest : list byte) (bpos : Z) : Z :=
  match sched with
  | [] => 0
  | Err _ :: _ => 0
  | Short n :: sched' =>
      let ret := zlen (zfirstn (Z.min n JSON_FILE_BUF_SIZE) rest) in
      if 0 <? ret then
        if app_ok bpos ret then ret + read_taken app_ok sched' (zskipn ret rest) (bpos + ret)
        else ret
      else 0
  end.

(* json_object_from_fd_ex on a descriptor standing at [pos] of [file]: result and final position
   (for depth < 1 no read is made) *)
Definition object_from_fd_at (parse : tokener) (app_ok : Z -> Z -> bool) (sched : list xfer)
                             (file : list byte) (pos : Z) (in_depth : Z) : rres * Z :=
  let depth := if in_depth =? -1 then JSON_TOKENER_DEFAULT_DEPTH else in_depth in
  (object_from_fd_ex parse app_ok sched (zskipn pos file) in_depth,
   if depth <? 1 then pos else pos + read_taken app_ok sched (zskipn pos file) 0).

(* json_object_to_fd on a descriptor standing at [pos] of a file holding [old] ([app]: opened
   with O_APPEND): result, the file afterwards, final position *)
Definition object_to_fd_at (sched : list xfer) (old : list byte) (pos : Z) (app : bool)
                           (obj_null : bool) (ser : option (list byte)) : wout * list byte * Z :=
  let r := object_to_fd sched obj_null ser in
  let at_ := if app then zlen old else pos in
  (r, desc_write old at_ (wout_dev r),
   match wout_dev r with [] => pos | d => at_ + zlen d end).

(* ------------------------------------------------------------------ any descriptor number is a descriptor *)

(* The number of a descriptor is an argument nothing depends on.  The caller-provided descriptor
   of json_object_from_fd(_ex) / json_object_to_fd is only passed on to read()/write(); the
   library's own open() returns [ret]: -1 on failure, otherwise a descriptor number >= 0 — 0, 1
   and 2 included (a process may have closed its standard descriptors).  As written the test is
   (fd = open(...)) < 0.  The [_ret] functions also say which descriptor numbers were closed. *)
Definition object_from_fd_ex_on (fd : Z) := object_from_fd_ex.
Definition object_to_fd_on (fd : Z) := object_to_fd.

Definition open_failed (ret : Z) : bool := ret <? 0.

Definition object_from_file_ret (ret : Z) parse app_ok (sched : list xfer) (data : list byte)
  : rres * Z * list Z :=
  let '(r, opens, closes) := object_from_file (negb (open_failed ret)) parse app_ok sched data in
  (r, opens, if closes =? 1 then [ret] else []).

Definition object_to_file_ext_ret (ret : Z) (sched : list xfer) (obj_null : bool)
                                  (ser : option (list byte)) : wout * Z * list Z :=
  let '(r, opens, closes) := object_to_file_ext (negb (open_failed ret)) sched obj_null ser in
  (r, opens, if closes =? 1 then [ret] else []).

(* ------------------------------------------------------------------ the open() requests *)

(* What json_util.c asks of open(): path, the flags that decide contents and access ([oflags]),
   every OTHER flag bit (O_NONBLOCK, O_CLOEXEC, O_SYNC, ...: none is requested; O_NONBLOCK would
   turn "no data yet" into read() == 0 / EAGAIN, which the read loop takes for end of file / an
   error), and the creation mode.  As written:
     json_object_from_file      open(filename, O_RDONLY)
     json_object_to_file_ext    open(filename, O_WRONLY | O_TRUNC | O_CREAT, 0644)            *)
Record open_request := mkreq { rq_path : path; rq_flags : oflags; rq_other_bits : Z; rq_mode : option Z }.

Definition from_file_request (p : path) : open_request := mkreq p FROM_FILE_FLAGS 0 None.
Definition to_file_request (p : path) : open_request := mkreq p TO_FILE_FLAGS 0 (Some 420).   (* 0644 *)
