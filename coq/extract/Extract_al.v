(* Extract_al.v — extraction of the array-list model (C07) to OCaml (ExtrOcamlBasic only). *)
From Coq Require Extraction ExtrOcamlBasic.
From JC Require Import Base AlModel.
Extraction Language OCaml.
Set Extraction KeepSingleton.
Extraction "model_al.ml"
  Z.add Z.sub Z.mul Z.div Z.modulo Z.abs Z.opp Z.leb Z.ltb Z.eqb Z.of_nat Z.to_nat Z.of_N Z.to_N
  errno
  al_new2 al_step al_get al_length al_bsearch al_bsearch_km cmp_km al_free al_cells.
