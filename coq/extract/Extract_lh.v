(* Extract_lh.v — extraction of the linkhash/object model (C06), ExtrOcamlBasic only. *)
From Coq Require Extraction ExtrOcamlBasic.
From JC Require Import Base LhModel.
Extraction Language OCaml.
Set Extraction KeepSingleton.
Extraction "model_lh.ml"
  Z.add Z.sub Z.mul Z.div Z.modulo Z.abs Z.opp Z.leb Z.ltb Z.eqb Z.of_nat Z.to_nat Z.of_N Z.to_N
  errno
  load_test lh_table_new lh_table_resize lh_table_insert_w_hash lh_table_lookup_entry
  lh_table_delete_entry lh_table_delete set_val sget
  obj_add_ex obj_del obj_get_ex obj_length obj_iter lh_walk lh_walk_back obj_foreach_del
  set_string_hash obj_add_self.
