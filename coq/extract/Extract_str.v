(* Extract_str.v — extraction of the string-node model (C11) to OCaml (ExtrOcamlBasic only). *)
From Coq Require Extraction ExtrOcamlBasic.
From JC Require Import Base StrModel.
Extraction Language OCaml.
Set Extraction KeepSingleton.
Extraction "model_str.ml"
  Z.add Z.sub Z.mul Z.div Z.modulo Z.abs Z.opp Z.leb Z.ltb Z.eqb Z.of_nat Z.to_nat Z.of_N Z.to_N
  errno
  new_string_len new_string set_string_len set_string str_delete
  get_string get_string_len get_nul is_sep live_count str_equal str_copy str_ser
  c_strlen cstr op_bytes str_step.
