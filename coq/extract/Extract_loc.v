(* Extract_loc.v — extraction of the C14 models (ExtrOcamlBasic only). *)
From Coq Require Extraction ExtrOcamlBasic.
From JC Require Import Base LocaleModel LocaleExits.
Extraction Language OCaml.
Set Extraction KeepSingleton.
Extraction "model_loc.ml" errno
  Z.add Z.sub Z.mul Z.div Z.modulo Z.abs Z.opp Z.leb Z.ltb Z.eqb Z.of_nat Z.to_nat Z.of_N Z.to_N
  shape_recognised exits exit_ok exit_consistent exits_all_ok model_after_switch
  render_with double_text ser_double ser_double_fmt format_drops_decimals g17_wf.
