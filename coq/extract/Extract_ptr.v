(* Extract_ptr.v — extraction of the JSON Pointer model (C12) to OCaml (ExtrOcamlBasic only). *)
From Coq Require Extraction ExtrOcamlBasic.
From JC Require Import Base Value PtrModel.
Extraction Language OCaml.
Set Extraction KeepSingleton.
Extraction "model_ptr.ml"
  Z.add Z.sub Z.mul Z.div Z.modulo Z.abs Z.opp Z.leb Z.ltb Z.eqb Z.of_nat Z.to_nat Z.of_N Z.to_N
  errno jv
  ptr_get ptr_getf ptr_get_out ptr_getf_out ptr_set ptr_setf ptr_step ptr_get_internal ptr_set_with_array_cb subst_at.
