(* Extract_visit.v — extraction of the visitor model and of the reference traversal (C17). *)
From Coq Require Extraction ExtrOcamlBasic.
From JC Require Import Base Value VisitModel VisitSpec.
Extraction Language OCaml.
Set Extraction KeepSingleton.
Extraction "model_visit.ml"
  Z.add Z.sub Z.mul Z.div Z.modulo Z.abs Z.opp Z.leb Z.ltb Z.eqb Z.of_nat Z.to_nat Z.of_N Z.to_N
  errno jv json_c_visit_ff spec_visit run_progs spec_prog.
