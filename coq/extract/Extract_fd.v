(* Extract_fd.v — extraction of the descriptor-I/O model (C20) to OCaml (ExtrOcamlBasic only). *)
From Coq Require Extraction ExtrOcamlBasic.
From JC Require Import Base Value FdModel.
Extraction Language OCaml.
Set Extraction KeepSingleton.
Extraction "model_fd.ml"
  Z.add Z.sub Z.mul Z.div Z.modulo Z.abs Z.opp Z.leb Z.ltb Z.eqb Z.of_nat Z.to_nat Z.of_N Z.to_N
  errno jv
  xfer tokener parse2 c_str object_to_fd object_to_file_ext object_from_fd_ex object_from_fd object_from_file
  oflags TO_FILE_FLAGS FROM_FILE_FLAGS fsys fs_get fs_set object_to_file_with object_to_file_fs
  object_from_file_with object_from_file_fs object_from_fd_at object_to_fd_at
  object_from_file_ret object_to_file_ext_ret.
