(* Extract_heap.v — extraction of the reference-counted heap model (C05) to OCaml
   (ExtrOcamlBasic only). *)
From Coq Require Extraction ExtrOcamlBasic.
From JC Require Import Base HeapModel.
Extraction Language OCaml.
Set Extraction KeepSingleton.
Extraction "model_heap.ml"
  Z.add Z.sub Z.mul Z.div Z.modulo Z.abs Z.opp Z.leb Z.ltb Z.eqb Z.of_nat Z.to_nat Z.of_N Z.to_N
  errno
  init_state step hfind heap_of nxt ptr_target ptr_walk zlen.
