(* Extract_patch.v — extraction of the JSON Patch model (C13) to OCaml (ExtrOcamlBasic only).
   The RFC 6902 specification is extracted too: the model driver prints, per case, whether
   model and specification agree (a run-time echo of PatchProofs.apply_conforms). *)
From Coq Require Extraction ExtrOcamlBasic.
From JC Require Import Base Value PtrModel PatchModel PatchSpec.
Extraction Language OCaml.
Set Extraction KeepSingleton.
Extraction "model_patch.ml"
  Z.add Z.sub Z.mul Z.div Z.modulo Z.abs Z.opp Z.leb Z.ltb Z.eqb Z.of_nat Z.to_nat Z.of_N Z.to_N
  errno jv
  patch_apply patch_apply_full apply_op no_sharing_hazard spec_apply spec_op.
