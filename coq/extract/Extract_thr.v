(* Extract_thr.v — extraction of the interleaving model and of the REGENERATED micro-operation
   programs (ThreadImpl.impl) to OCaml (ExtrOcamlBasic only) for the C18 model driver. *)
From Coq Require Extraction ExtrOcamlBasic.
From JC Require Import Base ThreadModel ThreadImpl.
Extraction Language OCaml.
Set Extraction KeepSingleton.
Extraction "model_thr.ml"
  Z.add Z.sub Z.mul Z.div Z.modulo Z.abs Z.opp Z.leb Z.ltb Z.eqb Z.of_nat Z.to_nat Z.of_N Z.to_N
  errno
  run step init_state finished destroy_count hashes installs thread_done ThreadImpl.impl.
