(* Extract_num.v — extraction of the numeric accessor/mutator model (C10) to OCaml
   (ExtrOcamlBasic only). *)
From Coq Require Extraction ExtrOcamlBasic.
From JC Require Import Base Value NumModel.
Extraction Language OCaml.
Set Extraction KeepSingleton.
Extraction "model_num.ml"
  Z.add Z.sub Z.mul Z.div Z.modulo Z.abs Z.opp Z.leb Z.ltb Z.eqb Z.of_nat Z.to_nat Z.of_N Z.to_N
  jv decode z_to_b64 num_step
  get_boolean get_int get_int64 get_uint64 get_double
  set_int set_int64 set_uint64 set_double set_boolean int_inc
  json_parse_int64 json_parse_uint64.
