(* Extract.v — extraction of the executable models to OCaml (ExtrOcamlBasic only). *)
From Coq Require Extraction ExtrOcamlBasic.
From JC Require Import Base PbModel.
Extraction Language OCaml.
Set Extraction KeepSingleton.
Extraction "model_pb.ml"
  Z.add Z.sub Z.mul Z.div Z.modulo Z.abs Z.opp Z.leb Z.ltb Z.eqb Z.of_nat Z.to_nat Z.of_N Z.to_N
  pb_new pb_step pb_cells pb_term.
