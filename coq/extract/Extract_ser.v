(* Extract_ser.v — extraction of the serializer model (C02) together with the tokener model
   (re-parse of the emitted text) and json_object_equal (EqModel), ExtrOcamlBasic only. *)
From Coq Require Extraction ExtrOcamlBasic.
From JC Require Import Base Value SerModel TokModel EqModel.
Extraction Language OCaml.
Set Extraction KeepSingleton.
Extraction "model_ser.ml" errno
  Z.add Z.sub Z.mul Z.div Z.modulo Z.abs Z.opp Z.leb Z.ltb Z.eqb Z.of_nat Z.to_nat Z.of_N Z.to_N
  jv flags_of serialize to_json_string_length hop hop_apply with_pieces serialize_in fmt_init set_format effective tok_new parse_ex_cstr jv_equal.
