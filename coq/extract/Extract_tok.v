From Coq Require Extraction ExtrOcamlBasic.
From JC Require Import Base Value TokModel TokSize TokFd.
Extraction Language OCaml.
Set Extraction KeepSingleton.
Extraction "model_tok.ml" errno
  Z.add Z.sub Z.mul Z.div Z.modulo Z.abs Z.opp Z.leb Z.ltb Z.eqb Z.of_nat Z.to_nat Z.of_N Z.to_N
  tok_new tok_reset set_flags parse_ex parse_ex_cstr depth size_guard_n from_fd_parse default_depth flags_of_word.
