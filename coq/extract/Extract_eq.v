(* Extract_eq.v — extraction of the equality / deep-copy model (C09) to OCaml
   (ExtrOcamlBasic only). *)
From Coq Require Extraction ExtrOcamlBasic.
From JC Require Import Base Value EqModel.
Extraction Language OCaml.
Set Extraction KeepSingleton.
Extraction "model_eq.ml"
  Z.add Z.sub Z.mul Z.div Z.modulo Z.abs Z.opp Z.leb Z.ltb Z.eqb Z.of_nat Z.to_nat Z.of_N Z.to_N
  errno jv
  jv_equal jv_equal_root nan_free d_decode deep_copy deep_copy_root mutate_at run_history deep_copy_cb deep_copy_cb_root cb_default mt_copy mt_nodes key_stores mem_addrs mt_erase kbuf_write borrowed copy_uanns ud_stores ubuf_write unreleased
  nt_equal build nt_copy addrs erase node_count.
