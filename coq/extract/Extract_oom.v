(* Extract_oom.v — extraction of the allocation-aware models (C08) together with the models
   they build on (print buffer, array list, string node, serializer), ExtrOcamlBasic only. *)
From Coq Require Extraction ExtrOcamlBasic.
From JC Require Import Base Value PbModel SerModel AllocModel.
From JC Require AlModel StrModel.
Extraction Language OCaml.
Set Extraction KeepSingleton.
Extraction "model_oom.ml" errno
  Z.add Z.sub Z.mul Z.div Z.modulo Z.abs Z.opp Z.leb Z.ltb Z.eqb Z.of_nat Z.to_nat Z.of_N Z.to_N
  jv flags_of
  no_fault single_fault double_fault mkast alloc free new_double_s printbuf_new lh_table_new new_object
  object_add object_add_orig arr_add attach_array
  pb_new pb_step pb_reset ser_ops run_ops pb_text serialize_fallible serialize_orig ser_text
  mklpb lpb_step sprintbuf sprintbuf_flat
  mkfc fmt_init set_format_cfg set_format_early effective
  AlModel.al_new2 AlModel.al_step AlModel.al_add
  StrModel.new_string_len StrModel.str_step StrModel.get_string StrModel.live_count.
