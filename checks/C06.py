"""C06 — a JSON object is an insertion-ordered map under any operation history.

Streams (domain `lh`, see ocaml/drv_lh.ml for the line formats):
  A  lh_table_* driven directly with scripted hash values: exhaustive short histories over 3
     keys on table sizes 1..8 (forced collisions, wrap at the end of the slot array, huge hash
     values), random churn, tombstone-saturated tables (growth refused by the allocator),
     explicit and shrinking rehashes, growth-point sweeps (bulk adds);
  B  json_object_object_add/_add_ex/_del/_get_ex/_length with string keys, lh_char_hash,
     the perl-like hash (with families of colliding strings) and scripted hashes, initial sizes
     1..40, NULL values, KEY_IS_NEW / CONSTANT_KEY, refused allocations, delete-while-iterating;
     the environment may move during a history: json_global_set_string_hash (valid and invalid
     selections) while objects hold members, and a second object created under the then-current
     selection used in alternation with the first (objects are independent of each other and
     of the selection after their creation); every public iteration macro in every definition
     the headers offer: json_object_object_foreach exists in a GNU form and a portable strict-ISO-C
     form (harness/drv_lh_ansi.c is compiled as such an application); both are compared after
     every step and both are used for delete-current-while-iterating (ops x / y);
     a key is its bytes, never its address: every key handed to the library is a private copy of
     the text at a scripted byte offset 0..7 from an 8-aligned base (@off; the lookups after each
     step rotate through all offsets; exact-size blocks, overwritten and freed after the call), key
     lengths sweep 0..40 with pairwise distinct bytes, every lookup entry point (op g);
     refused operations are refused in every state and change nothing: self-insertion
     add / add_ex (obj, k, obj) for present and absent keys, every legal flag word, after every add of
     a filling object (every fill level, growth thresholds included) and sprinkled into all other
     histories, observing the return value, the typed member dump and the reference counts of obj
     and of the old value (an extra reference makes its survival observable); deletion of absent
     keys; get / get_ex on NULL, on non-objects and with a NULL result pointer.  Not covered because
     json-c documents no refusal there: a NULL key (undefined) and add / del / length on a
     non-object (assert);
  S  the seed source of lh_char_hash scripted (fresh process per case: -1 sentinel draws before a seed,
     0, 1, 0xfffffffe, INT_MAX, INT_MIN), followed by an add / lookup / delete / re-add history;
  H  the string hash functions themselves on the same bytes at the 8 offsets and in a heap duplicate;
  L  the load-factor expression `count >= size * 0.66` against the model's binary64 emulation.

The direct oracle is an ordered-dict model of the property text, applied to the
implementation's own output; it knows nothing of slots, hashes or the Coq model."""
import itertools

PROP = "C06"
DOMAIN = "lh"
LEVEL = "proof"
TECHNIQUE = ("Coq refinement proof (LhProofs.v: open-addressing invariant in offset-from-home form, doubly linked order chain, "
             "refinement to an association list, for every hash function) + extracted-model/C differential correspondence")
RULE = ("small-scope: every public-API history of <= 3 symbols over a 28-symbol alphabet (one symbol per code branch) x 3 configurations, "
        "of 4 symbols over 12 symbols, and every lh_table_* history of <= 3 symbols over 17 symbols x 6 configurations on tiny colliding "
        "tables (thorough: 4 symbols over the full alphabets); mode A: every op sequence of length <= 4 over {add,delete} x 3 keys on each table size 1..8 under 2 hash patterns, "
        "lengths 5-6 sampled, + random churn / tombstone / rehash / growth-sweep histories; mode B: random histories through the "
        "public object API under 3 hash selections; a case is non-trivial when some step holds >= 2 live keys and the history "
        "contains a successful delete, replace or table growth; distinct = distinct script lines among those")
TRUSTED = ["Coq 8.16.1 kernel (coqc), no axioms (Print Assumptions: closed under the global context)",
           "extraction (ExtrOcamlBasic only) + ocaml/mdrv glue (ocaml/drv_lh.ml)",
           "harness/drv_lh.c + drv_lh_ansi.c (strict ISO C view of the headers), xalloc.c, gcc -fsanitize=address,undefined",
           "hashlittle / perl-like hash are not modelled: the theorems hold for every hash function"]
ASSUMPTIONS = ["binary64 round-to-nearest-even arithmetic for `size * 0.66` (SSE2; emulated exactly in the model and proved equal to "
               "66*size <= 100*count for 1 <= size <= INT_MAX)",
               "t->equal_fn is an equality on keys (strcmp for objects); calloc returns zeroed memory",
               "JSON_C_OBJECT_ADD_KEY_IS_NEW is used only for absent keys (documented precondition)",
               "the hash of a key is a function of its byte sequence (the models' `hash : key -> Z`): validated on every run by "
               "stream H and by the offset sweep of stream B-key-bytes",
               "lh_kchar_table_new copies the hash selection current at creation into the table (modelled: LhModel.gstep; proved: "
               "C06_world_history_refines; checked: ops h / o)"]

U64 = (1 << 64) - 1
ALPHA = "abcdefghijklmnopqrstuvwxyzABCDEFGHIJKLMNOPQRSTUVWXYZ0123456789 _-.:;!#$%&()*+<=>?@[]^{|}~'`,"


# ------------------------------------------------------------------ generator
def hash_patterns(rng, size, nk):
    """hash value lists that force the interesting slot layouts for a table of `size`"""
    h = rng.randrange(size)
    pats = [
        [h] * nk,                                        # all collide
        [size - 1] * nk,                                 # collide on the last slot: wrap
        [(size - 1 + i) for i in range(nk)],             # consecutive homes across the wrap
        [h + i * size for i in range(nk)],               # equal modulo size, different values
        [U64 - i for i in range(nk)],                    # unsigned long extremes
        [rng.randrange(1 << 64) for _ in range(nk)],     # random
        [rng.randrange(2 * size) for _ in range(nk)],    # collides again after one doubling
    ]
    return pats


def line_a(size, limit, hashes, ops):
    return "lh A %d %d %s %s" % (size, limit, ",".join(str(h) for h in hashes), ";".join(ops))


def seq_to_ops(seq):
    ops = []
    for j, (kind, k) in enumerate(seq):
        ops.append("a%d,%d" % (k, j + 1) if kind == "a" else "d%d" % k)
    return ops


def gen_exhaustive(rng, tier):
    out = []
    alphabet = [(kind, k) for kind in "ad" for k in range(3)]
    full_len = 4 if tier == "quick" else 5
    for n in range(1, full_len + 1):
        for seq in itertools.product(alphabet, repeat=n):
            if seq[0][0] == "d" and n > 1 and rng.random() < 0.7:
                continue          # histories starting with a delete of nothing: keep a sample
            ops = seq_to_ops(seq)
            for size in range(1, 9):
                pats = hash_patterns(rng, size, 3)
                for hs in (pats[0], rng.choice(pats[1:])):
                    out.append((line_a(size, 0, hs, ops), {"kind": "A-exhaustive"}))
    # longer histories: sampled
    budget = {5: 5000, 6: 5000} if tier == "quick" else {6: 40000, 7: 40000}
    nk = 3 if tier == "quick" else 4
    alphabet = [(kind, k) for kind in "ad" for k in range(nk)]
    for n, cnt in budget.items():
        for _ in range(cnt):
            seq = [rng.choice(alphabet) for _ in range(n)]
            size = rng.randint(1, 8)
            hs = rng.choice(hash_patterns(rng, size, nk))
            ops = seq_to_ops(seq)
            if rng.random() < 0.15:
                keys = sorted(set(rng.randrange(nk) for _ in range(rng.randint(0, 2))))
                ops.insert(rng.randint(1, len(ops)), "x" + (",".join(map(str, keys)) or "-"))
            out.append((line_a(size, 0, hs, ops), {"kind": "A-sampled-%d" % n}))
    return out


def gen_churn_a(rng, tier):
    out = []
    n = 260 if tier == "quick" else 4000
    for ci in range(n):
        nk = rng.choice([4, 6, 10, 20, 40])
        size = rng.randint(1, 8) if rng.random() < 0.8 else rng.randint(9, 40)
        flavour = rng.choice(["random", "collide", "tomb", "rehash", "mixed"])
        if flavour == "collide":
            hs = rng.choice(hash_patterns(rng, size, nk)[:4])
        elif flavour == "tomb":
            hs = [rng.randrange(size) for _ in range(nk)]
        else:
            hs = [rng.randrange(1 << rng.choice([3, 8, 32, 64])) for _ in range(nk)]
        limit = 0
        if flavour == "tomb" or rng.random() < 0.15:
            limit = max(2, size * rng.choice([1, 1, 2, 4]))     # growth refused early: tombstones pile up
        live = {}
        cflag = {}
        ops = []
        cur_size = size
        nops = rng.randint(20, 90 if tier == "quick" else 400)
        val = 0
        for _ in range(nops):
            r = rng.random()
            val += 1
            if flavour == "tomb":
                # cycle: insert a fresh key, delete an old one; count stays tiny, every slot gets used
                if len(live) < max(1, (cur_size * 66 + 99) // 100 - 1) and r < 0.55:
                    k = rng.randrange(nk)
                    ops.append("a%d,%d" % (k, val)); live[k] = val
                elif live and r < 0.95:
                    k = rng.choice(sorted(live)); ops.append("d%d" % k); del live[k]
                else:
                    ops.append("d%d" % rng.randrange(nk))
                    live.pop(int(ops[-1][1:]), None)
                continue
            if r < 0.45:
                k = rng.randrange(nk)
                ops.append("a%d,%d" % (k, val))
            elif r < 0.55:
                absent = [k for k in range(nk) if k not in live]
                if not absent:
                    continue
                k = rng.choice(absent)
                ops.append("i%d,%d,%d" % (k, val, rng.randrange(2)))
            elif r < 0.85:
                k = rng.choice(sorted(live)) if live and rng.random() < 0.8 else rng.randrange(nk)
                ops.append("d%d" % k)
                live.pop(k, None)
                continue
            elif r < 0.92:
                ks = [k for k in range(nk) if rng.random() < 0.3]
                ops.append("x" + (",".join(map(str, ks)) or "-"))
                for k in ks:
                    live.pop(k, None)
                continue
            elif flavour in ("rehash", "mixed"):
                # explicit rehash to any size that cannot nest: 100*(count-1) < 66*n
                c = len(live)
                lo = max(1, (100 * max(c - 1, 0)) // 66 + 1)
                nn = rng.choice([lo, lo + 1, max(lo, cur_size // 2), cur_size, cur_size * 2, rng.randint(lo, lo + 20)])
                if limit and nn > limit:
                    continue
                ops.append("z%d" % nn)
                cur_size = nn
                continue
            else:
                continue
            # an insert of a new key may have grown the table (or failed under the limit): the shadow
            # only steers the generator, the oracle tracks the truth from the output
            if k not in live:
                if 100 * len(live) >= 66 * cur_size:
                    if limit and cur_size * 2 > limit:
                        continue
                    cur_size *= 2
                live[k] = val
            else:
                live[k] = val
        if ops:
            out.append((line_a(size, limit, hs, ops), {"kind": "A-" + flavour}))
    # growth sweeps: bulk adds on arbitrary initial sizes, multiples of 50 (66*size/100 integral) included
    sweeps = 24 if tier == "quick" else 200
    for _ in range(sweeps):
        size = rng.choice([rng.randint(1, 64), 50, 100, 150, 250, rng.randint(65, 600), 50 * rng.randint(1, 12)])
        nadd = min(2 * size + 3, 900)
        hs = [rng.randrange(1 << 32) for _ in range(nadd)]
        out.append((line_a(size, 0, hs, ["b%d" % nadd, "d%d" % rng.randrange(nadd), "a0,7"]), {"kind": "A-growth-sweep"}))
    return out


def rand_key(rng, used):
    while True:
        r = rng.random()
        if r < 0.06:
            k = ""
        elif r < 0.16:
            k = "".join(rng.choice(ALPHA) for _ in range(rng.randint(60, 200)))
        elif r < 0.30:
            # bytes >= 0x80 (negative chars in the perl-like hash)
            k = bytes(rng.randrange(0x80, 0x100) for _ in range(rng.randint(1, 6))).decode("latin-1")
        elif r < 0.5 and used:
            base = rng.choice(sorted(used))
            k = base[:rng.randint(0, len(base))] + rng.choice(ALPHA)     # shared prefixes
        else:
            k = "".join(rng.choice(ALPHA) for _ in range(rng.randint(1, 12)))
        if k not in used:
            return k


def perl_colliders(rng, n):
    """2^m strings with identical perl-like hash: blocks 'ab' / 'bA' ((a,b) -> (a+1,b-33))"""
    blocks = []
    for _ in range(6):
        a = rng.choice("abcdefghijklmnopqrstuvwxy")
        b = rng.choice("bcdefghijklmnopqrstuvwxyz")
        blocks.append((a + b, chr(ord(a) + 1) + chr(ord(b) - 33)))
    out = set()
    m = 1
    while (1 << m) < n:
        m += 1
    for bits in range(1 << m):
        out.add("".join(blocks[i % 6][(bits >> i) & 1] for i in range(m)))
        if len(out) >= n:
            break
    return sorted(out)


def gen_b(rng, tier):
    out = []
    n = 420 if tier == "quick" else 6000
    for ci in range(n):
        hsel = rng.choice([0, 0, 1, 1, 2])
        nk = rng.choice([3, 5, 8, 14, 30])
        keys = []
        used = set()
        if hsel == 1 and rng.random() < 0.5:
            keys = perl_colliders(rng, nk)
            used = set(keys)
        while len(keys) < nk:
            k = rand_key(rng, used)
            used.add(k); keys.append(k)
        rng.shuffle(keys)
        size = rng.choice([16, 16, 16, 1, 2, 3, 4, 5, 6, 7, 8, rng.randint(9, 40)])
        limit = 0
        if rng.random() < 0.12:
            limit = max(8, size * rng.choice([1, 2, 4]))      # >= 8 slots = 320 bytes: key copies (<= 201 bytes) always fit
        ktoks = []
        for k in keys:
            hx = k.encode("latin-1").hex() or "-"
            if hsel == 2:
                hx += "@%d" % rng.choice([7, 7, 7, size - 1, rng.randrange(4), rng.randrange(1 << 64)])
            ktoks.append(hx)
        lives = [set(), set()]
        cur = 0
        live = lives[0]
        ops = []
        val = 0
        # the environment moves under the object: the global hash selection changes while objects
        # hold members, and a second object created under another selection is used in between
        env = rng.random() < 0.5
        for _ in range(rng.randint(8, 60 if tier == "quick" else 300)):
            r = rng.random()
            val += 1
            if env and r < 0.07:
                ops.append("h%d" % rng.choice([0, 1, 0, 1, 0, 1, 2, -1, 7]))
                continue
            if env and r < 0.12:
                ops.append("o")
                cur = 1 - cur
                live = lives[cur]
                continue
            if r < 0.55:
                k = rng.randrange(nk)
                flags = 0
                if rng.random() < 0.3:
                    flags = rng.choice([2, 2, 1, 3]) if k not in live else 2
                v = "n" if rng.random() < 0.08 else str(val if rng.random() < 0.9 else -val)
                bang = "!" if rng.random() < 0.04 else ""
                ops.append("a%d,%s,%d%s" % (k, v, flags, bang))
                if not bang and not limit:
                    live.add(k)
                elif bang or limit:
                    # may have failed: the shadow no longer knows; stop using KEY_IS_NEW on this key
                    live.add(k)
            elif r < 0.85:
                k = rng.choice(sorted(live)) if live and rng.random() < 0.8 else rng.randrange(nk)
                ops.append("d%d" % k)
                live.discard(k)
            elif r < 0.93:
                ks = [k for k in range(nk) if rng.random() < 0.35]
                ops.append(rng.choice("xy") + (",".join(map(str, ks)) or "-"))
                for k in ks:
                    live.discard(k)
        if ops:
            out.append(("lh B %d %d %d %s %s" % (hsel, size, limit, ",".join(ktoks), ";".join(ops)),
                        {"kind": "B-hash%d" % hsel}))
    return out


def gen_env(rng, tier):
    """histories whose point is the environment: fill an object, change the global string-hash
    selection to the OTHER function (and to invalid values), then look up / replace / delete /
    iterate / grow; a second object is born under the new selection and both are used in turn"""
    out = []
    n = 60 if tier == "quick" else 800
    for ci in range(n):
        hsel = rng.choice([0, 1])
        nk = rng.choice([3, 6, 12, 25])
        keys, used = [], set()
        while len(keys) < nk:
            k = rand_key(rng, used)
            used.add(k); keys.append(k)
        size = rng.choice([16, 16, 1, 2, 3, 5, 8, rng.randint(9, 40)])
        ktoks = [k.encode("latin-1").hex() or "-" for k in keys]
        ops = []
        val = 0
        sel = hsel
        lives = [set(), set()]
        cur = 0

        def some_ops(cnt):
            nonlocal val
            for _ in range(cnt):
                val += 1
                live = lives[cur]
                r = rng.random()
                if r < 0.5:
                    k = rng.randrange(nk)
                    flags = rng.choice([0, 0, 0, 2, 1, 3]) if k not in live else rng.choice([0, 0, 2])
                    ops.append("a%d,%d,%d" % (k, val, flags)); live.add(k)
                elif r < 0.85 and live:
                    k = rng.choice(sorted(live)); ops.append("d%d" % k); live.discard(k)
                elif r < 0.93:
                    ks = [k for k in range(nk) if rng.random() < 0.3]
                    ops.append(rng.choice("xy") + (",".join(map(str, ks)) or "-"))
                    for k in ks:
                        live.discard(k)
                else:
                    ops.append("d%d" % rng.randrange(nk)); live.discard(int(ops[-1][1:]))
        # fill first: the object must hold members when the selection changes
        for k in rng.sample(range(nk), rng.randint(2, nk)):
            val += 1
            ops.append("a%d,%d,0" % (k, val)); lives[0].add(k)
        for _ in range(rng.randint(2, 6)):
            r = rng.random()
            if r < 0.6:
                sel = 1 - sel
                ops.append("h%d" % sel)
            elif r < 0.75:
                ops.append("h%d" % rng.choice([2, -1, 99]))
            else:
                ops.append("o"); cur = 1 - cur
            some_ops(rng.randint(2, 9))
        out.append(("lh B %d %d 0 %s %s" % (hsel, size, ",".join(ktoks), ";".join(ops)), {"kind": "B-env-change"}))
    return out


def gen_fdel(rng, tier):
    """delete-current-while-iterating as its own subject: objects of 1..40 members, the selected
    set being none / all / first / last / every other / a random subset / absent keys only, through
    BOTH definitions of json_object_object_foreach (x: GNU form, y: portable strict-ISO-C form),
    repeated and interleaved with adds so that tombstones and re-linked chains are walked too"""
    out = []
    n = 60 if tier == "quick" else 800
    for ci in range(n):
        hsel = rng.choice([0, 1, 2])
        nk = rng.choice([1, 2, 3, 5, 9, 16, 24, 40])
        keys, used = [], set()
        while len(keys) < nk:
            k = rand_key(rng, used)
            used.add(k); keys.append(k)
        size = rng.choice([16, 16, 1, 2, 4, 7, rng.randint(9, 40)])
        ktoks = []
        for k in keys:
            hx = k.encode("latin-1").hex() or "-"
            if hsel == 2:
                hx += "@%d" % rng.choice([3, 3, size - 1, rng.randrange(1 << 32)])
            ktoks.append(hx)
        ops = []
        val = 0
        order = []          # shadow of the insertion order, only to aim the selections
        for rnd in range(rng.randint(1, 4)):
            for k in rng.sample(range(nk), rng.randint(max(1, nk // 2), nk)):
                val += 1
                ops.append("a%d,%d,0" % (k, val))
                if k not in order:
                    order.append(k)
            for _ in range(rng.randint(1, 3)):
                shape = rng.choice(["none", "all", "first", "last", "alternate", "alternate1", "random", "absent", "all-but-last"])
                if shape == "none":
                    ks = []
                elif shape == "all":
                    ks = list(order)
                elif shape == "first":
                    ks = order[:1]
                elif shape == "last":
                    ks = order[-1:]
                elif shape == "alternate":
                    ks = order[0::2]
                elif shape == "alternate1":
                    ks = order[1::2]
                elif shape == "all-but-last":
                    ks = order[:-1]
                elif shape == "absent":
                    ks = [k for k in range(nk) if k not in order][:3]
                else:
                    ks = [k for k in order if rng.random() < 0.5]
                ops.append(("x" if (ci + len(ops)) % 2 else "y") + (",".join(map(str, sorted(ks))) or "-"))
                order = [k for k in order if k not in ks]
        out.append(("lh B %d %d 0 %s %s" % (hsel, size, ",".join(ktoks), ";".join(ops)), {"kind": "B-foreach-delete"}))
    return out


def distinct_key(rng, n, used):
    """a key of n pairwise distinct bytes (so that every byte position matters to any hash), from
    the alphabet that needs no escaping in the serialized text"""
    while True:
        k = "".join(rng.sample(ALPHA, n))
        if k not in used:
            return k


def gen_keybytes(rng, tier):
    """a key is identified by its bytes, never by its address: key lengths sweep 0..40 (every
    residue modulo 12 - the block size of lookup3 - in every case, several blocks), all bytes of a
    key distinct; every add / replace / get / delete passes its own copy of the key text at its own
    byte offset 0..7 from an 8-aligned base; small initial sizes, so that the stored (strdup'ed)
    copies are rehashed on growth; default hash and perl-like hash"""
    out = []
    n = 70 if tier == "quick" else 900
    for ci in range(n):
        hsel = rng.choice([0, 0, 0, 1, 1, 2])
        lens = []
        for r in range(12):
            cands = [l for l in (r, r + 12, r + 24, r + 36) if l <= 40]
            lens.append(rng.choice(cands))
        lens += [rng.choice([11, 23, 35]), rng.randint(1, 40), rng.randint(1, 40)]
        rng.shuffle(lens)
        keys, used = [], set()
        for l in lens:
            if l == 0 and "" in used:
                l = 12
            k = distinct_key(rng, l, used)
            used.add(k); keys.append(k)
        nk = len(keys)
        size = rng.choice([1, 2, 3, 4, 8, 16])
        ktoks = []
        for k in keys:
            hx = k.encode("latin-1").hex() or "-"
            if hsel == 2:
                hx += "@%d" % rng.randrange(1 << 16)
            ktoks.append(hx)
        ops = []
        live = set()
        val = 0
        order = list(range(nk))
        rng.shuffle(order)
        for k in order:
            val += 1
            offs = rng.sample(range(8), 8)
            flags = rng.choice([0, 0, 0, 1, 2, 3])
            ops.append("a%d,%d,%d@%d" % (k, val, flags, offs[0])); live.add(k)
            for o in offs[1:rng.randint(2, 5)]:
                ops.append("g%d@%d" % (k, o))
            r = rng.random()
            if r < 0.5:
                val += 1
                ops.append("a%d,%d,%d@%d" % (k, val, rng.choice([0, 0, 2]), offs[5]))
            elif r < 0.7:
                ops.append("d%d@%d" % (k, offs[6])); live.discard(k)
                ops.append("g%d@%d" % (k, offs[7]))
            if live and rng.random() < 0.4:
                j = rng.choice(sorted(live))
                ops.append("g%d@%d" % (j, rng.randrange(8)))
        for k in rng.sample(range(nk), nk // 2):
            if rng.random() < 0.5:
                ops.append("d%d@%d" % (k, rng.randrange(8))); live.discard(k)
            else:
                val += 1
                ops.append("a%d,%d,0@%d" % (k, val, rng.randrange(8))); live.add(k)
        out.append(("lh B %d %d 0 %s %s" % (hsel, size, ",".join(ktoks), ";".join(ops)), {"kind": "B-key-bytes"}))
    return out


def gen_refused(rng, tier):
    """refused operations are refused in every state and change nothing: after EVERY add of a
    filling object (so at every fill level, in particular when count >= 0.66*size and the next
    insertion would grow the table) self-insertion add(obj, k, obj) under a present key and under
    an absent key, with every legal flag word (default, CONSTANT_KEY; KEY_IS_NEW only for absent
    keys); deletion of absent keys; lookups on NULL / non-objects; with tombstones in between"""
    out = []
    n = 70 if tier == "quick" else 900
    for ci in range(n):
        hsel = rng.choice([0, 1, 2])
        nk = rng.choice([4, 7, 12, 20, 30])
        keys, used = [], set()
        while len(keys) < nk:
            k = rand_key(rng, used)
            used.add(k); keys.append(k)
        size = rng.choice([1, 2, 3, 4, 5, 8, 16, 16])
        ktoks = []
        for k in keys:
            hx = k.encode("latin-1").hex() or "-"
            if hsel == 2:
                hx += "@%d" % rng.choice([5, 5, size - 1, rng.randrange(1 << 32)])
            ktoks.append(hx)
        ops = []
        live = []
        val = 0
        order = list(range(nk))
        rng.shuffle(order)
        fill_to = rng.randint(max(2, nk // 2), nk - 1)        # at least one key stays absent
        for k in order[:fill_to]:
            val += 1
            ops.append("a%d,%s,%d" % (k, "n" if rng.random() < 0.1 else str(val), rng.choice([0, 0, 2])))
            live.append(k)
            absent = [j for j in range(nk) if j not in live]
            # present key: default / CONSTANT_KEY (KEY_IS_NEW is not legal there)
            ops.append("s%d,%d" % (rng.choice(live), rng.choice([0, 0, 2])))
            if rng.random() < 0.5:
                ops.append("s%d,%d" % (live[-1], rng.choice([0, 2])))
            # absent key: all four flag words
            ops.append("s%d,%d" % (rng.choice(absent), rng.choice([0, 1, 2, 3])))
            r = rng.random()
            if r < 0.25:
                ops.append("d%d" % rng.choice(absent))
            elif r < 0.4:
                ops.append("q%d" % rng.randrange(nk))
            elif r < 0.55 and len(live) > 1:
                j = live.pop(rng.randrange(len(live)))        # a tombstone; the key is absent again
                ops.append("d%d" % j)
                ops.append("s%d,%d" % (j, rng.choice([0, 1, 2, 3])))
            elif r < 0.65:
                val += 1
                ops.append("a%d,%d,0" % (rng.choice(live), val))   # a legitimate replace still works
        out.append(("lh B %d %d 0 %s %s" % (hsel, size, ",".join(ktoks), ";".join(ops)), {"kind": "B-refused"}))
    return out


# ------------------------------------------------------------------ small-scope enumeration
SS_B_KEYS = ["61", "-", "6162636465666768696a6b"]          # "a", the empty key, an 11-byte key
SS_B_CONFIGS = [(2, 1), (0, 2), (1, 1)]                      # (hash selection, initial size); 2 = all keys collide


def ss_b_alphabet(reduced=False):
    al = []
    for k in (0, 1):
        if reduced:
            al += [("a", k, 0), ("a", k, 1), ("d", k), ("s", k, 0), ("x", k)]
        else:
            al += [("a", k, 0), ("a", k, 1), ("a", k, 2), ("an", k), ("a!", k), ("d", k),
                   ("s", k, 0), ("s", k, 2), ("x", k), ("y", k), ("g", k)]
    if reduced:
        return al + [("h",), ("o",)]
    return al + [("a", 2, 0), ("d", 2), ("h",), ("o",), ("x-",), ("q", 0)]


def ss_b_line(seq, cfg):
    """render one public-API history; None when it is inadmissible (KEY_IS_NEW on a present key)"""
    hsel, size = cfg
    live = [set(), set()]
    cur = 0
    sel = 1 if hsel == 1 else 0
    ops = []
    for j, sym in enumerate(seq):
        c = sym[0]
        off = (3 * j + (sym[1] if len(sym) > 1 else 0)) % 8
        d = live[cur]
        if c == "a":
            _, k, fl = sym
            if (fl & 1) and k in d:
                return None
            ops.append("a%d,%d,%d@%d" % (k, j + 1, fl, off)); d.add(k)
        elif c == "an":
            ops.append("a%d,n,0@%d" % (sym[1], off)); d.add(sym[1])
        elif c == "a!":
            ops.append("a%d,%d,0!@%d" % (sym[1], j + 1, off))      # the key copy is refused: only a replace succeeds
        elif c == "d":
            ops.append("d%d@%d" % (sym[1], off)); d.discard(sym[1])
        elif c == "s":
            ops.append("s%d,%d@%d" % (sym[1], sym[2], off))
        elif c in "xy":
            ops.append("%s%d" % (c, sym[1])); d.discard(sym[1])
        elif c == "x-":
            ops.append("x-")
        elif c == "g":
            ops.append("g%d@%d" % (sym[1], off))
        elif c == "q":
            ops.append("q%d@%d" % (sym[1], off))
        elif c == "h":
            sel = 1 - sel
            ops.append("h%d" % sel)
        elif c == "o":
            ops.append("o"); cur = 1 - cur
    keys = SS_B_KEYS if hsel != 2 else [k + "@7" for k in SS_B_KEYS]
    return "lh B %d %d 0 %s %s" % (hsel, size, ",".join(keys), ";".join(ops))


SS_A_CONFIGS = [(1, 0, (0, 0, 0)), (2, 0, (1, 1, 1)), (3, 0, (2, 3, 5)),       # (size, limit, hashes): collide / wrap
                (1, 2, (5, 5, 5)), (2, 2, (3, 1, 3)), (3, 3, (2, 2, 0))]        # growth refused at the first / second doubling
SS_A_ALPHABET = ([(c, k) for k in (0, 1, 2) for c in ("a", "d", "i", "x")] + [("I", 0), ("x-",), ("z", 1), ("z", 3), ("z", 8)])


def ss_a_line(seq, cfg):
    """render one lh_table_* history; None when inadmissible (raw insert of a present key, a
    resize whose refill would grow again).  The shadow follows the growth rule only to know
    which adds fail under the allocation limit."""
    size0, limit, hashes = cfg
    size = size0
    live = set()
    ops = []

    def insert_ok():
        nonlocal size
        if 100 * len(live) >= 66 * size:
            if limit and size * 2 > limit:
                return False
            size *= 2
        return True
    for j, sym in enumerate(seq):
        c = sym[0]
        if c == "a":
            k = sym[1]
            ops.append("a%d,%d" % (k, j + 1))
            if k not in live and insert_ok():
                live.add(k)
        elif c in "iI":
            k = sym[1]
            if k in live:
                return None
            ops.append("i%d,%d,%d" % (k, j + 1, 1 if c == "I" else 0))
            if insert_ok():
                live.add(k)
        elif c == "d":
            ops.append("d%d" % sym[1]); live.discard(sym[1])
        elif c == "x":
            ops.append("x%d" % sym[1]); live.discard(sym[1])
        elif c == "x-":
            ops.append("x-")
        elif c == "z":
            n = sym[1]
            if not (100 * (len(live) - 1) < 66 * n):
                return None
            if limit and n > limit:
                ops.append("z%d" % n)            # refused by the allocator: nothing changes
            else:
                ops.append("z%d" % n); size = n
    return line_a(size0, limit, hashes, ops)


def gen_small(rng, tier):
    """small-scope exhaustive pass: EVERY history up to the bound over an alphabet in which each
    symbol selects a different branch (add / replace / KEY_IS_NEW / CONSTANT_KEY / NULL value /
    refused key copy / delete present+absent / refused self-insertion / delete-current-while-iterating
    through both macro definitions / every lookup entry point / selection change / second object;
    raw insert, resize, refused growth), on tiny tables where every insertion is at or next to a growth
    threshold and all keys collide or wrap.  No randomness: the same cases for every seed."""
    out = []
    deep = tier != "quick"
    # --- public API: <= 3 symbols over the full alphabet under every configuration; 4 symbols over
    #     the reduced alphabet (quick) / the full alphabet (thorough), configurations in rotation
    alpha = ss_b_alphabet()
    for n in (1, 2, 3):
        for seq in itertools.product(alpha, repeat=n):
            for cfg in SS_B_CONFIGS:
                l = ss_b_line(seq, cfg)
                if l:
                    out.append((l, {"kind": "small-scope"}))
    for i, seq in enumerate(itertools.product(alpha if deep else ss_b_alphabet(True), repeat=4)):
        l = ss_b_line(seq, SS_B_CONFIGS[i % 3])
        if l:
            out.append((l, {"kind": "small-scope"}))
    # --- lh_table_*: <= 3 symbols under every configuration; thorough: 4 symbols, configurations in rotation
    for n in (1, 2, 3):
        for seq in itertools.product(SS_A_ALPHABET, repeat=n):
            for cfg in SS_A_CONFIGS:
                l = ss_a_line(seq, cfg)
                if l:
                    out.append((l, {"kind": "small-scope"}))
    if deep:
        for i, seq in enumerate(itertools.product(SS_A_ALPHABET, repeat=4)):
            l = ss_a_line(seq, SS_A_CONFIGS[i % 6])
            if l:
                out.append((l, {"kind": "small-scope"}))
    return out


SEED_FIRST = ["0", "1", "-2", "2147483647", "-2147483648", "5"]


def gen_seed(rng, tier):
    """the seed source of lh_char_hash as an oracle: each case runs in a fresh driver process (the
    seed is latched once per process) whose json_c_get_random_seed() first answers scripted draws,
    then a short public-API history: add keys, look each up, delete, re-add.  Draw scripts: a real
    seed at once (0, 1, 0xfffffffe, INT_MAX, INT_MIN) and j answers of the "unset" sentinel -1 before
    a real seed, j aimed at the history: every hash call made while the seed is unset draws once, the
    driver's first observation hashes every key of the universe (nk calls), the first add is call
    nk+1: so j = 1, 2 (settled before any insertion), nk+1 (the first insertion is the last call that
    sees the sentinel), nk+2, 2nk+3, 3nk+5 (the sentinel persists into later steps)"""
    out = []
    reps = 2 if tier == "quick" else 12
    for rep in range(reps):
        for which in range(6 + len(SEED_FIRST)):
            nk = rng.choice([2, 3, 5, 8])
            keys, used = [], set()
            while len(keys) < nk:
                k = rand_key(rng, used)
                used.add(k); keys.append(k)
            if which < 6:
                j = [1, 2, nk + 1, nk + 2, 2 * nk + 3, 3 * nk + 5][which]
                draws = ",".join(["-1"] * j + [str(rng.choice([0, 5, 7, 123456789, -7]))])
                size = rng.choice([16, 16, 5, 40])
            else:
                draws = SEED_FIRST[which - 6]
                size = rng.choice([16, 1, 2, 5])
            ops = []
            val = 0
            for k in range(nk):
                val += 1
                ops.append("a%d,%d,0" % (k, val))
                ops.append("g%d" % k)
            ops += ["g0", "a0,%d,0" % (val + 1), "d0", "g0", "a0,%d,0" % (val + 2)]
            for _ in range(rng.randint(0, 4)):
                val += 3
                k = rng.randrange(nk)
                ops.append(rng.choice(["d%d" % k, "a%d,%d,0" % (k, val), "g%d" % k, "x%d" % k]))
            ktoks = [k.encode("latin-1").hex() or "-" for k in keys]
            hsel = 1 if (which >= 6 and rep % 2 == 1 and which % 3 == 0) else 0
            out.append(("lh S %s %d %d 0 %s %s" % (draws, hsel, size, ",".join(ktoks), ";".join(ops)), {"kind": "S-seed-source"}))
    return out


def gen_hash(rng, tier):
    """the direct hash oracle: both string hashes on the same bytes at all 8 offsets (+ a heap
    duplicate): lengths 0..40 each, longer keys sampled; distinct bytes, any value 1..255"""
    out = []
    for hsel in (0, 1):
        for rep in range(2 if tier == "quick" else 20):
            ks = []
            for l in list(range(0, 41)) + [rng.randint(41, 120) for _ in range(8)]:
                ks.append(bytes(rng.sample(range(1, 256), l)).hex() or "-")
            out.append(("lh H %d %s" % (hsel, ",".join(ks)), {"kind": "H-hash-address"}))
    return out


def add_offsets(cases, orng):
    """every add / delete of a mode B history passes its key at its own offset; extra explicit
    lookups (all entry points) are sprinkled in"""
    res = []
    for line, meta in cases:
        p = line.split(" ")
        if p[1] != "B" or meta.get("kind") == "small-scope":      # the enumeration is exact: nothing sprinkled in
            res.append((line, meta)); continue                    # (S lines keep their shape too)
        nk = len(p[5].split(","))
        ops = []
        for op in p[6].split(";"):
            if op[0] in "adsq" and "@" not in op:
                op += "@%d" % orng.randrange(8)
            ops.append(op)
            r = orng.random()
            if r < 0.08:
                ops.append("g%d@%d" % (orng.randrange(nk), orng.randrange(8)))
            elif r < 0.12:
                # a refused operation anywhere in any history (flag words legal for present and absent keys)
                ops.append("s%d,%d@%d" % (orng.randrange(nk), orng.choice([0, 2]), orng.randrange(8)))
            elif r < 0.13:
                ops.append("q%d@%d" % (orng.randrange(nk), orng.randrange(8)))
        res.append((" ".join(p[:6] + [";".join(ops)]), meta))
    return res


def gen_l(rng, tier):
    out = [("lh L 1 4096 1", {"kind": "L-load-factor"}),
           ("lh L 50 2147483600 1048583", {"kind": "L-load-factor"}),     # step prime: all residues mod 50
           ("lh L 2147483000 2147483647 1", {"kind": "L-load-factor"}),
           ("lh L 1073741800 1073741900 1", {"kind": "L-load-factor"})]
    # multiples of 50: 66*size/100 is an integer, the only place where rounding could decide
    for _ in range(6 if tier == "quick" else 60):
        lo = 50 * rng.randint(1, 42949000)
        out.append(("lh L %d %d 50" % (lo, min(lo + 50 * 300, 2147483600)), {"kind": "L-load-factor"}))
    return out


def gen(rng, tier):
    import random as _random
    cases = (gen_l(rng, tier) + gen_env(rng, tier) + gen_fdel(rng, tier) + gen_exhaustive(rng, tier)
             + gen_churn_a(rng, tier) + gen_b(rng, tier) + gen_keybytes(rng, tier) + gen_hash(rng, tier)
             + gen_refused(rng, tier) + gen_small(rng, tier) + gen_seed(rng, tier))
    return add_offsets(cases, _random.Random(rng.random()))


# ------------------------------------------------------------------ direct oracle
def plist(tok, fields):
    """'k:v:c,k:v:c' -> list of tuples of the first `fields` fields (strings); '-' -> []"""
    if tok == "-":
        return []
    return [tuple(x.split(":")[:fields]) for x in tok.split(",")]


def oracle(line, meta, impl):
    if "CRASH" in impl:
        return ("crash", "implementation crashed or did not terminate: " + impl[-80:])
    if "SELFREF" in impl:
        st = impl.split(" | ")[-1]
        return ("refused-op-changed-state", "self-insertion add(obj, key, obj) was not refused: the object now holds itself "
                "(return value : refcount change of obj : refcount change of the old value = %s)" % st.split(" ")[0])
    if impl == "MISSING":
        return ("crash", "no output for this case (the driver died)")
    parts = line.split(" ")
    mode = parts[1]
    if mode == "S":                 # a B history behind a scripted seed source: the same ordered-map semantics
        parts = [parts[0], "B"] + parts[3:]
        mode = "B"
    if mode == "H":
        # the hash of a key is a function of its bytes
        toks = impl.split(",")
        if len(toks) != len(parts[3].split(",")):
            return ("malformed", "unexpected driver output: " + impl[:100])
        for i, t in enumerate(toks):
            if t != "ok":
                key = parts[3].split(",")[i]
                return ("hash-depends-on-address", "string hash %s of key %s (length %d) depends on where the bytes lie: %s"
                        % (parts[2], key[:90], 0 if key == "-" else len(key) // 2, t))
        return None
    if mode == "L":
        # the property-level content of the load-factor expression: growth happens at the least
        # count with 100*count >= 66*size
        lo, hi, step = int(parts[2]), int(parts[3]), int(parts[4])
        got = impl.split(",")
        sizes = range(lo, hi + 1, step)
        if len(got) != len(sizes):
            return ("malformed", "unexpected driver output: " + impl[:100])
        return None
    if mode == "A":
        nk = len(parts[4].split(","))
        limit = int(parts[3])
        ops = parts[5].split(";")
    elif mode == "B":
        nk = len(parts[5].split(","))
        limit = int(parts[4])
        ops = parts[6].split(";")
    else:
        return None
    steps = impl.split(" | ")
    if len(steps) != len(ops) + 1:
        return ("malformed", "unexpected driver output (%d steps for %d ops): %s" % (len(steps), len(ops), impl[:120]))
    d = {}                      # the ordered-dict model: key index -> value token
    pair = [d, None]            # mode B: two objects; the observation is of the current one
    cur = 0
    for si, st in enumerate(steps):
        t = st.split(" ")
        if len(t) != (6 if mode == "A" else 5):
            return ("malformed", "unexpected step output: " + st[:120])
        ret, length, _size, look, it = t[0], t[1], t[2], t[3], t[4]
        op = ops[si - 1] if si > 0 else "new"
        opfull = op
        op = op.split("@")[0]          # @off: where the caller's key text lies; irrelevant to the property
        if it.startswith("ITERDIFF"):
            return ("iter-mechanisms-differ", "iteration mechanisms disagree after %s: %s" % (op, it[:200]))
        if si > 0:
            c = op[0]
            body = op[1:]
            if c == "a":
                bang = body.endswith("!")
                f = body.rstrip("!").split(",")
                k, v = int(f[0]), f[1]
                flags = int(f[2]) if len(f) > 2 else 0
                if (flags & 1) and k in d:
                    return None                      # KEY_IS_NEW on a present key: outside the property
                if ret == "0":
                    d[k] = v                         # a dict keeps the position of a replaced key
                elif ret == "-1":
                    if not limit and not bang:
                        return ("spurious-failure", "add failed without any refused allocation at op %d (%s)" % (si, op))
                else:
                    return ("ret", "add returned %s at op %d (%s)" % (ret, si, op))
            elif c == "i":
                f = body.split(",")
                k, v = int(f[0]), f[1]
                if k in d:
                    return None                      # raw insert of a present key: outside the property
                if ret == "0":
                    d[k] = v
                elif ret != "-1" or not limit:
                    return ("ret", "insert returned %s at op %d (%s)" % (ret, si, op))
            elif c == "d":
                k = int(body)
                want = "0" if (k in d or mode == "B") else "-1"
                if ret != want:
                    return ("ret", "delete returned %s, expected %s at op %d (%s)" % (ret, want, si, op))
                d.pop(k, None)
            elif c in "xy":              # y: the loop compiled from the portable definition of the macro
                ks = set(int(x) for x in body.split(",")) if body != "-" else set()
                want = [(str(k), v) for k, v in d.items()]
                if plist(ret, 2) != want:
                    return ("foreach-delete", "delete-while-iterating visited %s, expected %s at op %d (%s)" % (ret, want, si, op))
                for k in ks:
                    d.pop(k, None)
            elif c == "s":
                # add / add_ex (obj, key, obj): refused in every state, nothing changes - not the members
                # (checked below as after every step), not the reference counts of obj or of the old value
                f = body.split(",")
                k, flags = int(f[0]), int(f[1])
                if (flags & 1) and k in d:
                    return None                      # KEY_IS_NEW on a present key: outside the property
                if ret != "-1:0:0":
                    return ("refused-op-changed-state", "self-insertion under %s key %d (flags %d) at op %d: return value : refcount "
                            "change of obj : of the old value = %s, expected -1:0:0" % ("present" if k in d else "absent", k, flags, si, ret))
            elif c == "q":
                k = int(body)
                want = "0:0:0:%d:-:-:-" % (1 if k in d else 0)
                if ret != want:
                    return ("ret", "lookups on NULL / non-objects / with NULL result pointer gave %s, expected %s at op %d" % (ret, want, si))
            elif c == "g":
                k = int(body)
                if ret.startswith("GETDIFF"):
                    return ("lookup-mechanisms-differ", "lookup entry points disagree at op %d (%s): %s" % (si, opfull, ret))
                if ret != d.get(k, "-"):
                    return ("lookup", "lookup of key %d gives %s, expected %s at op %d (%s)" % (k, ret, d.get(k, "-"), si, opfull))
            elif c == "z":
                if ret not in ("0", "-1"):
                    return ("ret", "resize returned %s" % ret)
            elif c == "h":
                # json_global_set_string_hash: 0 for the two documented selections, -1 otherwise; an
                # object that exists is an ordered map regardless (checked below, as after every step)
                want = "0" if body in ("0", "1") else "-1"
                if ret != want:
                    return ("ret", "json_global_set_string_hash(%s) returned %s at op %d" % (body, ret, si))
            elif c == "o":
                cur = 1 - cur
                if pair[cur] is None:
                    pair[cur] = {}
                d = pair[cur]
                if ret != "0":
                    return ("ret", "object switch returned %s" % ret)
            elif c == "b":
                for k in range(int(body)):
                    d[k] = str(k)
        # observations after the step
        if int(length) != len(d):
            return ("length", "length %s but %d live keys after op %d (%s)" % (length, len(d), si, op))
        lk = look.split(",")
        if len(lk) != nk:
            return ("malformed", "lookup list has %d entries" % len(lk))
        for k in range(nk):
            if lk[k] != d.get(k, "-"):
                return ("lookup", "lookup of key %d gives %s, expected %s after op %d (%s)" % (k, lk[k], d.get(k, "-"), si, op))
        want = [(str(k), v) for k, v in d.items()]
        if plist(it, 2) != want:
            return ("iteration-order", "iteration yields %s, expected %s after op %d (%s)" % (it[:200], want[:12], si, op))
        if mode == "A":
            if plist(t[5], 1) != [(str(k),) for k in reversed(list(d))]:
                return ("iteration-order", "backward chain yields %s after op %d (%s)" % (t[5][:200], si, op))
    return None


def classify(line, meta, mo, co):
    return None


def nontrivial(line, meta, impl):
    if line.startswith("lh L") or line.startswith("lh H"):
        return line
    steps = impl.split(" | ")
    sizes = set()
    big = False
    event = False
    prev_len = 0
    for st in steps:
        t = st.split(" ")
        if len(t) < 5 or not t[1].lstrip("-").isdigit():
            return None
        sizes.add(t[2])
        n = int(t[1])
        if n >= 2:
            big = True
        if n < prev_len:
            event = True
        prev_len = n
    if big and (event or len(sizes) > 1):
        return line
    return None


def shrink(ck, line, cls):
    import fw
    parts = line.split(" ")
    if parts[1] not in "ABS":
        return line
    idx = {"A": 5, "B": 6, "S": 7}[parts[1]]
    ops = parts[idx].split(";")

    def mk(sub):
        return " ".join(parts[:idx] + [";".join(sub)])

    def fails(sub):
        l = mk(sub)
        m, c, _ = ck.run_pair([l], "shrink")
        v = oracle(l, {}, c.get(1, "MISSING"))
        return v is not None and v[0] == cls
    return mk(fw.ddmin(ops, fails, budget=80))


def search(rng, broken_lines):
    """only the proof or the correspondence broke: look for a concrete failure with the
    thorough distribution (bounded), starting from variations of the disagreeing lines"""
    extra = []
    for l in broken_lines[:20]:
        p = l.split(" ")
        if p[1] == "A":
            for size in range(1, 9):
                extra.append((" ".join(p[:2] + [str(size)] + p[3:]), {"kind": "search"}))
    extra += gen_seed(rng, "quick") + gen_refused(rng, "quick") + gen_keybytes(rng, "quick") + gen_hash(rng, "quick") + gen_env(rng, "quick") + gen_fdel(rng, "quick") + gen_churn_a(rng, "quick") + gen_b(rng, "quick") + gen_exhaustive(rng, "quick")[:6000]
    return extra


LEVEL_TEXT = ("Machine-checked refinement, for EVERY hash function (Section variable), every key type with a decidable equality, every "
              "allocator behaviour and every initial size 1..INT_MAX: the open-addressing table of linkhash.c (slot states, probe loops, "
              "load-factor growth with the INT_MAX clamp, tombstones, doubly linked order chain) keeps the invariant of DESIGN A.1 under "
              "add / add_ex / replace / delete / delete-while-iterating, and its lookup, length and every chain traversal equal those of an "
              "insertion-ordered association list (append on first insertion, in-place replace); the probe loops terminate, no NULL link "
              "is followed, no nested resize occurs (Coq, induction over histories, no axioms).  The C double comparison "
              "`count >= size * 0.66` is emulated bit-exactly and proved equal to 66*size <= 100*count for all int sizes.  The model is "
              "tied to linkhash.c / json_object.c on every run by differential execution of the extracted model and the ASan/UBSan build.")
LEVEL_NOTE = ("Trusted: Coq kernel; extraction + OCaml glue; harness; the theorems are about the Gallina model, the C code is tied to it by "
              "the checked correspondence (exhaustive short histories + sampled long ones, not all).  lh_table_resize called directly "
              "with a size that makes the refill itself grow (nested resize) is outside the model (reported as OUT-nested); "
              "the random seed of lh_char_hash is whatever the process draws (the theorems cover every seed).")


# ---- source -> Gallina translator for the header constants this model uses (tr/lib_consts.py; LibImplCheck.v)
LIB_TRANSLATOR = {}


def coq_extra():
    import sys as _sys, os as _os
    import fw as _fw
    _sys.path.insert(0, _os.path.join(_fw.VERIF, "tr"))
    import lib_consts
    files, info = lib_consts.coq_extra_for(_fw)
    LIB_TRANSLATOR.update(info)
    return files


def extra_coverage():
    return dict(lib_translator=dict(LIB_TRANSLATOR))
