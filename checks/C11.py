"""C11 — strings are length-counted byte sequences preserved through any mutation history.

Generator: creation by new_string_len / new_string, then 1..24 set_string_len / set_string /
get steps whose lengths are aimed at the case-split boundaries of the setter (current length
-1/0/+1, creation length -1/0/+1, sizeof(void*) = 8, zero), so that the storage crosses
inline -> separate -> inline(0) -> separate and grows/shrinks in place; bytes are biased
towards NUL, >= 0x80 and the characters json_escape_str treats specially; allocation faults
on the setter's (and the creation's) allocation; refused lengths (negative, >= INT_MAX-1);
setters whose source is the node's own current buffer, json_object_get_string(o) + off: in-place
truncation to every small length incl. 0 and the sizeof(void*) neighbourhood, strlen of the own
buffer, suffixes and substrings overlapping the destination or not, the contents together with
their terminator (which makes the string grow from its own bytes), in inline and in separate
storage, with faults on the grow allocation.
A fifth of the cases (kind near-*) and a step kind of the ordinary histories set successive values
of EQUAL length that differ only where C-string functions do not look: exactly one byte after
an embedded NUL (first / last / middle), the byte AT the NUL (NUL -> non-NUL and back), case only,
trailing NULs appearing / disappearing, one byte behind a long common prefix (positions around
8, 16, 32, 64 and the last byte), the identical value again; at every storage state (inline,
separately allocated, shrunk inline, shrunk inside a larger separate buffer, separate again
after an empty value).
A small block (kind big-*) covers size thresholds far from the inline limit: values of 4095 / 4096 /
4097 / 8192 / 65535 / 65536 / 65537 bytes and 1 MiB, large -> small -> large, the shrink by 1 /
4095 / 4096 / 4097 / half / all-but-one bytes taken from a slice of the node's own buffer (offset
0 / k / ending at the last byte / ending at the terminator) or from outside.  Byte strings longer
than 256 bytes are printed as length + FNV-1a hash + first/last 16 bytes by both drivers and by
the oracle; above 256 KiB the model side prints a wildcard for the equality / copy /
serialisation tokens (the oracle still checks them on the implementation).

Direct oracle: a Python byte-string model of the property text, independent of the Coq model:
contents = bytes of the last setter that returned 1 (or of the creation)."""
import random

import fw

PROP = "C11"
DOMAIN = "str"
LEVEL = "proof"
TECHNIQUE = "Coq invariant/refinement proof (StrProofs.v) + extracted-model/C differential correspondence"
RULE = ("small-scope block first (kind small-scope, both tiers, no randomness): every history of <= 3 operations over a 19-symbol "
        "alphabet (one symbol per branch of the setter: zero / shorter / equal-length-other-tail / 8 / 9 / longer length, "
        "refused allocation, refused lengths, strlen-based setters, read, own-buffer sources) plus every history of 4 "
        "operations (quick: 10-symbol sub-alphabet; thorough: all 19) from each of 5 creations; then "
        "histories of 0..24 set/get steps on a string node generated from one PRNG with a shadow of (creation length, current "
        "length, storage class, contents) used only to aim lengths and own-buffer sources at the setter's case-split boundaries; a case is non-trivial when "
        "the storage class changed at least once or a setter failed; distinct = distinct script among those")
TRUSTED = ["Coq 8.16.1 kernel (coqc), no axioms (Print Assumptions: closed under the global context)",
           "extraction (ExtrOcamlBasic only) + ocaml/mdrv glue (ocaml/drv_str.ml; it restarts itself once under ulimit -s unlimited: "
           "the extracted list functions are not tail recursive)",
           "harness/drv_str.c, xalloc.c, gcc -fsanitize=address,undefined",
           "LP64 layout constants of the model (header 48 bytes, pointer 8 bytes; the driver refuses another ABI)"]
ASSUMPTIONS = ["a setter's source is either memory outside the node or a range inside the node's current contents and their "
               "terminator (json_object_get_string(o) + off), overlapping the destination or not; stale bytes beyond the "
               "terminator of a larger old buffer are not a valid source",
               "strings longer than INT_MAX bytes (only creatable through json_object_new_string) are outside the sampled domain; "
               "the theorems carry the guard length <= INT_MAX for the int-typed length accessor",
               "memory model of C is outside the Gallina model: heap blocks, liveness and bounds are modelled explicitly, "
               "ASan/UBSan support the tie on the sampled histories only"]
INT_MAX = 2147483647
REFUSED = [-1, -2, -7, -INT_MAX - 1, INT_MAX, INT_MAX - 1]
SPECIAL = [0, 0, 0, 1, 8, 9, 10, 12, 13, 0x1f, 0x20, 0x22, 0x2f, 0x2f, 0x5c, 0x7f, 0x80, 0x81, 0xc3, 0xfe, 0xff, 0xff]


def hexs(b):
    return b.hex() if b else "-"


_PAT = {}


def pat(k, n):
    """the generated value "@<k>x<n>" of the drivers: b(i) = (7 i + 13 k + 5 (i / 256)) mod 251"""
    if (k, n) not in _PAT:
        if len(_PAT) > 64:
            _PAT.clear()
        _PAT[(k, n)] = bytes([(7 * i + 13 * k + 5 * (i >> 8)) % 251 for i in range(n)])
    return _PAT[(k, n)]


def unhex(h):
    if h.startswith("@"):
        k, n = h[1:].split("x")
        return pat(int(k), int(n))
    return b"" if h == "-" else bytes.fromhex(h)


def show(b):
    """how the drivers print a byte string: hex, or #<len>:<fnv1a-32>:<first 16>:<last 16> above 256 bytes"""
    if len(b) <= 256:
        return hexs(b)
    h = 0x811c9dc5
    for c in b:
        h = ((h ^ c) * 16777619) & 0xffffffff
    return "#%d:%08x:%s:%s" % (len(b), h, b[:16].hex(), b[-16:].hex())


def rbytes(rng, n, nonul=False):
    mode = rng.random()
    out = bytearray()
    for _ in range(n):
        if mode < 0.35:
            c = rng.choice(SPECIAL)
        elif mode < 0.55:
            c = rng.randrange(0x80, 0x100)
        elif mode < 0.7:
            c = rng.randrange(0x20, 0x7f)
        else:
            c = rng.choice(SPECIAL) if rng.random() < 0.3 else rng.randrange(256)
        if nonul and c == 0:
            c = rng.randrange(1, 256)
        out.append(c)
    return bytes(out)


def fault(rng, p0=0.10, p1=0.03):
    r = rng.random()
    if r < p0:
        return "!0"
    if r < p0 + p1:
        return "!1"
    return ""


def own_strlen(c, off):
    """strlen through a pointer off bytes into a node holding c (a NUL follows the contents)"""
    z = c[off:] + b"\0"
    return z.index(0)


def _other(rng, c, avoid=()):
    """a byte different from c (and not in avoid)"""
    while True:
        d = rng.choice([c ^ 1, c ^ 0x20, c ^ 0x80, rng.randrange(256)]) & 0xff
        if d != c and d not in avoid:
            return d


def derive(rng, v):
    """a value of the SAME length that differs from v only where C-string functions (strcmp,
    strncmp, strlen, strcasecmp, word-wise compares that stop early) do not look; returns
    (new value, operator name) or (None, None) when v is empty"""
    n = len(v)
    if n == 0:
        return None, None
    w = bytearray(v)
    ops = ["last", "prefix", "at-nul-set", "trail-nul"]
    nul = v.find(0)
    if 0 <= nul < n - 1:
        ops += ["after-nul"] * 4
    if nul >= 0:
        ops += ["at-nul-clear"] * 2
    if any(65 <= (c & 0xdf) <= 90 for c in v):
        ops += ["case"] * 2
    if v.endswith(b"\0"):
        ops += ["trail-nul-off"] * 2
    op = rng.choice(ops)
    if op == "after-nul":           # exactly one byte after the first embedded NUL: first / last / middle
        i = rng.choice([nul + 1, n - 1, (nul + 1 + n - 1) // 2, rng.randint(nul + 1, n - 1)])
        w[i] = _other(rng, w[i])
    elif op == "at-nul-clear":      # the byte AT the first NUL becomes non-NUL
        w[nul] = _other(rng, 0)
    elif op == "at-nul-set":        # a byte becomes NUL (incl. the first one): everything after it is hidden
        i = rng.choice([0, n - 1, n // 2, rng.randrange(n)])
        if w[i] == 0:
            w[i] = _other(rng, 0)
        else:
            w[i] = 0
    elif op == "case":              # case only
        idx = [i for i, c in enumerate(v) if 65 <= (c & 0xdf) <= 90]
        for i in rng.sample(idx, rng.choice([1, 1, len(idx)])):
            w[i] ^= 0x20
    elif op == "trail-nul":         # the last k bytes become NUL, same total length
        k = rng.choice([1, 1, 2, min(n, 3), rng.randint(1, n)])
        if all(c == 0 for c in w[n - k:]):
            w[n - 1] = _other(rng, 0)
        else:
            w[n - k:] = bytes(k)
    elif op == "trail-nul-off":     # trailing NULs replaced by data
        i = n
        while i > 0 and w[i - 1] == 0:
            i -= 1
        j = rng.randint(i, n - 1)
        for q in range(j, n):
            w[q] = _other(rng, 0)
    elif op == "prefix":            # long common prefix: one byte at a word / vector boundary or at the end
        cands = [i for i in (7, 8, 9, 15, 16, 17, 31, 32, 33, 63, 64, 65, n - 2, n - 1) if 0 <= i < n]
        i = rng.choice(cands)
        w[i] = _other(rng, w[i])
    else:                           # only the last byte
        w[n - 1] = _other(rng, w[n - 1])
    return bytes(w), op


NEAR_LENS = [1, 2, 3, 5, 7, 8, 9, 12, 16, 17, 31, 32, 33, 40, 64, 65, 70, 130]


def near_value(rng, n):
    """a value with an embedded NUL early or in the middle, letters, and a tail after the NUL"""
    w = bytearray(rng.choice(b"abcXYZ09 /\\\xff\x80") for _ in range(n))
    r = rng.random()
    if n >= 2 and r < 0.75:
        w[rng.choice([0, 1, 2, n // 2, n - 2, rng.randrange(n - 1)]) % (n - 1)] = 0
        if r < 0.2:
            w[rng.randrange(n)] = 0
    return bytes(w)


def gen_near(rng):
    """histories of successive equal-length values that differ only where C-string functions do
    not look, at every storage state: inline, separately allocated, just shrunk (inline or
    inside a larger separate buffer)"""
    n = rng.choice(NEAR_LENS)
    v = near_value(rng, n)
    state = rng.choice(["inline", "separate", "shrunk-inline", "shrunk-separate", "regrown"])
    steps = []
    if state == "inline":
        create = "L%s,%d" % (hexs(v), n)
    elif state == "separate":
        # creation length below n: the next set allocates
        m = rng.randint(0, n - 1)
        create = "L%s,%d" % (hexs(rbytes(rng, m)), m)
        steps.append("l%s,%d" % (hexs(v), n))
    elif state == "shrunk-inline":
        m = n + rng.choice([1, 2, 8, 30])
        create = "L%s,%d" % (hexs(rbytes(rng, m)), m)
        steps.append("l%s,%d" % (hexs(v), n))
    elif state == "shrunk-separate":
        m = rng.randint(0, max(0, n - 1))
        big = n + rng.choice([1, 2, 8, 30])
        create = "L%s,%d" % (hexs(rbytes(rng, m)), m)
        steps.append("l%s,%d" % (hexs(rbytes(rng, big)), big))
        steps.append("l%s,%d" % (hexs(v), n))
    else:                           # separate -> empty (inline again) -> separate
        m = rng.randint(0, max(0, n - 1))
        create = "L%s,%d" % (hexs(rbytes(rng, m)), m)
        steps.append("l%s,%d" % (hexs(v), n))
        steps.append("l-,0")
        steps.append("l%s,%d" % (hexs(v), n))
    for _ in range(rng.randint(1, 7)):
        nv, op = derive(rng, v)
        if nv is None:
            break
        r = rng.random()
        if r < 0.12:
            steps.append("g")
        if r > 0.9 and 0 not in nv:
            steps.append("z%s" % hexs(nv))              # strlen-based setter, NUL-free value
        elif r > 0.8:
            steps.append("l%s,%d" % (hexs(nv + rbytes(rng, 2)), n))   # longer source, same length
        else:
            steps.append("l%s,%d" % (hexs(nv), n))
        v = nv
        if rng.random() < 0.15:                         # the same value again (really unchanged)
            steps.append("l%s,%d" % (hexs(v), n))
    ns = 1 if rng.random() < 0.25 else 0
    return ("str %d %s %s" % (ns, create, ";".join(steps)), {"kind": "near-" + state})


def pick_len(rng, cur, l0):
    cands = [0, 0, 1, cur - 1, cur, cur + 1, cur + 1, l0 - 1, l0, l0 + 1, 7, 8, 9, cur // 2, cur * 2 + 1,
             rng.randint(0, 24), rng.randint(0, 24), rng.randint(0, 300)]
    return max(0, min(rng.choice(cands), 400))


# ---------------------------------------------------------------- small-scope enumeration
# Every history of <= 3 operations over a 19-symbol alphabet in which each symbol selects a
# different branch of the setter, plus every history of 4 operations (quick: over a 10-symbol
# sub-alphabet, thorough: over all 19), from each of 5 creations.  Values are prefixes of one pattern (embedded NUL at index 1, bytes >= 0x80,
# escaped characters), so equal symbols set equal values and L3q differs from L3 only after
# the NUL.  Symbols whose validity depends on the contents (own-buffer sources relative to the
# current length) are instantiated against a shadow of the contents; a history in which the
# shadow is unknown at that point (after a faulted setter) is dropped.
SS_PAT = bytes.fromhex("6100ff2f41220a5c80626364")
SS_CREATE = [("L-,0", b""), ("L6100ff,3", SS_PAT[:3]), ("L%s,8" % SS_PAT[:8].hex(), SS_PAT[:8]),
             ("L%s,9" % SS_PAT[:9].hex(), SS_PAT[:9]), ("Z6162", b"ab")]
SS_OPS = ["L0", "L2", "L3q", "L8", "L9", "L12",      # zero / shorter / same length, other tail / 8 / 9 / longer
          "F9", "F12",                                # the same with the allocation refused
          "Rneg", "Rbig",                             # refused lengths
          "Zab0cd", "Z10", "Zempty",                  # strlen-based: cut at the NUL / longer / empty
          "G",                                        # read only
          "O00", "O01", "S0",                         # own buffer: truncate to 0 / to 1 (reads the NUL of "") / strlen
          "Ogrow", "Osuf"]                            # own buffer: contents + NUL (grows) / suffix from 1 (overlaps)
SS_OPS4 = ["L0", "L3q", "L9", "L12", "F12", "Rneg", "Zab0cd", "O00", "Ogrow", "Osuf"]
SS_Z10 = b"0123456789"


def ss_inst(sym, sh):
    """(token, contents afterwards | None when unknown) or None when the symbol cannot be
    instantiated against the shadow sh (None = unknown)"""
    if sym[0] == "L":
        v = bytes.fromhex("61007e") if sym == "L3q" else SS_PAT[:int(sym[1:])]
        return "l%s,%d" % (hexs(v), len(v)), v
    if sym[0] == "F":
        k = int(sym[1:])
        return "l%s,%d!0" % (SS_PAT[:k].hex(), k), None
    if sym == "Rneg":
        return "l61,-1", sh
    if sym == "Rbig":
        return "l61,%d" % (INT_MAX - 1), sh
    if sym == "Zab0cd":
        return "z6162006364", b"ab"
    if sym == "Z10":
        return "z" + SS_Z10.hex(), SS_Z10
    if sym == "Zempty":
        return "z-", b""
    if sym == "G":
        return "g", sh
    if sym == "O00":
        return "o0,0", b""
    if sym == "O01":
        return "o0,1", None if sh is None else (sh + b"\0")[:1]
    if sym == "S0":
        return "s0", None if sh is None else sh[:own_strlen(sh, 0)]
    if sh is None:
        return None
    if sym == "Ogrow":
        return "o0,%d" % (len(sh) + 1), sh + b"\0"
    if sym == "Osuf":
        if len(sh) < 2:
            return None
        return "o1,%d" % (len(sh) - 1), sh[1:]
    raise ValueError(sym)


def gen_small_scope(tier):
    import itertools
    out = []
    plans = [(SS_OPS, d) for d in (0, 1, 2, 3)]
    plans.append((SS_OPS4 if tier == "quick" else SS_OPS, 4))
    for create, sh0 in SS_CREATE:
        for alphabet, depth in plans:
            for seq in itertools.product(alphabet, repeat=depth):
                sh, toks = sh0, []
                for sym in seq:
                    r = ss_inst(sym, sh)
                    if r is None:
                        toks = None
                        break
                    toks.append(r[0])
                    sh = r[1]
                if toks is None:
                    continue
                line = "str 0 %s" % create
                if toks:
                    line += " " + ";".join(toks)
                out.append((line, {"kind": "small-scope"}))
    # the two creation failures
    out.append(("str 0 L61,-1", {"kind": "small-scope"}))
    out.append(("str 0 L6100ff,3!0", {"kind": "small-scope"}))
    return out


# ---------------------------------------------------------------- size thresholds far from the inline limit
# Values of 4095 / 4096 / 4097 / 8192 / 65535 / 65536 / 65537 bytes and 1 MiB (generated pattern
# "@<k>x<n>", printed as hash + first/last 16 bytes), large -> small -> large: the large value is
# shrunk by 1 / 4095 / 4096 / 4097 / half / all-but-one bytes either from a slice of the node's
# own buffer (offset 0 / small k / ending at the last byte / ending at the terminator) or from an
# outside source, then set to a large value again and (sometimes) shrunk once more.
BIG_SMALL = [4095, 4096, 4097, 8192]
BIG_MID = [65535, 65536, 65537]
BIG_HUGE = 1 << 20


def big_case(rng, N, dname, alias, offkind, state):
    d = {"1": 1, "4095": 4095, "4096": 4096, "4097": 4097, "half": N // 2, "allbut1": N - 1}[dname]
    if d > N:
        return None
    newlen = N - d
    k1, k2, k3 = rng.randrange(200), rng.randrange(200), rng.randrange(200)
    steps = []
    if state == "inline":
        create = "L@%dx%d,%d" % (k1, N, N)
    else:
        m = rng.choice([0, 3, 9])
        create = "L%s,%d" % (hexs(rbytes(rng, m)), m)
        steps.append("l@%dx%d,%d" % (k1, N, N))
    if alias:
        off = {"0": 0, "k": rng.choice([1, 7]), "end": N - newlen, "nul": N + 1 - newlen}[offkind]
        off = max(0, min(off, N, N + 1 - newlen))
        steps.append("o%d,%d" % (off, newlen))
    else:
        steps.append("l@%dx%d,%d" % (k2, newlen, newlen))
    if rng.random() < 0.3:
        steps.append("g")
    N2 = N if N >= BIG_HUGE else rng.choice([N, N + 1, N - 1, rng.choice(BIG_SMALL)])
    steps.append("l@%dx%d,%d" % (k3, N2, N2))
    if N2 < BIG_HUGE and N2 >= 4096 and rng.random() < 0.5:
        steps.append("o%d,%d" % (rng.choice([0, 1, 4096]), N2 - 4096))
    return ("str %d %s %s" % (1 if rng.random() < 0.25 else 0, create, ";".join(steps)),
            {"kind": "big-%s" % ("alias" if alias else "ext")})


def gen_big(rng, tier):
    out = []
    dnames = ["1", "4095", "4096", "4097", "half", "allbut1"]
    offk = ["0", "k", "end", "nul"]

    def add(N, dname, alias, ok, state):
        c = big_case(rng, N, dname, alias, ok, state)
        if c:
            out.append(c)
    if tier == "quick":
        i = rng.randrange(4)
        for N in BIG_SMALL:
            for dname in dnames:
                i += 1
                add(N, dname, i % 5 != 0, offk[i % 4], "inline" if i % 7 == 0 else "separate")
        for j, dname in enumerate(["4096", "half", "1", "4097", "allbut1", "4095"]):
            add(BIG_MID[(i + j) % 3], dname, j != 2, offk[(i + j) % 4], "separate")
        add(BIG_HUGE, rng.choice(["4096", "4097", "half"]), True, offk[i % 4], "separate")
    else:
        for N in BIG_SMALL + BIG_MID:
            for dname in dnames:
                for ok in offk:
                    add(N, dname, True, ok, "separate")
                add(N, dname, True, rng.choice(offk), "inline")
                add(N, dname, False, "0", rng.choice(["separate", "inline"]))
        for dname in dnames:
            add(BIG_HUGE, dname, True, rng.choice(offk), "separate")
        add(BIG_HUGE, "4096", False, "0", "separate")
        add(BIG_HUGE, "half", True, "k", "inline")
    return out


def gen(rng, tier):
    n = 3000 if tier == "quick" else 60000
    out = gen_small_scope(tier)
    out += gen_big(random.Random(rng.random()), tier)     # own PRNG: the ordinary stream keeps its per-seed shape
    for ci in range(n):
        if rng.random() < 0.2:
            out.append(gen_near(rng))
            continue
        kind = "mixed"
        ns = 1 if rng.random() < 0.25 else 0
        shadow = None        # contents while known exactly (no fault since), to aim own-buffer sources
        l0 = rng.choice([0, 0, 1, 2, 6, 7, 8, 9, 10, 15, 16, 17, 31, 32, 33, rng.randint(0, 40), rng.randint(0, 300)])
        r = rng.random()
        if r < 0.04:
            create = "L%s,%d" % (hexs(rbytes(rng, rng.randint(0, 4))), rng.choice([-1, -3, -INT_MAX - 1]))
            kind = "create-refused"
        elif r < 0.10:
            create = "L%s,%d!%d" % (hexs(rbytes(rng, l0)), l0, rng.choice([0, 0, 1]))
            kind = "create-fault"
        elif r < 0.65:
            extra = rng.choice([0, 0, 0, 1, 5])          # source longer than len: only len bytes count
            b = rbytes(rng, l0 + extra)
            create = "L%s,%d" % (hexs(b), l0)
            shadow = b[:l0]
        else:
            b = rbytes(rng, l0, nonul=rng.random() < 0.8)
            create = "Z%s" % hexs(b)
            l0 = b.index(0) if 0 in b else len(b)
            shadow = b[:l0]
        cur = l0
        steps = []
        for _ in range(rng.randint(0, 12 if rng.random() < 0.8 else 24)):
            r = rng.random()
            if r < 0.06:
                steps.append("g")
            elif r < 0.16 and shadow:
                # the next value differs from the current one only where C-string functions do not look
                nv, op = derive(rng, shadow)
                steps.append("l%s,%d" % (hexs(nv), len(nv)))
                shadow = nv
                cur = len(nv)
            elif r < 0.30 and shadow is not None:
                # source = the node's own buffer + offset: in-place truncation, suffix or
                # substring (overlapping the destination or not), the contents with their NUL
                n = len(shadow)
                z = shadow + b"\0"
                if rng.random() < 0.3:                      # strlen-based
                    off = rng.choice([0, 0, 1, 2, rng.randint(0, n), n, n // 2 + 1])
                    off = min(off, n)
                    steps.append("s%d" % off)
                    shadow = shadow[off:off + own_strlen(shadow, off)]
                else:
                    r2 = rng.random()
                    if r2 < 0.45 or n == 0:                 # truncation in place / contents + NUL
                        off = 0
                        ln = rng.choice([0, 1, 2, 5, 7, 8, 9, n - 1, n, n + 1, n // 2, rng.randint(0, n)])
                    elif r2 < 0.8:                          # overlapping suffix / substring
                        off = rng.choice([1, 1, 2, 3, rng.randint(1, n)])
                        off = min(off, n)
                        ln = rng.choice([n - off, n - off, n + 1 - off, max(0, n - off - 1), rng.randint(0, n - off)])
                    else:                                   # anywhere
                        off = rng.randint(0, n)
                        ln = rng.randint(0, n + 1 - off)
                    ln = max(0, min(ln, n + 1 - off))
                    f = fault(rng, 0.05, 0.0) if off + ln > n else ""
                    steps.append("o%d,%d%s" % (off, ln, f))
                    if f:
                        kind = "fault"
                        shadow = None
                    else:
                        shadow = z[off:off + ln]
                if shadow is None:
                    continue
                cur = len(shadow)
                if kind == "mixed":
                    kind = "own-source"
            elif r < 0.66:
                ln = pick_len(rng, cur, l0)
                extra = rng.choice([0, 0, 0, 0, 1, 3])
                f = fault(rng)
                b = rbytes(rng, ln + extra)
                steps.append("l%s,%d%s" % (hexs(b), ln, f))
                if f:
                    kind = "fault"
                    shadow = None
                else:
                    cur = ln
                    shadow = b[:ln]
            elif r < 0.90:
                ln = pick_len(rng, cur, l0)
                b = rbytes(rng, ln, nonul=rng.random() < 0.75)
                f = fault(rng)
                steps.append("z%s%s" % (hexs(b), f))
                if f:
                    kind = "fault"
                    shadow = None
                else:
                    cur = b.index(0) if 0 in b else len(b)
                    shadow = b[:cur]
            else:
                steps.append("l%s,%d%s" % (hexs(rbytes(rng, rng.randint(0, 3))), rng.choice(REFUSED), fault(rng, 0.1, 0.0)))
                if kind == "mixed":
                    kind = "refused"
        line = "str %d %s" % (ns, create)
        if steps:
            line += " " + ";".join(steps)
        out.append((line, {"kind": kind}))
    return out


# ---------------------------------------------------------------- the property, in Python
def _esc_table(noslash):
    two = {8: b"\\b", 10: b"\\n", 13: b"\\r", 9: b"\\t", 12: b"\\f", 0x22: b'\\"', 0x5c: b"\\\\"}
    t = []
    for c in range(256):
        if c in two:
            t.append(two[c])
        elif c == 0x2f:
            t.append(b"/" if noslash else b"\\/")
        elif c < 0x20:
            t.append(b"\\u00" + b"0123456789abcdef"[c >> 4:(c >> 4) + 1] + b"0123456789abcdef"[c & 15:(c & 15) + 1])
        else:
            t.append(bytes([c]))
    return t


_ESC = {False: _esc_table(False), True: _esc_table(True)}


def json_escape(b, noslash):
    """json_escape_str of json_object.c, transcribed: which bytes are appended for each input byte"""
    t = _ESC[bool(noslash)]
    return b"".join([t[c] for c in b])


def parse_arg(a):
    flt = None
    if "!" in a:
        a, k = a.split("!")
        flt = int(k)
    ln = None
    if "," in a:
        a, l = a.split(",")
        ln = int(l)
    return unhex(a), ln, flt


def requested(tok, cur=b""):
    """(bytes the call asks to store | None when the length must be refused, fault index);
    cur = the contents at the call (what an own-buffer source points into)"""
    if tok[0] in "osOS":
        body, flt = tok[1:], None
        if "!" in body:
            body, k = body.split("!")
            flt = int(k)
        if tok[0] in "oO":
            off, ln = [int(x) for x in body.split(",")]
        else:
            off = int(body)
            ln = own_strlen(cur, off)
        # the generator keeps the source inside the contents and their terminator
        if not (0 <= off <= len(cur) and 0 <= ln and off + ln <= len(cur) + 1):
            raise ValueError("own-buffer source outside the generated domain: " + tok)
        return (cur + b"\0")[off:off + ln], flt
    b, ln, flt = parse_arg(tok[1:])
    if tok[0] in "lL":
        if ln < 0 or ln >= INT_MAX - 1 or ln > len(b):
            return None, flt
        return b[:ln], flt
    z = b + b"\0"
    return z[:z.index(0)], flt


def parse_step(s):
    t = s.split(" ")
    if len(t) != 9 or not t[6].startswith("E") or not t[7].startswith("C") or not t[8].startswith("J"):
        return None
    try:
        return dict(ret=t[0], len=int(t[1]), data=t[2], nul=t[3], sto=t[4], dlive=int(t[5]),
                    eq=t[6][1:], copy=t[7][1:], ser=t[8][1:])
    except ValueError:
        return None


def check_view(st, want, ns, where):
    """every observable of one step against the byte string the node must hold"""
    if st["len"] != len(want):
        return ("length", "reported length %d, %d bytes were set (%s)" % (st["len"], len(want), where))
    wtok = show(want)
    if st["data"] != wtok:
        return ("contents", "bytes read differ from the last bytes set (%s): got %s want %s" % (where, st["data"][:80], wtok[:80]))
    if st["nul"] != "1":
        return ("nul", "no terminating NUL after the contents (%s)" % where)
    e = st["eq"]
    wante = "1" + ("0" if want else "-") + ("0" if 0 in want else "-") + "0"
    if e != wante:
        return ("equal", "json_object_equal does not use exactly the length-counted bytes (%s): got E%s want E%s" % (where, e, wante))
    if st["copy"] != wtok:
        return ("copy", "deep copy holds %s, original %s (%s)" % (st["copy"][:80], wtok[:80], where))
    wj = show(b'"' + json_escape(want, ns) + b'"')
    if st["ser"] != wj:
        return ("serialise", "serialisation does not use all bytes (%s): got %s want %s" % (where, st["ser"][:100], wj[:100]))
    return None


def oracle(line, meta, impl):
    if "CRASH asan:memcpy-param-overlap" in impl:
        # the class of the repaired defect (known_findings.json: fixed) — a regression shows up under the same id
        return ("alias-overlap", "memcpy with partially overlapping ranges: the setter's source lies inside the node's own "
                "buffer, closer to its start than the length copied: " + impl[-60:])
    if "CRASH" in impl:
        return ("crash", "implementation crashed: " + impl[-120:])
    if impl == "MISSING":       # the driver died on an earlier line too often to be restarted
        return ("crash", "no output for this case (driver crashed repeatedly before it)")
    if impl in ("BADABI", "BADLINE") or "BADOP" in impl:
        return ("malformed", "unexpected driver output: " + impl[:100])
    f = line.split(" ")
    ns = f[1] == "1"
    create = f[2]
    steps = f[3].split(";") if len(f) > 3 else []
    obs = impl.split(" | ")
    if not obs[-1].startswith("END "):
        return ("malformed", "no END record: " + impl[-100:])
    end = obs.pop()
    want, flt = requested(create)
    if obs[0] == "NULL":
        if want is not None and flt is None:
            return ("create-failed", "creation of a %d-byte string failed without an allocation fault" % len(want))
        if end != "END 0":
            return ("leak", "failed creation leaked: " + end)
        return None
    if want is None:
        return ("create-accepted", "creation with a negative length succeeded")
    if len(obs) != 1 + len(steps):
        return ("malformed", "step count: " + impl[:100])
    st = parse_step(obs[0])
    if st is None:
        return ("malformed", "creation record: " + obs[0][:100])
    v = check_view(st, want, ns, "after creation")
    if v:
        return v
    if st["dlive"] != 1:
        return ("alloc-count", "creation left %d live blocks, expected the object only" % st["dlive"])
    sep = st["sto"] == "S"
    if sep:
        return ("storage", "fresh string not stored inline")
    for i, (tok, o) in enumerate(zip(steps, obs[1:]), start=1):
        st = parse_step(o)
        where = "step %d %s" % (i, tok[:40])
        if st is None:
            return ("malformed", "%s: %s" % (where, o[:100]))
        nsep = st["sto"] == "S"
        if tok == "g":
            if st["ret"] != "g" or nsep != sep or st["dlive"] != 0:
                return ("get-changed", "a read changed the storage (%s)" % where)
        else:
            try:
                req, flt = requested(tok, want)
            except ValueError as e:
                return ("malformed", str(e))
            if st["ret"] not in ("0", "1"):
                return ("ret", "setter returned %s (%s)" % (st["ret"], where))
            if st["ret"] == "1":
                if req is None:
                    return ("refused-accepted", "a length that cannot be stored was accepted (%s)" % where)
                want = req
            else:
                if req is not None and flt is None:
                    return ("spurious-failure", "setter failed without allocation fault or refused length (%s)" % where)
                if nsep != sep or st["dlive"] != 0:
                    return ("failed-set-changed", "failed setter changed the storage (%s)" % where)
                v = check_view(st, want, ns, "after FAILED " + where)
                if v:
                    return ("failed-set-changed", "failed setter changed the node: " + v[1])
            # live separately allocated buffers = {the current one iff separate}
            if st["dlive"] != int(nsep) - int(sep):
                return ("live-buffers", "live blocks changed by %+d while storage went %s -> %s (%s)"
                        % (st["dlive"], "S" if sep else "I", "S" if nsep else "I", where))
        v = check_view(st, want, ns, where)
        if v:
            return v
        sep = nsep
    if end != "END 0":
        return ("leak", "blocks live after json_object_put: " + end)
    return None


def classify(line, meta, mo, co):
    return None


def nontrivial(line, meta, impl):
    obs = impl.split(" | ")
    stos = set()
    failed = False
    for o in obs:
        t = o.split(" ")
        if len(t) == 9:
            stos.add(t[4])
            failed = failed or t[0] == "0"
    if len(stos) > 1 or failed:
        return line
    return None


def shrink(ck, line, cls):
    f = line.split(" ")
    if len(f) < 4:
        return line
    head = " ".join(f[:3])
    steps = f[3].split(";")

    def fails(sub):
        l = head + " " + ";".join(sub)
        m, c, _ = ck.run_pair([l], "shrink")
        v = oracle(l, {}, c.get(1, "MISSING"))
        return v is not None and v[0] == cls
    small = fw.ddmin(steps, fails, budget=60)
    return head + " " + ";".join(small)


def search(rng, broken_lines):
    return gen(rng, "quick")[:800]


LEVEL_TEXT = ("Machine-checked invariant and refinement: for every allocator behaviour and every history of set_string / "
              "set_string_len calls on a node created by new_string(_len), the model of the string node (len sign convention, "
              "inline area with ghost capacity, union with the buffer pointer, heap of blocks with tombstones, malloc/free log) "
              "never reaches undefined behaviour, holds exactly the bytes of the last successful set with their count and a NUL "
              "inside the buffer, accepts any range of the node's own buffer and terminator as source (in-place truncation, "
              "overlapping suffix, growth from the own bytes: every copy reads the bytes as they were before the call and "
              "precedes any release), leaves a failed set (allocation failure or refused length) without any change of contents, "
              "length, storage or log, keeps the set of live blocks equal to {object} + {current separate buffer iff len < 0}, "
              "performs every write inside a live block of sufficient size, frees everything at delete; equality, copy and "
              "serialisation of the model read exactly the length-counted bytes and the escaping is injective (Coq, induction "
              "over histories, no axioms).  The model is tied to json_object.c on every run by differential execution of the "
              "extracted model and the ASan/UBSan build on generated histories aimed at the proof's case-split boundaries, plus "
              "a model-independent Python oracle of the property text.")
LEVEL_NOTE = ("Trusted: Coq kernel; extraction + OCaml glue; harness; LP64 layout constants.  The theorems are about the Gallina "
              "model; the C code is tied to it only by the checked correspondence (sampled histories, not all).  Guards: stored "
              "length <= INT_MAX for the int-typed accessor (strings of >= 2^31 bytes made by json_object_new_string are outside); "
              "a source inside the node's own buffer must lie inside the contents and their terminator (overlap with the "
              "destination is allowed since the fix 'json_object_set_string(_len): the new contents may overlap the current ones').")
