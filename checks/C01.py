"""C01 — parsing a valid JSON text yields exactly the value it denotes.
Texts are rendered from generated syntax trees (lib/jsongen.py); the expected value is
computed there from the syntax tree, independently of the Coq model and of json-c."""
from tokcommon import *
PROP = "C01"
DOMAIN = "tok"
LEVEL = "proof"
TECHNIQUE = "Coq model of the tokener state machine (TokModel.v) with theorems on number/escape decoding + extracted-model/C differential correspondence + independent RFC 8259 denotation oracle"
RULE = ("RFC 8259 texts rendered from seeded syntax trees (all escape forms, surrogate combinations, number shapes around 2^63/2^64, "
        "whitespace layouts, duplicate members), each parsed NUL-terminated in default and strict mode; non-trivial = accepted with a "
        "container or escape or non-integer inside; distinct by text; a sixth of the texts also under a comma-decimal caller locale "
        "(process-wide and per-thread) through parse_ex, parse_verbose and parse")
ASSUMPTIONS = ["strtod is correctly rounded (checked against Python's float() on every run)",
               "the extracted model uses OCaml float_of_string as the strtod oracle"]
LEVEL_TEXT = ("Theorem parse_valid (Coq, no axioms, nested induction over syntax trees, no bound on size or depth): for EVERY RFC 8259 syntax tree "
              "(every whitespace layout, escape form incl. any hex case, surrogate pairing / unpaired replacement, number shape, duplicate members, nesting "
              "below the limit D, integers within the 64-bit ranges, member names without U+0000) in default AND strict mode the tokener model returns exactly "
              "the denoted value with status success and the end offset at the end of the text; parse_depth: nesting >= D gives the depth error.  Integer tokens "
              "of any length convert exactly or saturate/reject beyond 64 bits, also at document level (parse_valid_sat: every valid document is accepted in default mode with out-of-range integers saturated; parse_strict_rejects_big: strict mode rejects a document containing one anywhere); validate_utf8_neutral / parse_valid_utf8: with JSON_TOKENER_VALIDATE_UTF8 every document that is valid UTF-8 is parsed to the same value (validation is neutral on valid UTF-8, for any grammar); from_fd_valid: the parse step of json_object_from_fd_ex / from_fd / from_file (two calls, the second on the terminating NUL) returns the denoted value of every valid text with or without trailing blanks; the refutation for names containing U+0000 carries its witness (known finding).  "
              "The model is tied to json_tokener.c on every run by differential execution on generated texts, and an independent denotation oracle checks the C output.")
LEVEL_NOTE = ("Trusted: Coq kernel; strtod is an oracle (the theorem is stated for every oracle; the run compares libc with Python's correctly rounded float()); "
              "the theorems are about the Gallina model, tied to the C code by sampled differential execution; extraction + OCaml glue; harness.")


def gen(rng, tier):
    n = 2500 if tier == "quick" else 60000
    out = []
    # deterministic witnesses first
    fixed = [b'{"a\\u0000b":1,"a\\u0000c":2}', b'"\\ud800\\udc00\\ud800x\\udc00"', b'[18446744073709551615,9223372036854775808,-9223372036854775808]',
             b'[1e400,-1e400,4.9e-324,2.2250738585072011e-308,0.1e1,1E+2]', b' \n\t\r[ ]\n', b'{"a":1,"b":2,"a":3}',
             b'99999999999999999999999', b'-99999999999999999999999']
    for t in fixed:
        for fl in (0, STRICT):
            out.append((line(32, fl, ["Z" + hx(t)]), {"kind": "fixed", "text": t}))
    # small scope, exhaustively: every document built from a table of scalars in a few container shapes and whitespace
    # layouts (expected value through Python's own RFC 8259 reader, see simple_expect; both modes)
    scal = [b'0', b'-0', b'7', b'-12', b'18446744073709551615', b'9223372036854775808', b'-9223372036854775808', b'true', b'false', b'null',
            b'""', b'"a"', b'"\\n"', b'"\\u00e9"', b'"\\/"', b'"a b"', b'"\\ud83d\\ude00"', b'[]', b'{}']
    docs_small = list(scal)
    for a in scal:
        docs_small += [b'[' + a + b']', b'{"k":' + a + b'}', b' [ ' + a + b' ]\n', b'{ "k" : ' + a + b' }']
        for b2 in scal:
            docs_small += [b'[' + a + b',' + b2 + b']', b'{"k":' + a + b',"j":' + b2 + b'}', b'{"k":' + a + b',"k":' + b2 + b'}',
                           b'[[' + a + b'],{"k":' + b2 + b'}]', b'{"k":[' + a + b', ' + b2 + b']}']
    for t in docs_small:
        for fl in (0, STRICT):
            out.append((line(32, fl, ["Z" + hx(t)]), {"kind": "small-scope", "text": t}))
    for i in range(n):
        big = rng.random() < 0.08
        nul = rng.random() < 0.03
        s, t = jsongen.gen_doc(rng, depth=rng.choice([0, 1, 2, 3, 4, 6]), width=rng.choice([2, 4, 8]), big=big, nul_names=nul)
        kind = "big" if jsongen.has_big(s) else ("nulname" if jsongen.names_have_nul(s) else "valid")
        for fl in (0, STRICT):
            meta = {"kind": kind + ("-strict" if fl else "-default"), "stx": s, "text": t, "flags": fl}
            out.append((line(32, fl, ["Z" + hx(t)]), meta))
        # the one-call entry points json_tokener_parse_verbose / json_tokener_parse (default parser)
        if i % 8 == 0 and jsongen.nest(s) < 32:
            meta = {"kind": kind + "-verbose", "stx": s, "text": t, "flags": 0, "entry": "V"}
            out.append((line(32, 0, ["V" + hx(t), "W" + hx(t)]), meta))
        # the file-descriptor entry point on a descriptor that delivers the text in slices (socket/pipe-like
        # short reads before the end of the data) and on a regular file: the value is that of the whole text
        if i % 7 == 2 and jsongen.nest(s) < 32 and 0 < len(t) <= 3500:
            cuts = jsongen.partitions(rng, len(t), rng.choice([2, 2, 3, 5])) if len(t) >= 2 else []
            meta = {"kind": kind + "-fd-sliced", "stx": s, "text": t, "flags": 0, "entry": "E"}
            out.append((line(32, 0, ["E-1," + hx(t) + "".join(",%d" % c for c in cuts), "D-1," + hx(t)]), meta))
        # the same under a caller's comma-decimal locale, process-wide (setlocale) or for the calling thread only
        # (uselocale): the value a valid text denotes does not depend on it (all four entry points)
        if i % 6 == 1 and jsongen.nest(s) < 32:
            m = rng.choice("GT")
            meta = {"kind": kind + "-locale" + m, "stx": s, "text": t, "flags": 0, "entry": "L"}
            out.append((line(32, 0, ["L" + m, "Z" + hx(t), "V" + hx(t), "W" + hx(t), "LC"]), meta))
    return out


def expect(meta):
    """expected observation for a generated case, or a predicate"""
    s, t, fl = meta["stx"], meta["text"], meta["flags"]
    try:
        v = jsongen.value(s, "strict" if fl & STRICT else "default")
    except jsongen.Unsupported:
        return ("reject", None)
    return ("accept", "success %d %s" % (len(t), jvtext.dump(v)))


def simple_expect(line_):
    import json
    f = line_.split(" ")
    if len(f) != 4 or ";" in f[3] or f[3][:1] != "Z":
        return None
    try:
        t = bytes.fromhex(f[3][1:]).decode("ascii")

        def conv(v):
            if v is None or isinstance(v, bool):
                return v
            if isinstance(v, int):
                if not (jvtext.INT64_MIN <= v <= jvtext.UINT64_MAX):
                    raise ValueError
                return ("i", v) if v <= jvtext.INT64_MAX else ("u", v)
            if isinstance(v, str):
                return v.encode("utf-8")
            if isinstance(v, list):
                return [conv(x) for x in v]
            if isinstance(v, Pairs):
                d = {}
                for k, x in v.items:
                    d[k] = x          # first-occurrence order, last value
                return ("o", [(k.encode("utf-8"), conv(x)) for k, x in d.items()])
            raise ValueError

        class Pairs:
            def __init__(self, items):
                self.items = items
        v = json.loads(t, object_pairs_hook=Pairs, parse_float=lambda x: (_ for _ in ()).throw(ValueError()), parse_constant=lambda x: (_ for _ in ()).throw(ValueError()))
        return "success %d %s" % (len(t), jvtext.dump(conv(v)))
    except Exception:
        return None


def oracle(line_, meta, impl):
    if "CRASH" in impl:
        return ("crash", "implementation crashed: " + impl[:100])
    if "LEAK" in impl:
        return ("leak", impl[-30:])
    if "stx" not in meta:
        # a hand-written text (fixed list, recorded witness of a known finding): the denotation of an
        # integer/string/container-only document through Python's own RFC 8259 reader
        want = simple_expect(line_)
        if want is not None and impl != want:
            cls = "name_nul_truncated" if "5c7530303030" in line_ else "wrong-value"
            return (cls, "text %s: got %s want %s" % (line_[:80], impl[:80], want[:80]))
        return None
    kind, want = expect(meta)
    if meta.get("entry") == "V" and kind == "accept":
        # "success <len> <dump>" -> "success <dump> | parse <dump or - for null>"
        dump = want.split(" ", 2)[2]
        want = "success %s | parse %s" % (dump, "-" if dump == "n" else dump)
    if meta.get("entry") == "E":
        if kind != "accept":
            return None
        dump = want.split(" ", 2)[2]
        want = "fd %s | fd %s" % (("-" if dump == "n" else dump,) * 2)
    if meta.get("entry") == "L" and kind == "accept":
        dump = want.split(" ", 2)[2]
        want = "locale | %s | success %s | parse %s | locale" % (want, dump, "-" if dump == "n" else dump)
    if kind == "reject":
        if impl.startswith("success"):
            return ("bigint-strict-accepted", "integer beyond 64 bits accepted in strict mode: " + impl[:80])
        return None
    if impl != want:
        if jsongen.names_have_nul(meta["stx"]):
            return ("name_nul_truncated", "member name containing U+0000 truncated/merged: got %s want %s" % (impl[:80], want[:80]))
        return ("wrong-value", "text %r: got %s want %s" % (meta["text"][:60], impl[:100], want[:100]))
    return None


def classify(line_, meta, mo, co):
    return None


def nontrivial(line_, meta, impl):
    if impl.startswith("success") and any(ch in impl for ch in "[{:") :
        return line_
    return None


def shrink(ck, line_, cls):
    return line_


def search(rng, broken):
    return gen(rng, "quick")[:2000]
