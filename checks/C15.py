"""C15 — the nesting limit is exact for every configured depth D."""
from tokcommon import *
PROP = "C15"
DOMAIN = "tok"
LEVEL = "proof"
TECHNIQUE = "Coq invariant depth < max_depth over all inputs (stack discipline of the tokener model) + differential correspondence + exact accept/reject oracle per D"
RULE = ("D = 1..40 (and D < 1 refused) x generated documents whose maximum nesting lies below, at and above D (nested arrays/objects mixed, "
        "empty containers at the boundary, depth through member values and elements, hostile very deep openers), one-shot and chunked; "
        "non-trivial = nesting within 2 of the limit; distinct by (D, text, chunking)")
ASSUMPTIONS = ["nesting of a document = maximum number of containers enclosing a value (an empty container encloses nothing)"]
LEVEL_TEXT = ("Theorem (all inputs, all chunkings, all D >= 1): the level stack of the tokener model never holds more than D records, a push happens "
              "only below the limit, and the machine is iterative (no recursion), proved by induction over the bytes through the stack-discipline "
              "lemma of every dispatch; D < 1 is refused.  The exact accept/reject boundary and the error position are checked on the real library "
              "for every generated document by an oracle that computes nesting independently.")
LEVEL_NOTE = "Partial: accepted-iff-nesting<=D-1 for all documents is a corollary of parse_valid, which is proved only for a sub-grammar; tie to the C code by sampled differential execution."


def nested(rng, n, leaf=b"1"):
    """a document with exactly n containers around its innermost value, mixed kinds; returns (text, offset_of_value_at_level[k])"""
    pre, post = b"", b""
    for k in range(n):
        w = rng.choice([b"", b" ", b"\n"])
        if rng.random() < 0.5:
            # array, possibly with earlier siblings
            sib = rng.choice([b"", b"0,", b"[],", b"{},", b"null, "])
            pre += b"[" + w + sib
            post = w + rng.choice([b"", b",2", b",[]"]) + b"]" + post
        else:
            sib = rng.choice([b"", b'"p":0,', b'"q":{},'])
            pre += b"{" + w + sib + b'"k"' + w + b":" + w
            post = w + rng.choice([b"", b',"z":1']) + b"}" + post
    return pre + leaf + post


def first_too_deep(t, D):
    """offset of the first value enclosed by more than D-1 containers, or None.  Values: scan the
    (valid) text tracking container depth; a value starts at a non-ws, non-punctuation byte or an
    opening bracket, outside member names."""
    depth = 0
    i, n = 0, len(t)
    expect_key = []
    while i < n:
        c = t[i:i + 1]
        if c in b" \t\r\n,:":
            i += 1
            continue
        if c in b"]}":
            depth -= 1
            expect_key.pop()
            i += 1
            continue
        # a key?
        if expect_key and expect_key[-1] == "obj" and c == b'"':
            # decide key vs value by looking back for ':' since the last , or {
            j = i - 1
            while j >= 0 and t[j:j + 1] in b" \t\r\n":
                j -= 1
            if t[j:j + 1] != b":":
                # key: skip the string
                j = i + 1
                while t[j:j + 1] != b'"':
                    j += 2 if t[j:j + 1] == b"\\" else 1
                i = j + 1
                continue
        # a value starts here, enclosed by `depth` containers
        if depth > D - 1:
            return i
        if c == b"[":
            depth += 1
            expect_key.append("arr")
            i += 1
        elif c == b"{":
            depth += 1
            expect_key.append("obj")
            i += 1
        elif c == b'"':
            j = i + 1
            while t[j:j + 1] != b'"':
                j += 2 if t[j:j + 1] == b"\\" else 1
            i = j + 1
        else:
            while i < n and t[i:i + 1] not in b" \t\r\n,:]}":
                i += 1
    return None


def huge_ok():
    """can this machine reserve the address space of a 93-million-level stack (3 GiB + ASan shadow)?"""
    return mem_ok(3 << 30)


def gen(rng, tier):
    reps = 6 if tier == "quick" else 120
    out = []
    for D in (0, -1, -5):
        out.append((line(D, 0, ["Z" + hx(b"1")]), {"kind": "refused", "D": D, "text": b"1", "chunks": None}))
    for D in range(1, 41):
        for _ in range(reps):
            r = rng.random()
            if r < 0.6:
                n = max(0, D - 1 + rng.choice([-2, -1, 0, 0, 1, 1, 2, 5]))
            elif r < 0.8:
                n = rng.randint(0, 45)
            else:
                n = D + rng.choice([10, 50, 200])     # hostile: far above
            leaf = rng.choice([b"1", b"[]", b"{}", b'"s"', b"null", b"[ ]", b"{ }", b"-2.5e3", b"[[]]"])
            t = nested(rng, n, leaf)
            fl = rng.choice([0, 0, STRICT])
            meta = {"kind": "D%d" % D if False else ("below" if first_too_deep(t, D) is None else "above"), "D": D, "text": t, "chunks": None, "flags": fl}
            out.append((line(D, fl, ["Z" + hx(t)]), meta))
            # chunked
            if len(t) >= 2:
                cuts = jsongen.partitions(rng, len(t), rng.choice([2, 3, 5]))
                parts, prev = [], 0
                for c in cuts + [len(t)]:
                    parts.append(t[prev:c]); prev = c
                ops = ["P" + hx(p) for p in parts] + ["P" + hx(b" ")]
                m2 = dict(meta); m2["chunks"] = [len(p) for p in parts]; m2["kind"] = meta["kind"] + "-chunked"
                out.append((line(D, fl, ops), m2))
    # large configured limits: the limit must be exact for EVERY D, not only small ones
    for D, ns in ((4097, (4096, 4097)), (4500, (4499,))) if tier == "quick" else ((4096, (4095, 4096)), (4097, (4096, 4097)), (5000, (4999, 5000)), (20000, (19999, 20000))):
        for n in ns:
            t = nested(rng, n, b"1")
            meta = {"kind": "bigD-" + ("below" if first_too_deep(t, D) is None else "above"), "D": D, "text": t, "chunks": None, "flags": 0}
            out.append((line(D, 0, ["Z" + hx(t)]), meta))
    # limits near the type limits of the level-stack allocation (D * sizeof(level) at and beyond 2^31): the
    # stack must really have D levels and such a D must not be refused.  The stack is 32 bytes per level,
    # allocated zeroed (untouched pages cost nothing); the harness caps one allocation at 3000 MB
    # (ASAN_OPTIONS in lib/fw.py), so D stays below 93 750 000, and the cases are only generated where
    # 3 GiB of address space can be reserved.
    if huge_ok():
        for D in ((1 << 26) + 3, 90000000) if tier == "quick" else ((1 << 26) + 3, (1 << 26), (1 << 26) - 1, 80000001, 90000000, 93000000):
            for n in (3, 6) if tier == "quick" else (1, 2, 3, 4, 6, 9, 40):
                t = nested(rng, n, rng.choice([b"1", b"[]", b"{}"]))
                meta = {"kind": "hugeD-below", "D": D, "text": t, "chunks": None, "flags": 0}
                out.append((line(D, 0, ["Z" + hx(t)]), meta))
    # the limit configured through the file-descriptor API: -1 = default (32), anything else < 1 is refused
    for dreq in (-1, 0, -2, -7, 1, 2, 3, 5, 33, 40):
        deff = 32 if dreq == -1 else dreq
        for n in sorted(set([0, 1, max(0, deff - 2), max(0, deff - 1), max(0, deff), deff + 1, 31, 32])):
            t = nested(rng, n, rng.choice([b"[]", b"{}", b"[1]"])) if n > 0 else rng.choice([b"[]", b"{}", b"[1, 2]"])
            meta = {"kind": "fd-depth", "D": 32, "text": t, "chunks": None, "flags": 0, "fd": dreq}
            out.append((line(32, 0, ["D%d,%s" % (dreq, hx(t))]), meta))
    # small scope, exhaustively: every sequence of up to 5 (thorough: 6) tokens over [ ] { } "k": 1 , for D = 1, 2, 3 (model vs
    # implementation; the accept/reject oracle applies to the well-formed ones)
    import itertools
    toks_ = [b"[", b"]", b"{", b"}", b'"k":', b"1", b","]
    for ln in range(1, 6 if tier == "quick" else 7):
        for seq in itertools.product(toks_, repeat=ln):
            t = b"".join(seq)
            for D in (1, 2, 3):
                out.append((line(D, 0, ["Z" + hx(t)]), {"kind": "small-scope", "D": D, "text": t, "chunks": None, "flags": 0, "small": True}))
    # the default limit (32) of the one-call entry points json_tokener_parse_verbose / json_tokener_parse and of
    # json_tokener_new(): exact as well
    for n in (0, 1, 30, 31, 32, 33, 34, 40):
        for leaf in (b"1", b"[]", b"{}"):
            t = nested(rng, n, leaf)
            meta = {"kind": "default-entry", "D": 32, "text": t, "chunks": None, "flags": 0, "entry": "V"}
            out.append((line(32, 0, ["V" + hx(t), "W" + hx(t)]), meta))
    # hostile: one number token longer than a thread's stack (the parser's memory use for a token is heap, bounded by
    # the token; nothing on the call stack may grow with it).  Not modelled (see drv_tok.ml): judged by the outcome.
    for ln in ((9 << 20),) if tier == "quick" else ((9 << 20), (17 << 20)):
        t = b"[1." + b"7" * ln + b"e-3]"
        out.append((line(32, 0, ["P" + hx(t), "P" + hx(b" ")]), {"kind": "hostile-long-number", "D": 32, "text": b"[1.7e-3]", "chunks": [len(t), 1], "flags": 0}))
    # hostile: only openers, very long
    for D in (1, 2, 32):
        for opener in (b"[", b'{"a":'):
            t = opener * 3000
            out.append((line(D, 0, ["P" + hx(t)]), {"kind": "hostile", "D": D, "text": t, "chunks": [len(t)], "flags": 0, "hostile": True}))
    return out


def oracle(line_, meta, impl):
    if "CRASH" in impl:
        return ("crash", "implementation crashed: " + impl[:100])
    if "LEAK" in impl:
        return ("leak", impl[-30:])
    D, t = meta["D"], meta["text"]
    if meta.get("small"):
        # judged by the exact oracle only when the text is a valid document
        try:
            import json
            json.loads(t.decode("ascii"))
        except Exception:
            return None
    if "fd" in meta:
        dreq = meta["fd"]
        deff = 32 if dreq == -1 else dreq
        got = impl.split(" ", 1)[1] if impl.startswith("fd ") else impl
        if deff < 1:
            return None if got == "-" else ("fd-depth-lt1-accepted", "json_object_from_fd_ex(depth=%d) returned a value" % dreq)
        deep = first_too_deep(t, deff) is not None
        if deep and got != "-":
            return ("fd-accepts-beyond-limit", "from_fd_ex(depth=%d) accepted a document nested beyond the limit: %r" % (dreq, t[:60]))
        if not deep and got == "-":
            return ("fd-rejects-within-limit", "from_fd_ex(depth=%d) rejected a document within the limit: %r" % (dreq, t[:60]))
        return None
    if meta.get("entry") == "V":
        parts = impl.split(" | ")
        if len(parts) != 2 or not parts[1].startswith("parse "):
            return ("malformed", impl[:100])
        deep = first_too_deep(t, 32) is not None
        verr = parts[0].split(" ")[0]
        wval = parts[1].split(" ", 1)[1]
        if deep and (verr != "depth" or wval != "-"):
            return ("default-entry-accepts-beyond-limit", "json_tokener_parse(_verbose) did not reject a document nested beyond the default limit 32 with the depth error: %s / %s" % (parts[0][:40], parts[1][:40]))
        if not deep and (verr != "success" or wval == "-"):
            return ("default-entry-rejects-within-limit", "json_tokener_parse(_verbose) rejected a document within the default limit: %s / %s" % (parts[0][:40], parts[1][:40]))
        return None
    if D < 1:
        return None if impl == "NEWFAIL" else ("new-accepts-lt1", "tokener created with depth %d" % D)
    if impl == "NEWFAIL":
        return ("new-refuses", "tokener refused depth %d" % D)
    steps = parse_obs(impl)
    pos = first_too_deep(t, D) if not meta.get("hostile") else (D if t[:1] == b"[" else None)
    if meta.get("hostile"):
        st = steps[0]
        if st[0] != "depth":
            return ("hostile-not-depth", "deep hostile input not rejected with the depth error: %s" % (st,))
        return None
    # final outcome: for chunked runs the absolute position
    if meta["chunks"] is None:
        st = steps[0]
        err, off = st[0], st[1]
    else:
        base, err, off = 0, None, None
        for st, ln in zip(steps, meta["chunks"] + [1]):
            if st[0] != "continue":
                err, off = st[0], base + st[1]
                break
            base += ln
        if err is None:
            err, off = "continue", base
    if pos is None:
        if err != "success":
            return ("rejects-within-limit", "D=%d: document with nesting within the limit rejected: %s at %s, text %r" % (D, err, off, t[:80]))
    else:
        if err != "depth":
            return ("accepts-beyond-limit", "D=%d: document exceeding the limit not rejected with the depth error (%s), text %r" % (D, err, t[:80]))
        if off != pos:
            return ("depth-error-position", "D=%d: depth error reported at %d, first too-deep value at %d, text %r" % (D, off, pos, t[:80]))
    return None


def classify(line_, meta, mo, co):
    return None


def nontrivial(line_, meta, impl):
    return (meta["D"], meta["text"], str(meta.get("chunks")))


def shrink(ck, line_, cls):
    return line_


def search(rng, broken):
    return gen(rng, "quick")
