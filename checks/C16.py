"""C16 — strict mode rejects every documented extension anywhere; default mode accepts it.
Metamorphic: a valid document from the C01 generator, one extension injected at an
admissible position; strict must fail, default must succeed with the original value for
the value-neutral forms."""
from tokcommon import *
PROP = "C16"
DOMAIN = "tok"
LEVEL = "proof"
TECHNIQUE = "Coq theorems on the tokener model (strict rejections per extension site) + differential correspondence + metamorphic injection oracle"
RULE = ("valid documents x 8 extension kinds x positions (every token boundary / string / number / literal / container end is a candidate; "
        "a seeded sample of them per document), each parsed in strict, default and strict+allow-trailing mode; non-trivial = the injected "
        "text differs from the original and default mode accepts; distinct by (text, flags)")
ASSUMPTIONS = ["'value-neutral' forms: comment, single quotes, trailing comma, literal case, trailing bytes; for control characters, leading zeros and "
               "dangling exponents only acceptance (and numeric equality where it applies) is required"]
LEVEL_TEXT = ("Theorems (Coq, no axioms, all documents): default_accepts_ext — every extended syntax tree (comments at every whitespace position, "
              "single-quoted strings and names, trailing commas, any literal case, raw control bytes, leading zeros, dangling exponents, trailing bytes) is "
              "accepted in default mode with the value of the erased document for the value-neutral forms; strict_rejects_* — for every position of a valid "
              "document (given by its valid left context, any nesting) and every suffix, each extension kind put there makes strict-mode parsing end with an "
              "error; strict_allow_trailing / trailing_accepted_len — with the allow-trailing flag strict mode accepts every valid document followed by "
              "trailing bytes and reports the end of the document.  The metamorphic oracle checks every generated injection, one-shot and chunked, under every flag combination, also after set_flags/parse/reset histories on the same parser, on the real library.")
LEVEL_NOTE = ("Partial: the syntactic bridge from 'a document with exactly one extension node' to 'valid left context ++ extension ++ suffix' is not a theorem; "
              "trailing bytes that a number token could absorb (e.g. [1]2) are outside strict_rejects_trailing_bytes; tie to the C code by sampled differential execution.")


def scan(t):
    """tokens of a VALID JSON text: list of (kind, start, end) with kind in str,num,lit,punct"""
    toks = []
    i, n = 0, len(t)
    while i < n:
        c = t[i:i + 1]
        if c in b" \t\r\n":
            i += 1
        elif c == b'"':
            j = i + 1
            while t[j:j + 1] != b'"':
                j += 2 if t[j:j + 1] == b"\\" else 1
            toks.append(("str", i, j + 1))
            i = j + 1
        elif c in b"[]{},:":
            toks.append(("punct", i, i + 1))
            i += 1
        elif c in b"-0123456789":
            j = i
            while j < n and t[j:j + 1] in b"+-0123456789.eE":
                j += 1
            toks.append(("num", i, j))
            i = j
        else:
            j = i
            while j < n and t[j:j + 1].isalpha():
                j += 1
            toks.append(("lit", i, j))
            i = j
    return toks


def inject(rng, t, toks):
    """returns (kind, new_text, neutral) or None"""
    kind = rng.choice(["comment", "squote", "squote_key", "trailing_comma", "case", "ctrl", "lead0", "exp", "trailing"])
    if kind == "comment":
        bounds = [0] + [e for _, _, e in toks]
        p = rng.choice(bounds)
        c = rng.choice([b"/* c */", b"/**/", b"// x\n", b"/* a * b */", b"//\n", b"// step 1\rstep 2\n", b"//\r x\n", b"// x\r\n",
                        b"/* a\r\n * / \"q\" [ */", b"// [1, {\"a\": tru\n", b"/*/ */", b"/***/", b"// \t\x0b\x0c x\n"])
        # after the last token a comment is "trailing bytes": a different rule applies with allow-trailing
        return ("comment_end" if p == bounds[-1] else kind), t[:p] + c + t[p:], True
    if kind in ("squote", "squote_key"):
        # keys are the strings followed by ':'
        strs = []
        for idx, (k, s, e) in enumerate(toks):
            if k != "str":
                continue
            body = t[s + 1:e - 1]
            if b"'" in body or b'\\"' in body:
                continue
            iskey = idx + 1 < len(toks) and t[toks[idx + 1][1]:toks[idx + 1][2]] == b":"
            if iskey == (kind == "squote_key"):
                strs.append((s, e))
        if not strs:
            return None
        s, e = rng.choice(strs)
        return kind, t[:s] + b"'" + t[s + 1:e - 1] + b"'" + t[e:], True
    if kind == "trailing_comma":
        cands = []
        for idx, (k, s, e) in enumerate(toks):
            if k == "punct" and t[s:e] in (b"]", b"}") and idx > 0 and t[toks[idx - 1][1]:toks[idx - 1][2]] not in (b"[", b"{"):
                cands.append(s)
        if not cands:
            return None
        p = rng.choice(cands)
        return kind, t[:p] + b"," + rng.choice([b"", b" "]) + t[p:], True
    if kind == "case":
        lits = [(s, e) for k, s, e in toks if k == "lit"]
        if not lits:
            return None
        s, e = rng.choice(lits)
        w = t[s:e]
        v = rng.choice([w.upper(), w.capitalize(), w[:1] + w[1:].upper(), w[:-1] + w[-1:].upper()])
        if v == w:
            return None
        return kind, t[:s] + v + t[e:], True
    if kind == "ctrl":
        strs = [(s, e) for k, s, e in toks if k == "str"]
        if not strs:
            return None
        s, e = rng.choice(strs)
        # insert at a position that is not inside an escape sequence: right after the opening quote or before the closing one
        p = rng.choice([s + 1, e - 1])
        return kind, t[:p] + bytes([rng.randint(1, 31)]) + t[p:], False
    if kind == "lead0":
        nums = [(s, e) for k, s, e in toks if k == "num"]
        if not nums:
            return None
        s, e = rng.choice(nums)
        p = s + 1 if t[s:s + 1] == b"-" else s
        zeros = b"0" * rng.choice([1, 1, 1, 2, 3, 17, 18, 19, 20, 21, 25, 40])
        # leading zeros do not change the value of an integer token (a double keeps its source text, which differs)
        is_int = not any(c in t[s:e] for c in b".eE")
        return kind, t[:p] + zeros + t[p:], is_int
    if kind == "exp":
        nums = [(s, e) for k, s, e in toks if k == "num" and b"e" not in t[s:e] and b"E" not in t[s:e]]
        if not nums:
            return None
        s, e = rng.choice(nums)
        return kind, t[:e] + rng.choice([b"e", b"E", b"e+", b"E-"]) + t[e:], False
    if kind == "trailing":
        # any byte that is not JSON whitespace is "trailing non-whitespace" (VT, FF, NBSP, DEL ... included)
        if rng.random() < 0.5:
            b = rng.choice([11, 12, 1, 8, 14, 27, 28, 31, 127, 133, 160, 255] + [rng.choice([x for x in range(1, 256) if x not in (9, 10, 13, 32, 47)])])   # '/' opens a comment in default mode: not a trailing byte
            gap = rng.choice([b"", b" ", b"\n"])
            if gap == b"" and toks and toks[-1][0] == "num" and bytes([b]) in b"0123456789.eE+-":
                return None      # glued to a number such a byte continues the number: not a trailing byte
            return kind, t.rstrip(b" \t\r\n") + gap + bytes([b]), True
        return kind, t.rstrip(b" \t\r\n") + rng.choice([b"x", b" x", b"[1]", b" 2", b"}", b",", b"\"a\""]), True
    return None


def py_value(t):
    """denotation of a small float-free or float-bearing document through Python's reader (floats: IEEE bits + text)"""
    import json, struct

    class Pairs:
        def __init__(self, items):
            self.items = items

    def conv(v):
        if v is None or isinstance(v, bool):
            return v
        if isinstance(v, int):
            return ("i", v) if v <= jvtext.INT64_MAX else ("u", v)
        if isinstance(v, Fl):
            return ("d", struct.unpack(">Q", struct.pack(">d", float(v.text)))[0], v.text.encode())
        if isinstance(v, str):
            return v.encode("utf-8")
        if isinstance(v, list):
            return [conv(x) for x in v]
        d = {}
        for k, x in v.items:
            d[k] = x
        return ("o", [(k.encode("utf-8"), conv(x)) for k, x in d.items()])

    class Fl:
        def __init__(self, text):
            self.text = text
    return conv(json.loads(t.decode("ascii"), object_pairs_hook=Pairs, parse_float=Fl))


def gen(rng, tier):
    ndocs = 700 if tier == "quick" else 20000
    out = []
    fixed = [(b"{'a':1}", "squote_key"), (b"-01", "lead0"), (b"00", "lead0"), (b"012.5", "lead0"), (b"[1,]", "trailing_comma"), (b"01", "lead0"),
             (b"[-00]", "lead0"), (b"[1e]", "exp"), (b"True", "case")]
    for t, k in fixed:
        for fl in (0, STRICT):
            out.append((line(32, fl, ["Z" + hx(t)]), {"kind": "fixed-" + k, "ext": k, "text": t, "flags": fl, "neutral": False, "orig": None}))
    # small scope, to saturation: a table of small documents x every (kind, position, variant) the injector can produce
    # (drawn until 400 consecutive draws bring nothing new), each under strict, default and strict+allow-trailing
    import random as _random
    small_docs = [b'1', b'-2.5', b'"a"', b'true', b'null', b'[]', b'{}', b'[1]', b'[1,2]', b'{"k":1}', b'{"k":"v","j":null}', b'[[1],{"k":[true]}]',
                  b' [ 1 , "x" ] ', b'{"a":{"b":[1.5e3,false]}}', b'["\\u00e9",0]', b'{"k":[]}', b'[{"k":1},2]']
    r2 = _random.Random(12345)
    for t in small_docs:
        toks = scan(t)
        try:
            want = jvtext.dump(py_value(t))
        except Exception:
            want = None
        seen, idle = set(), 0
        while idle < 400 and len(seen) < 3000:
            r = inject(r2, t, toks)
            if r is None or r[1] in seen or b"\x00" in r[1]:
                idle += 1
                continue
            idle = 0
            kind, t2, neutral = r
            seen.add(t2)
            endpos = len(t.rstrip(b" \t\r\n"))
            for fl in (0, STRICT, STRICT | TRAILING):
                meta = {"kind": "small-scope-" + kind, "ext": kind, "text": t2, "flags": fl, "neutral": neutral and want is not None, "orig": want,
                        "origlen": len(t), "endpos": endpos}
                out.append((line(32, fl, ["Z" + hx(t2)]), meta))
    for i in range(ndocs):
        s, t = jsongen.gen_doc(rng, depth=rng.choice([0, 1, 2, 3]), width=rng.choice([2, 3, 5]), dup=False)
        if jsongen.names_have_nul(s) or jsongen.has_big(s):
            continue
        toks = scan(t)
        want = jvtext.dump(jsongen.value(s))
        for _ in range(4):
            r = inject(rng, t, toks)
            if r is None:
                continue
            kind, t2, neutral = r
            if b"\x00" in t2:
                continue
            endpos = len(t.rstrip(b" \t\r\n"))
            # strict must reject whatever other flags accompany it (allow-trailing only lifts the
            # trailing-bytes rule; UTF-8 validation is orthogonal); default accepts with any of them
            for fl in (0, STRICT, STRICT | TRAILING, STRICT | UTF8, TRAILING, STRICT | TRAILING | UTF8):
                if fl in (STRICT | UTF8, TRAILING, STRICT | TRAILING | UTF8) and rng.random() < 0.6:
                    continue
                if (fl & UTF8) and any(b >= 0x80 for b in t2):
                    try:
                        t2.decode("utf-8")
                    except UnicodeDecodeError:
                        continue
                meta = {"kind": kind + {0: "-default", STRICT: "-strict", STRICT | TRAILING: "-strict+trailing", STRICT | UTF8: "-strict+utf8",
                                        TRAILING: "-default+trailing", STRICT | TRAILING | UTF8: "-strict+trailing+utf8"}[fl], "ext": kind,
                        "text": t2, "flags": fl, "neutral": neutral, "orig": want, "origlen": len(t), "endpos": endpos}
                out.append((line(32, fl, ["Z" + hx(t2)]), meta))
                # the mode is a property of the parser object, not of the call: flags set with
                # json_tokener_set_flags() stay in force through json_tokener_reset() and earlier
                # documents (successful or failed) on the same parser
                if rng.random() < 0.25:
                    hist = rng.choice([["F%d" % fl, "R"], ["F%d" % fl, "Z" + hx(t), "R"], ["F%d" % fl, "Z" + hx(b"[1,"), "R"],
                                       ["F%d" % fl, "Z" + hx(b"]"), "R"], ["F%d" % fl, "R", "R"], ["F%d" % fl, "Z" + hx(t)]])
                    m3 = dict(meta); m3["kind"] = meta["kind"] + "-after-history"; m3["last"] = True
                    out.append((line(32, rng.choice([0, fl]), hist + ["Z" + hx(t2)]), m3))
                # the same verdict when the text arrives in pieces (strict mode is a property of the
                # document, not of how it is fed): cut inside / next to the injected form
                if fl in (0, STRICT) and len(t2) >= 3 and kind not in ("trailing", "comment_end") and rng.random() < 0.5:
                    # (bytes after a complete value that arrive in a later call are a new parse: not chunked here)
                    cuts = jsongen.partitions(rng, len(t2), rng.choice([2, 2, 3]))
                    parts, prev = [], 0
                    for c in cuts + [len(t2)]:
                        parts.append(t2[prev:c]); prev = c
                    m2 = dict(meta); m2["kind"] = meta["kind"] + "-chunked"; m2["chunked"] = True
                    out.append((line(32, fl, ["P" + hx(p) for p in parts] + ["Z-"]), m2))
    return out


def oracle(line_, meta, impl):
    if "CRASH" in impl:
        return ("crash", "implementation crashed: " + impl[:100])
    if "LEAK" in impl:
        return ("leak", impl[-30:])
    steps = parse_obs(impl)
    st = steps[0]
    if meta.get("last"):
        st = steps[-1]
    if meta.get("chunked"):
        # the verdict is the first status that is not "continue"
        st = next((x for x in steps if len(x) == 3 and x[0] != "continue"), steps[-1])
    if len(st) != 3:
        return ("malformed", impl[:100])
    err, off, val = st
    ext, fl = meta["ext"], meta["flags"]
    if (fl & STRICT) and (fl & TRAILING) and ext == "comment_end":
        return None if err == "success" and val == meta["orig"] else ("trailing-flag-rejects", "strict+allow_trailing rejected a comment after the value: %s" % err)
    if (fl & STRICT) and not ((fl & TRAILING) and ext == "trailing"):
        if err == "success":
            return ("strict-accepts-" + ext, "strict mode accepted %r (%s)" % (meta["text"][:80], ext))
        return None
    if not (fl & STRICT):
        if err != "success":
            return ("default-rejects-" + ext, "default mode rejected %r (%s): %s" % (meta["text"][:80], ext, err))
        if meta["neutral"] and meta["orig"] is not None and val != meta["orig"]:
            return ("default-value-" + ext, "default mode value differs for %r: got %s want %s" % (meta["text"][:60], val[:80], meta["orig"][:80]))
        return None
    # strict + allow trailing: accepted, value of the original, end reported where the value ended
    if err != "success" or val != meta["orig"]:
        return ("trailing-flag-rejects", "strict+allow_trailing on %r: %s %s" % (meta["text"][:60], err, val[:60]))
    t = meta["text"]
    hi = meta["endpos"]
    while hi < len(t) and t[hi:hi + 1] in b" \t\r\n":
        hi += 1
    # the reported end lies between the last byte of the value and the first trailing non-whitespace byte
    if not meta.get("chunked") and not (meta["endpos"] <= off <= hi):
        return ("trailing-flag-end", "strict+allow_trailing reports end %d, value ended at %d (next byte at %d)" % (off, meta["endpos"], hi))
    return None


def classify(line_, meta, mo, co):
    return None


def nontrivial(line_, meta, impl):
    if not (meta["flags"] & STRICT) and impl.startswith("success"):
        return (meta["text"], 0)
    if meta["flags"] != 0:
        return (meta["text"], meta["flags"], bool(meta.get("last")))
    return None


def shrink(ck, line_, cls):
    return line_


def search(rng, broken):
    return gen(rng, "quick")[:3000]
