"""C03 — incremental parsing is independent of how the input is split into calls.
Each case runs the chunked parse on one tokener and, after `N` (a fresh tokener), the
single-call parse of the same bytes; the oracle compares the two inside the line, so
it needs neither the model nor a second process."""
from tokcommon import *
PROP = "C03"
DOMAIN = "tok"
LEVEL = "proof"
TECHNIQUE = "Coq: fold/associativity theorem over the tokener model with explicit call-locals + differential correspondence + split-vs-whole direct oracle"
RULE = ("valid texts from the C01 generator and a malformed stream (mutated bytes, truncated tokens, sign/exponent clutter, comments, "
        "multi-byte characters), every 2-partition for texts up to 48 bytes and random 2..4-partitions beyond, flags over "
        "{strict, allow-trailing, validate-utf8}; non-trivial = at least one call returned continue; distinct by (text, cuts, flags)")
ASSUMPTIONS = ["only calls after a `continue` status are compared (the property's premise)"]
LEVEL_TEXT = ("Theorems (Coq, no axioms): chunk_independent — for ALL byte strings a and b (valid or not), all well-formed parser states and ALL flag "
              "settings (strict, allow-trailing, VALIDATE_UTF8), when the call on a reports that more input is needed the call on b yields the same value, status and error "
              "code as the single call on a ++ b, with the end position counted from the start of a; chunks_independent — the same for any number of calls, by "
              "induction on the chunk list.  Proved through a simulation showing that the call-locals re-initialised at every call (current character, pending "
              "child, number-scanner flags) are dead or re-derived exactly from the saved text, and that one dispatch never reads the character offset.  The "
              "direct oracle replays split-vs-whole (and chunked streams of several documents) on the real library for every generated partition.")
LEVEL_NOTE = ("With VALIDATE_UTF8 a call that ends inside a multi-byte character reports a UTF-8 error, not 'continue' (the continuation counter is a "
              "call-local), so the property's premise fails there (C03_utf8_split_first_call_errors); whenever the first call does ask for more input the "
              "theorem applies.  Streams of several documents: stream_chunks proves, for every list of chunks, that the caller's loop over the chunks yields the documents and the final error of the whole buffer, being at most one document ahead when a cut fell between a document and the blanks/comment behind it (exactly what the stream oracle accepts); after_success_as_new / stream_resume_is_fresh: a parser that has returned a value is as new.  Model tied to the C code by sampled differential execution.")


def chunk_ops(t, cuts):
    parts = []
    prev = 0
    for c in list(cuts) + [len(t)]:
        parts.append(t[prev:c])
        prev = c
    return parts


def mk(depth, fl, t, cuts, kind):
    parts = chunk_ops(t, cuts)
    ops = ["P" + hx(p) for p in parts]
    # whole runs of every prefix that the chunked run may stop at
    acc = b""
    for p in parts:
        acc += p
        ops += ["N", "P" + hx(acc)]
    return (line(depth, fl, ops), {"kind": kind, "text": t, "cuts": list(cuts), "nparts": len(parts), "flags": fl})


def mkl(depth, fl, t, cuts, kind, loc):
    """the same under a caller's comma-decimal locale (process-wide G / this thread T): how the input is split must
    not matter there either"""
    l, m = mk(depth, fl, t, cuts, kind + "-locale" + loc)
    head, ops = l.rsplit(" ", 1)
    m["locale"] = True
    return (head + " L" + loc + ";" + ops + ";LC", m)


def gen(rng, tier):
    ntexts = 500 if tier == "quick" else 12000
    out = []
    fixed = [(b"[1-5]", [2], 0), (b"[1-5]", [2], STRICT), (b'"\xc3\xa9"', [2], UTF8), (b"-1Infinity", [2], 0), (b"[--5]", [2], 0),
             (b"[1.+5]", [3], 0), (b"[1e5-3]", [4], 0), (b"[1.5-3]", [4], 0), (b'"\\ud800\\udc00"', [7], 0), (b"nul", [1], 0),
             (b"/* c */ 1 ", [4], 0), (b'{"a":1}{"b":2}', [5], 0), (b"12", [1], 0), (b"1 2", [1], STRICT)]
    for t, cuts, fl in fixed:
        out.append(mk(32, fl, t, cuts, "fixed"))
    flagsets = [0, STRICT, UTF8, STRICT | UTF8, STRICT | TRAILING, TRAILING, UTF8 | TRAILING, STRICT | UTF8 | TRAILING]
    for i in range(ntexts):
        s, t = jsongen.gen_doc(rng, depth=rng.choice([0, 1, 2, 3]), width=rng.choice([2, 3, 5]))
        kind = "valid"
        r = rng.random()
        if r < 0.45:
            t = jsongen.mutate_bytes(rng, t)
            kind = "mutated"
        elif r < 0.55:
            t = t[:rng.randint(0, len(t))]
            kind = "truncated"
        elif r < 0.65:
            t = t + rng.choice([b" ", b"x", b"[1]", b" 2", b"\x00", b"/*c*/"])
            kind = "trailing"
        if len(t) > 400:
            t = t[:400]
        fl = rng.choice(flagsets)
        depth = rng.choice([32, 32, 3, 2])
        n = len(t)
        if n <= 48:
            cutsets = [[c] for c in range(1, n)]
            if tier != "quick" or n <= 16:
                pass
            elif len(cutsets) > 16:
                cutsets = rng.sample(cutsets, 16)
        else:
            cutsets = [[rng.randrange(1, n)] for _ in range(8)]
        for _ in range(3):
            if n >= 3:
                cutsets.append(jsongen.partitions(rng, n, rng.choice([3, 4])))
        for cuts in cutsets:
            out.append(mk(depth, fl, t, cuts, kind))
        if cutsets and rng.random() < 0.35:
            # zero-length calls (an empty read) before, between and after the pieces: a repeated cut position
            base_cuts = list(rng.choice(cutsets))
            extra = [rng.choice(base_cuts + [0, n]) for _ in range(rng.choice([1, 2]))]
            out.append(mk(depth, fl, t, sorted(base_cuts + extra), kind + "-empty-chunk"))
        if cutsets and (b"." in t or b"e" in t or b"E" in t) and rng.random() < 0.5:
            # numbers with a fraction or exponent under a comma-decimal caller locale, cut inside / next to the number
            pos = [i for i in range(1, n) if t[i - 1:i] in b".eE0123456789+-" or t[i:i + 1] in b".eE0123456789+-"]
            for _ in range(3):
                c = rng.choice(pos) if pos and rng.random() < 0.8 else rng.randrange(1, n)
                out.append(mkl(depth, fl, t, [c], kind, rng.choice("GT")))
    # small scope, exhaustively: every string of 2..3 (quick) / 2..4 (thorough) bytes over the bytes that select a
    # different transition, every cut position, default mode (strict for a third)
    import itertools
    small = bytes(sorted(set(b'{}[]:,"\\/* \n0-1.eEtn\'\xc3\xa9')))
    for ln in range(2, 4 if tier == "quick" else 5):
        for k, tup in enumerate(itertools.product(small, repeat=ln)):
            t = bytes(tup)
            for c in range(1, ln):
                out.append(mk(32, STRICT if k % 3 == 0 else 0, t, [c], "small-scope"))
    # long tokens (numbers, strings, literals runs, comments of 1000..5000 bytes): limits that look only at the part
    # scanned in the current call show up when no single call sees the whole token
    nlong = 24 if tier == "quick" else 400
    for i in range(nlong):
        ln = rng.choice([1000, 1023, 1024, 1025, 1500, 2047, 2048, 2049, 3000, 5000])
        kindl = rng.choice(["int", "frac", "exp", "str", "comment", "ws"])
        if kindl == "int":
            tok_ = bytes(rng.choice(b"123456789") for _ in range(1)) + bytes(rng.choice(b"0123456789") for _ in range(ln - 1))
        elif kindl == "frac":
            tok_ = b"0." + bytes(rng.choice(b"0123456789") for _ in range(ln))
        elif kindl == "exp":
            tok_ = b"1" + b"0" * ln + b"e-" + str(ln).encode()
        elif kindl == "str":
            tok_ = b'"' + bytes(rng.choice(b"abc \u00e9xyz") if False else rng.choice(b"abcxyz 0123") for _ in range(ln)) + b'"'
        elif kindl == "comment":
            tok_ = b"/*" + b"c" * ln + b"*/ 1"
        else:
            tok_ = b" " * ln + b"1"
        t = rng.choice([b"[", b'{"k":', b""]) + tok_
        t += {b"[": b"]", b'{': b"}"}.get(t[:1], b" ")
        fl = rng.choice([0, STRICT]) if kindl != "comment" else 0
        n = len(t)
        for cuts in ([n // 2], [n // 3, 2 * n // 3], sorted(set(rng.randrange(1, n) for _ in range(4))), [1000] if n > 1001 else [n // 2]):
            out.append(mk(32, fl, t, cuts, "long-" + kindl))
    # very long strings / names (the scratch buffer grows beyond 64 KiB) cut inside an escape sequence, a surrogate pair,
    # or right after the long run (not modelled: the list-based model is quadratic; judged by split-vs-whole on the library)
    for big in ([70000] if tier == "quick" else [65535, 65536, 70000, 200000]):
        for esc, at in ((b"\\n", 1), (b"\\u00e9", 1), (b"\\u00e9", 3), (b"\\ud83d\\ude00", 6), (b"\\ud83d\\ude00", 7), (b"\\\\", 1)):
            for shape in (0, 1):
                body = b"s" * big + esc + b"tail"
                t = (b'"' + body + b'"') if shape == 0 else (b'{"' + body + b'":1}')
                c0 = t.index(esc) + at
                out.append(mk(32, 0, t, [c0], "huge-string-escape-cut"))
                out.append(mk(32, STRICT, t, [t.index(esc), c0], "huge-string-escape-cut"))
    # streams of concatenated documents, resumed at the reported end position, whole vs chunked
    nst = 250 if tier == "quick" else 6000
    for i in range(nst):
        docs = []
        for _ in range(rng.choice([1, 2, 2, 3, 4])):
            s_, t_ = jsongen.gen_doc(rng, depth=rng.choice([0, 1, 2]), width=3)
            docs.append(t_)
        sep = rng.choice([b"", b" ", b"\n", b" ", b"\t\n"])
        fl = rng.choice([0, 0, 0, UTF8, STRICT | TRAILING, TRAILING])
        cmt = None
        if not (fl & STRICT) and rng.random() < 0.4:
            # comments between / after the documents (default mode), cut inside them below
            cmt = rng.choice([b"/* tail */", b" /* a * b */ ", b"// x\n", b" //\n", b"/**/", b" /* [1] \"q\" */"])
            sep = cmt
            if rng.random() < 0.5:
                docs.append(b"")
        t = sep.join(docs)
        r = rng.random()
        if r < 0.25:
            t = jsongen.mutate_bytes(rng, t)
        elif r < 0.35:
            t = t + rng.choice([b"x", b"]", b" tru", b'"ab'])
        t = t[:300]
        if b"\x00" in t or len(t) < 2:
            continue
        cuts = jsongen.partitions(rng, len(t), rng.choice([2, 2, 3, 5, min(len(t), 12)]))
        if cmt is not None and rng.random() < 0.7:
            # one cut strictly inside an occurrence of the comment
            p0 = t.find(cmt.strip(b" "))
            if p0 >= 0 and len(cmt.strip(b" ")) >= 2:
                c0 = p0 + rng.randint(1, len(cmt.strip(b" ")) - 1)
                if 0 < c0 < len(t):
                    cuts = sorted(set((cuts if rng.random() < 0.5 else []) + [c0]))
        ops = ["S" + hx(t) + "".join(",%d" % c for c in cuts), "N", "S" + hx(t)]
        out.append((line(32, fl, ops), {"kind": "stream", "text": t, "cuts": cuts, "nparts": 0, "flags": fl, "stream": True}))
    return out


def stream_view(step):
    """('docs=a@3;b@9; final=continue',) -> ([a, b], final)"""
    s = step[0]
    if not s.startswith("docs="):
        return None
    body, fin = s[5:].rsplit(" final=", 1)
    vals = [] if body == "-" else [d.rsplit("@", 1)[0] for d in body.split(";") if d]
    # whether trailing whitespace is eaten by the call that completed a document or answered
    # with "continue" by the next call depends on where the chunk ends: both mean "no error"
    if fin in ("success", "continue", "none"):
        fin = "ok"
    return vals, fin


def outcome_of_chunks(steps, parts):
    """returns (k, (err, absolute_end, value)) for the first non-continue call, or (n, last)"""
    base = 0
    for k, (st, p) in enumerate(zip(steps, parts)):
        if st[0] != "continue":
            return k, (st[0], base + st[1], st[2])
        base += len(p)
    k = len(parts) - 1
    st = steps[k]
    return k, (st[0], base - len(parts[k]) + st[1], st[2])


def oracle(line_, meta, impl):
    if "CRASH" in impl:
        return ("crash", "implementation crashed: " + impl[:100])
    if "LEAK" in impl:
        return ("leak", impl[-30:])
    if "VALUE-WITH-ERROR" in impl:
        return ("value-with-error", impl[:100])
    steps = parse_obs(impl)
    if meta.get("locale"):
        steps = [x for x in steps if x != ("locale",)]
    if meta.get("stream"):
        if len(steps) != 3:
            return ("malformed", "unexpected driver output: " + impl[:100])
        a, b = stream_view(steps[0]), stream_view(steps[2])
        if a is None or b is None:
            return ("malformed", "unexpected driver output: " + impl[:100])
        # with VALIDATE_UTF8 a chunk ending inside a multi-byte character is answered with a UTF-8 error, not
        # with "continue": the premise of the property fails there
        if (meta["flags"] & UTF8) and a[1].startswith("utf8") and any(0 < c < len(meta["text"]) and (meta["text"][c] & 0xC0) == 0x80 for c in meta["cuts"]):
            return None
        # when the single call on the whole buffer runs into an error in the blanks/comment that FOLLOW a complete
        # document (e.g. `[1] /x`), it reports the error and no value, while a feed that was cut between the document
        # and that error has already been handed the document: both then end with the same error, and the chunked
        # feed may have one more value (the premise "the call asked for more input" does not hold at that cut)
        # — or into the end of the buffer inside such a comment (`true /* a`: the single call keeps the value and asks
        # for more input).  Same final status, and the whole run's values are a prefix lacking at most that one value.
        if a != b and a[1] == b[1] and a[0][:len(b[0])] == b[0] and len(a[0]) == len(b[0]) + 1:
            return None
        if a != b:
            return ("stream-differs", "stream %r cuts %r flags %d: chunked gives %r, whole gives %r" % (meta["text"][:60], meta["cuts"], meta["flags"], a, b))
        return None
    n = meta["nparts"]
    parts = chunk_ops(meta["text"], meta["cuts"])
    if len(steps) != 3 * n:
        return ("malformed", "unexpected driver output: " + impl[:100])
    chunked = steps[:n]
    wholes = [steps[n + 2 * i + 1] for i in range(n)]
    k, got = outcome_of_chunks(chunked, parts)
    want = wholes[k]
    if (want[0], want[1], want[2]) != got:
        cls = "split-differs"
        t = meta["text"]
        cut_state = ""
        # classification of the recorded finding: the split falls inside a multi-byte UTF-8 sequence under VALIDATE_UTF8
        if meta["flags"] & UTF8 and any(0 < c < len(t) and (t[c] & 0xC0) == 0x80 for c in meta["cuts"]):
            cls = "utf8_split_midchar"
        return (cls, "text %r cuts %r flags %d: split gives %r, whole gives %r" % (t[:60], meta["cuts"], meta["flags"], got, want))
    return None


def classify(line_, meta, mo, co):
    return None


def nontrivial(line_, meta, impl):
    if meta.get("stream"):
        return (meta["text"], tuple(meta["cuts"]), meta["flags"]) if ";" in impl.split(" | ")[0] else None
    if impl.startswith("continue"):
        return (meta["text"], tuple(meta["cuts"]), meta["flags"])
    return None


def shrink(ck, line_, cls):
    return line_


def search(rng, broken):
    return gen(rng, "quick")[:3000]
