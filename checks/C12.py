"""C12 — JSON Pointer get/set per RFC 6901.

Generator: trees with adversarial member names ('/', '~', '~0', '~1', '~01', '~2', digits, '-',
empty name, '%'), JSON null members and elements, nested arrays x correctly escaped pointers to
every node, and malformed / dangling ones (no leading '/', '~2', trailing '~', leading zeros,
'-' in get, index = length, indices around 2^32 / 2^61 / 2^64 and beyond, empty tokens).
Direct oracle: the RFC 6901 evaluator below, written from the RFC in Python, independent of
the Coq model; it is applied to every operation on the tree the implementation itself reported
after the previous operation."""
import re
import jvtext

PROP = "C12"
DOMAIN = "ptr"
LEVEL = "proof"
TECHNIQUE = ("Coq proofs about a model of json_pointer.c against an independent RFC 6901 evaluator (PtrModel/PtrSpec/PtrProofs.v) "
             "+ extracted-model/C differential correspondence + independent Python RFC 6901 oracle")
RULE = ("small-scope block: every pointer string of <= 4 (thorough 5) bytes over '/~01a-' x 5 small documents x 7 operations, and every "
        "history of <= 3 (thorough 4) operations over a 24-operation alphabet on {\"a\":[1]}; length sweep 0..300 and around powers of two "
        "(getf/setf shapes) and 0..300, 1020..1030 in five pointer shapes through get/set/setf (working copies); "
        "then one case = one generated tree and 1..8 get/getf/set/setf operations whose pointers are derived from the tree's node "
        "locations (correctly escaped, then optionally damaged by one of 20 mutations); a case is non-trivial when at least one "
        "operation succeeded; distinct = distinct scripts among those, plus distinct (operation kind, errno) vectors of all-failing cases")
TRUSTED = ["Coq 8.16.1 kernel (coqc), no axioms (Print Assumptions: closed under the global context)",
           "extraction (ExtrOcamlBasic only) + ocaml/mdrv glue (drv_ptr.ml, jvtext.ml)",
           "harness/drv_ptr.c, jvtext.h, xalloc.c, gcc -fsanitize=address,undefined",
           "vasprintf modelled as an oracle producing the formatted bytes",
           "checks/C12.py: the Python RFC 6901 evaluator used as direct oracle"]
ASSUMPTIONS = ["pointer strings and member names are C strings (no 0 byte); the tree given to get is not the NULL pointer "
               "(json_pointer_get documents obj as a json_object instance: a NULL root is answered with EINVAL)",
               "an index beyond the end of an array extends it with JSON null elements (json_object_array_put_idx; "
               "test_json_pointer.c '/7'); array growth beyond the allocator's limit fails without effect",
               "object insertion never fails for lack of memory (allocation faults are C08's subject)",
               "vasprintf produces the bytes the format denotes"]

SLOT_LIMIT = 1 << 21          # harness/drv_ptr.c: PTR_ALLOC_LIMIT / sizeof(void *)
# operation kinds (harness/drv_ptr.c): g = get, s = set; the others are getf / setf in five
# format shapes ("%s" | pointer as format | "/%s" | "%s%s" | "%s/%d") with the same expansion
GET_KINDS = "gGHIJD"
SET_KINDS = "sSTUVE"
# a lookup kind prefixed with "n" ("ng", "nG", …) is called with res == NULL (existence test)


def is_get(k):
    return k[-1] in GET_KINDS

# ------------------------------------------------------------------ RFC 6901, from the RFC
# `defects` is empty for the oracle.  The four switches reproduce the deviations the original
# json_pointer.c had (repaired since; known_findings.json, status fixed) one at a time and are
# used ONLY to give a regression its stable class id.
CLASSES = [("null", "get_null_target"), ("empty", "empty_index_token"),
           ("rawlast", "set_last_token_not_unescaped"), ("lenient", "invalid_escape_accepted")]
HUGE = object()
FAIL = object()


def syntax_ok(tok):
    i = 0
    while i < len(tok):
        if tok[i] == 0x7e:
            if i + 1 >= len(tok) or tok[i + 1] not in (0x30, 0x31):
                return False
            i += 2
        else:
            i += 1
    return True


def unescape(tok):
    out = bytearray()
    i = 0
    while i < len(tok):
        if tok[i] == 0x7e and i + 1 < len(tok) and tok[i + 1] == 0x30:
            out.append(0x7e)
            i += 2
        elif tok[i] == 0x7e and i + 1 < len(tok) and tok[i + 1] == 0x31:
            out.append(0x2f)
            i += 2
        else:
            out.append(tok[i])
            i += 1
    return bytes(out)


def tokens(p, defects=()):
    """reference tokens of a pointer, None when it is not of the RFC syntax"""
    if p == b"":
        return []
    if p[:1] != b"/":
        return None
    toks = p[1:].split(b"/")
    if "lenient" not in defects and not all(syntax_ok(t) for t in toks):
        return None
    return toks


def array_index(tok, defects=()):
    if tok == b"" and "empty" in defects:
        return 0
    if re.fullmatch(rb"0|[1-9][0-9]*", tok):
        return int(tok)
    return None


def is_obj(n):
    return isinstance(n, tuple) and n[0] == "o"


def step(n, tok, defects=()):
    """one evaluation step: (location step, child) or None"""
    if is_obj(n):
        name = unescape(tok)
        for k, v in n[1]:
            if k == name:
                return ("k", name), v
        return None
    if isinstance(n, list):
        i = array_index(tok, defects)
        if i is None or i >= len(n):
            return None
        if n[i] is None and "null" in defects:
            return None
        return ("i", i), n[i]
    return None


def rfc_get(tree, p, defects=()):
    toks = tokens(p, defects)
    if toks is None:
        return None
    loc, n = [], tree
    for t in toks:
        r = step(n, t, defects)
        if r is None:
            return None
        loc.append(r[0])
        n = r[1]
    return loc, n


def place(n, tok, v, defects=()):
    if is_obj(n):
        name = tok if "rawlast" in defects else unescape(tok)
        ms = list(n[1])
        for j, (k, _) in enumerate(ms):
            if k == name:
                ms[j] = (k, v)
                return ("o", ms)
        return ("o", ms + [(name, v)])
    if isinstance(n, list):
        if tok == b"-":
            return n + [v]
        i = array_index(tok, defects)
        if i is None:
            return None
        if i < len(n):
            return n[:i] + [v] + n[i + 1:]
        if i + 1 > SLOT_LIMIT:
            return HUGE
        return n + [None] * (i - len(n)) + [v]
    return None


def rfc_set(tree, p, v, defects=()):
    """the tree after placing v at p; FAIL when p designates no place; HUGE when the array
    would have to grow beyond the allocator's limit (never materialised)"""
    toks = tokens(p, defects)
    if toks is None:
        return FAIL
    if not toks:
        return v

    def go(n, ts):
        if len(ts) == 1:
            r = place(n, ts[0], v, defects)
            return FAIL if r is None else r
        r = step(n, ts[0], defects)
        if r is None:
            return FAIL
        c = go(r[1], ts[1:])
        if c is FAIL or c is HUGE:
            return c
        if is_obj(n):
            return ("o", [(k, c if k == r[0][1] else x) for k, x in n[1]])
        return n[:r[0][1]] + [c] + n[r[0][1] + 1:]
    return go(tree, toks)


def loc_id(loc, node):
    if node is None:
        return "NULL"
    return "r" + "".join(".k" + jvtext.hx(s[1]) if s[0] == "k" else ".i%d" % s[1] for s in loc)


# ------------------------------------------------------------------ script helpers
def hexs(b):
    return b.hex() if b else "-"


def unhex(s):
    return b"" if s == "-" else bytes.fromhex(s)


def parse_line(line):
    _, tree, ops = line.split(" ", 2)
    out = []
    for o in ops.split(";"):
        k = o[:2] if o[0] == "n" else o[0]
        if is_get(k):
            out.append((k, unhex(o[len(k):]), None))
        else:
            h, v = o[len(k):].split("=", 1)
            out.append((k, unhex(h), jvtext.parse(v)[0]))
    return jvtext.parse(tree)[0], out


def mk_line(tree, ops):
    parts = []
    for k, p, v in ops:
        parts.append(k + hexs(p) if is_get(k) else k + hexs(p) + "=" + jvtext.dump(v))
    return "ptr %s %s" % (jvtext.dump(tree), ";".join(parts))


def parse_obs(o):
    """list of (rc, errno, var, dump) and the END count (None when absent); var = the caller's
    result variable after a lookup (node id | kept | noarg | UNSET | CLOBBERED) or the root
    handle after a set (same | new)"""
    steps = o.split(" | ")
    end = None
    if steps and steps[-1].startswith("END "):
        end = int(steps[-1][4:])
        steps = steps[:-1]
    out = []
    for s in steps:
        t = s.split(" ")
        if len(t) != 4:
            out.append(None)
        else:
            out.append((int(t[0]), t[1], t[2], t[3]))
    return out, end


# ------------------------------------------------------------------ the direct oracle
def classify_defect(expect_of):
    """expect_of(defects) -> comparable outcome under these deviation switches; returns the
    class id of the smallest set of recorded deviations that explains the observed outcome"""
    import itertools
    for r in (1, 2, 3, 4):
        for combo in itertools.combinations(CLASSES, r):
            if expect_of(tuple(c[0] for c in combo)):
                return combo[0][1]
    return None


def violations(line, impl):
    """every failure of the line, in order.  Each operation is judged on the tree the
    implementation itself reported after the previous one, so one failure does not hide the next."""
    if "CRASH" in impl:
        yield ("crash", "implementation crashed (memory error / double release): " + impl[-60:])
        return
    try:
        tree, ops = parse_line(line)
    except Exception as e:                      # pragma: no cover
        yield ("malformed", "unreadable script line: %r" % e)
        return
    steps, end = parse_obs(impl)
    if len(steps) != len(ops) or any(s is None for s in steps) or end is None:
        yield ("malformed", "unexpected driver output: " + impl[:120])
        return
    cur = tree
    plain = {}          # (tree, pointer) -> outcome of json_pointer_get, to hold the f-variants against
    for n, ((k, p, v), (rc, err, ident, dump)) in enumerate(zip(ops, steps)):
        before = jvtext.dump(cur)
        where = "op %d %s %r (%d bytes) on %s" % (n, k, p[:60], len(p), before[:80])
        if is_get(k):
            noarg = k[0] == "n"
            # "a failed call changes nothing the caller can see" / "a success stores the node"
            if ident in ("CLOBBERED", "ROOTCHANGED") or (rc != 0 and ident != ("noarg" if noarg else "kept")):
                yield ("failed_get_changed_res", "a %s lookup (%s) changed the caller's %s: %s"
                       % ("failing" if rc != 0 else "successful", k, "root handle" if ident == "ROOTCHANGED" else "result variable (preset before the call)", where))
                cur = cur if dump == before else jvtext.parse(dump)[0]
                continue
            if rc == 0 and (ident == "UNSET" or (noarg and ident != "noarg")):
                yield ("get_success_no_store", "a successful lookup (%s) did not store the node in the caller's result variable: %s" % (k, where))
                continue
            mine = (rc, err, ident) if rc == 0 else (rc, err)
            if k[-1] == "g":
                plain[(before, p, noarg)] = mine
            elif plain.get((before, p, noarg), mine) != mine:
                # "the printf-style variants behave as the plain ones on the formatted string"
                yield ("getf_not_as_plain", "json_pointer_getf (format shape %s) answers %s where json_pointer_get answered %s on the "
                       "same tree and the same formatted pointer: %s" % (k, tuple(str(x)[:48] for x in mine), tuple(str(x)[:48] for x in plain[(before, p, noarg)]), where))
                cur = cur if dump == before else jvtext.parse(dump)[0]
                continue
            if dump != before:
                yield ("get_side_effect", "lookup changed the tree: " + where)
            elif cur is None:
                # the NULL root is outside the API's domain: invalid argument, nothing else
                if rc == 0 or err != "EINVAL":
                    yield ("null_root", "lookup in the NULL tree did not answer EINVAL: " + where)
            else:
                got = ("ok", ident) if rc == 0 else ("fail",)

                def outcome(defects, cur=cur, p=p, noarg=noarg):
                    r = rfc_get(cur, p, defects)
                    return ("fail",) if r is None else ("ok", "noarg" if noarg else loc_id(r[0], r[1]))
                want = outcome(())
                if got != want:
                    cls = classify_defect(lambda d: outcome(d) == got)
                    if cls is None:
                        cls = "get_wrong_success" if want == ("fail",) else ("get_wrong_failure" if got == ("fail",) else "get_wrong_node")
                    yield (cls, "lookup: RFC 6901 says %s, implementation %s (%s): %s" % (tuple(x[:48] for x in want), tuple(x[:48] for x in got), err, where))
                elif rc != 0 and err not in ("ENOENT", "EINVAL"):
                    yield ("get_errno", "failed lookup reports %s: %s" % (err, where))
        else:
            def outcome(defects, cur=cur, p=p, v=v):
                r = rfc_set(cur, p, v, defects)
                if r is FAIL:
                    return ("fail",)
                if r is HUGE:
                    return ("huge",)
                return ("ok", jvtext.dump(r))
            want = outcome(())
            got = ("ok", dump) if rc == 0 else ("fail",)
            # the root handle *obj: assigned only by the "" case (a fresh value, or NULL for null)
            handle = "new" if (rc == 0 and p == b"" and not (cur is None and v is None)) else "same"
            if rc != 0 and (dump != before or ident != "same"):
                yield ("set_failed_changed", "failed set changed the %s: %s" % ("root handle" if ident != "same" else "tree to " + dump[:80], where))
            elif rc == 0 and ident != handle:
                yield ("set_root_handle", "after a successful set the root handle is %s, expected %s: %s" % (ident, handle, where))
            elif want == ("huge",):
                # the array cannot grow that far: a failure without effect is the only acceptable answer
                if rc == 0:
                    yield ("set_huge_index", "set with an index beyond the allocator's limit succeeded: " + where)
                elif err not in ("ENOMEM", "0", "ERANGE"):
                    yield ("set_errno", "array growth failure reports %s: %s" % (err, where))
            elif got != want:
                cls = classify_defect(lambda d: outcome(d) == got)
                if cls is None:
                    cls = "set_wrong_success" if want == ("fail",) else ("set_wrong_failure" if got == ("fail",) else "set_wrong_place")
                yield (cls, "set: RFC 6901 placement gives %s, implementation %s (%s): %s"
                       % (want[:1] + tuple(x[:120] for x in want[1:]), got[:1] + tuple(x[:120] for x in got[1:]), err, where))
            elif rc != 0 and err not in ("ENOENT", "EINVAL"):
                yield ("set_errno", "failed set reports %s: %s" % (err, where))
        try:
            cur = jvtext.parse(dump)[0]
        except Exception:
            yield ("malformed", "unreadable dump: " + dump[:100])
            return
    if end != 0:
        yield ("leak", "%d allocations still live after the tree and all caller-owned values were released (ownership): %s" % (end, line[:120]))


_RECORDED = None


def recorded():
    """class ids listed as known in known_findings.json (read only): a failure of a recorded
    class must not hide a different failure later in the same line"""
    global _RECORDED
    if _RECORDED is None:
        try:
            import fw
            _RECORDED = set(fw.known_ids(PROP).keys())
        except Exception:
            _RECORDED = set()
    return _RECORDED


def oracle(line, meta, impl):
    first = None
    for v in violations(line, impl):
        if v[0] not in recorded():
            return v
        if first is None:
            first = v
    return first


def classify(line, meta, mo, co):
    return None


def nontrivial(line, meta, impl):
    steps, _ = parse_obs(impl)
    if any(s is not None and s[0] == 0 for s in steps):
        return line
    kinds = [o[0] for o in line.split(" ", 2)[2].split(";")]
    return tuple((k, s[1]) for k, s in zip(kinds, steps) if s is not None) or None


# ------------------------------------------------------------------ pointer-length sweep
def sweep_lengths(tier):
    """formatted pointer lengths covered systematically on every run: every length up to 300
    (any small fixed buffer in a formatting path lies there), and a window around every power
    of two up to 8192 / 65536"""
    ls = set(range(0, 301))
    top = 13 if tier == "quick" else 16
    for e in range(4, top + 1):
        ls.update(range((1 << e) - 2, (1 << e) + 3))
    return sorted(ls)


def length_cases(tier):
    """For a formatted pointer of exactly L bytes, in three shapes (one long member name; a long
    name below an array element, addressed with "%s/%d"-able tokens around it; a deep chain of
    one-byte names), every entry point (get, getf x 5 format shapes, set, setf x 5) is used.
    The tree always holds the neighbours of the addressed name (one byte shorter / longer),
    so a pointer that loses or gains a byte resolves to a different node instead of failing."""
    out = []
    for L in sweep_lengths(tier):
        big = L > 600
        # shape 1: "/" + name of L-1 bytes
        if L >= 1:
            n = L - 1
            name = b"k" * n
            members = [(name, ("i", L))]
            if n >= 1:
                members.append((name[:-1], ("i", -1)))
            members.append((name + b"k", ("i", -2)))
            tree = ("o", members)
            p = b"/" + name
            ops = [(k, p, None) for k in (("g", "G", "I", "H", "J") if big else ("g", "G", "I", "H", "J", "ng", "nJ"))]
            for k in (("S",) if big else ("S", "U", "T", "V", "s")):
                ops.append((k, p, ("i", 100 + len(ops))))
                ops.append(("G" if big else "gGIHJ"[len(ops) % 5], p, None))
            if not big:
                # a name one byte longer than any present: must be not-found, then created
                q = b"/" + name + b"kk"
                ops += [("g", q, None), ("I", q, None), ("nG", q, None), ("U", q, ("i", 7)), ("G", q, None)]
            out.append((mk_line(tree, ops), {"kind": "length-sweep"}))
        # shape 2: "/a/<idx>/" + name, and "/" + name + "/<idx>" (the "%s/%d" shape), total L bytes
        if 6 <= L and not big:
            n = L - 5
            name = b"q" * n
            inner = ("o", [(name, ("i", L)), (name[:-1], ("i", -1)), (name + b"q", ("i", -2))])
            tree = ("o", [(b"a", [None, inner])])
            p = b"/a/1/" + name
            ops = [(k, p, None) for k in ("g", "G", "I", "J", "H")]
            ops += [("U", p, ("i", 5)), ("J", p, None)]
            out.append((mk_line(tree, ops), {"kind": "length-sweep"}))
            n2 = L - 3
            name2 = b"z" * n2
            tree2 = ("o", [(name2, [("i", 0), ("i", L)]), (name2[:-1], [("i", -1), ("i", -1)]), (name2 + b"z", [("i", -2), ("i", -2)])])
            p2 = b"/" + name2 + b"/1"
            ops2 = [(k, p2, None) for k in ("g", "D", "G", "I")]
            ops2 += [("E", p2, ("i", 6)), ("D", p2, None), ("E", b"/" + name2 + b"/2", ("i", 8)), ("D", b"/" + name2 + b"/2", None)]
            out.append((mk_line(tree2, ops2), {"kind": "length-sweep"}))
        # shape 3: a chain of one-byte names, "/a/a/…" of L bytes (L even), up to 200 levels
        if 2 <= L <= 400 and L % 2 == 0:
            depth = L // 2
            t = ("i", L)
            for _ in range(depth):
                t = ("o", [(b"a", t), (b"b", None)])
            p = b"/a" * depth
            ops = [(k, p, None) for k in ("g", "G", "I", "J")]
            ops += [("V", p, ("i", 9)), ("H", p, None), ("g", p + b"/a", None), ("G", p[:-1] + b"b", None)]
            out.append((mk_line(t, ops), {"kind": "length-sweep"}))
    return out


# ------------------------------------------------------------------ generator
ADV_KEYS = [b"", b"a", b"b", b"/", b"~", b"~0", b"~1", b"~01", b"~10", b"~2", b"~~", b"a/b", b"m~n", b"x~1y", b"x/y", b"~/",
            b"0", b"1", b"2", b"01", b"00", b"-", b"10", b"+1", b" ", b"%s", b"a%d", b"%", b"//", b"a/", b"/a", b"~0~1", b"~1~0",
            b"\xc3\xa9", b"18446744073709551616", b"k" * 33]
BIG = [2**31 - 1, 2**31, 2**32 - 1, 2**32, 2**32 + 1, 2**61 - 2, 2**61 - 1, 2**61, 2**63, 2**64 - 2, 2**64 - 1, 2**64, 2**64 + 1,
       10**20, 10**25, 99999999999999999999999]


def esc(k):
    return k.replace(b"~", b"~0").replace(b"/", b"~1")


def gen_leaf(rng):
    r = rng.random()
    if r < 0.30:
        return None
    if r < 0.55:
        return ("i", rng.choice([0, 1, 7, -1, 42, 2**40]))
    if r < 0.70:
        return rng.choice([b"", b"s", b"/a", b"~0"])
    if r < 0.80:
        return rng.random() < 0.5
    if r < 0.88:
        return ("u", rng.choice([0, 2**64 - 1]))
    if r < 0.94:
        return ("d", jvtext.dbits(rng.choice([0.5, -1.0, 1e100])), None)
    return ("o", []) if rng.random() < 0.5 else []


def gen_ptr_tree(rng, depth, width):
    r = rng.random()
    if depth <= 0 or r < 0.25:
        return gen_leaf(rng)
    n = rng.randint(0, width)
    if r < 0.60:
        ms, seen = [], set()
        for _ in range(n):
            rr = rng.random()
            if rr < 0.82:
                k = rng.choice(ADV_KEYS)
            elif rr < 0.87:
                # a long name: the escaped token / the pointer crosses a power-of-two length
                ln = max(1, rng.choice(LONG_EDGES) + rng.choice([-2, -1, 0, 0, 1]))
                unit = rng.choice([b"k", b"k", b"~", b"/", b"k~/", b"%s", b"0"])
                k = (unit * ln)[:ln]
            else:
                k = bytes(rng.choice(b"ab/~01-") for _ in range(rng.randint(0, 4)))
            if k in seen:
                continue
            seen.add(k)
            ms.append((k, gen_ptr_tree(rng, depth - 1, width)))
        return ("o", ms)
    return [gen_ptr_tree(rng, depth - 1, width) for _ in range(n)]


def locations(t, pre=()):
    """every node with the raw (escaped) tokens that lead to it"""
    yield pre, t
    if is_obj(t):
        for k, v in t[1]:
            yield from locations(v, pre + (esc(k),))
    elif isinstance(t, list):
        for i, v in enumerate(t):
            yield from locations(v, pre + (b"%d" % i,))


def node_of(t, toks):
    r = rfc_get(t, b"".join(b"/" + x for x in toks))
    return None if r is None else r[1]


def damage(rng, tree, toks):
    """one malformed / dangling variant of a valid token list; returns pointer bytes"""
    toks = list(toks)
    good = b"".join(b"/" + x for x in toks)
    parent = node_of(tree, toks[:-1]) if toks else None
    m = rng.randrange(20)
    if m == 0:
        return good[1:] if good else b"a"                      # no leading '/'
    if m == 1:
        return good + b"/"                                     # trailing empty token
    if m == 2:
        j = rng.randint(0, len(toks)) if toks else 0
        return b"".join(b"/" + x for x in toks[:j] + [b""] + toks[j:])   # '//' somewhere
    if m == 3:
        return good + rng.choice([b"~", b"~2", b"/~", b"/~2", b"~x", b"/a~"])
    if m == 4 and toks:
        toks[-1] = toks[-1] + rng.choice([b"~", b"~2", b"~~"])
        return b"".join(b"/" + x for x in toks)
    if m == 5 and toks and isinstance(parent, list):
        toks[-1] = rng.choice([b"0" + toks[-1], b"00", b"+" + toks[-1], b" " + toks[-1], toks[-1] + b" ", b"-" + toks[-1], b"0x1", b"1e0", b"1.0"])
        return b"".join(b"/" + x for x in toks)
    if m == 6 and toks and isinstance(parent, list):
        toks[-1] = rng.choice([b"-", b"%d" % len(parent), b"%d" % (len(parent) + 1), b"", b"~0", b"~1"])
        return b"".join(b"/" + x for x in toks)
    if m == 7 and toks and isinstance(parent, list):
        toks[-1] = b"%d" % rng.choice(BIG)
        return b"".join(b"/" + x for x in toks)
    if m == 8:
        return good + b"/" + rng.choice([b"0", b"a", b"-", b"", b"1", b"~0", b"~1", b"00"])   # below a node
    if m == 9 and toks:
        # the member name as it is, not escaped
        toks[-1] = unescape(toks[-1])
        return b"".join(b"/" + x for x in toks)
    if m == 10 and toks:
        # escapes in the wrong order / doubled
        toks[-1] = toks[-1].replace(b"~0", b"~00").replace(b"~1", b"~01") if rng.random() < 0.5 else toks[-1].replace(b"~1", b"~0").replace(b"/", b"~1")
        return b"".join(b"/" + x for x in toks)
    if m == 11 and toks:
        toks[-1] = esc(toks[-1])                               # escaped twice
        return b"".join(b"/" + x for x in toks)
    if m == 12 and len(toks) >= 2:
        del toks[rng.randrange(len(toks) - 1)]                 # a level skipped
        return b"".join(b"/" + x for x in toks)
    if m == 13 and toks:
        toks[rng.randrange(len(toks))] = esc(rng.choice(ADV_KEYS))
        return b"".join(b"/" + x for x in toks)
    if m == 14 and toks:
        toks[rng.randrange(len(toks))] = rng.choice([b"0", b"1", b"2", b"3", b"", b"-"])
        return b"".join(b"/" + x for x in toks)
    if m == 15:
        return rng.choice([b"/", b"//", b"///", b"~", b"0", b"-", b"/-", b"/0", b"/~0", b"/~1", b"/~01", b"/~", b"/~2", b"/%s", b"%s", b"/%d%%"])
    if m == 16 and toks:
        toks[-1] = toks[-1] + rng.choice([b"0", b"a", b" "])   # a neighbour that does not exist
        return b"".join(b"/" + x for x in toks)
    if m == 17 and good:
        j = rng.randrange(len(good))
        return good[:j] + good[j + 1:]                         # one byte dropped
    if m == 18 and good:
        j = rng.randrange(len(good) + 1)
        return good[:j] + bytes([rng.choice(b"/~01-a%")]) + good[j:]   # one byte inserted
    return good + b"/" + esc(rng.choice(ADV_KEYS))             # a member that may not exist


def gen_value(rng):
    r = rng.random()
    if r < 0.2:
        return None
    if r < 0.75:
        return gen_leaf(rng)
    return gen_ptr_tree(rng, 1, 2)


WITNESSES = [
    # (tree, ops) — the inputs of the four repaired deviations (regression cases)
    (("o", [(b"a", [None])]), [("g", b"/a/0", None)]),                                   # get_null_target
    ([None, ("i", 1)], [("G", b"/0", None)]),
    (("o", [(b"a", [("i", 7)])]), [("g", b"/a/", None)]),                                # empty_index_token
    (("o", [(b"a", [("i", 7)])]), [("s", b"/a/", ("i", 9))]),
    ([("i", 7)], [("S", b"/", ("i", 9))]),
    (("o", []), [("s", b"/x~1y", ("i", 1)), ("g", b"/x~1y", None)]),                     # set_last_token_not_unescaped
    (("o", [(b"m~n", ("i", 8))]), [("T", b"/m~0n", ("i", 9)), ("g", b"/m~0n", None)]),
    (("o", [(b"~2", ("i", 1))]), [("g", b"/~2", None)]),                                 # invalid_escape_accepted
    (("o", [(b"~", ("i", 1))]), [("H", b"/~", None)]),
    (("o", []), [("s", b"/b~", ("i", 5))]),
    # a failed call changes nothing the caller can see: every entry point, every kind of failure
    (("o", [(b"a", [("i", 1)]), (b"b", None)]),
     [(k, p, None) for p in (b"/x", b"/a/1", b"/a/01", b"/a/-", b"/b/c", b"a", b"/a~", b"/a/0/z") for k in ("g", "G", "H", "I", "J", "D", "ng", "nG")]),
    (("o", [(b"a", [("i", 1)])]),
     [(k, p, ("i", 2)) for p in (b"/x/y", b"/a/x", b"a", b"/a/0/z", b"/a/01") for k in SET_KINDS]
     + [("s", b"", ("i", 3)), ("g", b"", None), ("S", b"", None), ("G", b"", None), ("V", b"", None), ("s", b"/a", ("i", 1))]),
]


# ------------------------------------------------------------------ working-copy sweep (get / set / setf)
def copy_sweep_cases(tier):
    """json_pointer_get_internal and json_pointer_set_with_array_cb each make their own working
    copy of the pointer (set cuts it at the last '/').  For every total pointer length 0..300 and
    1020..1030, five pointer shapes through json_pointer_get, json_pointer_set and a rotating
    json_pointer_setf shape, with the lookup after each set.  Next to every addressed name sits
    the name minus its last byte, so a pointer that loses a byte addresses the wrong node."""
    out = []
    meta = {"kind": "copy-sweep"}
    n = 0

    def emit(tree, p, q=None):
        nonlocal n
        f = F_SET[n % 5]
        n += 1
        ops = [("g", p, None), ("ng", p, None), ("s", p, ("i", 1000 + n)), ("g", p, None), (f, p, ("o", [])), ("g", p, None)]
        if q is not None:
            ops += [("g", q, None), ("s", q, ("i", 7)), ("g", q, None), (F_SET[(n + 2) % 5], q, None), ("g", q, None)]
        out.append((mk_line(tree, ops), meta))

    for L in list(range(0, 301)) + list(range(1020, 1031)):
        # E: one long member name
        if L >= 2:
            name = b"k" * (L - 1)
            emit(("o", [(name, ("i", L)), (name[:-1], ("i", -1))]), b"/" + name, b"/" + name + b"k")
        elif L == 0:
            emit(("o", [(b"", ("i", 0))]), b"", None)
        else:
            emit(("o", [(b"", ("i", 0)), (b"k", ("i", 1))]), b"/", b"/k")
        # A: the pointer ends in an escape: "~0" and "~1"
        if L >= 3:
            stem = b"e" * (L - 3)
            for tail, ch in ((b"~0", b"~"), (b"~1", b"/")):
                members = [(stem + ch, ("i", L)), (stem, ("i", -1)), (stem + tail, ("i", -2))]
                if ch != b"~":
                    members.append((stem + b"~", ("i", -3)))
                tree = ("o", members)
                emit(tree, b"/" + stem + tail, b"/" + stem + tail + tail)
        # B: a long parent, a one-byte last token (set cuts the copy at the last '/')
        if L >= 4:
            par = b"p" * (L - 3)
            tree = ("o", [(par, ("o", [(b"b", ("i", L)), (b"", ("i", -1))])), (par[:-1], ("o", [(b"b", ("i", -2))]))])
            emit(tree, b"/" + par + b"/b", b"/" + par + b"/c")
        # C: an array index as last token: /aaa…/10 into a 12-element array
        if L >= 5:
            par = b"a" * (L - 4)
            arr = [("i", i) for i in range(12)]
            tree = ("o", [(par, arr), (par[:-1], [("i", -i) for i in range(12)])])
            emit(tree, b"/" + par + b"/10", b"/" + par + b"/12")
        # D: three nested names adding up to the length
        if L >= 6:
            body = L - 3
            l1 = body // 3
            l2 = body // 3
            l3 = body - l1 - l2
            n1, n2, n3 = b"x" * l1, b"y" * l2, b"z" * l3
            leaf = ("o", [(n3, ("i", L)), (n3[:-1], ("i", -1))])
            tree = ("o", [(n1, ("o", [(n2, leaf), (n2[:-1], None)])), (n1[:-1], None)]) if l1 >= 1 else None
            if tree is not None and len({n2, n2[:-1]}) == 2 and len({n1, n1[:-1]}) == 2 and len({n3, n3[:-1]}) == 2:
                emit(tree, b"/" + n1 + b"/" + n2 + b"/" + n3, b"/" + n1 + b"/" + n2 + b"/" + n3 + b"z")
    return out


# ------------------------------------------------------------------ small-scope enumeration
SS_ALPHABET = b"/~01a-"      # split | escape | escape digit, index digit, leading zero | digit 1 | plain name | append
F_GET = "GHIJD"
F_SET = "STUVE"


def small_docs():
    """tiny documents in which every byte of SS_ALPHABET selects a different branch: members
    named by what short tokens unescape to, null members and elements, one- and two-digit
    indices, nesting of both container kinds, a scalar and the NULL root"""
    d_obj = ("o", [(b"", ("i", 1)), (b"a", [("i", 10), None, ("o", [(b"a", ("i", 12))])]), (b"~", ("i", 2)), (b"/", ("i", 3)),
                   (b"0", ("o", [(b"", None), (b"0", [])])), (b"1", ("i", 4)), (b"-", ("i", 5)), (b"~0", ("i", 6)), (b"~1", ("i", 7)),
                   (b"01", ("i", 8)), (b"a/", ("i", 9)), (b"00", ("i", 11)), (b"10", ("i", 13))])
    d_arr = [("o", [(b"", ("i", 1)), (b"a", ("i", 2)), (b"0", [("i", 3)])]), None, [("i", 20), None, [("i", 22)]], b"s",
             ("i", 4), ("i", 5), ("i", 6), ("i", 7), ("i", 8), ("i", 9), [("i", 100)], ("o", [(b"-", ("i", 11))])]
    d_nest = [[[[("i", 0), ("i", 1)], []], None], [("o", [(b"0", [("i", 1)]), (b"~", None)])]]
    return [d_obj, d_arr, d_nest, ("i", 5), None]


def small_scope(tier):
    """(1) every pointer string of <= 4 (thorough: 5) bytes over SS_ALPHABET against the five
    small documents, through get, a getf shape, get with res == NULL, set, the lookup after
    it, setf of JSON null and the lookup after that;
    (2) every history of <= 3 (thorough: 4) operations over an alphabet of 24 operations on
    {"a":[1]}: lookup and three sets (int, empty object, null) at the root, a member, an
    element, the append token, an index beyond the end and a place below a missing member."""
    import itertools
    out = []
    meta = {"kind": "small-scope"}
    maxlen = 4 if tier == "quick" else 5
    docs = small_docs()
    n = 0
    for ln in range(0, maxlen + 1):
        for tup in itertools.product(SS_ALPHABET, repeat=ln):
            p = bytes(tup)
            for doc in docs:
                fg, fs = F_GET[n % 5], F_SET[n % 5]
                n += 1
                ops = [("g", p, None), (fg, p, None), ("ng", p, None), ("s", p, ("i", 7)), ("g", p, None),
                       (fs, p, None), (F_GET[(n + 2) % 5], p, None)]
                out.append((mk_line(doc, ops), meta))
    base = ("o", [(b"a", [("i", 1)])])
    ptrs = [b"", b"/a", b"/a/0", b"/a/-", b"/a/2", b"/b/c"]
    vals = [("i", 7), ("o", []), None]
    alphabet = []
    for i, p in enumerate(ptrs):
        alphabet.append(("g" if i % 2 == 0 else F_GET[i % 5], p, None))
        for j, v in enumerate(vals):
            alphabet.append(("s" if (i + j) % 2 == 0 else F_SET[(i + j) % 5], p, v))
    depth = 3 if tier == "quick" else 4
    for ln in range(1, depth + 1):
        for seq in itertools.product(alphabet, repeat=ln):
            out.append((mk_line(base, list(seq)), meta))
    return out


LONG_EDGES = [15, 16, 17, 31, 32, 63, 64, 65, 126, 127, 128, 129, 255, 256, 257, 511, 512, 513, 1023, 1024, 1025]


def gen(rng, tier):
    n = 5000 if tier == "quick" else 120000
    out = [(mk_line(t, ops), {"kind": "witness"}) for t, ops in WITNESSES]
    out += length_cases(tier)
    out += copy_sweep_cases(tier)
    out += small_scope(tier)
    for ci in range(n):
        r = rng.random()
        if r < 0.04:
            tree = gen_leaf(rng)
        else:
            tree = gen_ptr_tree(rng, rng.choice([1, 2, 2, 3, 3, 4]), rng.choice([2, 3, 4, 5]))
            if not (is_obj(tree) or isinstance(tree, list)) and rng.random() < 0.8:
                tree = ("o", [(rng.choice(ADV_KEYS), tree)])
        cur = tree
        ops = []
        kinds = set()
        for _ in range(rng.randint(1, 8)):
            locs = list(locations(cur))
            toks, node = rng.choice(locs)
            good = rng.random() < 0.55
            p = b"".join(b"/" + x for x in toks) if good else damage(rng, cur, toks)
            if len(p) > 20000:
                p = p[:20000]
            if b"\0" in p:
                p = p.replace(b"\0", b"a")
            if rng.random() < 0.55:
                k = rng.choice("gggGHIJD")
                if rng.random() < 0.2:
                    k = "n" + k                                    # res == NULL: existence test
                ops.append((k, p, None))
                kinds.add("get-valid" if good else "get-damaged")
            else:
                k = rng.choice("sssSTUVE")
                v = gen_value(rng)
                sp = p
                if good and rng.random() < 0.5:
                    # a new place under a container: new member / index len, len+k, "-"
                    if is_obj(node):
                        sp = p + b"/" + esc(rng.choice(ADV_KEYS))
                    elif isinstance(node, list):
                        sp = p + b"/" + rng.choice([b"-", b"%d" % len(node), b"%d" % (len(node) + rng.randint(1, 3)), b"0"])
                ops.append((k, sp, v))
                kinds.add("set-valid" if good else "set-damaged")
                if rng.random() < 0.7:
                    ops.append((rng.choice(["g", "g", "G", "H", "I", "J", "D", "ng", "nG"]), sp, None))     # a following lookup of the same pointer
                # continue on the tree the RFC placement gives (only to aim later pointers)
                nxt = rfc_set(cur, sp, v)
                if nxt is not FAIL and nxt is not HUGE:
                    cur = nxt
        kind = "+".join(sorted(kinds))
        out.append((mk_line(tree, ops), {"kind": kind}))
    return out


def shrink(ck, line, cls):
    import fw
    tree, ops = parse_line(line)

    def fails_line(l):
        m, c, _ = ck.run_pair([l], "shrink")
        v = oracle(l, {}, c.get(1, "MISSING"))
        return v is not None and v[0] == cls

    small = fw.ddmin(ops, lambda sub: fails_line(mk_line(tree, sub)), budget=40) if len(ops) > 1 else ops
    if not fails_line(mk_line(tree, small)):
        small = ops
    # then drop members / trailing elements of the tree that the failure does not need
    def prune(t, path=()):
        """candidate trees with one child removed (members anywhere, array elements only at the end)"""
        if is_obj(t):
            for j in range(len(t[1])):
                yield ("o", t[1][:j] + t[1][j + 1:])
            for j, (k, v) in enumerate(t[1]):
                for c in prune(v):
                    yield ("o", t[1][:j] + [(k, c)] + t[1][j + 1:])
        elif isinstance(t, list):
            if t:
                yield t[:-1]
            for j, v in enumerate(t):
                for c in prune(v):
                    yield t[:j] + [c] + t[j + 1:]
    budget = 60
    progress = True
    while progress and budget > 0:
        progress = False
        for cand in prune(tree):
            budget -= 1
            if budget <= 0:
                break
            if fails_line(mk_line(cand, small)):
                tree = cand
                progress = True
                break
    return mk_line(tree, small)


def search(rng, broken_lines):
    return gen(rng, "quick")[:1500]


LEVEL_TEXT = ("Machine-checked (Coq, no axioms): a Gallina model that follows json_pointer.c statement by statement (in-place '~1'-then-'~0' "
              "replacement, is_valid_escaping, is_valid_index with its fast path / empty-token / leading-zero tests / strtoull saturation, the "
              "recursive walk, the unescaped last token of set, errno values) is compared with an independent RFC 6901 evaluator.  Proved for "
              "all byte strings: two-pass unescaping = single-pass unescaping; is_valid_escaping = the RFC token syntax.  Proved for all trees and "
              "all pointer strings at full strength: lookup = RFC evaluation (same location, same node, JSON null members and elements "
              "included) and returns the node at the reported location, errors are ENOENT/EINVAL, set = RFC placement, set changes no other "
              "location (frame), a following lookup returns the value set, the printf variants equal the plain ones.  The four deviations of "
              "the original code were repaired in /repo (fix: commits) and their witnesses are now positive examples.  The model is tied to "
              "json_pointer.c on every run by differential execution of the extracted model and the ASan/UBSan build; the Python RFC 6901 "
              "oracle judges the implementation independently of the model.")
LEVEL_NOTE = ("Trusted: Coq kernel; extraction + OCaml glue; harness; vasprintf; the Python oracle.  The theorems are about the Gallina model; "
              "the C code is tied to it only by the checked correspondence (sampled trees and pointers, not all).  Side conditions of the "
              "theorems: the tree given to get is not the NULL pointer (API domain); arrays on the walk are no longer than SIZE_MAX "
              "(representation bound); '-' appends and is never a lookup target.  Allocation failure inside object insertion / the key copy "
              "of set is not modelled (C08).")
