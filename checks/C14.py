"""C14 — parse/serialize are locale-independent and leave the caller's locale untouched.

Three pieces:
 (A) tr/locale_exits.py regenerates coq/theories/LocaleExits.v from the preprocessed
     json_tokener.c on every run (coq_extra): every exit of json_tokener_parse_ex with the
     locale-protocol events on the path to it; the theorems of Properties_C14.v are re-checked
     against that list.
 (B) Coq: LocaleModel.v / LocaleProofs.v (serializer fix-up; locale protocol).
 (C) runtime stream `loc`: every case runs under the C locale, a synthesised comma-decimal
     locale installed process-wide (setlocale) and the same installed per thread (uselocale),
     inside one script line; the direct oracle demands byte-identical data, untouched locale
     (handle, decimal point, printf("%f")) and created == released locale objects.
"""
import os, subprocess, sys
sys.path.insert(0, os.path.join(os.path.dirname(os.path.abspath(__file__)), "..", "lib"))
sys.path.insert(0, os.path.join(os.path.dirname(os.path.abspath(__file__)), "..", "tr"))
import fw, jsongen, jvtext
import locale_exits

PROP = "C14"
DOMAIN = "loc"
LEVEL = "proof"
TECHNIQUE = ("source->Gallina translator (all exits of json_tokener_parse_ex with their locale-protocol paths, regenerated every run) "
             "+ Coq proofs over the regenerated list (by computation) and of the serializer's comma fix-up (for all %.17g shapes) "
             "+ runtime stream under a synthesised comma-decimal locale installed globally and per thread")
RULE = ("texts with non-integers (fractions, exponents, numeric strings, commas as separators) rendered from seeded syntax trees, "
        "a table of texts reaching every outcome class of the parser (success, continue by chunking, each error kind incl. depth, "
        "size with len<-1, utf8, memory by failing duplocale/newlocale) and a fixed table of every argument shape of a call/feed "
        "(len==0 chunks first/between/last/alone/repeated, empty C string, calls after success, after error+reset, explicit resets), "
        "random call histories over slices, mutated texts, random chunkings/flags/depths; trees with "
        "finite doubles of every %.17g shape, NaN/Infinity, retained-text doubles x serializer flags x serializer configurations (custom "
        "double format set globally / per thread / per object, json_object_set_double, resets to the default: a fixed table of 35 formats, 9 of which snprintf rejects (failing serializations), "
        "x 6 ways + random combinations); numeric strings for "
        "json_object_get_double; concurrent threads (2..6; thread-specific comma next to C, process-wide comma next to uselocale(C)) each "
        "serialising and parsing+re-serialising a private tree, every text compared with the single-threaded C-locale text.  "
        "Each sequential case runs under C / global comma / per-thread comma in one line.  Non-trivial = the data "
        "contains a non-integer or the outcome is not success; distinct by script line")
TRUSTED = ["Coq 8.16.1 kernel (coqc; vm_compute over the regenerated exit list), no axioms",
           "tr/locale_exits.py (lexer + structural recognition of the locale block; fails loudly on any other shape) and gcc -E",
           "extraction (ExtrOcamlBasic only) + ocaml/drv_loc.ml glue",
           "harness/drv_loc.c (compile-time interposition of duplocale/newlocale/freelocale/uselocale for json_tokener.c), "
           "localedef-built xx_COMMA locale, glibc locale machinery, gcc -fsanitize=address,undefined"]
ASSUMPTIONS = ["snprintf(\"%.17g\") under a comma-decimal locale differs from the C-locale text only in the separator byte "
               "(no thousands grouping without the ' flag; single-byte separator ',') — hypothesis of C14_ser_locale_indep, "
               "checked at run time on every generated double",
               "duplocale fails only with ENOMEM (POSIX); newlocale(mask,\"C\",base) absorbs base on success and leaves it untouched on failure",
               "a numeric locale whose \"C\" category is in effect makes strtod accept exactly '.' (glibc)",
               "functions called from json_tokener_parse_ex do not themselves change the locale (none of json-c's do: grep in the translator's scope is the function body only)"]
LEVEL_TEXT = ("Machine-checked (Coq, no axioms): (1) for every %.17g output shape (sign, digits, optional separator+digits, optional exponent) and "
              "separator in {',', '.'} the serializer's fix-up as written turns the text into the C-locale text, hence the whole number text "
              "(with the \".0\" suffix, NOZERO trimming, NaN/Infinity) is independent of the locale, under the stated hypothesis that snprintf "
              "differs between the locales only in the separator byte; (2) over the list of ALL exits of json_tokener_parse_ex — regenerated from "
              "the preprocessed source on every run, a finite and complete enumeration — every exit behind the locale switch passes the restore "
              "statement, every exit releases every locale object created on its path (incl. freelocale(duploc) when newlocale fails), and running "
              "the protocol model along each exit's path, for both entry locales and every open outcome of duplocale/newlocale, ends with the "
              "thread locale = entry locale, no live object, nothing undefined, the body (strtod) having run under numeric locale \"C\".")
LEVEL_NOTE = ("Partial: glibc's locale machinery (what uselocale/newlocale/strtod/snprintf really do) is outside the model and enters as stated "
              "hypotheses; the exit enumeration is complete for the current source and configuration (HAVE_USELOCALE+HAVE_DUPLOCALE here; the "
              "setlocale fallback is recognised by the translator but not the configuration in effect); the paths are straight-line "
              "reconstructions whose structural side conditions (unconditional switch/restore, no goto across them, events only at top level or "
              "in `if` blocks ending in return) are checked by the translator, not proved; the runtime stream ties the model to the code on sampled "
              "inputs under a synthesised comma locale, including injected duplocale/newlocale failures.")

GET_DOUBLE_STRING_IN_SCOPE = False   # json_object_get_double(string) calls strtod in the CALLER's locale: locale-dependent, but it is
                                     # neither parse nor serialize — recorded as an adjacent observation (see extra_coverage), not a C14 violation

LOCDIR = os.path.join(fw.BUILD, "locale")
LOCNAME = "xx_COMMA"
STRICT, TRAILING, UTF8 = 1, 2, 16
SER_FLAGS = [0, 1, 2, 4, 2 | 4, 1 | 4, 2 | 8, 16, 32 | 2, 1 | 2 | 4 | 16]

# double formats a caller can put in effect (one floating conversion, literal text without ',' and without a '.'
# before the number: the class covered by C14_ser_fmt_locale_indep)
FORMATS = [b"%.17g", b"%g", b"%G", b"%e", b"%E", b"%f", b"%.0f", b"%.1f", b"%.3f", b"%.15g", b"%.20g", b"%10.3f", b"%-12.4f|", b"%+.2f",
           b"% .3f", b"%#g", b"%#.0f", b"%08.2f", b"%.30f", b"%.120f", b"%a", b"x%.2fy", b"%.3f%%", b"%.1f.5", b"%5.0f", b"%.2e"]
# formats snprintf REJECTS (width/precision does not fit an int: -1/EOVERFLOW before any argument is read; incomplete
# specification) or echoes (unknown conversion): the serialization fails (NULL) or prints no number — the FAILING paths of
# the serializer, which must leave the caller's locale alone like the succeeding ones.  (No format that makes printf read
# an argument of another type: %d %s %c %*f would print register garbage or crash — caller errors, not covered.)
FAILING_FORMATS = [b"%.99999999999f", b"%99999999999f", b"%99999999999d", b"%2147483648f", b"%", b"%5", b"%.", b"%y", b"x%.99999999999e"]
FORMATS += FAILING_FORMATS
# formats outside that class (a literal ',' of their own / a literal '.' before the number): observed, gated by the flag below
EXOTIC_FORMATS = [b"x,%.2f", b"%.2f,%%", b"v.%.1f", b"%.1f,%.1f"]
EXOTIC_FORMAT_IN_SCOPE = False   # see extra_coverage(): adjacent observation `serialize-format-literal-separator`


def format_is_exotic(fmt):
    import re
    m = re.search(rb"%[-+ #0']*\d*(?:\.\d+)?[feEgGaA]", fmt)
    lit = re.sub(rb"%[-+ #0']*\d*(?:\.\d+)?[feEgGaA]|%%", b"\0", fmt)
    before = fmt[:m.start()] if m else fmt
    return b"," in lit or b"." in before


def cfg_formats(cfg):
    """the formats named in a serializer configuration"""
    out = []
    for it in (cfg or "-").split(","):
        if it and it[0] in "GTO" and it[1:] not in ("0", ""):
            try:
                out.append(bytes.fromhex(it[1:]))
            except ValueError:
                pass
    return out


def ser_cfg(rng, exotic=False):
    """a serializer configuration: global / per-thread / per-object double format, set_double, resets"""
    def f():
        return hx(rng.choice(EXOTIC_FORMATS if exotic else FORMATS))
    shape = rng.choice(["G", "T", "O", "GT", "TG", "GO", "TO", "GD", "TD", "OD", "DO", "D", "G0", "T0G", "GTO", "O0G"])
    items = []
    for ch in shape:
        if ch == "0":
            items.append(items.pop()[0] + "0")
        elif ch == "D":
            items.append("D")
        else:
            items.append(ch + f())
    return ",".join(items)


STATE = dict(translator=None, outcomes={}, adjacent=[], sep_checked=0, table_mismatch=[], oracle_checked=0, empty_calls=0, exotic=[], ser_cfgs=0, thread_texts=0)


def ensure_locale():
    """build the comma-decimal locale lazily (tools/setup_extra.sh does the same at `make setup`)"""
    d = os.path.join(LOCDIR, LOCNAME)
    if os.path.exists(os.path.join(d, "LC_NUMERIC")):
        return
    os.makedirs(LOCDIR, exist_ok=True)
    tmp = "%s.tmp.%d" % (d, os.getpid())
    src = os.path.join(fw.VERIF, "harness", "locale")
    r = fw.sh(["localedef", "-c", "-i", os.path.join(src, "xx_COMMA.src"), "-f", os.path.join(src, "ASCII.charmap"), tmp])
    if not os.path.exists(os.path.join(tmp, "LC_NUMERIC")):
        raise fw.Infra("localedef could not build the comma-decimal locale:\n" + r.stdout[-1500:])
    try:
        os.rename(tmp, d)
    except OSError:
        import shutil
        shutil.rmtree(tmp, ignore_errors=True)


# the drivers inherit the environment of this process (fw.run_script copies os.environ)
os.environ["LOCPATH"] = LOCDIR


def coq_extra():
    """regenerate LocaleExits.v from the working tree; the theorem files are re-checked against it"""
    ensure_locale()
    ok, msg, exits, info = locale_exits.regenerate(fw.REPO, fw.ensure_cfg())
    STATE["translator"] = dict(ok=ok, message=msg, info={k: (v if not isinstance(v, dict) else dict(v)) for k, v in info.items()},
                               exits=[dict(line=x["line"], kind=x["kind"], after_switch=x["after_switch"], restores=x["restores"],
                                           frees_created=x["frees_created"], path=[locale_exits.coq_ev(p) for p in x["path"]]) for x in exits])
    for f, ln, name in (info.get("stray") or []):
        print("TRANSLATOR: %s:%d calls %s() outside json_tokener_parse_ex: a library function other than the parser touches the locale" % (f, ln, name))
    if not ok:
        print("TRANSLATOR: the shape of json_tokener_parse_ex's locale handling is not recognised: %s" % msg)
    else:
        bad = [x for x in exits if (x["after_switch"] and not x["restores"]) or not x["frees_created"]]
        for x in bad:
            print("TRANSLATOR: exit at json_tokener.c:%d (%s) %s: path %s" % (
                x["line"], x["kind"],
                "skips the locale restore" if (x["after_switch"] and not x["restores"]) else "leaves a created locale object alive",
                " ".join(locale_exits.coq_ev(p) for p in x["path"])))
    # LocaleExits.vo itself is rebuilt by the framework's `make Properties_C14.vo`; re-running LocaleProofs.v prints the failing theorem
    return ["theories/LocaleProofs.v"]


# ------------------------------------------------------------------ generator
def hx(b):
    return b.hex() if b else "-"


def pline(text, flags=0, depth=32, chunks="Z", fault=0):
    return "loc P %s %d %d %s %d" % (hx(text), flags, depth, chunks, fault)


# texts that reach every outcome class; each has a non-integer before the point of failure
OUTCOME_TABLE = [
    ("success", b'[1.5,-2.25e-3,{"a":0.1}]', 0, 32, "Z"),
    ("success", b'1.5', 0, 32, "Z"),
    ("success", b'{"pi":3.141592653589793,"big":1e308,"tiny":4.9e-324,"s":"1,5"}', STRICT, 32, "Z"),
    ("continue", b'[1.5,2.5', 0, 32, "-"),
    ("continue", b'[1.5,2.5', 0, 32, "k3,5"),
    ("continue", b'1.5', 0, 32, "-"),
    ("depth", b'[1.5,[2.5,[3.5]]]', 0, 2, "Z"),
    ("eof", b'[1.5,2.5', 0, 32, "Z"),
    ("unexpected", b'[1.5,}', 0, 32, "Z"),
    ("unexpected", b'[1.5] x', STRICT, 32, "Z"),
    ("null", b'[1.5,nul]', 0, 32, "Z"),
    ("boolean", b'[1.5,tru]', 0, 32, "Z"),
    ("number", b'[1.5,1.5.5]', 0, 32, "Z"),
    ("number", b'[1.5,-]', 0, 32, "Z"),
    ("array", b'[1.5 2.5]', 0, 32, "Z"),
    ("object_key_name", b'{"a":1.5,b:2}', STRICT, 32, "Z"),
    ("object_key_sep", b'{"a":1.5,"b" 2.5}', 0, 32, "Z"),
    ("object_value_sep", b'{"a":1.5 "b":2.5}', 0, 32, "Z"),
    ("string", b'[1.5,"\\q"]', 0, 32, "Z"),
    ("comment", b'[1.5,/x]', 0, 32, "Z"),
    ("utf8", b'[1.5,"\xff"]', UTF8, 32, "Z"),
    ("utf8", b'[1.5,"\xc3', UTF8, 32, "-"),
    ("size", b'[1.5]', 0, 32, "N2"),
    ("size", b'[1.5]', 0, 32, "N2147483647"),
    # the decimal comma must stay a separator of JSON, in every locale
    ("success", b'[1,5]', 0, 32, "Z"),
    ("success", b'1,5', 0, 32, "Z"),
    ("unexpected", b'1,5', STRICT, 32, "Z"),
    ("success", b'[1,5e3,2.5,3]', 0, 32, "Z"),
    ("object_key_name", b'{"a":1,5}', 0, 32, "Z"),   # after the comma a member name is expected
    ("success", b'[0.1,1e5,1E+5,1e-5,123456789.125,-0.0,1e400,-1e400,2.2250738585072014e-308]', 0, 32, "Z"),
]

NUMERIC_STRINGS = [b"1.5", b"1,5", b"-2.25e-3", b"1e3", b"0.1", b"1", b"", b"abc", b"1.5x", b" 1.5", b"0x1.8p0", b"inf", b"nan", b"1e400",
                   b"1.", b".5", b"1,", b"1.5,2", b"1,5.2", b"123456789.125", b"-0", b"+1.25"]


def num_text(rng):
    """a JSON text made mostly of non-integer number tokens"""
    n = rng.choice([1, 1, 2, 3, 5, 12])
    toks = [jsongen.gen_frac_token(rng) if rng.random() < 0.85 else jsongen.gen_int_token(rng) for _ in range(n)]
    shape = rng.random()
    if n == 1 and shape < 0.5:
        return toks[0]
    if shape < 0.7:
        return b"[" + rng.choice([b",", b", ", b" ,"]).join(toks) + b"]"
    return b"{" + b",".join(b'"k%d":' % i + t for i, t in enumerate(toks)) + b"}"


def chunk_spec(rng, n, nul=True, empties=None):
    """cut offsets; with `empties` (default: 1 case in 4) some offsets are 0, n or repeated, which gives calls
    with len == 0 at the start, in the middle and at the end of the feed"""
    if n < 2 and not empties:
        return "Z"
    k = rng.choice([2, 2, 3, 4, 6])
    cuts = jsongen.partitions(rng, n, k) if n >= 2 else []
    if empties is None:
        empties = rng.random() < 0.25
    if empties:
        for _ in range(rng.choice([1, 1, 2, 3])):
            cuts.append(rng.choice([0, n] + (cuts or [0])))
        cuts.sort()
    return ("c" if nul else "k") + ",".join(str(c) for c in cuts)


def history_spec(rng, n):
    """free-form call history over slices of the text (driver spec `h…`): in-order feeds with empty slices,
    calls after success (next document), calls after an error (the driver resets), NUL-terminated and
    len=-1 calls, negative lengths, explicit resets — every argument shape of json_tokener_parse_ex"""
    items = []
    pos = 0
    for _ in range(rng.choice([1, 2, 3, 5, 8])):
        r = rng.random()
        if r < 0.22:
            a = rng.choice([0, pos, n, rng.randint(0, n)])
            items.append("%d:%d" % (a, a))                       # len == 0
        elif r < 0.60:
            b = min(n, pos + rng.choice([1, 1, 2, 3, 5, n]))
            items.append("%d:%d%s" % (pos, b, "z" if (b == n and rng.random() < 0.6) else ""))
            pos = b if b < n else 0
        elif r < 0.72:
            a = rng.randint(0, n)
            items.append("%d:%d%s" % (a, n, rng.choice(["m", "z", ""])))
        elif r < 0.80:
            items.append("0:%dm" % n)
        elif r < 0.88:
            items.append("r")
        elif r < 0.94:
            items.append("n%d" % rng.choice([2, 3, 100, 2147483647]))
        else:
            items.append("0:0m")                                  # empty C string, len = -1
    return "h" + ",".join(items)


# argument shapes of a single call / of a feed that must be present in EVERY run (not left to the PRNG):
# len == 0 first / between / last / alone / repeated, empty C string, calls after success and after error+reset
def call_shape_table():
    out = []
    texts = [b'[1.5,2.5]', b'1.5', b'{"a":1.5e3}', b'[1.5] [2.5]', b'[1.5,tru]', b'']
    for text in texts:
        n = len(text)
        specs = ["-", "Z", "k0", "k%d" % n, "c0", "c%d" % n, "k0,0", "c0,0,%d,%d" % (n, n), "k%d,%d" % (n // 2, n // 2), "c%d,%d" % (n // 2, n // 2),
                 "h0:0", "h0:0,0:0", "h0:0m", "h0:0z", "h0:0,0:%dz,0:0" % n, "h0:%dz,0:0,0:%dz" % (n, n), "h0:%d,%d:%d,%d:%dz,%d:%d" % (n // 2, n // 2, n // 2, n // 2, n, n, n),
                 "h0:%dm,0:0,r,0:0,0:%dm" % (n, n), "hn2,0:0,0:%dz" % n, "hr,0:0,r,0:%dz,r,0:0" % n]
        for sp in specs:
            for fl in (0, STRICT):
                out.append((pline(text, fl, 32, sp, 0), {"kind": "call-shapes"}))
        for d in (1, 2):
            out.append((pline(text, 0, d, "h0:0,0:%dz,0:0" % n, 0), {"kind": "call-shapes"}))
        for fault in (1, 2):
            out.append((pline(text, 0, 32, "h0:0,0:%dz,0:0" % n, fault), {"kind": "call-shapes-fault"}))
    return out


def gen_double_tree(rng):
    """trees whose leaves are mostly doubles of every %.17g shape"""
    def dbl():
        r = rng.random()
        if r < 0.35:
            x = rng.choice(jvtext.DBL_EDGES) * rng.choice([1, -1])
            return ("d", jvtext.dbits(x), None)
        if r < 0.45:
            return ("d", rng.choice([0x7ff0000000000000, 0xfff0000000000000, 0x7ff8000000000000]), None)
        if r < 0.60:   # integral values (".0" suffix path), small and large
            x = float(rng.choice([0, 1, 3, 10, 100, 12345, 2**31, 2**53, 10**15, 10**16, 10**17, 10**22])) * rng.choice([1, -1])
            return ("d", jvtext.dbits(x), None)
        if r < 0.75:   # short decimals (trailing zeros never printed by %g; NOZERO path)
            x = rng.choice([0.5, 0.25, 0.125, 1.5, 2.75, 1234.5, 1e-5, 1.5e-7, 1.25e20, 1e21, 1e-300, 123456.789])
            return ("d", jvtext.dbits(x * rng.choice([1, -1])), None)
        if r < 0.85:   # retained text (what the parser attaches): printed verbatim
            t = jsongen.gen_frac_token(rng)
            v = jsongen.num_value(t)
            return ("d", v[1], t) if v[0] == "d" else ("d", jvtext.dbits(1.5), b"1.5")
        b = rng.getrandbits(64)
        if (b >> 52) & 0x7ff == 0x7ff:
            b &= ~(1 << 62)
        return ("d", b, None)

    def val(d):
        r = rng.random()
        if d > 0 and r < 0.25:
            return [val(d - 1) for _ in range(rng.randint(0, 5))]
        if d > 0 and r < 0.45:
            return ("o", [(b"k%d" % i, val(d - 1)) for i in range(rng.randint(0, 4))])
        if r < 0.55:
            return rng.choice([None, True, False, ("i", rng.choice(jvtext.INT_EDGES)), b"1,5", b"1.5", ("u", 2**64 - 1)])
        return dbl()
    return val(rng.choice([0, 0, 1, 2, 3]))


def gen(rng, tier):
    out = []
    # 1. every outcome class, under every fault-free setting + chunked replays
    for want, text, fl, depth, ch in OUTCOME_TABLE:
        out.append((pline(text, fl, depth, ch, 0), {"kind": "table-" + want, "want": want}))
        if ch == "Z" and len(text) > 2:
            for _ in range(2):
                out.append((pline(text, fl, depth, chunk_spec(rng, len(text)), 0), {"kind": "table-chunked-" + want}))
    # 1b. every argument shape of a call / feed (empty chunks, empty strings, calls after success / error / reset)
    out += call_shape_table()
    # 2. memory outcome: the locale calls themselves fail
    for text in (b'[1.5]', b'1.5', b'', b'{"a":2.5e3}'):
        for fault in (1, 2):
            for ch in ("Z", "-", "c2"):
                out.append((pline(text, 0, 32, ch, fault), {"kind": "fault-%d" % fault, "want": "memory"}))
    # 3. serializer: fixed shapes
    fixed_trees = ["d3ff8000000000000", "[d3ff8000000000000,d4008000000000000,d3fb999999999999a,d7ff0000000000000,dfff0000000000000,d7ff8000000000000]",
                   "d3ff8000000000000:312e35", "d3ff8000000000000:312c35", "{61=d4415af1d78b58c40,62=dc415af1d78b58c40,63=d0000000000000000,64=d8000000000000000}",
                   "[d4530000000000000,d3e45798ee2308c3a,d7fefffffffffffff,d0000000000000001]", "[s312c35,s312e35,i15,d402e000000000000]"]
    for t in fixed_trees:
        for fl in SER_FLAGS:
            out.append(("loc S %s %d" % (t, fl), {"kind": "ser-fixed"}))
    # 3b. every way to put a custom double format in effect x every format of the table (PRNG-independent)
    cfg_tree = "[d3ff8000000000000,d40c81cd000000000,dbfd0000000000000,d4008000000000000,d3ff8000000000000:312e35,d7ff0000000000000,{61=d3e45798ee2308c3a}]"
    for f in FORMATS:
        for cfg in ("G" + hx(f), "T" + hx(f), "O" + hx(f), "G" + hx(b"%.1f") + ",T" + hx(f), "O" + hx(f) + ",D", "G" + hx(f) + ",D"):
            for fl in (0, 4):
                out.append(("loc S %s %d %s" % (cfg_tree, fl, cfg), {"kind": "ser-format-table"}))
    for cfg in ("D", "G0", "T0", "G" + hx(b"%.3f") + ",G0", "T" + hx(b"%.3f") + ",T0,D", "O" + hx(b"%.3f") + ",O0"):
        out.append(("loc S %s 0 %s" % (cfg_tree, cfg), {"kind": "ser-format-table"}))
    for f in EXOTIC_FORMATS:
        for w in "GTO":
            out.append(("loc S %s 0 %s" % (cfg_tree, w + hx(f)), {"kind": "ser-format-exotic"}))
    # 3c. per thread, concurrently (PRNG-independent part): 2 and 4 threads, each serialising (and every 40th iteration
    #     parsing + re-serialising) its own private tree under ITS locale — thread-specific comma next to C, and a
    #     process-wide comma locale next to uselocale("C") — every text compared with the single-threaded C-locale text
    mt_tree = "[d3ff8000000000000,dbfd0000000000000,d3e7ad7f29abcaf48,d4008000000000000,{61=d400921fb54442d18},d40c81cd000000000,d3fb999999999999a,d4059000000000000]"
    iters = 8000 if tier == "quick" else 60000
    for var in "tgx":
        for nthr in (2, 4):
            out.append(("loc M %s %d %d 40 0 %s" % (var, nthr, iters, mt_tree), {"kind": "threads"}))
    for var, nthr, fl, cfg in (("t", 2, 4, "-"), ("g", 4, 2, "-"), ("t", 4, 0, "G" + hx(b"%.3f")), ("g", 2, 0, "O" + hx(b"%g")),
                               ("x", 6, 4, "G" + hx(b"%.17g")), ("t", 3, 0, "O" + hx(b"%e") + ",D"),
                               ("t", 2, 0, "G" + hx(b"%.99999999999f")), ("g", 4, 0, "O" + hx(b"%"))):
        out.append(("loc M %s %d %d 40 %d %s %s" % (var, nthr, iters, fl, mt_tree, cfg), {"kind": "threads-format"}))
    # 4. numeric strings through json_object_get_double
    for s in NUMERIC_STRINGS:
        out.append(("loc G %s" % hx(s), {"kind": "getdouble-string"}))
    # 5. random
    n = 500 if tier == "quick" else 20000
    oracle_bits = set(jvtext.dbits(x * sg) for x in jvtext.DBL_EDGES for sg in (1, -1))
    for _ in range(n):
        r = rng.random()
        if r < 0.30:
            text = num_text(rng)
            fl = rng.choice([0, 0, STRICT, UTF8, STRICT | TRAILING])
            ch = rng.choice(["Z", "Z", "-", chunk_spec(rng, len(text)), chunk_spec(rng, len(text), nul=False), history_spec(rng, len(text))])
            out.append((pline(text, fl, 32, ch, 0), {"kind": "parse-numbers" + ("-history" if ch[0] == "h" else "")}))
        elif r < 0.45:
            s, text = jsongen.gen_doc(rng, depth=rng.choice([1, 2, 3, 5]), width=rng.choice([2, 4]))
            depth = rng.choice([32, 32, 1, 2, 3, 4])
            fl = rng.choice([0, STRICT, UTF8, TRAILING])
            ch = rng.choice(["Z", chunk_spec(rng, len(text)), history_spec(rng, len(text))])
            out.append((pline(text, fl, depth, ch, 0), {"kind": "parse-doc" + ("-history" if ch[0] == "h" else "")}))
        elif r < 0.60:
            text = jsongen.mutate_bytes(rng, num_text(rng))
            fl = rng.choice([0, STRICT, UTF8, STRICT | UTF8])
            ch = rng.choice(["Z", "-", chunk_spec(rng, len(text)), chunk_spec(rng, len(text), nul=False), history_spec(rng, len(text))])
            out.append((pline(text, fl, rng.choice([32, 2, 3]), ch, rng.choice([0, 0, 0, 0, 1, 2])), {"kind": "parse-mutated" + ("-history" if ch[0] == "h" else "")}))
        elif r < 0.95:
            t = gen_double_tree(rng)
            if rng.random() < 0.4:
                out.append(("loc S %s %d %s" % (jvtext.dump(t), rng.choice(SER_FLAGS), ser_cfg(rng)), {"kind": "ser-tree-format"}))
            else:
                out.append(("loc S %s %d" % (jvtext.dump(t), rng.choice(SER_FLAGS)), {"kind": "ser-tree"}))
            oracle_bits.update(b for b in double_leaves(t) if (b >> 52) & 0x7ff != 0x7ff)
        else:
            s = rng.choice(NUMERIC_STRINGS) if rng.random() < 0.3 else jsongen.gen_frac_token(rng).replace(b".", rng.choice([b".", b","]))
            out.append(("loc G %s" % hx(s), {"kind": "getdouble-string"}))
    # 5b. random concurrent cases
    for _ in range(6 if tier == "quick" else 60):
        t = gen_double_tree(rng)
        if not double_leaves(t):
            t = [t, ("d", jvtext.dbits(1.5), None), ("d", jvtext.dbits(3.14), None)]
        cfg = rng.choice(["-", "-", "G" + hx(rng.choice(FORMATS)), "O" + hx(rng.choice(FORMATS)), "D"])
        out.append(("loc M %s %d %d %d %d %s %s" % (rng.choice("tgx"), rng.choice([2, 3, 4, 6]), iters // 2, rng.choice([0, 7, 40]),
                                                    rng.choice([0, 1, 2, 4]), jvtext.dump(t), cfg), {"kind": "threads-random"}))
    # 6. the libc oracle hypothesis of C14_ser_locale_indep, on the doubles used above
    for b in sorted(oracle_bits)[:400 if tier == "quick" else 20000]:
        out.append(("loc F %016x" % b, {"kind": "snprintf-oracle"}))
    return out


def double_leaves(t):
    if isinstance(t, list):
        return [b for x in t for b in double_leaves(x)]
    if isinstance(t, tuple) and t[0] == "o":
        return [b for _, x in t[1] for b in double_leaves(x)]
    if isinstance(t, tuple) and t[0] == "d" and t[2] is None:
        return [t[1]]
    return []


# ------------------------------------------------------------------ oracle
def parse_obs(impl):
    """-> (modes: {m: dict(data=[…], H,D,F,L,sep)}, same, extra) or None"""
    parts = impl.split(" | ")
    modes = {}
    same = None
    extra = []
    for p in parts:
        t = p.split(" ")
        if t[0] in ("C", "G", "T") and len(t) >= 7 and t[-1].startswith("sep="):
            try:
                modes[t[0]] = dict(data=t[1:-5], H=t[-5], D=t[-4], F=t[-3], L=int(t[-2][1:]), sep=t[-1][4:])
            except ValueError:
                return None
        elif t[0] == "same" and len(t) == 2:
            same = t[1]
        else:
            extra.append(p)
    if set(modes) != {"C", "G", "T"} or same is None:
        return None
    return modes, same, extra


def oracle(line, meta, impl):
    if "CRASH" in impl:
        return ("crash", "implementation crashed: " + impl[:160])
    if impl.startswith("NOLOCALE"):
        raise fw.Infra("the comma-decimal locale %s could not be installed from LOCPATH=%s" % (LOCNAME, LOCDIR))
    if line.split(" ")[1] == "M":
        return oracle_threads(line, impl)
    po = parse_obs(impl)
    if po is None:
        return ("malformed", "unexpected driver output: " + impl[:160])
    modes, same, extra = po
    op = line.split(" ")[1]
    if modes["C"]["sep"] != "2e" or modes["G"]["sep"] != "2c" or modes["T"]["sep"] != "2c":
        raise fw.Infra("locale modes not in effect (decimal points C=%s G=%s T=%s)" % (modes["C"]["sep"], modes["G"]["sep"], modes["T"]["sep"]))
    STATE["sep_checked"] += 1
    names = {"C": "C locale", "G": "comma locale installed with setlocale", "T": "comma locale installed with uselocale"}
    for m in "CGT":
        o = modes[m]
        if o["H"] != "H1" or o["D"] != "D1" or o["F"] != "F1":
            what = [w for w, k in (("uselocale(NULL) handle", "H"), ("decimal_point", "D"), ("printf(\"%f\")", "F")) if o[k] != k + "1"]
            return ("locale-not-restored", "%s changed across the call under %s: %s" % (", ".join(what), names[m], " ".join(o["data"])[:100]))
    for m in "CGT":
        if modes[m]["L"] != 0:
            return ("locale-object-leak", "locale objects created - released = %d after the call under %s (outcome %s)" % (
                modes[m]["L"], names[m], modes[m]["data"][0][:40]))
    if extra:
        return ("leak", "driver reports: " + " | ".join(extra)[:100])
    c = modes["C"]["data"]
    if op == "S" and len(line.split(" ")) > 4 and line.split(" ")[4] != "-":
        STATE["ser_cfgs"] += 1
    if op == "P":
        for e in c[0].split(","):
            if e != "reset":
                STATE["outcomes"][e] = STATE["outcomes"].get(e, 0) + 1
        STATE["empty_calls"] += count_empty_calls(line)
        if meta.get("want") and c[0].split(",")[-1] != meta["want"]:
            STATE["table_mismatch"].append((line, c[0]))
    if op == "F":
        # hypothesis of the theorem: the comma-locale text is the C-locale text with the (at most one) '.' replaced by ','
        try:
            ct = bytes.fromhex(c[0])
            texts = {m: bytes.fromhex(modes[m]["data"][0]) for m in "GT"}
        except ValueError:
            return ("malformed", "bad hex in " + impl[:80])
        import re
        if not re.fullmatch(rb"-?[0-9]+(\.[0-9]+)?(e[-+][0-9]+)?", ct):
            return ("snprintf-oracle-shape", "snprintf(%%.17g) in the C locale gave %r: not sign/digits/[.digits]/[e+-digits]" % ct)
        for m in "GT":
            if texts[m] != ct.replace(b".", b","):
                return ("snprintf-oracle-hypothesis", "snprintf(%%.17g) under %s gave %r, C locale %r: differs in more than the separator" % (
                    names[m], texts[m], ct))
        STATE["oracle_checked"] += 1
        return None
    diff = [m for m in "GT" if modes[m]["data"] != c]
    if diff:
        m = diff[0]
        if op == "P":
            return ("parse-locale-dependent", "parse result under %s differs from the C locale: %s vs %s" % (
                names[m], " ".join(modes[m]["data"])[:120], " ".join(c)[:120]))
        if op == "S":
            tk = line.split(" ")
            fmts = cfg_formats(tk[4] if len(tk) > 4 else "-")
            if any(format_is_exotic(f) for f in fmts):
                if len(STATE["exotic"]) < 6:
                    STATE["exotic"].append(dict(script=line, formats=[f.decode("latin-1") for f in fmts],
                                                C=bytes.fromhex(c[0]).decode("latin-1")[:60], comma=bytes.fromhex(modes[m]["data"][0]).decode("latin-1")[:60]))
                if EXOTIC_FORMAT_IN_SCOPE:
                    return ("serialize-format-literal-separator", "custom double format with a literal separator: text under %s %r vs C locale %r" % (
                        names[m], bytes.fromhex(modes[m]["data"][0])[:60], bytes.fromhex(c[0])[:60]))
                return None
            return ("serialize-locale-dependent", "serialized text under %s differs from the C locale: %s vs %s" % (
                names[m], bytes.fromhex(modes[m]["data"][0])[:80] if modes[m]["data"][0] not in ("-", "NULL") else modes[m]["data"][0],
                bytes.fromhex(c[0])[:80] if c[0] not in ("-", "NULL") else c[0]))
        if op == "G":
            if len(STATE["adjacent"]) < 5:
                STATE["adjacent"].append(dict(script=line, C=c[0], comma=modes[m]["data"][0]))
            if GET_DOUBLE_STRING_IN_SCOPE:
                return ("get_double_string_locale", "json_object_get_double on a string under %s: %s vs %s in the C locale" % (
                    names[m], modes[m]["data"][0], c[0]))
            return None
    if same != "1":
        return ("malformed", "driver's own comparison disagrees: " + impl[-60:])
    return None


def parse_threads(impl):
    t = impl.split(" | ")[0].split(" ")
    if len(t) != 9 or t[0] != "M":
        return None
    try:
        d = dict(mism=int(t[1].split("=")[1]), pmism=int(t[2].split("=")[1]), perr=int(t[3].split("=")[1]), lbad=int(t[4].split("=")[1]),
                 L=int(t[5][1:]), ser=int(t[6].split("=")[1]), par=int(t[7].split("=")[1]), first=t[8].split("=", 1)[1])
    except (ValueError, IndexError):
        return None
    return d


def oracle_threads(line, impl):
    """concurrent threads: 0 texts may differ from the single-threaded C-locale text"""
    if impl.startswith("NOTALLOCFREE"):
        raise fw.Infra("re-serialising a warmed-up tree allocates: the concurrent op of drv_loc.c cannot keep the "
                       "single-threaded accounting allocator out of the threads any more")
    d = parse_threads(impl)
    if d is None:
        return ("malformed", "unexpected driver output: " + impl[:160])
    STATE["thread_texts"] += d["ser"] + 2 * d["par"]
    roles = {"0": "uselocale(comma)", "1": "the global locale", "2": "uselocale(C)"}
    if d["mism"] or d["pmism"]:
        f = d["first"]
        what = f
        try:
            kind, role = f[0], f[1]
            got, want = f[3:].split("/")
            what = "%s in a thread under %s: got %r, single-threaded C-locale text %r" % (
                {"S": "serialize", "P": "parse+serialize", "Q": "parse+set_double+serialize"}.get(kind, kind), roles.get(role, role),
                bytes.fromhex(got if got != "-" else "")[:70], bytes.fromhex(want if want != "-" else "")[:70])
        except (ValueError, IndexError):
            pass
        return ("concurrent-serialize-locale-dependent", "%d of %d texts produced by concurrent threads differ; first: %s" % (
            d["mism"] + d["pmism"], d["ser"] + 2 * d["par"], what))
    if d["perr"]:
        return ("concurrent-parse-error", "%d parses of the library's own C-locale text failed inside the threads: %s" % (d["perr"], d["first"][:80]))
    if d["lbad"]:
        return ("locale-not-restored", "%d threads found their uselocale(NULL) handle changed after a call" % d["lbad"])
    if d["L"]:
        return ("locale-object-leak", "locale objects created - released = %d after the concurrent parses" % d["L"])
    if " | " in impl:
        return ("leak", "driver reports: " + impl.split(" | ", 1)[1][:100])
    return None


def count_empty_calls(line):
    """number of len == 0 calls a P line asks for (coverage figure)"""
    t = line.split(" ")
    n = 0 if t[2] == "-" else len(t[2]) // 2
    sp = t[5]
    if sp == "-":
        return 1 if n == 0 else 0
    if sp[0] in "ck":
        cuts = [0] + sorted(min(int(x), n) for x in sp[1:].split(",") if x) + [n]
        k = sum(1 for a, b in zip(cuts, cuts[1:]) if a == b)
        if sp[0] == "c" and cuts[-2] == n:
            k -= 1      # the last chunk carries the NUL
        return k
    if sp[0] == "h":
        k = 0
        for it in sp[1:].split(","):
            if ":" in it and it[-1] not in "zm":
                a, b = it.split(":")
                k += 1 if min(int(a), n) >= min(int(b), n) else 0
        return k
    return 0


def classify(line, meta, mo, co):
    return None


def nontrivial(line, meta, impl):
    if line.split(" ")[1] == "M":
        d = parse_threads(impl)
        return line if d and d["ser"] > 0 else None
    po = parse_obs(impl)
    if po is None:
        return None
    c = po[0]["C"]["data"]
    op = line.split(" ")[1]
    if op == "P":
        if c[0].split(",")[-1] != "success" or "d" in c[2]:
            return line
        return None
    if op == "S":
        # a '.' or an exponent in the text: a non-integer was printed
        try:
            t = bytes.fromhex(c[0]) if c[0] not in ("-", "NULL") else b""
        except ValueError:
            return None
        return line if (b"." in t or b"e" in t or b"N" in t or b"I" in t) else None
    if op == "F":
        return line if po[0]["G"]["data"] != c else None
    return line


def shrink(ck, line, cls):
    t = line.split(" ")
    if t[1] == "P":
        text = b"" if t[2] == "-" else bytes.fromhex(t[2])
        n = len(text)
        sp = t[5]

        def mk(bs, spec):
            return "loc P %s %s %s %s %s" % (hx(bytes(bs)), t[3], t[4], spec, t[6])

        def fails_line(l):
            m, c, _ = ck.run_pair([l], "shrink")
            v = oracle(l, {}, c.get(1, "MISSING"))
            return v is not None and v[0] == cls
        # 1. the feed as an explicit call history, then the fewest calls that still fail
        if sp[0] in "ck":
            cuts = [0] + sorted(min(int(x), n) for x in sp[1:].split(",") if x) + [n]
            items = ["%d:%d" % (a, b) for a, b in zip(cuts, cuts[1:])]
            if sp[0] == "c":
                items[-1] += "z"
        elif sp[0] == "h":
            items = sp[1:].split(",")
        else:
            items = None
        if items and fails_line(mk(text, "h" + ",".join(items))):
            items = fw.ddmin(items, lambda sub: fails_line(mk(text, "h" + ",".join(sub))), budget=40)
            sp = "h" + ",".join(items)
        elif not fails_line(mk(text, sp)):
            return line
        # 2. the text (slice offsets are clipped by the driver)
        small = fw.ddmin(list(text), lambda bs: fails_line(mk(bs, sp)), budget=60) if len(text) >= 2 else list(text)
        if len(small) == 1 and fails_line(mk(b"", sp)):
            small = []
        if sp[0] == "h":          # clip the slice offsets to the shrunk text (the driver does the same)
            k = len(small)
            norm = []
            for it in sp[1:].split(","):
                if ":" in it:
                    suf = it[-1] if it[-1] in "zm" else ""
                    a, b = (it[:-1] if suf else it).split(":")
                    b = min(int(b), k)
                    it = "%d:%d%s" % (min(int(a), b), b, suf)
                norm.append(it)
            if fails_line(mk(small, "h" + ",".join(norm))):
                sp = "h" + ",".join(norm)
        return mk(small, sp)
    if t[1] == "M":
        # two threads, one double leaf, no configuration — each candidate gets two tries (an interleaving is needed)
        import re
        cfg = t[8] if len(t) > 8 else "-"
        leaves = re.findall(r"d[0-9a-f]{16}(?![0-9a-f:])", t[7])
        var = t[2] if t[2] in "tg" else "t"
        for tree in ["[%s,%s,%s,%s]" % (lf, lf, lf, lf) for lf in leaves[:4]] + [t[7]]:
            for cf in (["-"] if cfg == "-" else ["-", cfg]):
                l = "loc M %s 2 %s %s %s %s%s" % (var, t[4], t[5], t[6], tree, "" if cf == "-" else " " + cf)
                for _ in range(2):
                    m, c, _x = ck.run_pair([l], "shrink")
                    v = oracle(l, {}, c.get(1, "MISSING"))
                    if v is not None and v[0] == cls:
                        return l
        return line
    if t[1] == "S":
        # try the double leaves one by one
        import re
        for leaf in re.findall(r"d[0-9a-f]{16}(?::[0-9a-f]+|:-)?", t[2]):
            cfg = t[4] if len(t) > 4 else "-"
            items = cfg.split(",")
            cands = ["-"] + items + [cfg] if cfg != "-" else ["-"]
            for cf in cands:            # no configuration, then each single item, then the whole configuration
                l = "loc S %s %s%s" % (leaf, t[3], "" if cf == "-" else " " + cf)
                m, c, _ = ck.run_pair([l], "shrink")
                v = oracle(l, {}, c.get(1, "MISSING"))
                if v is not None and v[0] == cls:
                    return l
    return line


def search(rng, broken_lines):
    out = []
    # every table text under every fault, depth limit and flag set: aims at paths the quick stream may miss
    for want, text, fl, depth, ch in OUTCOME_TABLE:
        for d in (32, 1, 2, 3):
            for f in (fl, fl | STRICT, fl | UTF8):
                out.append((pline(text, f, d, ch, 0), {"kind": "search"}))
        for fault in (1, 2):
            out.append((pline(text, fl, depth, ch, fault), {"kind": "search"}))
    for _ in range(300):
        out.append(("loc S %s %d %s" % (jvtext.dump(gen_double_tree(rng)), rng.choice(SER_FLAGS), ser_cfg(rng)), {"kind": "search-format"}))
    for var in "tgx":
        out.append(("loc M %s 4 40000 40 0 [d3ff8000000000000,d400921fb54442d18,d3e7ad7f29abcaf48,d4008000000000000]" % var, {"kind": "search-threads"}))
    for _ in range(400):
        text = num_text(rng)
        out.append((pline(text, rng.choice([0, STRICT, UTF8]), rng.choice([32, 2]), history_spec(rng, len(text)), 0), {"kind": "search-history"}))
    return out + gen(rng, "quick")


def extra_coverage():
    tr = STATE["translator"] or {}
    return dict(translator=dict(recognised=tr.get("ok"), message=tr.get("message"), exits=tr.get("exits"),
                                variant=(tr.get("info") or {}).get("variant"),
                                locale_calls_outside_parse_ex=[list(x) for x in ((tr.get("info") or {}).get("stray") or [])], assumptions=(tr.get("info") or {}).get("assumptions")),
                parser_outcome_classes_seen=dict(sorted(STATE["outcomes"].items())),
                cases_with_comma_locale_verified_in_effect=STATE["sep_checked"],
                snprintf_oracle_hypothesis_checked_on=STATE["oracle_checked"],
                parse_calls_with_len_0=STATE["empty_calls"],
                serialize_cases_with_custom_format=STATE["ser_cfgs"],
                texts_compared_in_concurrent_threads=STATE["thread_texts"],
                adjacent_observation_formats=dict(
                    what="a custom double format with a literal ',' of its own (or a literal '.' before the number), e.g. \"x,%.2f\": the fix-up "
                         "replaces the FIRST comma, i.e. the literal one, in every locale, so the decimal comma of a comma locale survives "
                         "(C: x.1.50, comma: x.1,50).  Such a format prints no JSON number in any locale and is outside the hypothesis of "
                         "C14_ser_fmt_locale_indep (Coq witness: C14_ser_fmt_literal_comma_dependent); recorded, not reported "
                         "(EXOTIC_FORMAT_IN_SCOPE=False; class id serialize-format-literal-separator)",
                    samples=STATE["exotic"]),
                outcome_table_mismatches=STATE["table_mismatch"][:5],
                adjacent_observation=dict(
                    what="json_object_get_double() on a string object calls strtod in the CALLER's numeric locale: under a comma locale "
                         "\"1.5\" converts to 0.0/EINVAL and \"1,5\" to 1.5 (json_object.c:1243).  Neither parse nor serialize, so outside "
                         "the text of C14; recorded here, not reported as a violation (GET_DOUBLE_STRING_IN_SCOPE=False)",
                    samples=STATE["adjacent"]))
