"""C05 — every node is destroyed exactly once, exactly when its last owner releases it.

Histories of API calls over a pool of numbered handles.  `Sim` is the reference of the
property statement, written independently of the Coq model: it keeps only the container
structure and the client's ledger of owned references and decides liveness by *ownership*
(a node exists iff it is reachable from a node the client owns) — no reference counts, no
cascade.  The generator uses it to produce admissible histories (the client owns what it
transfers, never puts more than it owns, never closes a cycle), the oracle uses it to predict,
per step: the return code, the set of nodes whose delete callback must run in that step,
the old callbacks invoked by set_userdata, put's result, the typed dump of a used handle
(including _ref_count = ledger + in-degree), and 'nothing alive, nothing allocated' at the end."""
import re

PROP = "C05"
DOMAIN = "heap"
LEVEL = "proof"
TECHNIQUE = ("Coq invariant proof over admissible operation histories (HeapProofs.v) + extracted-model/C differential "
             "correspondence + ownership-reachability oracle on the ASan build")
RULE = ("admissible histories of 5..200 operations over a pool of handles, generated from one PRNG with a shadow ownership "
        "simulation; biased to replace-same-key-twice, delete/destroy-parent-while-extra-reference-held-then-use, put_idx over "
        "an occupied slot, a child shared by two containers, re-adding the value already stored, failing operations; a case is "
        "non-trivial when some step destroyed a node; distinct = distinct scripts among those.  Before the random cases a "
        "small-scope block enumerates EVERY admissible history of <= 3 operations over the full 43-operation alphabet (one entry "
        "per branch of the code: each operation kind, each refusal, each boundary index) from the first of three tiny documents "
        "over the same four nodes, and of <= 3 over a 21-operation core alphabet / <= 2 over the full one from the other two "
        "(thorough: <= 3 full and <= 4 core from every document)")
TRUSTED = ["Coq 8.16.1 kernel (coqc), no axioms (Print Assumptions: closed under the global context)",
           "extraction (ExtrOcamlBasic only) + ocaml/mdrv glue (drv_heap.ml)",
           "harness/drv_heap.c (callback log, handle table), xalloc.c, gcc -fsanitize=address,undefined",
           "the Python ownership simulation in checks/C05.py (direct oracle)"]
ASSUMPTIONS = ["single-threaded use (the threaded build is property C18)",
               "not covered: json_object_deep_copy with the default shallow copy of a node that carries a caller's registration "
               "whose serializer is json_object_userdata_to_json_string (the library then duplicates that registration for the "
               "copy); the generator does not produce it and the model would answer -1",
               "allocation never fails in these histories (faults are property C08)",
               "container-detaches-then-releases order of the model is equivalent to the C order release-then-store on acyclic heaps "
               "(checked by the differential run, not proved)",
               "malloc/free and the C memory model are outside the Coq model; double free / use after free are observed by ASan only"]

KEYS = ["6b", "6b32", "61", "7e", "2f", "6d7e2f", "30", "31"]
# enough distinct names to push a table through several resizes (16 -> 32 -> 64 -> 128 slots)
MANY_KEYS = [("m%02d" % i).encode().hex() for i in range(90)]
SIZE_MAX = (1 << 64) - 1


def unhex(h):
    return b"" if h == "-" else bytes.fromhex(h)


class Bad(Exception):
    """the operation is not admissible in the current state"""


class Fail(Exception):
    """the library call returns -1"""


class Sim:
    def __init__(self):
        self.n = {}        # id -> dict(kind, kids=[[key(bytes) or None, child id or None]], cb=tag or None)
        self.L = {}        # id -> references the client owns
        self.nxt = 1
        self.ever_dead = set()

    def clone(self):
        c = Sim()
        c.n = {i: dict(nd, kids=[list(e) for e in nd["kids"]], ck=set(nd.get("ck", ()))) for i, nd in self.n.items()}
        c.L = dict(self.L)
        c.nxt = self.nxt
        c.ever_dead = set(self.ever_dead)
        return c

    # ---------------------------------------------------------------- helpers
    def live(self, i):
        return i in self.n

    def owns(self, i):
        return self.L.get(i, 0)

    def reach(self, a, b):
        seen, st = set(), [a]
        while st:
            x = st.pop()
            if x == b:
                return True
            if x in seen or x not in self.n:
                continue
            seen.add(x)
            st.extend(c for _, c in self.n[x]["kids"] if c is not None)
        return False

    def indeg(self, i):
        return sum(1 for nd in self.n.values() for _, c in nd["kids"] if c == i)

    def unfold_size(self, i, cap=10 ** 6):
        tot, st = 0, [i]
        while st and tot < cap:
            x = st.pop()
            tot += 1
            st.extend(c for _, c in self.n[x]["kids"] if c is not None)
        return tot

    def sweep(self):
        """ownership decides existence: everything not reachable from an owned node is gone"""
        keep, st = set(), [i for i, c in self.L.items() if c > 0]
        while st:
            x = st.pop()
            if x in keep:
                continue
            keep.add(x)
            st.extend(c for _, c in self.n[x]["kids"] if c is not None)
        gone = [i for i in self.n if i not in keep]
        res = {}
        for i in gone:
            res[i] = self.n[i]["cb"]
        for i in gone:
            del self.n[i]
            self.ever_dead.add(i)
        return res

    def dump(self, v):
        if v is None:
            return "n"
        nd = self.n[v]
        k = nd["kind"]
        head = "%s%s%s#%d" % (k, "%d.%d" % (v, nd["cb"]) if nd["cb"] is not None else "?", "u" if nd["ud"] else "-",
                              self.owns(v) + self.indeg(v))
        if k == "a":
            return head + "[" + ",".join(self.dump(c) for _, c in nd["kids"]) + "]"
        if k == "o":
            ck = nd.get("ck", ())
            return head + "{" + ",".join(("*" if key in ck else "") + (key.hex() or "-") + "=" + self.dump(c)
                                         for key, c in nd["kids"]) + "}"
        return head

    def handle(self, s, null_ok=False):
        if s == "n":
            if not null_ok:
                raise Bad("null")
            return None
        i = int(s[1:])
        if i not in self.n:
            raise Bad("dead handle " + s)
        if self.n[i].get("anon"):
            raise Bad("a copy made inside json_patch has no handle")
        return i

    def want_kind(self, i, k):
        if self.n[i]["kind"] != k:
            raise Bad("kind")

    def transfer_ok(self, p, v):
        if v is None:
            return
        if self.owns(v) < 1:
            raise Bad("transfers a reference it does not own")
        if self.reach(v, p):
            raise Bad("cycle")

    # ---------------------------------------------------------------- container primitives
    def obj_add(self, p, key, v, is_new=False, const=False):
        """json_object_object_add_ex: the name of a new member is copied by the library unless the
        caller lends it (CONSTANT_KEY); an existing member keeps its name and who owns it"""
        present = any(ent[0] == key for ent in self.n[p]["kids"])
        if is_new and present:
            raise Bad("KEY_IS_NEW for a key that is present")
        if v == p:
            return -1
        self.transfer_ok(p, v)
        for ent in self.n[p]["kids"]:
            if ent[0] == key:
                ent[1] = v
                break
        else:
            self.n[p]["kids"].append([key, v])
            if const:
                self.n[p].setdefault("ck", set()).add(key)
        if v is not None:
            self.L[v] -= 1
        return 0

    def arr_put(self, p, idx, v):
        self.transfer_ok(p, v)
        if idx > SIZE_MAX - 1 or idx + 1 > SIZE_MAX // 8:
            return -1
        kids = self.n[p]["kids"]
        if idx > 4096:
            raise Bad("would allocate a large array")
        while len(kids) <= idx:
            kids.append([None, None])
        kids[idx][1] = v
        if v is not None:
            self.L[v] -= 1
        return 0

    # ---------------------------------------------------------------- one operation
    def apply(self, op):
        """returns dict(ret, dead={id: tag or None}, user=[(id, tag)], dump=str or None, put=id or None)"""
        a = op.split(" ")
        r = dict(ret=0, user=[], dump=None)
        if "=" in a[0] and a[0][0] == "h":
            lhs, c = a[0].split("=")
            i = int(lhs[1:])
            if i < self.nxt:
                raise Bad("id reuse")
            kind = {"newobj": "o", "newarr": "a"}.get(c, "s")
            if c not in ("newobj", "newarr", "newbool", "newdbl", "newint", "newstr", "newdbls"):
                raise Bad("ctor")
            # st: the type the value setters look at; ser: what the serializer does with userdata
            # ('strud' = prints it as a string); lib: the library's own retained-text registration of
            # json_object_new_double_s (not a caller's registration: no caller callback is involved)
            self.n[i] = dict(kind=kind, kids=[], cb=0, ud=True, lib=False, ser="default",
                             st={"newbool": "bool", "newdbl": "dbl", "newdbls": "dbl", "newint": "int", "newstr": "str"}.get(c))
            if c == "newdbls":
                self.n[i].update(cb=None, lib=True, ser="strud")
            self.L[i] = 1
            self.nxt = i + 1
            r["ret"] = i
        elif a[0] in ("copy", "copyd"):
            lhs, rhs = a[1].split("=")
            i = int(lhs[1:])
            src = self.handle(rhs)
            if i < self.nxt:
                raise Bad("id reuse")
            if self.unfold_size(src, 400) >= 400:
                raise Bad("copy too large")
            custom = a[0] == "copy"
            if not custom and self._stock_reg(src):
                raise Bad("default copy of a stock-serializer registration")
            if not custom and self._any_cb(src):
                r["ret"] = -1       # the default shallow copy cannot copy unknown userdata: failure, nothing changes
            else:
                self.nxt = i
                root = self._copy(src, custom)
                self.L[root] = 1
                r["ret"] = root
        elif a[0] == "get":
            i = self.handle(a[1])
            self.L[i] = self.owns(i) + 1
            r["ret"] = i
        elif a[0] == "put":
            i = self.handle(a[1])
            if self.owns(i) < 1:
                raise Bad("puts more than it owns")
            self.L[i] -= 1
            r["put"] = i
        elif a[0] == "add":
            p, v = self.handle(a[1]), self.handle(a[3], True)
            self.want_kind(p, "o")
            r["ret"] = self.obj_add(p, unhex(a[2]), v)
        elif a[0] == "addx":
            p, v, f = self.handle(a[1]), self.handle(a[3], True), int(a[4])
            self.want_kind(p, "o")
            r["ret"] = self.obj_add(p, unhex(a[2]), v, bool(f & 1), bool(f & 2))
        elif a[0] == "del":
            p = self.handle(a[1])
            self.want_kind(p, "o")
            key = unhex(a[2])
            self.n[p]["kids"] = [e for e in self.n[p]["kids"] if e[0] != key]
            self.n[p].get("ck", set()).discard(key)
        elif a[0] == "aadd":
            p, v = self.handle(a[1]), self.handle(a[2], True)
            self.want_kind(p, "a")
            self.transfer_ok(p, v)
            self.n[p]["kids"].append([None, v])
            if v is not None:
                self.L[v] -= 1
        elif a[0] == "aput":
            p, v = self.handle(a[1]), self.handle(a[3], True)
            self.want_kind(p, "a")
            r["ret"] = self.arr_put(p, int(a[2]), v)
        elif a[0] == "ains":
            p, v = self.handle(a[1]), self.handle(a[3], True)
            self.want_kind(p, "a")
            idx = int(a[2])
            if idx >= len(self.n[p]["kids"]):
                r["ret"] = self.arr_put(p, idx, v)
            else:
                self.transfer_ok(p, v)
                self.n[p]["kids"].insert(idx, [None, v])
                if v is not None:
                    self.L[v] -= 1
        elif a[0] == "adel":
            p = self.handle(a[1])
            self.want_kind(p, "a")
            idx, cnt = int(a[2]), int(a[3])
            kids = self.n[p]["kids"]
            if idx >= len(kids) or idx + cnt > len(kids):
                r["ret"] = -1
            else:
                del kids[idx:idx + cnt]
        elif a[0] == "reg":
            # reg h<i> <registration number> <userdata non-NULL> <delete callback> <0 set_userdata | 1 | 2 set_serializer>
            # the registration that ends here has its callback invoked now, exactly once,
            # whatever its userdata was
            i, t, ser = self.handle(a[1]), int(a[2]), int(a[5])
            nd = self.n[i]
            if t < self.nxt:
                raise Bad("registration number reuse")
            if ser == 0 and nd["ser"] in ("strud", "fmtud"):
                raise Bad("the serializer in place reads the userdata as a string")
            if ser == 3 and a[3] != "1":
                raise Bad("json_object_userdata_to_json_string needs userdata")
            if ser == 4 and nd["st"] != "dbl":
                raise Bad("json_object_double_to_json_string on a non-double")
            if nd["cb"] is not None:
                r["user"].append((i, nd["cb"]))
            nd["cb"] = t if a[4] == "1" else None
            nd["ud"] = a[3] == "1"
            nd["lib"] = False          # the library's own pair, if still there, is released silently
            if ser:
                nd["ser"] = {1: "default", 2: "custom", 3: "strud", 4: "fmtud"}[ser]
            self.nxt = t + 1
        elif a[0] == "setv":
            # a value setter never ends a caller's registration; json_object_set_double drops the
            # library's own retained text (and nothing else)
            i = self.handle(a[1])
            nd = self.n[i]
            want = {"bool": "bool", "int": "int", "int64": "int", "uint64": "int", "inc": "int", "dbl": "dbl",
                    "str": "str", "strlen": "str"}[a[2]]
            r["ret"] = 1 if nd.get("st") == want else 0
            if r["ret"] and a[2] == "dbl" and nd["lib"]:
                nd.update(lib=False, ud=False, ser="default")
                self.nxt += 1       # the model numbers the internal set_serializer(NULL, NULL, NULL) call too
        elif a[0] == "ptrset":
            root, v = self.handle(a[1]), self.handle(a[3], True)
            r["ret"] = self._ptrset(root, unhex(a[2]), v, r)
        elif a[0] == "hash":
            pass      # json_global_set_string_hash: which hash function new tables use; no bearing on ownership
        elif a[0] == "use":
            i = self.handle(a[1])
            r["dump"] = self.dump(i)
        elif a[0] in ("padd", "prepl", "prem", "pcopy", "pmove"):
            snap = self.clone()
            try:
                r["ret"] = self._patch(a)
            except Bad:
                self.n, self.L = snap.n, snap.L
                raise
        else:
            raise Bad("op " + op)
        r["dead"] = self.sweep()
        if "put" in r:
            r["ret"] = 0 if r["put"] in self.n else 1
        return r

    # ---------------------------------------------------------------- json_patch (one operation)
    # Ownership view: add / replace / copy store a deep copy of the value (made with the default
    # shallow copy, which fails on a node carrying userdata it does not know), move re-links the
    # node itself; the client's ledger never changes; a failing operation returns -1.
    def _ptoks(self, path):
        if path == b"":
            raise Bad("patch on the root")
        if path[:1] != b"/":
            raise Fail()
        return path[1:].split(b"/")

    @staticmethod
    def _unesc(t):
        if re.search(rb"~(?![01])", t):
            raise Fail()
        return t.replace(b"~1", b"/").replace(b"~0", b"~")

    def _tok_get(self, cur, t):
        if cur is None:
            raise Fail()
        nd = self.n[cur]
        if nd["kind"] == "a":
            idx = self._index(t)
            if idx is None or idx >= len(nd["kids"]):
                raise Fail()
            return nd["kids"][idx][1]
        key = self._unesc(t)
        if nd["kind"] != "o":
            raise Fail()
        for k2, c in nd["kids"]:
            if k2 == key:
                return c
        raise Fail()

    def _resolve(self, root, toks):
        parent, cur = None, root
        for t in toks:
            parent, cur = cur, self._tok_get(cur, t)
        return parent, toks[-1], cur

    def _patch_store(self, root, toks, v, mode):
        cur = root
        for t in toks[:-1]:
            cur = self._tok_get(cur, t)
        if cur is None:
            raise Fail()
        nd, t = self.n[cur], toks[-1]
        if v is not None and v != cur and self.reach(v, cur):
            raise Bad("cycle")
        if nd["kind"] == "a":
            if v == cur:
                raise Bad("cycle")
            if t == b"-":
                nd["kids"].append([None, v])
                return
            idx = self._index(t)
            if idx is None or idx > len(nd["kids"]):
                raise Fail()
            if mode == "replace":
                nd["kids"][idx][1] = v
            else:
                nd["kids"].insert(idx, [None, v])
        elif nd["kind"] == "o":
            key = self._unesc(t)
            if v == cur:
                raise Fail()
            for ent in nd["kids"]:
                if ent[0] == key:
                    ent[1] = v
                    return
            nd["kids"].append([key, v])
        else:
            raise Fail()

    def _patch_remove(self, parent, tok):
        nd = self.n[parent]
        if nd["kind"] == "a":
            del nd["kids"][int(tok)]
        else:
            key = self._unesc(tok)
            nd["kids"] = [e for e in nd["kids"] if e[0] != key]
            nd.get("ck", set()).discard(key)

    def _patch_copy(self, v):
        if v is None:
            return None
        if self.unfold_size(v, 400) >= 400:
            raise Bad("copy too large")
        if self._stock_reg(v):
            raise Bad("default copy of a stock-serializer registration")
        if self._any_cb(v):
            raise Fail()
        return self._copy(v, False, True)

    def _patch(self, a):
        root = self.handle(a[1])
        try:
            if a[0] in ("padd", "prepl"):
                v = self.handle(a[3], True)
                toks = self._ptoks(unhex(a[2]))
                if a[0] == "prepl":
                    self._resolve(root, toks)
                self._patch_store(root, toks, self._patch_copy(v), "add" if a[0] == "padd" else "replace")
            elif a[0] == "prem":
                toks = self._ptoks(unhex(a[2]))
                parent, tok, _ = self._resolve(root, toks)
                self._patch_remove(parent, tok)
            elif a[0] == "pcopy":
                ftoks, toks = self._ptoks(unhex(a[2])), self._ptoks(unhex(a[3]))
                _, _, obj = self._resolve(root, ftoks)
                self._patch_store(root, toks, self._patch_copy(obj), "add")
            else:
                frm, path = unhex(a[2]), unhex(a[3])
                ftoks, toks = self._ptoks(frm), self._ptoks(path)
                if path.startswith(frm) and path != frm and path[len(frm):len(frm) + 1] == b"/":
                    raise Fail()
                parent, tok, obj = self._resolve(root, ftoks)
                if path == frm:
                    return 0
                self._patch_remove(parent, tok)
                self._patch_store(root, toks, obj, "move")
        except Fail:
            return -1
        return 0

    def _stock_reg(self, i):
        """some node below carries a caller's registration whose serializer is the stock
        json_object_userdata_to_json_string: the default deep copy duplicates such a registration
        (strdup of the userdata, same delete function) — creation of registrations by the library on the
        caller's behalf is outside this check"""
        nd = self.n[i]
        return (nd["ser"] == "strud" and not nd["lib"]) or \
            any(c is not None and self._stock_reg(c) for _, c in nd["kids"])

    def _any_cb(self, i):
        nd = self.n[i]
        return nd["cb"] is not None or (nd["ud"] and not nd["lib"]) or \
            any(c is not None and self._any_cb(c) for _, c in nd["kids"])

    def _copy(self, src, custom, anon=False):
        me = self.nxt
        self.nxt += 1
        nd = self.n[src]
        lib = nd["lib"] and not custom      # the default copy duplicates the library's retained text
        self.n[me] = dict(kind=nd["kind"], kids=[], cb=0 if custom else None, ud=custom or lib, anon=anon, lib=lib,
                          st=nd.get("st"), ser=("custom" if nd["ser"] == "custom" else "default") if custom else nd["ser"])
        self.L[me] = 0
        for key, c in nd["kids"]:
            self.n[me]["kids"].append([key, None if c is None else self._copy(c, custom, anon)])
        return me

    @staticmethod
    def _index(tok):
        if not re.fullmatch(rb"0|[1-9][0-9]*", tok):
            return None
        return min(int(tok), SIZE_MAX)

    def _ptrset(self, root, path, v, r):
        if path == b"":
            if self.owns(root) < 1:
                raise Bad("root not owned")
            self.L[root] -= 1
            r["put"] = root          # reported as ret 0 by json_pointer_set: overwritten below
            r["ptrroot"] = True
            return 0
        if path[:1] != b"/":
            return -1
        toks = path[1:].split(b"/")
        cur = root
        for t in toks[:-1]:
            if cur is None:
                return -1
            nd = self.n[cur]
            if nd["kind"] == "a":
                idx = self._index(t)
                if idx is None or idx >= len(nd["kids"]):
                    return -1
                cur = nd["kids"][idx][1]
            else:
                if re.search(rb"~(?![01])", t):
                    return -1
                if nd["kind"] != "o":
                    return -1
                key = t.replace(b"~1", b"/").replace(b"~0", b"~")
                for k2, c in nd["kids"]:
                    if k2 == key:
                        cur = c
                        break
                else:
                    return -1
        if cur is None:
            return -1
        nd, t = self.n[cur], toks[-1]
        if nd["kind"] == "a":
            if t == b"-":
                self.transfer_ok(cur, v)
                nd["kids"].append([None, v])
                if v is not None:
                    self.L[v] -= 1
                return 0
            idx = self._index(t)
            if idx is None:
                return -1
            return self.arr_put(cur, idx, v)
        if nd["kind"] == "o":
            if re.search(rb"~(?![01])", t):
                return -1
            return self.obj_add(cur, t.replace(b"~1", b"/").replace(b"~0", b"~"), v)
        return -1


def close_ops(sim):
    """the releases that end a history: every owned reference is put"""
    out = []
    for i in sorted(sim.L, key=lambda x: -x):
        while sim.owns(i) > 0 and sim.live(i):
            op = "put h%d" % i
            sim.apply(op)
            out.append(op)
    return out


def normalize(ops):
    """drop the operations that are not admissible where they stand (used by the shrinker), then
    close the history"""
    import copy
    sim, out = Sim(), []
    for op in ops:
        snap = copy.deepcopy((sim.n, sim.L, sim.nxt, sim.ever_dead))
        try:
            sim.apply(op)
            out.append(op)
        except (Bad, KeyError, ValueError, IndexError):
            sim.n, sim.L, sim.nxt, sim.ever_dead = snap
    return out + close_ops(sim)


# -------------------------------------------------------------------- generator
class Gen:
    def __init__(self, rng):
        self.rng = rng
        self.sim = Sim()
        self.ops = []
        self.kinds = set()

    def do(self, op, kind=None):
        try:
            r = self.sim.apply(op)
        except Bad:
            return None
        self.ops.append(op)
        if kind:
            self.kinds.add(kind)
        return r

    # Sim.apply checks admissibility before it changes anything, so a refused operation leaves the shadow intact
    def fresh(self):
        return self.sim.nxt

    def new(self, what=None):
        rng = self.rng
        what = what or rng.choice(["newobj", "newobj", "newarr", "newarr", "newint", "newstr", "newbool", "newdbl", "newdbls"])
        i = self.fresh()
        op = "h%d=%s" % (i, what)
        if what == "newint":
            op += " %d" % rng.choice([0, 7, -1, 1 << 40])
        if what == "newstr":
            op += " " + rng.choice(["6162", "-", "78" * 40])
        self.do(op)
        return i

    def pick(self, pred):
        c = [i for i in self.sim.n if pred(i)]
        return self.rng.choice(c) if c else None

    def owned(self):
        return self.pick(lambda i: self.sim.owns(i) > 0)

    def container(self, kind=None):
        return self.pick(lambda i: self.sim.n[i]["kind"] in (("o", "a") if kind is None else (kind,)))

    def value_for(self, p):
        """something the client owns and may legally put into p (or a fresh node, or NULL)"""
        rng = self.rng
        r = rng.random()
        if r < 0.08:
            return None
        if r < 0.5:
            v = self.pick(lambda i: self.sim.owns(i) > 0 and not self.sim.reach(i, p))
            if v is not None:
                return v
        if r < 0.65:   # retain something borrowed (e.g. already inside a container) and move that reference
            v = self.pick(lambda i: not self.sim.reach(i, p))
            if v is not None:
                self.do("get h%d" % v)
                return v
        return self.new()

    def hs(self, v):
        return "n" if v is None else "h%d" % v

    def put_into(self, p, v, kind=None):
        sim, rng = self.sim, self.rng
        if sim.n[p]["kind"] == "o":
            keys = [k.hex() or "-" for k, _ in sim.n[p]["kids"]]
            key = rng.choice(keys) if keys and rng.random() < 0.45 else rng.choice(KEYS if rng.random() < 0.7 else MANY_KEYS)
            if rng.random() < 0.3:
                return self.addx(p, key, v, kind)
            return self.do("add h%d %s %s" % (p, key, self.hs(v)), kind)
        ln = len(sim.n[p]["kids"])
        r = rng.random()
        if r < 0.35:
            return self.do("aadd h%d %s" % (p, self.hs(v)), kind)
        if r < 0.7:
            idx = rng.choice([0, max(0, ln - 1), ln, ln + 2, rng.randint(0, ln + 1)])
            return self.do("aput h%d %d %s" % (p, idx, self.hs(v)), kind or ("put_idx-occupied" if idx < ln else "put_idx-pad"))
        idx = rng.choice([0, ln, ln + 3, rng.randint(0, ln + 1)])
        return self.do("ains h%d %d %s" % (p, idx, self.hs(v)), kind or ("insert-beyond" if idx > ln else None))

    def addx(self, p, key, v, kind=None):
        """json_object_object_add_ex with a random flag combination that keeps its promise"""
        rng, sim = self.rng, self.sim
        present = any((k.hex() or "-") == key for k, _ in sim.n[p]["kids"])
        f = (2 if rng.random() < 0.45 else 0) | (1 if (not present and rng.random() < 0.4) else 0)
        return self.do("addx h%d %s %s %d" % (p, key, self.hs(v), f),
                       kind or ("add_ex-constant-key" if f & 2 else "add_ex-key-is-new" if f & 1 else "add_ex"))

    def reg(self, i, u, d, ser, kind=None):
        return self.do("reg h%d %d %d %d %d" % (i, self.sim.nxt, u, d, ser), kind)

    SETTERS = ["bool", "int", "int64", "uint64", "inc", "dbl", "str", "strlen"]
    BY_TYPE = {"bool": ["bool"], "int": ["int", "int64", "uint64", "inc"], "dbl": ["dbl"], "str": ["str", "strlen"]}

    def reg_chain(self, i):
        """a node's registration replaced 1..4 times: userdata NULL or not x delete callback or not x
        set_userdata / set_serializer with NULL, a custom function, json_object_userdata_to_json_string or
        json_object_double_to_json_string, incl. the (NULL, NULL, NULL) reset; value setters of the node's
        type (and of other types) in between: they must not end the registration"""
        rng, sim = self.rng, self.sim
        for _ in range(rng.choice([1, 1, 2, 2, 3, 4])):
            if not sim.live(i):
                return
            nd = sim.n[i]
            u, d = rng.randint(0, 1), rng.randint(0, 1) if rng.random() < 0.8 else 1
            ser = rng.choice([0, 0, 1, 2, 3, 3, 4] if nd.get("st") == "dbl" else [0, 0, 1, 2, 3])
            if rng.random() < 0.15:
                u, d, ser = 0, 0, 1
            if ser == 3:
                u = 1
            if ser == 0 and nd["ser"] in ("strud", "fmtud"):
                ser = rng.choice([1, 2, 3])
                u = 1 if ser == 3 else u
            kind = ("reg-null-userdata-callback" if (d and not u) else "reg-reset" if not (u or d) else
                    "reg-userdata-no-callback" if not d else "reg-stock-serializer" if ser >= 3 else
                    "set_serializer" if ser else "set_userdata")
            self.reg(i, u, d, ser, kind)
            for _ in range(rng.choice([0, 1, 1, 2])):
                self.setv(i)

    def setv(self, i):
        rng, nd = self.rng, self.sim.n[i]
        mine = self.BY_TYPE.get(nd.get("st"))
        w = rng.choice(mine) if mine and rng.random() < 0.8 else rng.choice(self.SETTERS)
        self.do("setv h%d %s" % (i, w), "setter-on-registration" if nd["cb"] is not None else
                "set_double-drops-retained-text" if nd["lib"] and w == "dbl" else "setter")

    def grow(self):
        """an object that mixes lent (constant) and copied member names and grows through one or
        more table resizes, then loses / replaces members and is looked at"""
        rng, sim = self.rng, self.sim
        p = self.container("o") if rng.random() < 0.5 else None
        if p is None:
            p = self.new("newobj")
        target = rng.choice([12, 13, 17, 23, 24, 30, 45, 50])
        keys = rng.sample(MANY_KEYS, target)
        pconst = rng.choice([0.1, 0.3, 0.5, 0.9])
        for i, key in enumerate(keys):
            if not sim.live(p):
                return
            r = rng.random()
            v = None if r < 0.6 else (self.new(rng.choice(["newint", "newbool", "newstr"])) if r < 0.9 else self.value_for(p))
            if v is not None and (sim.owns(v) < 1 or sim.reach(v, p)):
                v = None
            f = (2 if rng.random() < pconst else 0) | (1 if rng.random() < 0.3 else 0)
            if any(k.hex() == key for k, _ in sim.n[p]["kids"]):
                f &= 2
            self.do("addx h%d %s %s %d" % (p, key, self.hs(v), f), "grow-mixed-keys")
        self.do("use h%d" % p)
        for _ in range(rng.randint(0, 6)):
            if not sim.live(p) or not sim.n[p]["kids"]:
                break
            k, _c = rng.choice(sim.n[p]["kids"])
            if rng.random() < 0.5:
                self.do("del h%d %s" % (p, k.hex() or "-"), "grow-mixed-keys")
            else:
                self.addx(p, k.hex() or "-", None, "grow-mixed-keys")
        if sim.live(p):
            self.do("use h%d" % p)

    def step(self):
        rng, sim = self.rng, self.sim
        r = rng.random()
        if rng.random() < 0.012:
            return self.grow()
        if not sim.n or r < 0.10:
            self.new()
        elif r < 0.30:
            p = self.container()
            if p is None:
                return self.new("newobj")
            self.put_into(p, self.value_for(p))
        elif r < 0.36:   # replace the same key twice (thrice)
            p = self.container("o") or self.new("newobj")
            key = rng.choice(KEYS)
            for _ in range(rng.choice([2, 3])):
                if not sim.live(p):
                    break
                self.do("add h%d %s %s" % (p, key, self.hs(self.value_for(p))), "replace-same-key")
        elif r < 0.42:   # delete while an extra reference is held, then use the survivor
            p = self.pick(lambda i: any(c is not None for _, c in sim.n[i]["kids"]))
            if p is None:
                return
            j = rng.choice([j for j, (_, c) in enumerate(sim.n[p]["kids"]) if c is not None])
            key, c = sim.n[p]["kids"][j]
            self.do("get h%d" % c)
            if sim.n[p]["kind"] == "o":
                self.do("del h%d %s" % (p, key.hex() or "-"), "delete-with-extra-ref")
            else:
                self.do("adel h%d %d 1" % (p, j), "delete-with-extra-ref")
            self.do("use h%d" % c)
            if rng.random() < 0.6:
                self.do("put h%d" % c)
        elif r < 0.48:   # a child shared by two containers
            c = self.pick(lambda i: True)
            p2 = self.pick(lambda i: sim.n[i]["kind"] in "oa" and not sim.reach(c, i))
            if p2 is None:
                return
            self.do("get h%d" % c)
            self.put_into(p2, c, "shared-child")
        elif r < 0.54:   # destroy the parent while a child handle is held, then use the child
            p = self.pick(lambda i: sim.owns(i) > 0 and any(c is not None for _, c in sim.n[i]["kids"]))
            if p is None:
                return
            c = rng.choice([c for _, c in sim.n[p]["kids"] if c is not None])
            self.do("get h%d" % c)
            for _ in range(sim.owns(p)):
                self.do("put h%d" % p, "parent-destroyed-child-held")
            self.do("use h%d" % c)
        elif r < 0.58:   # the value that is already stored there, again
            p = self.pick(lambda i: any(c is not None for _, c in sim.n[i]["kids"]))
            if p is None:
                return
            j = rng.choice([j for j, (_, c) in enumerate(sim.n[p]["kids"]) if c is not None])
            key, c = sim.n[p]["kids"][j]
            self.do("get h%d" % c)
            if sim.n[p]["kind"] == "o":
                self.do("add h%d %s h%d" % (p, key.hex() or "-", c), "same-value-again")
            else:
                self.do("aput h%d %d h%d" % (p, j, c), "same-value-again")
        elif r < 0.66:   # failing / no-op operations: ownership stays with the caller
            w = rng.random()
            if w < 0.2:
                p = self.container("o")
                if p is not None:
                    self.do("del h%d %s" % (p, "7a7a"), "del-missing-key")
            elif w < 0.45:
                p = self.container("a")
                if p is not None:
                    ln = len(sim.n[p]["kids"])
                    idx, cnt = rng.choice([(ln, 0), (ln, 1), (ln + 1, 1), (max(0, ln - 1), 2), (0, ln + 1), (SIZE_MAX, 2), (2, SIZE_MAX)])
                    self.do("adel h%d %d %d" % (p, idx, cnt), "del_idx-out-of-range")
            elif w < 0.6:
                p = self.pick(lambda i: sim.n[i]["kind"] == "o" and sim.owns(i) > 0)
                if p is not None:
                    self.do("add h%d %s h%d" % (p, rng.choice(KEYS), p), "self-add")
            elif w < 0.7:
                p = self.container("a")
                v = self.owned()
                if p is not None and v is not None and not sim.reach(v, p):
                    self.do("aput h%d %d h%d" % (p, rng.choice([SIZE_MAX, SIZE_MAX - 1, 1 << 61, 1 << 62]), v), "put_idx-huge")
            elif w < 0.85:
                src = self.pick(lambda i: True)
                if src is not None and sim.unfold_size(src, 60) < 60:
                    n0 = sim.nxt
                    r2 = self.do("copyd h%d=h%d" % (n0, src), "copy-default")
            else:
                root = self.container()
                v = self.owned()
                if root is not None and v is not None and not sim.reach(v, root):
                    path = rng.choice(["6b", "2f6e6f2f78", "2f30312f", "2f7e32", "2f782f79", "2f2d2f2d"])
                    self.do("ptrset h%d %s h%d" % (root, path, v), "ptrset-fail")
        elif r < 0.70:   # pointer set
            self.ptrset()
        elif r < 0.74:   # one-operation JSON patches
            self.patch()
        elif r < 0.78:
            i = self.pick(lambda i: True)
            if i is not None:
                self.reg_chain(i)
        elif r < 0.82:
            src = self.pick(lambda i: True)
            if src is not None and sim.unfold_size(src, 40) < 40:
                self.do("copy h%d=h%d" % (sim.nxt, src), "deep-copy")
        elif r < 0.865:
            i = self.pick(lambda i: self.sim.n[i]["kind"] == "s")
            if i is not None:
                self.setv(i)
        elif r < 0.88:
            i = self.pick(lambda i: True)
            if i is not None:
                self.do("get h%d" % i)
        elif r < 0.95:
            i = self.owned()
            if i is not None:
                self.do("put h%d" % i)
        elif r < 0.97:
            p = self.pick(lambda i: sim.n[i]["kind"] == "a" and len(sim.n[i]["kids"]) > 0)
            if p is not None:
                ln = len(sim.n[p]["kids"])
                idx = rng.randint(0, ln - 1)
                self.do("adel h%d %d %d" % (p, idx, rng.randint(0, ln - idx)), "del_idx-range")
        else:
            i = self.pick(lambda i: True)
            if i is not None:
                self.do("use h%d" % i)

    def descend(self, root, p=0.5, plain=False):
        """a random existing path below root: (tokens, node reached)"""
        rng, sim = self.rng, self.sim
        toks, cur = [], root
        while rng.random() < p:
            nd = sim.n[cur]
            cands = [(j, k, c) for j, (k, c) in enumerate(nd["kids"]) if c is not None
                     and (k is None or (k and b"\0" not in k and not (plain and (b"~" in k or b"/" in k))))]
            if not cands:
                break
            j, k, c = rng.choice(cands)
            toks.append(str(j).encode() if nd["kind"] == "a" else k.replace(b"~", b"~0").replace(b"/", b"~1"))
            cur = c
        return toks, cur

    def last_token(self, cur, existing):
        rng, sim = self.rng, self.sim
        nd = sim.n[cur]
        if nd["kind"] == "a":
            ln = len(nd["kids"])
            if existing:
                return str(rng.randrange(ln)).encode() if ln else b"0"
            return rng.choice([b"-", str(ln).encode(), b"0", str(max(0, ln - 1)).encode(), str(ln + 2).encode(), b"01"])
        ks = [k for k, _ in nd["kids"] if k and b"\0" not in k]
        key = rng.choice(ks) if ks and (existing or rng.random() < 0.5) else unhex(rng.choice(KEYS))
        return key.replace(b"~", b"~0").replace(b"/", b"~1")

    def patch(self):
        rng, sim = self.rng, self.sim
        root = self.pick(lambda i: sim.n[i]["kind"] in "oa" and sim.owns(i) > 0)
        if root is None:
            return
        w = rng.random()
        toks, cur = self.descend(root, 0.5)
        if sim.n[cur]["kind"] not in "oa":
            toks, cur = toks[:-1], None
            if not toks and cur is None:
                cur = root
            else:
                return
        if w < 0.3 or w >= 0.85:
            v = rng.choice([None, self.pick(lambda i: True), "plain", "plain"])
            if v == "plain":     # a value without userdata: the only kind json_patch can copy
                v = self.pick(lambda i: not sim._any_cb(i))
                if v is None or rng.random() < 0.5:
                    v = self.new()
                    self.reg(v, 0, 0, 0)
                    if rng.random() < 0.4 and sim.n[v]["kind"] in "oa":
                        c = self.new(rng.choice(["newint", "newarr"]))
                        self.reg(c, 0, 0, 0)
                        self.put_into(v, c)
            existing = w >= 0.85
            path = b"/" + b"/".join(toks + [self.last_token(cur, existing)])
            self.do("%s h%d %s %s" % ("prepl" if existing else "padd", root, path.hex(), self.hs(v)),
                    "patch-replace" if existing else "patch-add")
        elif w < 0.5:
            if not sim.n[cur]["kids"]:
                return
            path = b"/" + b"/".join(toks + [self.last_token(cur, rng.random() < 0.9)])
            self.do("prem h%d %s" % (root, path.hex()), "patch-remove")
        else:
            ftoks, fcur = self.descend(root, 0.6)
            if sim.n[fcur]["kind"] not in "oa" or not sim.n[fcur]["kids"]:
                return
            frm = b"/" + b"/".join(ftoks + [self.last_token(fcur, True)])
            path = b"/" + b"/".join(toks + [self.last_token(cur, False)])
            self.do("%s h%d %s %s" % ("pmove" if w < 0.7 else "pcopy", root, frm.hex(), path.hex()),
                    "patch-move" if w < 0.7 else "patch-copy")

    def ptrset(self):
        rng, sim = self.rng, self.sim
        root = self.pick(lambda i: sim.n[i]["kind"] in "oa")
        if root is None:
            return
        # walk down a random existing path
        toks, cur = [], root
        while rng.random() < 0.5:
            nd = sim.n[cur]
            cands = [(j, k, c) for j, (k, c) in enumerate(nd["kids"]) if c is not None and sim.n[c]["kind"] in "oa"
                     and (k is None or b"\0" not in k)]
            if not cands:
                break
            j, k, c = rng.choice(cands)
            toks.append(str(j).encode() if nd["kind"] == "a" else k.replace(b"~", b"~0").replace(b"/", b"~1"))
            cur = c
        nd = sim.n[cur]
        if nd["kind"] == "a":
            ln = len(nd["kids"])
            last = rng.choice([b"-", str(ln).encode(), b"0", str(max(0, ln - 1)).encode(), str(ln + 2).encode(), b"01", b"x"])
        else:
            ks = [k for k, _ in nd["kids"]]
            key = rng.choice(ks) if ks and rng.random() < 0.5 else unhex(rng.choice(KEYS))
            last = key.replace(b"~", b"~0").replace(b"/", b"~1")
            if rng.random() < 0.05:
                last = b"a~"
        v = self.value_for(cur)
        if v is not None and sim.reach(v, cur):
            return
        path = b"/" + b"/".join(toks + [last])
        if rng.random() < 0.04 and sim.owns(root) > 0:
            path = b""
        self.do("ptrset h%d %s %s" % (root, path.hex() or "-", self.hs(v)), "pointer-set")


def gen_one(rng, length):
    g = Gen(rng)
    tries = 0
    while len(g.ops) < length and tries < 4 * length:
        tries += 1
        if len(g.sim.n) > 150:
            i = g.owned()
            if i is not None:
                g.do("put h%d" % i)
            continue
        g.step()
    g.ops += close_ops(g.sim)
    kinds = sorted(g.kinds)
    return "heap " + ";".join(g.ops), {"kind": rng.choice(kinds) if kinds else "plain", "kinds": kinds}


# -------------------------------------------------------------------- small-scope enumeration
# Every history of at most k operations over a fixed alphabet, started from three tiny documents
# over the same four nodes (h1 object, h2 array, h3 int, h4 double with retained text), closed by the
# releases still due.  Each alphabet entry selects a different branch of the code (new key / replace /
# self-add / constant key / KEY_IS_NEW, delete present / missing, append / put over a slot / pad / huge
# index / insert inside / beyond, del_idx in range / out of range / empty, get / put of each node,
# registration with NULL userdata / reset / stock serializer, setters of the right and the wrong type,
# the two deep copies, pointer_set on an object / "-" / two levels / the root / a malformed path, the
# patch operations).  Entries are functions of the shadow state where an id or a registration number
# must be fresh.  Sequences that are not admissible where they stand (a dead handle, a reference the
# client does not own, a cycle, a broken KEY_IS_NEW promise) are pruned.
SS_PREFIXES = [
    ["h1=newobj", "h2=newarr", "h3=newint 7", "h4=newdbls"],
    ["h1=newobj", "h2=newarr", "h3=newint 7", "h4=newdbls", "get h3", "add h1 6b h3", "get h3", "aadd h2 h3", "aadd h2 n"],
    ["h1=newobj", "h2=newarr", "h3=newint 7", "h4=newdbls", "aadd h2 h3", "get h2", "add h1 61 h2"],
]
_c = lambda text: (lambda sim: text)
SS_FULL = [_c(x) for x in [
    "get h3", "put h3", "put h1", "put h2", "get h1", "put h4",
    "add h1 6b h3", "add h1 6b n", "add h1 61 h2", "add h1 6b h1", "addx h1 6b h4 2", "addx h1 62 n 1",
    "del h1 6b", "del h1 7a7a",
    "aadd h2 h3", "aadd h2 h1", "aput h2 0 h3", "aput h2 2 n", "aput h2 2305843009213693952 h3",
    "ains h2 0 h4", "ains h2 3 h3", "adel h2 0 1", "adel h2 1 2", "adel h2 0 0",
    "setv h3 inc", "setv h4 dbl", "setv h1 int",
    "ptrset h1 2f6b h3", "ptrset h2 2f2d h3", "ptrset h1 2f612f30 h3", "ptrset h1 - h3", "ptrset h1 6b h3",
    "padd h1 2f6b n", "prem h1 2f6b", "pmove h1 2f6b 2f61", "pcopy h1 2f6b 2f62",
    "use h1", "use h3"]] + [
    lambda sim: "reg h3 %d 0 1 0" % sim.nxt, lambda sim: "reg h3 %d 0 0 1" % sim.nxt,
    lambda sim: "reg h4 %d 1 1 3" % sim.nxt,
    lambda sim: "copy h%d=h1" % sim.nxt, lambda sim: "copyd h%d=h2" % sim.nxt]
SS_CORE_TEXT = ["get h3", "put h3", "put h1", "put h2", "add h1 6b h3", "add h1 6b n", "add h1 61 h2", "del h1 6b",
                "aadd h2 h3", "aadd h2 h1", "aput h2 0 h3", "aput h2 2 n", "ains h2 0 h4", "adel h2 0 1", "setv h4 dbl",
                "ptrset h1 2f6b h3", "prem h1 2f6b", "use h1"]
SS_CORE = [_c(x) for x in SS_CORE_TEXT] + [
    lambda sim: "reg h3 %d 0 1 0" % sim.nxt, lambda sim: "reg h3 %d 0 0 1" % sim.nxt,
    lambda sim: "copy h%d=h1" % sim.nxt]


def small_scope(tier):
    """quick: every history of <= 3 operations over the full alphabet (43) from the first document, and
    of <= 3 over the core alphabet (21) / <= 2 over the full one from the other two; thorough: one step
    deeper (<= 3 over the full alphabet and <= 4 over the core alphabet from every document)"""
    plans = [(SS_PREFIXES[0], SS_FULL, 3)] + [(p, SS_CORE, 3) for p in SS_PREFIXES[1:]] + \
        [(p, SS_FULL, 2) for p in SS_PREFIXES[1:]]
    if tier != "quick":
        plans += [(p, SS_FULL, 3) for p in SS_PREFIXES[1:]] + [(p, SS_CORE, 4) for p in SS_PREFIXES]
    seen, out = set(), []

    def rec(prefix, sim, ops, alphabet, maxd):
        line = "heap " + ";".join(prefix + ops + close_ops(sim.clone()))
        if line not in seen:
            seen.add(line)
            out.append((line, {"kind": "small-scope", "kinds": ["small-scope"]}))
        if len(ops) == maxd:
            return
        for f in alphabet:
            op = f(sim)
            s2 = sim.clone()
            try:
                s2.apply(op)
            except (Bad, KeyError, ValueError, IndexError):
                continue
            rec(prefix, s2, ops + [op], alphabet, maxd)

    for prefix, alphabet, maxd in plans:
        base = Sim()
        for op in prefix:
            base.apply(op)
        rec(prefix, base, [], alphabet, maxd)
    return out


# -------------------------------------------------------------------- deterministic probe chains
# The default string hash is seeded per process, so whether two generated member names collide, and
# where, differs from run to run.  json_global_set_string_hash(JSON_C_STR_HASH_PERLLIKE) selects
# lh_perllike_str_hash (h = 1; h = h * 33 + c in 32-bit unsigned arithmetic; slot = h % size), which has
# no seed: these fixed cases build probe chains at chosen slots — in particular at the LAST slot, so that
# the chain wraps to slot 0 — in a fresh 16-slot table and in one grown to 32 slots, delete a link of
# the chain and then replace / delete / look up (patch replace needs the member to exist) the members
# behind it.  A member that can no longer be found is inserted a second time or never released.
def perl_hash(key):
    h = 1
    for c in key:
        h = (h * 33 + c) & 0xffffffff
    return h


def _keys_at(slot, size, n, avoid=()):
    out, i = [], 0
    while len(out) < n:
        k = ("p%d" % i).encode()
        i += 1
        if perl_hash(k) % size == slot and k not in avoid:
            out.append(k)
    return out


def hash_chains():
    out = []
    for size in (16, 32):
        for slot in (size - 1, 0, 7):
            for nkeys in (2, 3):
                keys = _keys_at(slot, size, nkeys)
                chain_slots = {(slot + j) % size for j in range(nkeys + 1)}
                fill = []
                if size == 32:     # eleven members elsewhere: the twelfth insert grows the table to 32 slots
                    i = 0
                    while len(fill) < 11:
                        k = ("f%d" % i).encode()
                        i += 1
                        if perl_hash(k) % 32 not in chain_slots and (perl_hash(k) % 32 + 1) % 32 not in chain_slots:
                            fill.append(k)
                for victim in range(nkeys):            # which link of the chain is deleted first
                    for target in range(nkeys):        # which member is then touched
                        if target == victim:
                            continue
                        for action in ("replace", "delete", "patch-replace", "addx-replace"):
                            g = Gen(None)
                            g.do("hash 1")
                            g.do("h1=newobj")
                            for k in fill:
                                g.do("add h1 %s n" % k.hex())
                            vals = []
                            for k in keys:
                                v = g.sim.nxt
                                g.do("h%d=newint 7" % v)
                                g.do("add h1 %s h%d" % (k.hex(), v))
                                vals.append(v)
                            g.do("del h1 %s" % keys[victim].hex())
                            t = keys[target].hex()
                            if action == "replace":
                                v = g.sim.nxt
                                g.do("h%d=newstr 6162" % v)
                                g.do("add h1 %s h%d" % (t, v))
                            elif action == "addx-replace":
                                g.do("addx h1 %s n 2" % t)
                            elif action == "delete":
                                g.do("del h1 %s" % t)
                            else:
                                g.do("prepl h1 %s n" % (b"/" + keys[target]).hex())
                            g.do("use h1")
                            g.do("put h1")
                            g.do("hash 0")
                            g.ops += close_ops(g.sim)
                            out.append(("heap " + ";".join(g.ops), {"kind": "hash-chain", "kinds": ["hash-chain"]}))
    return out


def gen(rng, tier):
    n = 2000 if tier == "quick" else 30000
    out = hash_chains() + small_scope(tier)
    for ci in range(n):
        length = rng.choice([5, 8, 12, 20, 30, 50, 80, 120, 200]) if rng.random() < 0.8 else rng.randint(5, 200)
        out.append(gen_one(rng, length))
    return out


# -------------------------------------------------------------------- oracle
EV = re.compile(r"^([du])(\d+)\.(\d+)$")


def oracle(line, meta, impl):
    if "CRASH" in impl:
        return ("crash", "implementation crashed (double free / use after free / assert): " + impl[-80:])
    ops = [o for o in line.split(" ", 1)[1].split(";") if o]
    steps = impl.split(" | ")
    sim = Sim()
    destroyed = set()
    for k, op in enumerate(ops):
        if k >= len(steps):
            return ("malformed", "driver output ends early: " + impl[-100:])
        st = steps[k]
        try:
            want = sim.apply(op)
        except (Bad, KeyError, ValueError, IndexError) as e:
            return None if meta.get("src") else ("inadmissible", "history is not admissible at step %d (%s): %r" % (k, op, e))
        where = "step %d (%s)" % (k, op)
        if st == "DEADHANDLE":
            return ("destroyed-early", "%s: a node the client still has a claim on was already destroyed" % where)
        if op.startswith("use "):
            if st != "use " + want["dump"]:
                return ("contents", "%s: node contents / reference counts differ: got %s want %s" % (where, st[4:200], want["dump"][:200]))
            if want["dead"]:
                return ("inadmissible", "use destroyed something")
            continue
        t = st.split(" ")
        if len(t) != 2:
            return ("malformed", "unexpected driver output at %s: %s" % (where, st[:100]))
        try:
            ret = int(t[0])
        except ValueError:
            return ("malformed", "unexpected driver output at %s: %s" % (where, st[:100]))
        evs = [] if t[1] == "-" else t[1].split(",")
        dl, ul = [], []
        for e in evs:
            m = EV.match(e)
            if not m:
                return ("callback-misuse", "%s: callback anomaly %s" % (where, e))
            (dl if m.group(1) == "d" else ul).append((int(m.group(2)), int(m.group(3))))
        for (i, tag) in dl:
            if i in destroyed:
                return ("destroyed-twice", "%s: node %d destroyed a second time" % (where, i))
            destroyed.add(i)
        want_d = sorted((i, tag) for i, tag in want["dead"].items() if tag is not None)
        if sorted(dl) != want_d:
            early = [x for x in dl if x not in want_d]
            late = [x for x in want_d if x not in dl]
            if early:
                return ("destroyed-early", "%s: destroyed %s although still owned / not the current callback" % (where, early))
            return ("not-destroyed", "%s: %s lost the last owner here but the delete callback did not run" % (where, late))
        if len(set(dl)) != len(dl):
            return ("destroyed-twice", "%s: duplicate destruction %s" % (where, dl))
        if ul != want["user"]:
            return ("old-callback", "%s: set_userdata must invoke the old callback exactly once: got %s want %s" % (where, ul, want["user"]))
        wret = 0 if want.get("ptrroot") else want["ret"]
        if ret != wret:
            if "put" in want and not want.get("ptrroot"):
                return ("put-result", "%s: put returned %d, the node was %sfreed by this call" % (where, ret, "" if want["ret"] else "not "))
            return ("ret", "%s: returned %d, expected %d" % (where, ret, wret))
    if len(steps) != len(ops) + 1 or not steps[-1].startswith("end "):
        return ("malformed", "missing end record: " + impl[-100:])
    e = steps[-1].split(" ")
    alive = sum(1 for nd in sim.n.values() if nd["cb"] is not None)
    if int(e[1]) != alive:
        return ("not-destroyed", "at the end %s nodes with a callback exist, expected %d" % (e[1], alive))
    if not sim.n and int(e[2]) != 0:
        return ("leak", "every reference released but %s blocks remain allocated" % e[2])
    return None


def classify(line, meta, mo, co):
    return None


def nontrivial(line, meta, impl):
    if re.search(r"\bd\d+\.\d+", impl) and impl.endswith("end 0 0"):
        return line
    return None


def shrink(ck, line, cls):
    import fw
    ops = [o for o in line.split(" ", 1)[1].split(";") if o]

    def fails(sub):
        l = "heap " + ";".join(normalize(sub))
        m, c, _ = ck.run_pair([l], "shrink")
        v = oracle(l, {}, c.get(1, "MISSING"))
        return v is not None and v[0] == cls
    small = fw.ddmin(ops, fails, budget=120)
    return "heap " + ";".join(normalize(small))


def search(rng, broken_lines):
    return [c for c in gen(rng, "quick") if c[1]["kind"] not in ("small-scope", "hash-chain")][:1500]


LEVEL_TEXT = ("Machine-checked invariant: for every admissible history of constructor / get / put / object add-replace-delete / array "
              "add-put-insert-delete / set_userdata / deep_copy / pointer_set operations the heap model keeps rc = ledger + in-degree > 0, "
              "children live, acyclic (DAG with sharing); no operation reaches undefined behaviour or runs out of fuel; every node is "
              "logged as destroyed at most once and exactly in the step after which it is no longer in the heap; put returns 1 exactly "
              "when its argument was freed; an owned node survives the destruction of its parent with its contents; failed operations "
              "change nothing; an all-zero ledger implies the empty heap (Coq, induction over histories, no axioms).  The model is tied "
              "to json_object.c / arraylist.c / json_pointer.c on every run by differential execution of the extracted model and the "
              "ASan/UBSan build on generated admissible histories, and the implementation is checked directly against an ownership-"
              "reachability simulation of the property statement.")
LEVEL_NOTE = ("Trusted: Coq kernel; extraction + OCaml glue; harness and its callback log; the Python ownership oracle; the theorems are "
              "about the Gallina model (which detaches before it releases; C releases before it stores — equivalent on acyclic heaps), the C "
              "code is tied to it only by the checked correspondence (sampled histories, not all).  One-operation JSON patches "
              "(add/replace/remove/copy/move, unescaped tokens, not on the root) are run by the model driver as the compositions of model "
              "steps json_patch.c implements them by (get of the value, object add / array insert / put_idx, object del / del_idx, put "
              "on failure): the theorems cover them as sequences of admissible steps, the composition itself is OCaml glue checked "
              "only by the correspondence and the ownership oracle.")
