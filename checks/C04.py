"""C04 — the parser is total and memory-safe on arbitrary bytes and reusable after reset."""
from tokcommon import *
PROP = "C04"
DOMAIN = "tok"
LEVEL = "proof"
TECHNIQUE = "Coq: totality (redo fuel bound under a well-formedness invariant), outcome trichotomy, end<=len, stack bound, for all bytes + differential correspondence under ASan/UBSan + reuse-vs-fresh direct oracle"
RULE = ("arbitrary byte strings (uniform bytes; JSON-alphabet-biased bytes; mutated valid texts; NUL and invalid UTF-8 included) in exact-size heap buffers, "
        "random chunkings, all 8 flag combinations, depth limits 1..40, and parse/reset/parse sequences on one parser compared with a fresh parser; "
        "non-trivial = at least two different outcome classes within the case or a reset after a non-success outcome; distinct by script")
ASSUMPTIONS = ["absence of invalid memory accesses in the compiled C is observed through ASan/UBSan on the sampled inputs only (supporting evidence, not a theorem)"]
LEVEL_TEXT = ("Theorems (all bytes, flags, depth limits, histories): every call of the tokener model terminates with exactly one of the three outcomes, "
              "the end position is within the given length, the level stack never exceeds the limit, the redo loop never runs out of its fixed fuel from "
              "well-formed states; reset_is_new: for all inputs and all prior states a reset parser gives the same value, status and end position as a new one (the fields reset leaves alone are proved dead); the entry size guard refuses len < -1 and NUL-terminated inputs of INT32_MAX bytes or more, and every accepted call ends at a position within 0..INT32_MAX, so the int character counter cannot overflow (C04_end_position_in_int; defect 5caf9e2 was the off-by-one in that guard).  Memory safety of the compiled code is a runtime fact: the model proves "
              "index discipline, ASan/UBSan runs of the differential correspondence are supporting evidence.")
LEVEL_NOTE = "Partial: memory safety, leaks and reads-only-given-bytes are runtime facts observed under ASan on sampled inputs (the model proves index discipline and totality); tie to the C code by sampled differential execution."

ALPH = b'{}[]:,"\\/ \t\n\r0123456789-+.eEtrufalsn\'*IiNaTF'


def rand_bytes(rng, n, mode):
    if mode == 0:
        return bytes(rng.randrange(256) for _ in range(n))
    if mode == 1:
        return bytes(rng.choice(ALPH) for _ in range(n))
    return bytes(rng.choice(ALPH) if rng.random() < 0.9 else rng.randrange(256) for _ in range(n))


INT32_MAX = 2147483647


def big_ok():
    """can this machine hold a 2 GiB input buffer (+ ASan shadow)?"""
    return mem_ok(3 << 30)


def gen(rng, tier):
    n = 2500 if tier == "quick" else 80000
    out = []
    fixed = [("tok 32 0 P225c7564383030;R;P225c753030343122;P20;N;P225c753030343122;P20", "fixed-reset-surrogate"),
             ("tok 32 0 Z5b31202f2a", "fixed-comment-nul"), ("tok 2 0 P5b5b5b;R;P5b315d;P20;N;P5b315d;P20", "fixed"),
             ("tok 32 1 P7b2261223a;R;P31;P20;N;P31;P20", "fixed")]
    # a pending high surrogate (a call that stopped after \\uD8xx, inside the following escape, or with an error there),
    # then reset, then a document whose FIRST escape is in a member name / a string value / a nested name
    for first in (b'"\\ud800', b'"\\ud83d\\', b'"\\ud83d\\u', b'"\\ud83d\\ude', b'{"\\udbff', b'["\\ud800x', b'"\\ud800\\n'):
        for second in (b'{"\\uDD1E":1}', b'{"\\u0041":"\\udc00"}', b'"\\udc00"', b'[{"k":{"\\ude00":[]}}]', b'{"a":1,"\\udd1e":2}'):
            sec = ["P" + hx(second), "P" + hx(b" ")]
            fixed.append((line(32, 0, ["P" + hx(first), "R"] + sec + ["N"] + sec), "fixed-reset-surrogate-key"))
    for l, k in fixed:
        out.append((l, {"kind": k, "reuse": l.count(";N;") > 0}))
    for i in range(n):
        fl = rng.choice([0, 1, 2, 3, 16, 17, 18, 19])
        depth = rng.choice([32, 32, 1, 2, 3, 5, 40])
        r = rng.random()
        if r < 0.35:
            t = rand_bytes(rng, rng.choice([0, 1, 2, 5, 12, 40, 120]), rng.randrange(3))
            kind = "random"
        else:
            s, t = jsongen.gen_doc(rng, depth=rng.choice([0, 1, 2, 3]), width=3)
            t = jsongen.mutate_bytes(rng, t) if rng.random() < 0.7 else t
            kind = "mutated"
        t = t[:300]
        cuts = jsongen.partitions(rng, len(t), rng.choice([1, 1, 2, 3, 6])) if len(t) > 1 else []
        parts, prev = [], 0
        for c in cuts + [len(t)]:
            parts.append(t[prev:c]); prev = c
        ops = [("Z" if (rng.random() < 0.2 and b"\x00" not in p) else "P") + hx(p) for p in parts]
        reuse = rng.random() < 0.45
        if reuse:
            s2, t2 = jsongen.gen_doc(rng, depth=2, width=3)
            if rng.random() < 0.3:
                t2 = jsongen.mutate_bytes(rng, t2)
            t2 = t2[:200]
            second = ["P" + hx(t2), "P" + hx(b" ")]
            ops = ops + ["R"] + second + ["N"] + second
            kind += "-reuse"
        out.append((line(depth, fl, ops), {"kind": kind, "reuse": reuse}))
    # small scope, exhaustively: EVERY string over the bytes that select a different transition of the state machine,
    # up to length 3 (quick) / 4 (thorough), NUL-terminated, default and strict mode — each one also as the
    # continuation of an opened array (so that the in-container states see every short string too)
    import itertools
    small = b'{}[]:,"\\/* \n0-1.eEtn\'\x7f\xc3'
    small = bytes(sorted(set(small)))
    for ln in range(0, 4 if tier == "quick" else 5):
        for tup in itertools.product(small, repeat=ln):
            t = bytes(tup)
            for fl in (0, 1):
                out.append((line(32, fl, ["Z" + hx(t)]), {"kind": "small-scope", "reuse": False}))
            if ln <= 3:
                out.append((line(32, 0, ["Z" + hx(b"[" + t)]), {"kind": "small-scope", "reuse": False}))
                out.append((line(32, 1, ["Z" + hx(b'{"k":' + t)]), {"kind": "small-scope", "reuse": False}))
    # token buffer edges: a plain run of every length 0..140 followed by pairs / runs of the characters that are appended to
    # the scratch buffer one at a time (escapes in strings and names, stars at the end of a comment, literal letters)
    for L in range(0, 141):
        run = b"a" * L
        for tail in (b'\\"\\"', b"\\\\\\/", b"\\n\\t\\b", b"\\u00e9\\\""):
            out.append((line(32, 0, ["Z" + hx(b'"' + run + tail + b'"')]), {"kind": "buffer-edge", "reuse": False}))
        out.append((line(32, 1, ["Z" + hx(b'{"' + run + b'\\"\\"":1}')]), {"kind": "buffer-edge", "reuse": False}))
        out.append((line(32, 0, ["Z" + hx(b"/*" + run + b"***/ 1")]), {"kind": "buffer-edge", "reuse": False}))
    # an invalid length argument (len < -1) is refused with the size error, leaves the caller's locale alone and keeps
    # nothing; the parser is reusable after a reset
    for ln in (-2, -3, -100, -2147483647, -2147483648):
        second = ["P" + hx(b"[1.5]"), "P" + hx(b" ")]
        out.append((line(32, rng.choice([0, 1]), ["Y%d" % ln, "R"] + second + ["N"] + second), {"kind": "bad-length", "reuse": True}))
        out.append((line(32, 0, ["LT", "Y%d" % ln, "R"] + second + ["N"] + second + ["LC"]), {"kind": "bad-length-locale", "reuse": True}))
    # the input size guard: a NUL-terminated input (len = -1) of INT32_MAX bytes or more is refused with the
    # size error before anything is read (the int end-position counter would overflow); small inputs of the same
    # shapes run normally.  (2 GiB buffers: only where the memory is there.)
    for mode in (0, 1, 2):
        for nn in (1, 2, 5, 40, 300):
            out.append((line(32, rng.choice([0, 1]), ["B%d,%d" % (mode, nn)]), {"kind": "cstr-shape", "reuse": False}))
    if big_ok():
        for mode, nn in ((0, INT32_MAX), (1, INT32_MAX + 1)) if tier == "quick" else ((0, INT32_MAX), (1, INT32_MAX), (2, INT32_MAX), (0, INT32_MAX + 1), (1, INT32_MAX + 7)):
            second = ["P" + hx(b"[1]"), "P" + hx(b" ")]
            out.append((line(32, 0, ["B%d,%d" % (mode, nn), "R"] + second + ["N"] + second), {"kind": "cstr-2GiB", "reuse": True}))
    # an allocation failure during a parse, then reset and reuse: the reset parser must still behave like a new one
    # (and nothing may be leaked or corrupted): every allocation index of a few documents with long tokens
    docs = [b'{"' + b"k" * 40 + b'": ["' + b"v" * 70 + b'", 1.25, {"n": [null, true]}], "z": "' + b"\\u00e9" * 12 + b'"}',
            b'[' + b"1234567890" * 5 + b', "' + b"s" * 33 + b'", "' + b"t" * 65 + b'"]']
    seconds = [b'["' + b"w" * 45 + b'", {"a": "' + b"x" * 61 + b'"}]', b'{"q": [1, 2.5e3, "' + b"y" * 35 + b'"]}']
    for di, d in enumerate(docs):
        kmax = 45 if tier == "quick" else 90
        for k in range(kmax):
            sec = seconds[(k + di) % 2]
            second = ["P" + hx(sec), "P" + hx(b" ")]
            ops = ["M%d" % k, "P" + hx(d), "R"] + second + ["N"] + second
            out.append((line(32, rng.choice([0, 1]), ops), {"kind": "oom-reuse", "reuse": True}))
    # a very long token (the parser's scratch buffer grows beyond 64 KiB), then an allocation fault armed across
    # json_tokener_reset() (which must not need memory) and reuse
    for big in ([70000] if tier == "quick" else [65535, 65536, 70000, 200000]):
        for shape in (0, 1):
            d = (b'"' + b"s" * big + b'"') if shape == 0 else (b"[" + b"7" * big + b"]")
            for k in (0, 1):
                second = ["P" + hx(b'["w", 1.5]'), "P" + hx(b" ")]
                ops = ["P" + hx(d), "P" + hx(b" "), "M%d" % k, "R"] + second + ["R"] + second + ["N"] + second
                out.append((line(32, 0, ops), {"kind": "oom-reset-bigtoken", "reuse": True}))
    return out


def oracle(line_, meta, impl):
    if "CRASH" in impl:
        return ("crash", "implementation crashed: " + impl[:120])
    if "LEAK" in impl:
        return ("leak", "memory still held after json_tokener_free: " + impl[-30:])
    if "VALUE-WITH-ERROR" in impl:
        return ("value-with-error", "a value was returned together with a non-success status")
    steps = parse_obs(impl)
    ops = line_.split(" ", 3)[3].split(";")
    if len(steps) != len(ops):
        return ("malformed", impl[:100])
    for op, st in zip(ops, steps):
        if op[0] == "Y":
            if st != ("size 0 - loc1",):
                return ("bad-length", "a call with length %s: expected the size error, end 0, no value, caller's locale untouched; got %r" % (op[1:], st))
            continue
        if op[0] in "PZB":
            if st == ("skipped",):
                continue
            if len(st) != 3:
                return ("malformed", impl[:100])
            n = 0 if op[1:] == "-" else len(op[1:]) // 2
            if op[0] == "B":
                n = int(op.split(",")[1]) + 1
                if n > INT32_MAX and st[0] != "size":
                    return ("size-guard", "a NUL-terminated input of %d bytes was not refused with the size error: %s" % (n - 1, st[0]))
            if op[0] == "Z":
                n += 1          # the terminating NUL belongs to the bytes given
            if not (0 <= st[1] <= n):
                return ("end-beyond-len", "end position %d beyond the %d bytes given" % (st[1], n))
            if (st[0] == "success") != (st[2] != "-"):
                return ("trichotomy", "status %s with value %s" % (st[0], st[2]))
    if meta.get("reuse"):
        # ... R second... N second...: the reset parser must behave exactly like the new one
        i_r = max(i for i, o in enumerate(ops) if o == "R")
        i_n = max(i for i, o in enumerate(ops) if o == "N")
        a, b = [x for x in steps[i_r + 1:i_n] if x != ("locale",)], [x for x in steps[i_n + 1:] if x != ("locale",)]
        if a != b:
            return ("reset-differs-from-new", "after reset: %r, new parser: %r" % (a, b))
    return None


def classify(line_, meta, mo, co):
    return None


def nontrivial(line_, meta, impl):
    kinds = set(s.split(" ")[0] for s in impl.split(" | "))
    if len(kinds & set(ERRS)) >= 2 or meta.get("reuse"):
        return line_
    return None


def shrink(ck, line_, cls):
    return line_


def search(rng, broken):
    return gen(rng, "quick")
