"""shared helpers of the tokener checks (C01, C03, C04, C15, C16)"""
import sys, os
sys.path.insert(0, os.path.join(os.path.dirname(os.path.abspath(__file__)), "..", "lib"))
import jsongen, jvtext

STRICT, TRAILING, UTF8 = 1, 2, 16
ERRS = ["success", "continue", "depth", "eof", "unexpected", "null", "boolean", "number", "array", "object_key_name",
        "object_key_sep", "object_value_sep", "string", "comment", "utf8", "size", "memory"]


def hx(b):
    return b.hex() if b else "-"


def line(depth, flags, ops):
    return "tok %d %d %s" % (depth, flags, ";".join(ops))


def parse_obs(o):
    """list of steps: ('reset',)|('new',)|('flags',)|(err, off, value_text)"""
    out = []
    for s in o.split(" | "):
        t = s.split(" ")
        if len(t) == 3 and t[0] in ERRS:
            out.append((t[0], int(t[1]), t[2]))
        else:
            out.append((s,))
    return out


TRUSTED = ["Coq 8.16.1 kernel (coqc; vm_compute for finite sweeps and witnesses), no axioms",
           "extraction (ExtrOcamlBasic only) + ocaml/drv_tok.ml glue, whose strtod oracle is OCaml float_of_string",
           "harness/drv_tok.c, jvtext.h, xalloc.c; gcc -fsanitize=address,undefined",
           "libc strtod (oracle), strtoll/strtoull modelled exactly"]
