"""shared helpers of the tokener checks (C01, C03, C04, C15, C16)"""
import sys, os
sys.path.insert(0, os.path.join(os.path.dirname(os.path.abspath(__file__)), "..", "lib"))
import jsongen, jvtext

STRICT, TRAILING, UTF8 = 1, 2, 16
ERRS = ["success", "continue", "depth", "eof", "unexpected", "null", "boolean", "number", "array", "object_key_name",
        "object_key_sep", "object_value_sep", "string", "comment", "utf8", "size", "memory"]


def hx(b):
    return b.hex() if b else "-"


def line(depth, flags, ops):
    return "tok %d %d %s" % (depth, flags, ";".join(ops))


def parse_obs(o):
    """list of steps: ('reset',)|('new',)|('flags',)|(err, off, value_text)"""
    out = []
    for s in o.split(" | "):
        t = s.split(" ")
        if len(t) == 3 and t[0] in ERRS:
            out.append((t[0], int(t[1]), t[2]))
        else:
            out.append((s,))
    return out


TRUSTED = ["Coq 8.16.1 kernel (coqc; vm_compute for finite sweeps and witnesses), no axioms",
           "extraction (ExtrOcamlBasic only) + ocaml/drv_tok.ml glue, whose strtod oracle is OCaml float_of_string",
           "harness/drv_tok.c, jvtext.h, xalloc.c; gcc -fsanitize=address,undefined",
           "libc strtod (oracle), strtoll/strtoull modelled exactly",
           "tr/tok_consts.py (regular-expression translator of json_tokener.h/.c/json_util.h into coq/theories/TokImpl.v: enumerations, switch cases, "
           "flag bits, default depth, literals, size-guard comparison; fails loudly on any other shape); TokImplCheck.v re-proves on every run that the "
           "model's vocabulary is the source's"]


def mem_ok(need_bytes):
    """can a driver process use need_bytes of address space / memory here?  (RLIMIT_AS, MemAvailable, cgroup limits)"""
    try:
        import resource, mmap
        if resource.getrlimit(resource.RLIMIT_AS)[0] != resource.RLIM_INFINITY:
            return False
        if resource.getrlimit(resource.RLIMIT_DATA)[0] != resource.RLIM_INFINITY:
            return False
        avail = 0
        for l in open("/proc/meminfo"):
            if l.startswith("MemAvailable:"):
                avail = int(l.split()[1]) * 1024
        if avail < 2 * need_bytes + (2 << 30):
            return False
        for f in ("/sys/fs/cgroup/memory.max", "/sys/fs/cgroup/memory/memory.limit_in_bytes"):
            try:
                v = open(f).read().strip()
                if v != "max" and int(v) < 2 * need_bytes + (2 << 30):
                    return False
            except (OSError, ValueError):
                pass
        m = mmap.mmap(-1, need_bytes, flags=mmap.MAP_PRIVATE | mmap.MAP_ANONYMOUS | getattr(mmap, "MAP_NORESERVE", 0))
        m.close()
        return True
    except Exception:
        return False


TRANSLATOR = {}


def coq_extra():
    """regenerate coq/theories/TokImpl.v (the tokener's vocabulary: state and error enumerations, switch cases, flag
    bits, default depth, literals, size-guard comparison) from the working tree; TokImplCheck.v re-proves that the
    model uses exactly that"""
    import fcntl, subprocess
    import fw
    sys.path.insert(0, os.path.join(fw.VERIF, "tr"))
    import tok_consts
    os.makedirs(os.path.join(fw.VERIF, "build"), exist_ok=True)
    with open(os.path.join(fw.VERIF, "build", "tokimpl.lock"), "w") as lock:
        fcntl.flock(lock, fcntl.LOCK_EX)
        ok, msg, info = tok_consts.regenerate(fw.REPO, fw.VERIF)
        TRANSLATOR.update(recognised=ok, message=msg, info=info)
        if not ok:
            print("TRANSLATOR: tr/tok_consts.py does not recognise the tokener source: %s" % msg)
        v = os.path.join(fw.VERIF, "coq", "theories", "TokImpl.v")
        vo = v + "o"
        if not os.path.exists(vo) or os.path.getmtime(vo) < os.path.getmtime(v):
            subprocess.run(["timeout", "600", "coqc", "-Q", "theories", "JC", "theories/TokImpl.v"], cwd=os.path.join(fw.VERIF, "coq"),
                           stdout=subprocess.PIPE, stderr=subprocess.STDOUT)
    return ["theories/TokImplCheck.v"]


def extra_coverage():
    return dict(translator=dict(TRANSLATOR))
