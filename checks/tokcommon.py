"""shared helpers of the tokener checks (C01, C03, C04, C15, C16)"""
import sys, os
sys.path.insert(0, os.path.join(os.path.dirname(os.path.abspath(__file__)), "..", "lib"))
import jsongen, jvtext

STRICT, TRAILING, UTF8 = 1, 2, 16
ERRS = ["success", "continue", "depth", "eof", "unexpected", "null", "boolean", "number", "array", "object_key_name",
        "object_key_sep", "object_value_sep", "string", "comment", "utf8", "size", "memory"]


def hx(b):
    return b.hex() if b else "-"


def line(depth, flags, ops):
    return "tok %d %d %s" % (depth, flags, ";".join(ops))


def parse_obs(o):
    """list of steps: ('reset',)|('new',)|('flags',)|(err, off, value_text)"""
    out = []
    for s in o.split(" | "):
        t = s.split(" ")
        if len(t) == 3 and t[0] in ERRS:
            out.append((t[0], int(t[1]), t[2]))
        else:
            out.append((s,))
    return out


TRUSTED = ["Coq 8.16.1 kernel (coqc; vm_compute for finite sweeps and witnesses), no axioms",
           "extraction (ExtrOcamlBasic only) + ocaml/drv_tok.ml glue, whose strtod oracle is OCaml float_of_string",
           "harness/drv_tok.c, jvtext.h, xalloc.c; gcc -fsanitize=address,undefined",
           "libc strtod (oracle), strtoll/strtoull modelled exactly"]


def mem_ok(need_bytes):
    """can a driver process use need_bytes of address space / memory here?  (RLIMIT_AS, MemAvailable, cgroup limits)"""
    try:
        import resource, mmap
        if resource.getrlimit(resource.RLIMIT_AS)[0] != resource.RLIM_INFINITY:
            return False
        if resource.getrlimit(resource.RLIMIT_DATA)[0] != resource.RLIM_INFINITY:
            return False
        avail = 0
        for l in open("/proc/meminfo"):
            if l.startswith("MemAvailable:"):
                avail = int(l.split()[1]) * 1024
        if avail < 2 * need_bytes + (2 << 30):
            return False
        for f in ("/sys/fs/cgroup/memory.max", "/sys/fs/cgroup/memory/memory.limit_in_bytes"):
            try:
                v = open(f).read().strip()
                if v != "max" and int(v) < 2 * need_bytes + (2 << 30):
                    return False
            except (OSError, ValueError):
                pass
        m = mmap.mmap(-1, need_bytes, flags=mmap.MAP_PRIVATE | mmap.MAP_ANONYMOUS | getattr(mmap, "MAP_NORESERVE", 0))
        m.close()
        return True
    except Exception:
        return False
